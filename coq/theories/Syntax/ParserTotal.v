(* Syntax/ParserTotal.v — C01 "parsing is total": on every valid UTF-8 input the model of the
   full parser and of the runtime parser (ParserModel.v) neither panics (at any fuel) nor runs
   out of the fuel `fuel_for bs`, which is linear in the input length.

   Method (infrastructure in ParserSpec.v, helper specifications in ParserHelpers.v):
   a Hoare predicate `spec F m p Q E` over the parser monad (result Ok -> Q, Err -> E, Pan -> False,
   Fuel -> F).  Every parsing function started at a char boundary p ends, on success AND on error,
   at a char boundary q >= p; every slice the parser takes is between two such positions.
   Termination: a function at position p with fuel n needs  rank + 8 * (len - p) <= n, where a
   call that has not consumed input goes to a strictly smaller rank and a call after at least one
   consumed byte may go to any rank (all ranks are <= 4).  The same proof run with F := True gives
   "never panics, whatever the fuel", with F := False "returns within the fuel".                *)
From FluentV Require Import Base.Utf8 Base.Utf8Facts Syntax.ParserModel Syntax.ParserSpec Syntax.ParserHelpers.
From Coq Require Import Lia ZifyBool ZifyNat ZifyN.
Arguments N.add : simpl never.
Arguments N.sub : simpl never.
Arguments N.eqb : simpl never.
Arguments N.ltb : simpl never.
Arguments N.leb : simpl never.

Ltac byte_facts :=
  repeat match goal with
  | H : is_byte_at ?bs ?b ?p = true |- _ =>
      lazymatch goal with
      | _ : ParserSpec.ascb bs p |- _ => fail
      | _ => pose proof (is_byte_at_ascb bs b p H eq_refl)
      end
  end.

Ltac fin' := intros; cbv beta in *; conjs; subst; byte_facts; facts; unfold length_ in *; splits; intros;
             solve [assumption | lia | eauto].

Section Total.
Variable bs : bytes.
Hypothesis Hvalid : utf8_valid bs = true.
Variable F : Prop.
Local Set Default Proof Using "Hvalid".

Local Notation spec := (spec F).
Local Notation bnd := (bnd bs).
Local Notation asc := (asc bs).
Local Notation ascb := (ascb bs).
Local Notation len := (length bs).
Local Notation fuel_ok := (fuel_ok F).
Local Notation ph_ok := (ph_ok bs).

Let asc_bnd' := asc_bnd bs Hvalid.
Let ascb_bnd_S' := ascb_bnd_S bs Hvalid.
Local Hint Resolve asc_bnd' ascb_bnd_S' : core.
Local Hint Resolve ascb_bnd stop_bnd bnd_0 bnd_len asc_refl asc_step asc_trans : core.

Ltac fuel :=
  first [ eapply fuel_ok_step; [eassumption | facts; lia]
        | eapply fuel_ok_le; [eassumption | facts; lia] ].

(* symbolic execution of one primitive or helper in front of a bind *)
Ltac xstep :=
  lazymatch goal with
  | |- ParserSpec.spec _ (bind (skip_blank _) _) _ _ _ =>
      apply (spec_bind_skip_blank bs Hvalid F); [solve [eauto] | intros ? ? ?]
  | |- ParserSpec.spec _ (bind (skip_blank_inline _) _) _ _ _ =>
      apply (spec_bind_skip_blank_inline bs Hvalid F); [solve [eauto] | intros ? ? ? ? ?]
  | |- ParserSpec.spec _ (bind (skip_blank_block _) _) _ _ _ =>
      apply (spec_bind_skip_blank_block bs Hvalid F); [solve [eauto] | intros ? ? ? ?]
  | |- ParserSpec.spec _ (bind (skip_eol _) _) _ _ _ =>
      apply (spec_bind_skip_eol bs Hvalid F); [solve [eauto] | intros ? ? ? ? ? ?]
  | |- ParserSpec.spec _ (bind (take_byte_if _ _) _) _ _ _ =>
      apply (spec_bind_take_byte_if bs Hvalid F); intros ?; byte_facts
  | |- ParserSpec.spec _ (bind (expect_byte _ _) _) _ _ _ =>
      apply (spec_bind_expect_byte bs Hvalid F); intros ?; byte_facts
  | |- _ => step
  end.

(* call a function through its plain specification; leaves the side conditions of the
   specification, then the continuation *)
Ltac call L :=
  eapply spec_bind_w; [eapply L | intros ? ? ?; cbv beta in *; conjs | solve [fin']].

(* the same for a function that never fails (its specification is generic in E) *)
Ltac call0 L :=
  eapply spec_bind; [eapply L | intros ? ? ?; cbv beta in *; conjs].

(* ---------------------------------------------------------------------------------------- *)
(* the specifications of the ten mutually recursive functions at fuel n                      *)

Definition S_string_loop n := forall p, p <= len -> fuel_ok (1 + 8 * (len - p)) n ->
  spec (string_loop bs n) p (fun _ q => p <= q /\ bnd q) (fun _ q => p <= q /\ bnd q).
Definition S_inline n := forall ol p, bnd p -> fuel_ok (1 + 8 * (len - p)) n ->
  spec (get_inline_expression bs n ol) p (fun _ q => p < q /\ bnd q) (fun _ q => p <= q /\ bnd q).
Definition S_call_arguments n := forall p, bnd p -> fuel_ok (1 + 8 * (len - p)) n ->
  spec (get_call_arguments bs n) p (fun _ q => p <= q /\ bnd q) (fun _ q => p <= q /\ bnd q).
Definition S_args_loop n := forall po na nm p, bnd p -> fuel_ok (2 + 8 * (len - p)) n ->
  spec (args_loop bs n po na nm) p (fun _ q => p <= q /\ bnd q) (fun _ q => p <= q /\ bnd q).
Definition S_variants_loop n := forall acc hd p, bnd p -> fuel_ok (1 + 8 * (len - p)) n ->
  spec (variants_loop bs n acc hd) p (fun _ q => p <= q /\ bnd q) (fun _ q => p <= q /\ bnd q).
Definition S_variants n := forall p, bnd p -> fuel_ok (2 + 8 * (len - p)) n ->
  spec (get_variants bs n) p (fun _ q => p <= q /\ bnd q) (fun _ q => p <= q /\ bnd q).
Definition S_expression n := forall p, bnd p -> fuel_ok (2 + 8 * (len - p)) n ->
  spec (get_expression bs n) p (fun _ q => p <= q /\ bnd q) (fun _ q => p <= q /\ bnd q).
Definition S_placeable n := forall p, bnd p -> fuel_ok (3 + 8 * (len - p)) n ->
  spec (get_placeable bs n) p (fun _ q => p <= q /\ bnd q) (fun _ q => p <= q /\ bnd q).
Definition S_pattern_loop n := forall st p, bnd p -> Forall ph_ok (elements st) ->
  fuel_ok (1 + 8 * (len - p)) n ->
  spec (pattern_loop bs n st) p (fun st' q => p <= q /\ bnd q /\ Forall ph_ok (elements st'))
       (fun _ q => p <= q /\ bnd q).
Definition S_pattern n := forall p, bnd p -> fuel_ok (2 + 8 * (len - p)) n ->
  spec (get_pattern bs n) p (fun _ q => p <= q /\ bnd q) (fun _ q => p <= q /\ bnd q).

Record All (n : nat) : Prop := {
  a_string_loop : S_string_loop n;
  a_inline : S_inline n;
  a_call_arguments : S_call_arguments n;
  a_args_loop : S_args_loop n;
  a_variants_loop : S_variants_loop n;
  a_variants : S_variants n;
  a_expression : S_expression n;
  a_placeable : S_placeable n;
  a_pattern_loop : S_pattern_loop n;
  a_pattern : S_pattern n
}.

Lemma byte_lt p b : nth_error bs p = Some b -> p < len.
Proof. intros H. apply nth_error_Some. congruence. Qed.

Lemma step_string_loop n : S_string_loop n -> S_string_loop (S n).
Proof.
  intros IH p Hp Hn. cbn [string_loop]. xstep. unfold byte_at.
  destruct (nth_error bs p) as [b|] eqn:Eb.
  2:{ apply nth_error_None in Eb. xstep. replace p with len by lia. fin'. }
  pose proof (byte_lt p b Eb) as Hlt.
  destruct (N.eqb b 92) eqn:E92.
  { pose proof (byte_ascb bs Hvalid p b Eb ltac:(byte_ascii)) as Ha.
    xstep. unfold byte_at. destruct (nth_error bs (S p)) as [c|] eqn:Ec; [|xstep; fin'].
    pose proof (byte_lt _ _ Ec) as Hlt2.
    destruct (N.eqb c 92 || N.eqb c 123 || N.eqb c 34) eqn:E1.
    { xstep. eapply spec_conseq; [apply IH; [lia | fuel] | fin' | fin']. }
    destruct (N.eqb c 117) eqn:E2.
    { pose proof (byte_ascb bs Hvalid (S p) c Ec ltac:(byte_ascii)) as Ha2.
      xstep. call (skip_unicode_escape_sequence_spec bs Hvalid F); [fin'|].
      eapply spec_conseq; [apply IH; [fin' | fuel] | fin' | fin']. }
    destruct (N.eqb c 85) eqn:E3.
    { pose proof (byte_ascb bs Hvalid (S p) c Ec ltac:(byte_ascii)) as Ha2.
      xstep. call (skip_unicode_escape_sequence_spec bs Hvalid F); [fin'|].
      eapply spec_conseq; [apply IH; [fin' | fuel] | fin' | fin']. }
    xstep. fin'. }
  destruct (N.eqb b 34) eqn:E34.
  { pose proof (byte_ascb bs Hvalid p b Eb ltac:(byte_ascii)) as Ha. xstep. fin'. }
  destruct (N.eqb b c_lf) eqn:E10.
  { pose proof (byte_ascb bs Hvalid p b Eb ltac:(byte_ascii)) as Ha. xstep. fin'. }
  xstep. eapply spec_conseq; [apply IH; [lia | fuel] | fin' | fin'].
Qed.

Ltac use IH := eapply spec_conseq; [apply IH | solve [fin'] | solve [fin']].

Lemma step_inline n : S_string_loop n -> S_call_arguments n -> S_placeable n -> S_inline (S n).
Proof.
  intros IHsl IHca IHpl ol p Hp Hn. cbn [get_inline_expression]. xstep. unfold byte_at.
  destruct (nth_error bs p) as [b|] eqn:Eb.
  2:{ destruct ol; xstep; fin'. }
  pose proof (byte_lt p b Eb) as Hlt.
  destruct (N.eqb b 34) eqn:E34.
  { (* string literal *)
    pose proof (byte_ascb bs Hvalid p b Eb ltac:(byte_ascii)) as Ha.
    xstep. xstep. call IHsl; [lia | fuel |].
    xstep.
    - xstep. cbn [Nat.leb]. xstep. replace (S q - 1) with q by lia.
      apply spec_bind_source_slice; [lia | auto | auto |]. intros s. xstep. fin'.
    - fin'. }
  destruct (is_ascii_digit b) eqn:Ed.
  { call (get_number_literal_spec bs Hvalid F); [exact Hp|]. xstep. fin'. }
  destruct (N.eqb b 45 && negb ol) eqn:E45.
  { (* '-': term reference or negative number *)
    pose proof (byte_ascb bs Hvalid p b Eb ltac:(byte_ascii)) as Ha.
    xstep. xstep. fold (ident_start bs (S p)). destruct (ident_start bs (S p)) eqn:Eis.
    - pose proof (ident_start_ascb bs Hvalid (S p) Eis) as Ha2.
      xstep. call0 (get_identifier_unchecked_spec bs Hvalid F); [lia | exact Ha2 |].
      call (get_attribute_accessor_spec bs Hvalid F); [assumption|].
      call IHca; [assumption | fuel |]. xstep. fin'.
    - apply spec_bind_retreat; [lia|]. replace (S p - 1) with p by lia.
      call (get_number_literal_spec bs Hvalid F); [exact Hp|]. xstep. fin'. }
  destruct (N.eqb b 45) eqn:E45'.
  { call (get_number_literal_spec bs Hvalid F); [exact Hp|]. xstep. fin'. }
  destruct (N.eqb b 36 && negb ol) eqn:E36.
  { pose proof (byte_ascb bs Hvalid p b Eb ltac:(byte_ascii)) as Ha.
    xstep. call (get_identifier_spec bs Hvalid F); [auto|]. xstep. fin'. }
  destruct (is_ascii_alphabetic b && negb ol) eqn:Eal'.
  { assert (Eal : is_ascii_alphabetic b = true) by (apply andb_prop in Eal' as [Eal' _]; exact Eal').
    pose proof (byte_ascb bs Hvalid p b Eb (alpha_ascii b Eal)) as Ha.
    xstep. call0 (get_identifier_unchecked_spec bs Hvalid F); [lia | replace (S p - 1) with p by lia; exact Ha |].
    call IHca; [assumption | fuel |].
    destruct a0 as [args|].
    - destruct (negb (is_callee a)); xstep; fin'.
    - call (get_attribute_accessor_spec bs Hvalid F); [assumption|]. xstep. fin'. }
  destruct (N.eqb b 123 && negb ol) eqn:E123.
  { pose proof (byte_ascb bs Hvalid p b Eb ltac:(byte_ascii)) as Ha.
    xstep. call IHpl; [auto | fuel |]. xstep. fin'. }
  destruct ol; xstep; fin'.
Qed.

Lemma step_call_arguments n : S_args_loop n -> S_call_arguments (S n).
Proof.
  intros IHal p Hp Hn. cbn [get_call_arguments]. xstep. xstep; cbn [negb].
  - xstep. call IHal; [assumption | fuel |].
    xstep; [xstep; fin' | fin'].
  - xstep. fin'.
Qed.

Lemma step_args_loop n : S_inline n -> S_args_loop n -> S_args_loop (S n).
Proof.
  intros IHin IHal po na nm p Hp Hn. cbn [args_loop]. xstep. unfold length_.
  destruct (Nat.ltb p len) eqn:Elt; cbn [negb]; [|xstep; fin'].
  destruct (is_byte_at bs 41 p) eqn:E41; [xstep; fin'|].
  call IHin; [exact Hp | fuel |].
  rename a into expr, q into q1.
  (* the argument just parsed: positional, or the name of a named argument *)
  eapply spec_bind_w with (Q' := fun _ q => q1 <= q /\ bnd q) (E' := fun _ q => q1 <= q /\ bnd q).
  3: solve [fin'].
  { assert (Hpos : spec (match nm with
                         | [] => ret (expr :: po, na, nm)
                         | _ :: _ => error_here PositionalArgumentFollowsNamed
                         end) q1 (fun _ q => q1 <= q /\ bnd q) (fun _ q => q1 <= q /\ bnd q)).
    { destruct nm; xstep; fin'. }
    destruct expr as [s|s|id args|id attr|id attr args|id|e]; try exact Hpos.
    destruct attr as [attr|]; [exact Hpos|].
    xstep. xstep. destruct (is_byte_at bs 58 q) eqn:E58; [|destruct nm; xstep; fin'].
    byte_facts. destruct (has_name nm id); [xstep; fin'|].
    xstep. xstep. call IHin; [assumption | fuel |]. xstep. fin'. }
  cbv beta. intros [[po' na'] nm'] q2 [Hle2 Hb2].
  xstep. eapply spec_bind; [apply (take_byte_if_spec bs Hvalid F 44); [reflexivity | assumption]|].
  cbv beta. intros r q3 (Ha3 & Hb3 & _). xstep.
  use IHal; [assumption | fuel].
Qed.

Lemma step_variants_loop n : S_pattern n -> S_variants_loop n -> S_variants_loop (S n).
Proof.
  intros IHpa IHvl acc hd p Hp Hn. cbn [variants_loop].
  eapply spec_bind; [apply (take_byte_if_spec bs Hvalid F 42); [reflexivity | assumption]|].
  cbv beta. intros default q1 (Ha1 & Hb1 & _).
  destruct (default && hd); [xstep; fin'|]. cbv zeta.
  xstep; cbn [negb].
  - call (get_variant_key_spec bs Hvalid F); [auto|].
    call IHpa; [assumption | fuel |].
    destruct a0 as [v|]; [|xstep; fin'].
    xstep. use IHvl; [assumption | fuel].
  - destruct default; [xstep; fin'|]. destruct (hd || false); xstep; fin'.
Qed.

Lemma step_variants n : S_variants_loop n -> S_variants (S n).
Proof. intros IHvl p Hp Hn. cbn [get_variants]. use IHvl; [assumption | fuel]. Qed.

Lemma step_expression n : S_inline n -> S_variants n -> S_expression (S n).
Proof.
  intros IHin IHva p Hp Hn. cbn [get_expression].
  call IHin; [exact Hp | fuel |]. rename a into exp, q into q1.
  xstep. rename q into q2. xstep.
  destruct (is_byte_at bs 45 q2) eqn:E45; cbn [negb orb].
  2:{ destruct exp as [s|s|id args|id attr|id attr args|id|e]; try (xstep; fin').
      destruct attr; xstep; fin'. }
  destruct (is_byte_at bs 62 (S q2)) eqn:E62; cbn [negb].
  2:{ destruct exp as [s|s|id args|id attr|id attr args|id|e]; try (xstep; fin').
      destruct attr; xstep; fin'. }
  byte_facts.
  eapply spec_bind_w with (Q' := fun _ q => q = q2) (E' := fun _ q => q = q2).
  3: solve [fin'].
  { destruct exp as [s|s|id args|id attr|id attr args|id|e]; try (xstep; reflexivity);
      destruct attr; xstep; reflexivity. }
  cbv beta. intros _ ? ->. xstep. xstep. xstep.
  destruct r; cbn [negb]; [|xstep; fin'].
  xstep. call IHva; [assumption | fuel |]. xstep. fin'.
Qed.

Lemma step_placeable n : S_expression n -> S_placeable (S n).
Proof.
  intros IHex p Hp Hn. cbn [get_placeable]. xstep.
  call IHex; [assumption | fuel |]. rename a into exp.
  xstep. xstep; [|fin'].
  destruct exp as [e vs|e]; [xstep; fin'|].
  destruct e as [s|s|id args|id attr|id attr args|id|e]; try (xstep; fin').
  destruct attr; xstep; fin'.
Qed.

Lemma step_pattern_loop n : S_placeable n -> S_pattern_loop n -> S_pattern_loop (S n).
Proof.
  intros IHpl IHlo st p Hp Hst Hn. cbn [pattern_loop]. xstep. unfold length_.
  destruct (Nat.ltb p len) eqn:Elt; cbn [negb]; [|xstep; fin'].
  apply Nat.ltb_lt in Elt.
  xstep.
  - (* a placeable *)
    call IHpl; [auto | fuel |].
    eapply spec_conseq; [apply IHlo; [assumption | cbn [elements]; constructor; [exact Logic.I | exact Hst] | fuel]
                        | fin' | fin'].
  - (* a text element *)
    xstep.
    eapply spec_bind with
      (Q' := fun pro q => match pro with
                          | Some indent => q = indent + p /\ asc p q /\ bnd q
                          | None => p <= q /\ bnd q
                          end).
    { destruct (is_line_start (role st)).
      - xstep. xstep. destruct (byte_at bs q) as [b|]; [|xstep; fin'].
        destruct (Nat.eqb k 0).
        + apply (spec_bind_is_eol bs Hvalid F). intros r _. destruct r; cbn [negb]; xstep; fin'.
        + destruct (negb (is_byte_pattern_continuation b)); xstep; [xstep|]; fin'.
      - xstep. fin'. }
    cbv beta. intros [indent|] s Hpro; [|xstep; fin'].
    destruct Hpro as (Hs & Has & Hbs).
    call (get_text_slice_spec bs Hvalid F); [exact Hbs|].
    destruct a as [[[start end_] nonblank] term]. conjs. subst start.
    eapply spec_conseq; [apply IHlo | fin' | fin'].
    + assumption.
    + cbv zeta. destruct (is_line_start (role st)), nonblank; cbn [andb negb orb elements].
      all: repeat match goal with
             | |- Forall _ (elements (if ?c then _ else _)) => destruct c
             end; cbn [elements]; try exact Hst.
      all: constructor; [|exact Hst]; cbn [ParserHelpers.ph_ok];
        try (rewrite (Nat.add_comm p indent); subst s; splits; assumption).
      (* the blank line: the placeholder starts after the spaces, with indent 0 *)
      all: rewrite Nat.add_0_r; splits; try assumption; try apply asc_refl; try lia.
    + assert (p < q).
      { destruct (Nat.eq_dec indent 0) as [->|]; [|facts; lia].
        cbn [Nat.add] in Hs. subst s.
        destruct (Nat.eq_dec q p) as [Heq|]; [|facts; lia]. exfalso.
        match goal with Himp : q = p -> _ |- _ => destruct (Himp Heq) as [Hc | Hc] end; [lia | congruence]. }
      fuel.
Qed.

Lemma step_pattern n : S_pattern_loop n -> S_pattern (S n).
Proof.
  intros IHlo p Hp Hn. cbn [get_pattern]. xstep. xstep.
  eapply spec_bind with (Q' := fun _ q1 => q <= q1 /\ bnd q1).
  { destruct r; [xstep; xstep|xstep]; fin'. }
  cbv beta. intros r1 q1 [Hle1 Hb1].
  call IHlo; [assumption | cbn [elements]; constructor | fuel |].
  eapply spec_conseq; [apply (finish_pattern_spec bs Hvalid F); assumption | fin' | intros ? ? HE; exact HE].
Qed.

Theorem all_specs n : All n.
Proof.
  induction n as [|n IH].
  - constructor; intro; intros; eapply spec_fuel0; eassumption.
  - destruct IH. constructor.
    + apply step_string_loop; assumption.
    + apply step_inline; assumption.
    + apply step_call_arguments; assumption.
    + apply step_args_loop; assumption.
    + apply step_variants_loop; assumption.
    + apply step_variants; assumption.
    + apply step_expression; assumption.
    + apply step_placeable; assumption.
    + apply step_pattern_loop; assumption.
    + apply step_pattern; assumption.
Qed.

(* ---------------------------------------------------------------------------------------- *)
(* entries (core.rs get_attribute .. get_entry, runtime.rs)                                  *)

Lemma get_attribute_spec n p : bnd p -> fuel_ok (2 + 8 * (len - p)) n ->
  spec (get_attribute bs n) p (fun _ q => p < q /\ bnd q) (fun _ q => p <= q /\ bnd q).
Proof.
  intros Hp Hn. unfold get_attribute.
  call (get_identifier_spec bs Hvalid F); [exact Hp|].
  xstep. xstep; [|fin'].
  call (a_pattern n (all_specs n)); [auto | fuel |].
  destruct a0; xstep; fin'.
Qed.

Lemma get_attributes_spec n E : forall acc p, bnd p -> fuel_ok (3 + 8 * (len - p)) n ->
  spec (get_attributes bs n acc) p (fun _ q => p <= q /\ bnd q) E.
Proof.
  induction n as [|n IH]; intros acc p Hp Hn.
  { eapply spec_fuel0. exact Hn. }
  cbn [get_attributes]. xstep. xstep. xstep; cbn [negb].
  2:{ xstep. xstep. fin'. }
  eapply spec_bind_try; [apply (get_attribute_spec n (S q)); [auto | fuel] | |]; cbv beta.
  - intros attr q2 [Hlt2 Hb2].
    eapply spec_conseq; [apply IH; [assumption | fuel] | fin' | intros ? ? HE; exact HE].
  - intros e q2 _. xstep. xstep. fin'.
Qed.

Lemma get_message_spec n es p : bnd p -> fuel_ok (3 + 8 * (len - p)) n ->
  spec (get_message bs n es) p (fun _ q => p < q /\ bnd q)
       (fun _ q => p <= q /\ bnd q /\ (q = p -> ident_start bs p = false)).
Proof.
  intros Hp Hn. unfold get_message.
  call (get_identifier_spec bs Hvalid F); [exact Hp|].
  xstep. xstep; [|fin'].
  call (a_pattern n (all_specs n)); [auto | fuel |].
  xstep. call0 get_attributes_spec; [assumption | fuel |].
  destruct a0 as [pat|]; [xstep; fin'|]. destruct a1; [|xstep; fin'].
  xstep. xstep. fin'.
Qed.

Lemma get_term_spec n es p : bnd p -> is_byte_at bs 45 p = true -> fuel_ok (3 + 8 * (len - p)) n ->
  spec (get_term bs n es) p (fun _ q => p < q /\ bnd q) (fun _ q => p < q /\ bnd q).
Proof.
  intros Hp H45 Hn. unfold get_term.
  xstep; [|congruence].
  call (get_identifier_spec bs Hvalid F); [auto|].
  xstep. xstep; [|fin']. xstep.
  call (a_pattern n (all_specs n)); [auto | fuel |].
  xstep. call0 get_attributes_spec; [assumption | fuel |].
  destruct a0 as [pat|]; [xstep; fin'|].
  xstep. xstep. fin'.
Qed.

Local Notation nonstarter_at := (nonstarter_at bs).

Lemma not_starter p b : nth_error bs p = Some b -> N.eqb b 35 = false -> N.eqb b 45 = false ->
  ident_start bs p = false -> nonstarter_at p.
Proof.
  intros Hb H1 H2 H3. exists b. split; [exact Hb|].
  unfold ident_start, byte_at in H3. rewrite Hb in H3. unfold starter. rewrite H1, H2, H3. reflexivity.
Qed.

Lemma get_comment_spec n p : bnd p -> is_byte_at bs 35 p = true -> fuel_ok (1 + 8 * (len - p)) n ->
  spec (get_comment bs n) p (fun r q => p < q /\ bnd q /\ level_num (snd r) <> 0) (fun _ q => p < q /\ bnd q).
Proof.
  intros Hp H35 Hn. unfold get_comment.
  eapply spec_conseq; [apply (get_comment_loop_spec bs Hvalid F); [exact Hp | right; left; exact H35 | exact Hn] | |].
  - cbv beta. intros r q (A1 & A2 & A3 & A4). destruct (A4 eq_refl eq_refl H35). splits; assumption.
  - cbv beta. intros e q (A1 & A2 & A3). split; assumption.
Qed.

Lemma get_entry_spec n es p : bnd p -> p < len -> fuel_ok (3 + 8 * (len - p)) n ->
  spec (get_entry bs n es) p (fun _ q => p < q /\ bnd q)
       (fun _ q => p <= q /\ bnd q /\ (q = p -> nonstarter_at p)).
Proof.
  intros Hp Hlt Hn. unfold get_entry. xstep. unfold byte_at.
  destruct (nth_error bs p) as [b|] eqn:Eb; [|apply nth_error_None in Eb; lia].
  destruct (N.eqb b 35) eqn:E35.
  { apply N.eqb_eq in E35. subst b. apply (nth_is_byte_at bs Hvalid) in Eb.
    call get_comment_spec; [exact Hp | exact Eb | fuel |].
    destruct a as [c lvl]. cbn [snd] in *. destruct lvl; try (xstep; fin'). cbn [level_num] in *. congruence. }
  destruct (N.eqb b 45) eqn:E45.
  { apply N.eqb_eq in E45 as Hb. subst b. apply (nth_is_byte_at bs Hvalid) in Eb.
    eapply spec_conseq; [apply get_term_spec; [exact Hp | exact Eb | fuel] | fin' | fin']. }
  eapply spec_conseq; [apply get_message_spec; [exact Hp | fuel] | fin' |].
  cbv beta. intros e q (A1 & A2 & A3). splits; [assumption | assumption|].
  intros Hq. eapply not_starter; eauto.
Qed.

Lemma get_entry_runtime_spec n es p : bnd p -> p < len -> fuel_ok (3 + 8 * (len - p)) n ->
  spec (get_entry_runtime bs n es) p (fun _ q => p < q /\ q <= S len /\ (q <= len -> bnd q))
       (fun _ q => p <= q /\ bnd q /\ (q = p -> nonstarter_at p)).
Proof.
  intros Hp Hlt Hn. unfold get_entry_runtime. xstep. unfold byte_at.
  destruct (nth_error bs p) as [b|] eqn:Eb; [|apply nth_error_None in Eb; lia].
  destruct (N.eqb b 35) eqn:E35.
  { call0 (skip_comment_spec bs Hvalid F); [lia | fuel |]. xstep. splits; assumption. }
  destruct (N.eqb b 45) eqn:E45.
  { apply N.eqb_eq in E45 as Hb. subst b. apply (nth_is_byte_at bs Hvalid) in Eb.
    call get_term_spec; [exact Hp | exact Eb | fuel |]. xstep. fin'. }
  eapply spec_bind_w; [apply get_message_spec; [exact Hp | fuel] | |].
  - cbv beta. intros e q [A1 A2]. xstep. fin'.
  - cbv beta. intros e q (A1 & A2 & A3). splits; [assumption | assumption|].
    intros Hq. eapply not_starter; eauto.
Qed.

(* ---------------------------------------------------------------------------------------- *)
(* the two entry loops                                                                        *)

Lemma parse_loop_spec n : forall body errors lc cnt p, bnd p -> fuel_ok (4 + 8 * (len - p)) n ->
  spec (parse_loop bs n body errors lc cnt) p (fun _ _ => True) (fun _ _ => False).
Proof.
  induction n as [|n IH]; intros body errors lc cnt p Hp Hn.
  { eapply spec_fuel0. exact Hn. }
  cbn [parse_loop]. xstep. unfold length_.
  destruct (Nat.ltb p len) eqn:Elt; cbn [negb]; [|xstep; exact Logic.I].
  apply Nat.ltb_lt in Elt. cbv zeta.
  assert (Hnext : forall b1 e1 l1 q1, p < q1 -> bnd q1 ->
    spec (cnt' <- skip_blank_block bs ;; parse_loop bs n b1 e1 l1 cnt') q1 (fun _ _ => True) (fun _ _ => False)).
  { intros b1 e1 l1 q1 Hlt1 Hb1. xstep. apply IH; [assumption | fuel]. }
  eapply spec_bind_try; [apply (get_entry_spec n p p); [exact Hp | exact Elt | fuel] | |]; cbv beta.
  - (* an entry: attach the pending comment or flush it, then go on *)
    intros e q [A1 A2].
    destruct lc as [c|]; destruct e; try destruct (Nat.ltb cnt 2);
      cbn [attach]; cbv beta iota; xstep; cbv beta iota; apply Hnext; assumption.
  - (* an error: junk recovery *)
    intros err q (A1 & A2 & A3).
    assert (Hrec : forall body',
      spec (st <- (ej <- recover bs p err ;; ret (snd ej :: body', fst ej :: errors, @None comment)) ;;
            let '(body'', errors', lc') := st in
            cnt' <- skip_blank_block bs ;; parse_loop bs n body'' errors' lc' cnt')
           q (fun _ _ => True) (fun _ _ => False)).
    { intros body'. xstep.
      call0 (recover_spec bs Hvalid F); [exact Hp | exact A1 | exact A2 |].
      xstep. apply Hnext; [|assumption].
      match goal with Himp : _ -> p < _ |- _ => apply Himp end.
      destruct (Nat.eq_dec q p) as [Heq|]; [right; auto | left; lia]. }
    destruct lc as [c|]; cbv beta iota; apply Hrec.
Qed.

Lemma parse_runtime_loop_spec n : forall body errors p,
  p <= S len -> (p <= len -> bnd p) -> fuel_ok (4 + 8 * (len - p)) n ->
  spec (parse_runtime_loop bs n body errors) p (fun _ _ => True) (fun _ _ => False).
Proof.
  induction n as [|n IH]; intros body errors p Hp1 Hp2 Hn.
  { eapply spec_fuel0. exact Hn. }
  cbn [parse_runtime_loop]. xstep. unfold length_.
  destruct (Nat.ltb p len) eqn:Elt; cbn [negb]; [|xstep; exact Logic.I].
  apply Nat.ltb_lt in Elt. cbv zeta. pose proof (Hp2 ltac:(lia)) as Hp.
  assert (Hnext : forall b1 e1 q1, p < q1 -> q1 <= S len -> (q1 <= len -> bnd q1) ->
    spec (skip_blank_block bs ;;; parse_runtime_loop bs n b1 e1) q1 (fun _ _ => True) (fun _ _ => False)).
  { intros b1 e1 q1 Hlt1 Hle1 Hb1. destruct (Nat.le_gt_cases q1 len) as [Hc | Hc].
    - specialize (Hb1 Hc). xstep. apply IH; [fin' | auto | fuel].
    - apply (spec_bind_skip_blank_block_end bs Hvalid F); [lia|]. intros c.
      apply IH; [lia | intros; lia | fuel]. }
  eapply spec_bind_try; [apply (get_entry_runtime_spec n p p); [exact Hp | exact Elt | fuel] | |]; cbv beta.
  - intros e q (A1 & A2 & A3). destruct e; xstep; apply Hnext; assumption.
  - intros e q (A1 & A2 & A3). xstep.
    call0 (recover_spec bs Hvalid F); [exact Hp | exact A1 | exact A2 |].
    xstep. apply Hnext; [|fin'|auto].
    match goal with Himp : _ -> p < _ |- _ => apply Himp end.
    destruct (Nat.eq_dec q p) as [Heq|]; [right; auto | left; lia].
Qed.

Theorem parse_m_spec n : fuel_ok (4 + 8 * len) n ->
  spec (parse_m bs n) 0 (fun _ _ => True) (fun _ _ => False).
Proof.
  intros Hn. unfold parse_m. pose proof (bnd_0 bs) as H0. xstep.
  apply parse_loop_spec; [assumption | fuel].
Qed.

Theorem parse_runtime_m_spec n : fuel_ok (4 + 8 * len) n ->
  spec (parse_runtime_m bs n) 0 (fun _ _ => True) (fun _ _ => False).
Proof.
  intros Hn. unfold parse_runtime_m. pose proof (bnd_0 bs) as H0. xstep.
  apply parse_runtime_loop_spec; [fin' | auto | fuel].
Qed.

End Total.

(* ------------------------------------------------------------------------------------------ *)
(* the closed statements                                                                       *)

Theorem parse_m_no_panic bs n : utf8_valid bs = true -> forall t, parse_m bs n 0 <> Pan t.
Proof.
  intros Hv t Ht. pose proof (parse_m_spec bs Hv True n (or_introl Logic.I)) as H.
  unfold spec, sres in H. rewrite Ht in H. exact H.
Qed.

Theorem parse_runtime_m_no_panic bs n : utf8_valid bs = true -> forall t, parse_runtime_m bs n 0 <> Pan t.
Proof.
  intros Hv t Ht. pose proof (parse_runtime_m_spec bs Hv True n (or_introl Logic.I)) as H.
  unfold spec, sres in H. rewrite Ht in H. exact H.
Qed.

Lemma fuel_for_enough bs : fuel_ok False (4 + 8 * length bs) (fuel_for bs).
Proof. right. unfold fuel_for. lia. Qed.

Theorem parse_total bs : utf8_valid bs = true -> exists r, parse bs = Done r.
Proof.
  intros Hv. pose proof (parse_m_spec bs Hv False (fuel_for bs) (fuel_for_enough bs)) as H.
  unfold spec, sres in H. unfold parse. destruct (parse_m bs (fuel_for bs) 0); try contradiction.
  eexists. reflexivity.
Qed.

Theorem parse_runtime_total bs : utf8_valid bs = true -> exists r, parse_runtime bs = Done r.
Proof.
  intros Hv. pose proof (parse_runtime_m_spec bs Hv False (fuel_for bs) (fuel_for_enough bs)) as H.
  unfold spec, sres in H. unfold parse_runtime. destruct (parse_runtime_m bs (fuel_for bs) 0); try contradiction.
  eexists. reflexivity.
Qed.

Theorem fuel_linear bs : fuel_for bs = 8 * length bs + 16.
Proof. reflexivity. Qed.


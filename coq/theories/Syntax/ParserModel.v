(* Syntax/ParserModel.v — executable model of fluent-syntax/src/parser/*.rs.  Definitions only.

   One definition per Rust function, same name, same branch order.  The parser state is the byte
   offset `ptr` into the immutable source `bs`; a parsing function is `M A := nat -> res A`.
   * `Ok a p`   : returned Ok(a) with self.ptr = p
   * `Err e p`  : returned Err(e) with self.ptr = p   (junk recovery starts from that ptr)
   * `Pan t`    : the Rust code would panic (str slicing off a char boundary / out of range,
                  usize underflow in debug builds, unreachable!())
   * `Fuel`     : the model's recursion budget ran out (excluded by the totality theorem)
   Every loop iteration and every call inside the recursive knot passes `fuel - 1`, so fuel bounds
   the recursion DEPTH of the Rust code plus its loop iteration counts along one call path.     *)
From FluentV Require Export Base.Bytes Base.Outcome Base.Utf8 Syntax.Ast.

(* ---- byte classes (the u8::is_ascii_xxx predicates) ---- *)
Definition c_lf : N := 10.   Definition c_cr : N := 13.   Definition c_sp : N := 32.
Definition is_ascii_alphabetic (b : N) : bool := in_rng 65 90 b || in_rng 97 122 b.
Definition is_ascii_digit (b : N) : bool := in_rng 48 57 b.
Definition is_ascii_alphanumeric (b : N) : bool := is_ascii_alphabetic b || is_ascii_digit b.
Definition is_ascii_uppercase (b : N) : bool := in_rng 65 90 b.
Definition is_ascii_hexdigit (b : N) : bool := is_ascii_digit b || in_rng 65 70 b || in_rng 97 102 b.
Definition is_ident_char (b : N) : bool := is_ascii_alphanumeric b || N.eqb b 45 || N.eqb b 95.

(* ---- errors (parser/errors.rs) ---- *)
Inductive ekind :=
| ExpectedToken (c : N)
| ExpectedCharRange (range : bytes)
| ExpectedMessageField (entry_id : bytes)
| ExpectedTermField (entry_id : bytes)
| ForbiddenCallee
| MissingDefaultVariant
| MissingValue
| MultipleDefaultVariants
| MessageReferenceAsSelector
| TermReferenceAsSelector
| MessageAttributeAsSelector
| TermAttributeAsPlaceable
| UnterminatedStringLiteral
| PositionalArgumentFollowsNamed
| DuplicatedNamedArgument (s : bytes)
| UnknownEscapeSequence (s : bytes)
| InvalidUnicodeEscapeSequence (s : bytes)
| UnbalancedClosingBrace
| ExpectedInlineExpression
| ExpectedSimpleExpressionAsSelector
| ExpectedLiteral.

Record perror := PError { kind : ekind; pos_start : nat; pos_end : nat; eslice : option (nat * nat) }.

Inductive res (A : Type) : Type :=
| Ok (a : A) (p : nat)
| Err (e : perror) (p : nat)
| Pan (t : string)
| Fuel.
Arguments Ok {A}. Arguments Err {A}. Arguments Pan {A}. Arguments Fuel {A}.

Definition M (A : Type) := nat -> res A.
Definition ret {A} (a : A) : M A := fun p => Ok a p.
Definition bind {A B} (m : M A) (f : A -> M B) : M B :=
  fun p => match m p with
           | Ok a q => f a q
           | Err e q => Err e q
           | Pan t => Pan t
           | Fuel => Fuel
           end.
Notation "x <- m ;; k" := (bind m (fun x => k)) (at level 61, m at next level, right associativity).
Notation "m ;;; k" := (bind m (fun _ => k)) (at level 61, right associativity).

Definition get_ptr : M nat := fun p => Ok p p.
Definition set_ptr (q : nat) : M unit := fun _ => Ok tt q.
Definition advance (k : nat) : M unit := fun p => Ok tt (k + p).
(* self.ptr -= k  : usize underflow panics (debug) *)
Definition retreat (k : nat) : M unit :=
  fun p => if Nat.leb k p then Ok tt (p - k) else Pan "attempt to subtract with overflow".
Definition out_of_fuel {A} : M A := fun _ => Fuel.
Definition panic {A} (t : string) : M A := fun _ => Pan t.
(* error!(kind, start) *)
Definition error_at {A} (k : ekind) (start : nat) : M A :=
  fun p => Err (PError k start (S start) None) p.
(* error!(kind, start, end) *)
Definition error_range {A} (k : ekind) (start end_ : nat) : M A :=
  fun p => Err (PError k start end_ None) p.
(* error!(kind, self.ptr) *)
Definition error_here {A} (k : ekind) : M A := fun p => Err (PError k p (S p) None) p.
(* `match m { Ok(x) => .., Err(e) => .. }` without `?` *)
Definition try_ {A} (m : M A) : M (perror + A) :=
  fun p => match m p with
           | Ok a q => Ok (inr a) q
           | Err e q => Ok (inl e) q
           | Pan t => Pan t
           | Fuel => Fuel
           end.
Definition lift_outcome {A} (o : outcome A) : M A :=
  fun p => match o with Done a => Ok a p | Panic t => Pan t | OutOfFuel => Fuel end.

(* ---- suffix scanners (structural; used by the skip_* helpers) ---- *)
Fixpoint scan_while (f : N -> bool) (l : bytes) : nat :=
  match l with
  | b :: r => if f b then S (scan_while f r) else 0
  | [] => 0
  end.
Definition is_space (b : N) : bool := N.eqb b c_sp.

(* helper.rs skip_blank: ' ' | '\n' -> +1 ; '\r' '\n' -> +2 *)
Fixpoint blank_len (l : bytes) : nat :=
  match l with
  | b :: r =>
      if N.eqb b c_sp || N.eqb b c_lf then S (blank_len r)
      else if N.eqb b c_cr then
        match r with
        | b2 :: r2 => if N.eqb b2 c_lf then S (S (blank_len r2)) else 0
        | [] => 0
        end
      else 0
  | [] => 0
  end.

(* length of an end of line at the head of l: 1 for "\n", 2 for "\r\n", 0 otherwise *)
Definition eol_len (l : bytes) : nat :=
  match l with
  | b :: r =>
      if N.eqb b c_lf then 1
      else if N.eqb b c_cr then match r with b2 :: _ => if N.eqb b2 c_lf then 2 else 0 | [] => 0 end
      else 0
  | [] => 0
  end.

(* helper.rs skip_blank_block on a suffix: (number of blank lines, bytes consumed) *)
Fixpoint blank_block (k : nat) (l : bytes) : nat * nat :=
  match k with
  | O => (0, 0)
  | S k' =>
      let s := scan_while is_space l in
      let l' := skipn s l in
      match eol_len l' with
      | O => (0, 0)
      | e => let '(c, m) := blank_block k' (skipn e l') in (S c, s + e + m)
      end
  end.

(* memchr::memchr3(b'\n', b'{', b'}', rest) *)
Fixpoint memchr3 (l : bytes) : option nat :=
  match l with
  | [] => None
  | b :: r =>
      if N.eqb b c_lf || N.eqb b 123 || N.eqb b 125 then Some 0
      else option_map S (memchr3 r)
  end.

(* u8::to_string *)
Fixpoint digits_fuel (k : nat) (n : N) (acc : bytes) : bytes :=
  match k with
  | O => acc
  | S k' => let acc' := (48 + n mod 10)%N :: acc in
            if N.ltb n 10 then acc' else digits_fuel k' (n / 10)%N acc'
  end.
Definition u8_to_string (n : N) : bytes := digits_fuel 4 n [].

(* Slice::trim : trim_end_matches(' ' | '\r' | '\n') *)
Definition matches_fluent_ws (b : N) : bool := N.eqb b c_sp || N.eqb b c_cr || N.eqb b c_lf.
Definition trim_end (l : bytes) : bytes := rev (skipn (scan_while matches_fluent_ws (rev l)) (rev l)).

Section Parser.
Variable bs : bytes.

Definition length_ : nat := length bs.
Definition byte_at (i : nat) : option N := nth_error bs i.        (* get_byte! *)
Definition rest (p : nat) : bytes := skipn p bs.
Definition current_byte : M (option N) := fun p => Ok (byte_at p) p.   (* get_current_byte! *)
Definition source_slice (a b : nat) : M bytes := lift_outcome (slice bs a b).   (* self.source.slice(a..b) *)

(* ---- parser/helper.rs ---- *)
Definition is_current_byte (b : N) : M bool :=
  fun p => Ok (match byte_at p with Some x => N.eqb x b | None => false end) p.
Definition is_byte_at (b : N) (pos : nat) : bool :=
  match byte_at pos with Some x => N.eqb x b | None => false end.

(* rposition of '\n' in bs[from..to), as an offset from `from` *)
Fixpoint rposition_lf (l : bytes) (i : nat) (acc : option nat) : option nat :=
  match l with
  | [] => acc
  | b :: r => rposition_lf r (S i) (if N.eqb b c_lf then Some i else acc)
  end.

(* scan_to_next_entry_start: returns the new ptr *)
Fixpoint scan_entry_start (k : nat) (p : nat) : nat :=
  match k with
  | O => p
  | S k' =>
      match byte_at p with
      | None => p
      | Some b =>
          let new_line := Nat.eqb p 0 || is_byte_at c_lf (p - 1) in
          if new_line && (is_ascii_alphabetic b || N.eqb b 45 || N.eqb b 35) then p
          else scan_entry_start k' (S p)
      end
  end.

Definition skip_to_next_entry_start (entry_start : nat) : M (option nat) :=
  fun p =>
    let end_ := Nat.min p length_ in
    if Nat.leb entry_start end_ then
      let rewound :=
        match rposition_lf (firstn (end_ - entry_start) (skipn entry_start bs)) 0 None with
        | Some pos => if Nat.ltb 0 pos then Some (entry_start + pos) else None
        | None => None
        end in
      let p' := match rewound with Some q => q | None => p end in
      Ok rewound (scan_entry_start (S length_ - p') p')
    else Pan "slice index starts after end".

Definition skip_eol : M bool :=
  fun p => match eol_len (rest p) with
           | O => Ok false p
           | e => Ok true (e + p)
           end.

Definition is_eol : M bool :=
  fun p => Ok (match byte_at p with
               | None => true
               | Some b => if N.eqb b c_lf then true
                           else if N.eqb b c_cr then is_byte_at c_lf (S p) else false
               end) p.

Definition skip_unicode_escape_sequence (length : nat) : M unit :=
  fun start =>
    let got := Nat.min length (scan_while is_ascii_hexdigit (rest start)) in
    let p := got + start in
    if Nat.eqb got length then Ok tt p
    else
      let end0 := if Nat.leb length_ p then p else S p in
      (* while !is_char_boundary(end) { end += 1 }  — is_char_boundary(len) holds, so this stops *)
      let end_ := end0 + scan_while is_cont (skipn end0 bs) in
      match slice bs start end_ with
      | Done seq => Err (PError (InvalidUnicodeEscapeSequence seq) p (S p) None) p
      | Panic t => Pan t
      | OutOfFuel => Fuel
      end.

Definition is_identifier_start : M bool :=
  fun p => Ok (match byte_at p with Some b => is_ascii_alphabetic b | None => false end) p.

Definition take_byte_if (b : N) : M bool :=
  fun p => if is_byte_at b p then Ok true (S p) else Ok false p.

Definition skip_blank_block : M nat :=
  fun p => let '(c, m) := blank_block (S (length_ - p)) (rest p) in Ok c (m + p).

Definition skip_blank : M unit := fun p => Ok tt (blank_len (rest p) + p).

Definition skip_blank_inline : M nat :=
  fun p => let k := scan_while is_space (rest p) in Ok k (k + p).

Definition is_byte_pattern_continuation (b : N) : bool :=
  negb (N.eqb b 46 || N.eqb b 125 || N.eqb b 91 || N.eqb b 42).     (* . } [ * *)

Definition is_callee (name : bytes) : bool :=
  forallb (fun c => is_ascii_uppercase c || is_ascii_digit c || N.eqb c 95 || N.eqb c 45) name.

Definition expect_byte (b : N) : M unit :=
  fun p => if is_byte_at b p then Ok tt (S p) else Err (PError (ExpectedToken b) p (S p) None) p.

Definition is_number_start : M bool :=
  fun p => Ok (match byte_at p with Some b => is_ascii_digit b || N.eqb b 45 | None => false end) p.

Definition skip_digits : M unit :=
  fun p => let k := scan_while is_ascii_digit (rest p) in
           if Nat.eqb k 0 then Err (PError (ExpectedCharRange (bytes_of_string "0-9")) p (S p) None) p
           else Ok tt (k + p).

Definition get_number_literal : M bytes :=
  start <- get_ptr ;;
  take_byte_if 45 ;;;
  skip_digits ;;;
  dot <- take_byte_if 46 ;;
  (if dot then skip_digits else ret tt) ;;;
  p <- get_ptr ;;
  source_slice start p.

(* ---- parser/core.rs (non-recursive part) ---- *)
Definition get_identifier_unchecked : M bytes :=
  fun p =>
    let ptr := scan_while is_ident_char (rest p) + p in
    if Nat.leb 1 p then
      match slice bs (p - 1) ptr with
      | Done name => Ok name ptr
      | Panic t => Pan t
      | OutOfFuel => Fuel
      end
    else Pan "attempt to subtract with overflow".

Definition get_identifier : M bytes :=
  st <- is_identifier_start ;;
  if negb st then error_here (ExpectedCharRange (bytes_of_string "a-zA-Z"))
  else advance 1 ;;; get_identifier_unchecked.

Definition get_attribute_accessor : M (option bytes) :=
  dot <- take_byte_if 46 ;;
  if dot then (id <- get_identifier ;; ret (Some id)) else ret None.

Definition get_variant_key : M variant_key :=
  skip_blank ;;;
  ns <- is_number_start ;;
  key <- (if ns then (v <- get_number_literal ;; ret (KeyNumber v))
          else (n <- get_identifier ;; ret (KeyIdentifier n))) ;;
  skip_blank ;;;
  expect_byte 93 ;;;
  ret key.

(* ---- parser/comment.rs ---- *)
Inductive level := LNone | LRegular | LGroup | LResource.
Definition level_num (l : level) : nat :=
  match l with LNone => 0 | LRegular => 1 | LGroup => 2 | LResource => 3 end.
Definition level_eqb (a b : level) : bool := Nat.eqb (level_num a) (level_num b).

Definition get_comment_level : M level :=
  a <- take_byte_if 35 ;;
  if a then
    b <- take_byte_if 35 ;;
    if b then
      c <- take_byte_if 35 ;;
      if c then ret LResource else ret LGroup
    else ret LRegular
  else ret LNone.

(* is_eol is false exactly on the bytes this skips, so the line ends at eol or end of input *)
Fixpoint line_len (k : nat) (p : nat) : nat :=
  match k with
  | O => 0
  | S k' =>
      match byte_at p with
      | None => 0
      | Some b =>
          if N.eqb b c_lf then 0
          else if N.eqb b c_cr && is_byte_at c_lf (S p) then 0
          else S (line_len k' (S p))
      end
  end.

Definition get_comment_line : M bytes :=
  fun start => let p := line_len (S length_ - start) start + start in
               match slice bs start p with
               | Done s => Ok s p
               | Panic t => Pan t
               | OutOfFuel => Fuel
               end.

Fixpoint get_comment_loop (n : nat) (lvl : level) (content : list bytes) : M (comment * level) :=
  match n with
  | O => out_of_fuel
  | S n' =>
      p <- get_ptr ;;
      if negb (Nat.ltb p length_) then ret (Comment (rev content), lvl)
      else
        line_level <- get_comment_level ;;
        if level_eqb line_level LNone then
          retreat 1 ;;; ret (Comment (rev content), lvl)
        else if negb (level_eqb lvl LNone) && negb (level_eqb line_level lvl) then
          retreat (level_num line_level) ;;; ret (Comment (rev content), lvl)
        else
          let lvl := line_level in
          p <- get_ptr ;;
          if Nat.eqb p length_ then ret (Comment (rev content), lvl)
          else
            eol <- is_eol ;;
            if eol then
              line <- get_comment_line ;;
              skip_eol ;;;
              get_comment_loop n' lvl (line :: content)
            else
              r <- try_ (expect_byte c_sp) ;;
              match r with
              | inl e =>
                  match content with
                  | [] => fun q => Err e q
                  | _ => retreat (level_num line_level) ;;; ret (Comment (rev content), lvl)
                  end
              | inr _ =>
                  line <- get_comment_line ;;
                  skip_eol ;;;
                  get_comment_loop n' lvl (line :: content)
              end
  end.

Definition get_comment (n : nat) : M (comment * level) := get_comment_loop n LNone [].

(* skip_comment: ptr may end at length + 1 *)
Fixpoint skip_comment (n : nat) : M unit :=
  match n with
  | O => out_of_fuel
  | S n' =>
      fun p =>
        let p1 := line_len (S length_ - p) p + p in
        let p2 := S p1 in
        if is_byte_at 35 p2 then skip_comment n' (S p2) else Ok tt p2
  end.

(* ---- parser/pattern.rs ---- *)
Inductive termination := TLineFeed | TCrlf | TPlaceableStart | TEof.
Inductive position := InitialLineStart | LineStart | Continuation.
Definition is_line_start (r : position) : bool := match r with LineStart => true | _ => false end.
Inductive placeholder :=
| PHPlaceable (e : expression)
| PHText (start end_ indent : nat) (role : position).
Definition is_nonblank (text : bytes) : bool := existsb (fun c => negb (N.eqb c c_sp)) text.

(* returns (start, end, NonBlank?, termination) *)
Definition get_text_slice : M (nat * nat * bool * termination) :=
  fun start_pos =>
    if Nat.ltb length_ start_pos then Ok (start_pos, start_pos, false, TEof) start_pos
    else
      let r := rest start_pos in
      match memchr3 r with
      | None => let p := length r + start_pos in Ok (start_pos, p, is_nonblank r, TEof) p
      | Some i =>
          let text := firstn i r in
          match nth_error r i with
          | Some b =>
              if N.eqb b 125 then
                let p := i + start_pos in Err (PError UnbalancedClosingBrace p (S p) None) p
              else if N.eqb b c_lf then
                (* [text @ .., b'\r', b'\n'] is tried before [text @ .., b'\n'] *)
                match i with
                | S i' =>
                    if match nth_error r i' with Some c => N.eqb c c_cr | None => false end then
                      let p := S i' + start_pos in
                      Ok (start_pos, p - 1, is_nonblank (firstn i' r), TCrlf) p
                    else let p := S i + start_pos in Ok (start_pos, p, is_nonblank text, TLineFeed) p
                | O => let p := S i + start_pos in Ok (start_pos, p, is_nonblank text, TLineFeed) p
                end
              else
                let p := i + start_pos in Ok (start_pos, p, is_nonblank text, TPlaceableStart) p
          | None => Pan "unreachable"
          end
      end.

Record pstate := PState {
  elements : list placeholder;          (* reversed *)
  n_elements : nat;
  last_non_blank : option nat;
  common_indent : option nat;
  role : position
}.

Definition finish_element (last_nb : nat) (common : option nat) (i : nat) (ph : placeholder) : M (option pattern_element) :=
  match ph with
  | PHPlaceable e => ret (Some (PlaceableElement e))
  | PHText start end_ indent role =>
      let start' := if is_line_start role
                    then match common with
                         | None => start + indent
                         | Some c => start + Nat.min indent c
                         end
                    else start in
      (* filter_map: indentation in front of a placeable that is entirely common indent yields no element *)
      if Nat.eqb start' end_ then ret None
      else
        v <- source_slice start' end_ ;;
        ret (Some (TextElement (if Nat.eqb last_nb i then trim_end v else v)))
  end.

Fixpoint finish_elements (last_nb : nat) (common : option nat) (i : nat) (phs : list placeholder) : M (list pattern_element) :=
  match phs with
  | [] => ret []
  | ph :: r =>
      x <- finish_element last_nb common i ph ;;
      xs <- finish_elements last_nb common (S i) r ;;
      ret (match x with Some e => e :: xs | None => xs end)
  end.

(* pattern.rs drop_empty_tail, on the REVERSED element list: the last text element is trimmed; if nothing is left
   of it (its only content was a lone CR) it is dropped and the text in front of it is trimmed in turn *)
Fixpoint drop_empty_tail_rev (rev_els : list pattern_element) : list pattern_element :=
  match rev_els with
  | TextElement v :: r =>
      match trim_end v with
      | [] => drop_empty_tail_rev r
      | v' => TextElement v' :: r
      end
  | _ => rev_els
  end.
Definition drop_empty_tail (els : list pattern_element) : option pattern :=
  match rev (drop_empty_tail_rev (rev els)) with
  | [] => None
  | els' => Some (Pattern els')
  end.

Definition finish_pattern (st : pstate) : M (option pattern) :=
  match last_non_blank st with
  | Some lnb =>
      els <- finish_elements lnb (common_indent st) 0 (firstn (S lnb) (rev (elements st))) ;;
      ret (drop_empty_tail els)
  | None => ret None
  end.

Definition has_name (names : list bytes) (n : bytes) : bool := existsb (bytes_eqb n) names.

(* ---- the recursive knot: pattern.rs get_pattern, core.rs get_placeable / get_variants,
        expression.rs get_expression / get_inline_expression / get_call_arguments ---- *)
Fixpoint get_pattern (n : nat) : M (option pattern) :=
  match n with
  | O => out_of_fuel
  | S n' =>
      skip_blank_inline ;;;
      eol <- skip_eol ;;
      r <- (if eol then skip_blank_block ;;; ret LineStart else ret InitialLineStart) ;;
      st <- pattern_loop n' (PState [] 0 None None r) ;;
      finish_pattern st
  end

with pattern_loop (n : nat) (st : pstate) : M pstate :=
  match n with
  | O => out_of_fuel
  | S n' =>
      p <- get_ptr ;;
      if negb (Nat.ltb p length_) then ret st
      else
        brace <- take_byte_if 123 ;;
        if brace then
          let ci := if is_line_start (role st) then Some 0 else common_indent st in
          exp <- get_placeable n' ;;
          pattern_loop n' (PState (PHPlaceable exp :: elements st) (S (n_elements st))
                                  (Some (n_elements st)) ci Continuation)
        else
          slice_start <- get_ptr ;;
          (* LineStart prologue: Some indent = go on, None = break *)
          pro <- (if is_line_start (role st) then
                    indent <- skip_blank_inline ;;
                    cb <- current_byte ;;
                    match cb with
                    | Some b =>
                        if Nat.eqb indent 0 then
                          eol <- is_eol ;;
                          if negb eol then ret None else ret (Some indent)
                        else if negb (is_byte_pattern_continuation b) then
                          set_ptr slice_start ;;; ret None
                        else ret (Some indent)
                    | None => ret None
                    end
                  else ret (Some 0)) ;;
          match pro with
          | None => ret st
          | Some indent =>
              ts <- get_text_slice ;;
              let '(start, end_, nonblank, term) := ts in
              let ls := is_line_start (role st) in
              let st1 :=
                if negb (Nat.eqb start end_) then
                  let ci := if ls && nonblank
                            then match common_indent st with
                                 | Some c => if Nat.ltb indent c then Some indent else Some c
                                 | None => Some indent
                                 end
                            else common_indent st in
                  if negb ls || nonblank || (match term with TLineFeed => true | _ => false end) then
                    (* a blank line contributes its line end only: the spaces on it are not text (D33) *)
                    let blank_line := ls && negb nonblank in
                    PState (PHText (if blank_line then start else slice_start) end_ (if blank_line then 0 else indent) (role st)
                              :: elements st) (S (n_elements st))
                           (if nonblank then Some (n_elements st) else last_non_blank st) ci (role st)
                  else PState (elements st) (n_elements st) (last_non_blank st) ci (role st)
                else if ls && (match term with TPlaceableStart => true | _ => false end) then
                  (* the indentation in front of a line-leading placeable: what exceeds the common indent is text *)
                  PState (PHText slice_start end_ indent (role st) :: elements st) (S (n_elements st)) (last_non_blank st)
                         (Some (match common_indent st with None => indent | Some c => Nat.min c indent end))
                         (role st)
                else st in
              let role' := match term with
                           | TLineFeed | TCrlf => LineStart
                           | TPlaceableStart | TEof => Continuation
                           end in
              pattern_loop n' (PState (elements st1) (n_elements st1) (last_non_blank st1) (common_indent st1) role')
          end
  end

with get_placeable (n : nat) : M expression :=
  match n with
  | O => out_of_fuel
  | S n' =>
      skip_blank ;;;
      exp <- get_expression n' ;;
      skip_blank_inline ;;;
      expect_byte 125 ;;;
      match exp with
      | Inline (TermReference _ (Some _) _) => error_here TermAttributeAsPlaceable
      | _ => ret exp
      end
  end

with get_expression (n : nat) : M expression :=
  match n with
  | O => out_of_fuel
  | S n' =>
      exp <- get_inline_expression n' false ;;
      skip_blank ;;;
      p <- get_ptr ;;
      if negb (is_byte_at 45 p) || negb (is_byte_at 62 (S p)) then
        match exp with
        | TermReference _ (Some _) _ => error_here TermAttributeAsPlaceable
        | _ => ret (Inline exp)
        end
      else
        chk <- match exp with
               | MessageReference _ None => error_here MessageReferenceAsSelector
               | MessageReference _ (Some _) => error_here MessageAttributeAsSelector
               | TermReference _ None _ => error_here TermReferenceAsSelector
               | TermReference _ (Some _) _ => ret tt
               | StringLiteral _ | NumberLiteral _ | VariableReference _ | FunctionReference _ _ => ret tt
               | Placeable _ => error_here ExpectedSimpleExpressionAsSelector
               end ;;
        advance 2 ;;;
        skip_blank_inline ;;;
        eol <- skip_eol ;;
        if negb eol then error_here (ExpectedCharRange [10; 32; 124; 32; 13; 10]%N)
        else
          skip_blank ;;;
          variants <- get_variants n' ;;
          ret (Select exp variants)
  end

with get_variants (n : nat) : M (list variant) :=
  match n with
  | O => out_of_fuel
  | S n' => variants_loop n' [] false
  end

with variants_loop (n : nat) (acc : list variant) (has_default : bool) : M (list variant) :=
  match n with
  | O => out_of_fuel
  | S n' =>
      default <- take_byte_if 42 ;;
      if default && has_default then error_here MultipleDefaultVariants
      else
        let has_default := has_default || default in
        br <- take_byte_if 91 ;;
        if negb br then
          (if default then error_here (ExpectedToken 91)
           else if has_default then ret (rev acc) else error_here MissingDefaultVariant)
        else
          key <- get_variant_key ;;
          value <- get_pattern n' ;;
          match value with
          | Some v => skip_blank ;;; variants_loop n' (Variant key v default :: acc) has_default
          | None => error_here MissingValue
          end
  end

with get_inline_expression (n : nat) (only_literal : bool) : M inline :=
  match n with
  | O => out_of_fuel
  | S n' =>
      cb <- current_byte ;;
      match cb with
      | Some b =>
          if N.eqb b 34 then                                     (* dquote *)
            advance 1 ;;;
            start <- get_ptr ;;
            string_loop n' ;;;
            expect_byte 34 ;;;
            p <- get_ptr ;;
            (if Nat.leb 1 p then ret tt else panic "attempt to subtract with overflow") ;;;
            s <- source_slice start (p - 1) ;;
            ret (StringLiteral s)
          else if is_ascii_digit b then
            num <- get_number_literal ;; ret (NumberLiteral num)
          else if N.eqb b 45 && negb only_literal then           (* '-' *)
            advance 1 ;;;
            st <- is_identifier_start ;;
            if st then
              advance 1 ;;;
              id <- get_identifier_unchecked ;;
              attribute <- get_attribute_accessor ;;
              arguments <- get_call_arguments n' ;;
              ret (TermReference id attribute arguments)
            else
              retreat 1 ;;;
              num <- get_number_literal ;; ret (NumberLiteral num)
          else if N.eqb b 45 then                                (* '-' if only_literal *)
            num <- get_number_literal ;; ret (NumberLiteral num)
          else if N.eqb b 36 && negb only_literal then           (* '$' *)
            advance 1 ;;;
            id <- get_identifier ;;
            ret (VariableReference id)
          else if is_ascii_alphabetic b && negb only_literal then
            advance 1 ;;;
            id <- get_identifier_unchecked ;;
            arguments <- get_call_arguments n' ;;
            match arguments with
            | Some args =>
                if negb (is_callee id) then error_here ForbiddenCallee
                else ret (FunctionReference id args)
            | None =>
                attribute <- get_attribute_accessor ;;
                ret (MessageReference id attribute)
            end
          else if N.eqb b 123 && negb only_literal then          (* '{' *)
            advance 1 ;;;
            exp <- get_placeable n' ;;
            ret (Placeable exp)
          else if only_literal then error_here ExpectedLiteral
          else error_here ExpectedInlineExpression
      | None => if only_literal then error_here ExpectedLiteral else error_here ExpectedInlineExpression
      end
  end

(* the `while let Some(b) = get_current_byte!(self)` loop of a string literal *)
with string_loop (n : nat) : M unit :=
  match n with
  | O => out_of_fuel
  | S n' =>
      cb <- current_byte ;;
      match cb with
      | None => ret tt
      | Some b =>
          if N.eqb b 92 then                                     (* '\\' *)
            p <- get_ptr ;;
            match byte_at (S p) with
            | Some c =>
                if N.eqb c 92 || N.eqb c 123 || N.eqb c 34 then advance 2 ;;; string_loop n'
                else if N.eqb c 117 then advance 2 ;;; skip_unicode_escape_sequence 4 ;;; string_loop n'
                else if N.eqb c 85 then advance 2 ;;; skip_unicode_escape_sequence 6 ;;; string_loop n'
                else error_here (UnknownEscapeSequence (u8_to_string c))
            | None => error_here (UnknownEscapeSequence (u8_to_string c_sp))
            end
          else if N.eqb b 34 then ret tt
          else if N.eqb b c_lf then error_here UnterminatedStringLiteral
          else advance 1 ;;; string_loop n'
      end
  end

with get_call_arguments (n : nat) : M (option call_args) :=
  match n with
  | O => out_of_fuel
  | S n' =>
      skip_blank ;;;
      open <- take_byte_if 40 ;;
      if negb open then ret None
      else
        skip_blank ;;;
        r <- args_loop n' [] [] [] ;;
        expect_byte 41 ;;;
        ret (Some r)
  end

with args_loop (n : nat) (positional : list inline) (named : list named_arg) (names : list bytes) : M call_args :=
  match n with
  | O => out_of_fuel
  | S n' =>
      p <- get_ptr ;;
      if negb (Nat.ltb p length_) then ret (CallArguments (rev positional) (rev named))
      else if is_byte_at 41 p then ret (CallArguments (rev positional) (rev named))
      else
        expr <- get_inline_expression n' false ;;
        st <- match expr with
              | MessageReference id None =>
                  skip_blank ;;;
                  colon <- is_current_byte 58 ;;
                  if colon then
                    if has_name names id then error_here (DuplicatedNamedArgument id)
                    else
                      advance 1 ;;;
                      skip_blank ;;;
                      val <- get_inline_expression n' true ;;
                      ret (positional, NamedArgument id val :: named, id :: names)
                  else
                    match names with
                    | [] => ret (expr :: positional, named, names)
                    | _ => error_here PositionalArgumentFollowsNamed
                    end
              | _ =>
                  match names with
                  | [] => ret (expr :: positional, named, names)
                  | _ => error_here PositionalArgumentFollowsNamed
                  end
              end ;;
        let '(positional', named', names') := st in
        skip_blank ;;;
        take_byte_if 44 ;;;
        skip_blank ;;;
        args_loop n' positional' named' names'
  end.

(* ---- parser/core.rs (entries) ---- *)
Definition get_attribute (n : nat) : M attribute :=
  id <- get_identifier ;;
  skip_blank_inline ;;;
  expect_byte 61 ;;;
  pattern <- get_pattern n ;;
  match pattern with
  | Some pat => ret (Attribute id pat)
  | None => error_here MissingValue
  end.

Fixpoint get_attributes (n : nat) (acc : list attribute) : M (list attribute) :=
  match n with
  | O => out_of_fuel
  | S n' =>
      line_start <- get_ptr ;;
      skip_blank_inline ;;;
      dot <- take_byte_if 46 ;;
      if negb dot then set_ptr line_start ;;; ret (rev acc)
      else
        r <- try_ (get_attribute n') ;;
        match r with
        | inr attr => get_attributes n' (attr :: acc)
        | inl _ => set_ptr line_start ;;; ret (rev acc)
        end
  end.

Definition get_message (n : nat) (entry_start : nat) : M entry :=
  id <- get_identifier ;;
  skip_blank_inline ;;;
  expect_byte 61 ;;;
  pattern <- get_pattern n ;;
  skip_blank_block ;;;
  attributes <- get_attributes n [] ;;
  match pattern, attributes with
  | None, [] => p <- get_ptr ;; error_range (ExpectedMessageField id) entry_start p
  | _, _ => ret (Message id pattern attributes None)
  end.

Definition get_term (n : nat) (entry_start : nat) : M entry :=
  expect_byte 45 ;;;
  id <- get_identifier ;;
  skip_blank_inline ;;;
  expect_byte 61 ;;;
  skip_blank_inline ;;;
  value <- get_pattern n ;;
  skip_blank_block ;;;
  attributes <- get_attributes n [] ;;
  match value with
  | Some v => ret (Term id v attributes None)
  | None => p <- get_ptr ;; error_range (ExpectedTermField id) entry_start p
  end.

Definition get_entry (n : nat) (entry_start : nat) : M entry :=
  cb <- current_byte ;;
  match cb with
  | Some b =>
      if N.eqb b 35 then
        cl <- get_comment n ;;
        let '(c, lvl) := cl in
        match lvl with
        | LRegular => ret (CommentEntry c)
        | LGroup => ret (GroupComment c)
        | LResource => ret (ResourceComment c)
        | LNone => panic "unreachable"
        end
      else if N.eqb b 45 then get_term n entry_start
      else get_message n entry_start
  | None => get_message n entry_start
  end.

Definition get_entry_runtime (n : nat) (entry_start : nat) : M (option entry) :=
  cb <- current_byte ;;
  match cb with
  | Some b =>
      if N.eqb b 35 then skip_comment n ;;; ret None
      else if N.eqb b 45 then e <- get_term n entry_start ;; ret (Some e)
      else e <- get_message n entry_start ;; ret (Some e)
  | None => e <- get_message n entry_start ;; ret (Some e)
  end.

(* the Err arm of both entry loops: junk recovery *)
Definition recover (entry_start : nat) (err : perror) : M (perror * entry) :=
  rew <- skip_to_next_entry_start entry_start ;;
  let err1 := match rew with
              | Some line_end =>
                  if Nat.ltb line_end (pos_start err)
                  then PError (kind err) line_end (S line_end) (eslice err) else err
              | None => err
              end in
  p <- get_ptr ;;
  content <- source_slice entry_start p ;;
  ret (PError (kind err1) (pos_start err1) (pos_end err1) (Some (entry_start, p)), Junk content).

Definition attach (e : entry) (c : comment) : entry :=
  match e with
  | Message id v a _ => Message id v a (Some c)
  | Term id v a _ => Term id v a (Some c)
  | _ => e
  end.

(* core.rs Parser::parse main loop; body and errors are accumulated reversed *)
Fixpoint parse_loop (n : nat) (body : list entry) (errors : list perror)
         (last_comment : option comment) (last_blank_count : nat) : M (list entry * list perror) :=
  match n with
  | O => out_of_fuel
  | S n' =>
      p <- get_ptr ;;
      if negb (Nat.ltb p length_) then
        ret (rev (match last_comment with Some c => CommentEntry c :: body | None => body end), rev errors)
      else
        let entry_start := p in
        r <- try_ (get_entry n' entry_start) ;;
        (* if let Some(comment) = last_comment.take() { ... } *)
        let '(r, body) :=
          match last_comment with
          | Some c =>
              match r with
              | inr (Message _ _ _ _ as e) | inr (Term _ _ _ _ as e) =>
                  if Nat.ltb last_blank_count 2 then (inr (attach e c), body)
                  else (r, CommentEntry c :: body)
              | _ => (r, CommentEntry c :: body)
              end
          | None => (r, body)
          end in
        st <- match r with
              | inr (CommentEntry c) => ret (body, errors, Some c)
              | inr e => ret (e :: body, errors, None)
              | inl err =>
                  ej <- recover entry_start err ;;
                  ret (snd ej :: body, fst ej :: errors, None)
              end ;;
        let '(body', errors', lc) := st in
        cnt <- skip_blank_block ;;
        parse_loop n' body' errors' lc cnt
  end.

Definition parse_m (n : nat) : M (list entry * list perror) :=
  skip_blank_block ;;; parse_loop n [] [] None 0.

(* runtime.rs Parser::parse_runtime main loop *)
Fixpoint parse_runtime_loop (n : nat) (body : list entry) (errors : list perror) : M (list entry * list perror) :=
  match n with
  | O => out_of_fuel
  | S n' =>
      p <- get_ptr ;;
      if negb (Nat.ltb p length_) then ret (rev body, rev errors)
      else
        let entry_start := p in
        r <- try_ (get_entry_runtime n' entry_start) ;;
        st <- match r with
              | inr (Some e) => ret (e :: body, errors)
              | inr None => ret (body, errors)
              | inl err =>
                  ej <- recover entry_start err ;;
                  ret (snd ej :: body, fst ej :: errors)
              end ;;
        let '(body', errors') := st in
        skip_blank_block ;;;
        parse_runtime_loop n' body' errors'
  end.

Definition parse_runtime_m (n : nat) : M (list entry * list perror) :=
  skip_blank_block ;;; parse_runtime_loop n [] [].

End Parser.

(* Fuel sufficient for every input (ParserTotal.v proves that it is never exhausted). *)
Definition fuel_for (bs : bytes) : nat := 8 * length bs + 16.

Definition to_outcome {A} (r : res A) : outcome A :=
  match r with
  | Ok a _ => Done a
  | Err _ _ => Panic "error escaped the entry loop"      (* cannot happen: both loops catch errors *)
  | Pan t => Panic t
  | Fuel => OutOfFuel
  end.

(* parser::parse / parser::parse_runtime : (body, errors); Ok(resource) iff errors = [] *)
Definition parse (bs : bytes) : outcome (resource * list perror) :=
  to_outcome (parse_m bs (fuel_for bs) 0).
Definition parse_runtime (bs : bytes) : outcome (resource * list perror) :=
  to_outcome (parse_runtime_m bs (fuel_for bs) 0).

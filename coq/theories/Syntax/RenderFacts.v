(* Syntax/RenderFacts.v — two facts about the printer Render.v, by a walk over all its functions:
     render_utf8     the text printed for a tree whose strings are UTF-8 (WfUtf8.wf_utf8_resource) is valid UTF-8
                     (so property C01, "the parser takes a Rust str", applies to every rendered source);
     render_nil      with the empty choice stream every function leaves the stream empty (so `render [] t` takes
                     the first option at EVERY choice point; in particular there is no final line end).   *)
From FluentV Require Import Base.Bytes Base.Outcome Base.Utf8 Base.Utf8Facts.
From FluentV Require Import Syntax.Ast Syntax.ParserModel Syntax.Render Syntax.TreeNorm Syntax.WfUtf8 Syntax.ParseLemmas Syntax.RoundTrip
  Syntax.EntryLoop Syntax.RoundTripML Syntax.CallArgs Syntax.RoundTripSel Syntax.ArgsNest Syntax.RoundTripNest Syntax.WfComplete.
From FluentV Require Import Syntax.SerializerModel Syntax.SerializerProofs.
From Coq Require Import Lia.

Arguments N.eqb : simpl never.

Definition np {A} (m : R A) : Prop := snd (m []) = [].
Definition vb (m : R bytes) : Prop := forall cs, utf8_valid (fst (m cs)) = true.
Definition good (m : R bytes) : Prop := vb m /\ np m.
Definition vl (m : R (list bytes)) : Prop := forall cs, Forall (fun s => utf8_valid s = true) (fst (m cs)).
Definition goodl (m : R (list bytes)) : Prop := vl m /\ np m.

Lemma np_choose k : np (choose k).
Proof. reflexivity. Qed.

Lemma good_ret s : utf8_valid s = true -> good (rret s).
Proof. intros H. split; [intros cs; exact H | reflexivity]. Qed.

Lemma goodl_ret l : Forall (fun s => utf8_valid s = true) l -> goodl (rret l).
Proof. intros H. split; [intros cs; exact H | reflexivity]. Qed.

Lemma good_bindc k f : (forall n, good (f n)) -> good (rbind (choose k) f).
Proof.
  intros Hf. split.
  - intros cs. unfold rbind. destruct (choose k cs) as [n cs'] eqn:E. apply (proj1 (Hf n)).
  - unfold np, rbind. cbn [choose]. apply (proj2 (Hf 0)).
Qed.

Lemma good_bind m f : good m -> (forall s, utf8_valid s = true -> good (f s)) -> good (rbind m f).
Proof.
  intros [Hv Hn] Hf. split.
  - intros cs. unfold rbind. specialize (Hv cs). destruct (m cs) as [a cs'] eqn:E. cbn [fst] in Hv. apply (proj1 (Hf a Hv)).
  - unfold np, rbind in *. specialize (Hv []). destruct (m []) as [a cs'] eqn:E. cbn [fst snd] in *. subst cs'. apply (proj2 (Hf a Hv)).
Qed.

Lemma good_bindl m f : goodl m -> (forall l, Forall (fun s => utf8_valid s = true) l -> good (f l)) -> good (rbind m f).
Proof.
  intros [Hv Hn] Hf. split.
  - intros cs. unfold rbind. specialize (Hv cs). destruct (m cs) as [a cs'] eqn:E. cbn [fst] in Hv. apply (proj1 (Hf a Hv)).
  - unfold np, rbind in *. specialize (Hv []). destruct (m []) as [a cs'] eqn:E. cbn [fst snd] in *. subst cs'. apply (proj2 (Hf a Hv)).
Qed.

Lemma goodl_bind m f : good m -> (forall s, utf8_valid s = true -> goodl (f s)) -> goodl (rbind m f).
Proof.
  intros [Hv Hn] Hf. split.
  - intros cs. unfold rbind. specialize (Hv cs). destruct (m cs) as [a cs'] eqn:E. cbn [fst] in Hv. apply (proj1 (Hf a Hv)).
  - unfold np, rbind in *. specialize (Hv []). destruct (m []) as [a cs'] eqn:E. cbn [fst snd] in *. subst cs'. apply (proj2 (Hf a Hv)).
Qed.

Lemma goodl_bindl m f : goodl m -> (forall l, Forall (fun s => utf8_valid s = true) l -> goodl (f l)) -> goodl (rbind m f).
Proof.
  intros [Hv Hn] Hf. split.
  - intros cs. unfold rbind. specialize (Hv cs). destruct (m cs) as [a cs'] eqn:E. cbn [fst] in Hv. apply (proj1 (Hf a Hv)).
  - unfold np, rbind in *. specialize (Hv []). destruct (m []) as [a cs'] eqn:E. cbn [fst snd] in *. subst cs'. apply (proj2 (Hf a Hv)).
Qed.

(* ---- validity of the pieces ---- *)
Lemma utf8_sp n : utf8_valid (sp n) = true.
Proof. induction n as [|n IH]; [reflexivity|]. exact IH. Qed.

Lemma utf8_cons_ascii b s : is_ascii b = true -> utf8_valid s = true -> utf8_valid (b :: s) = true.
Proof. intros Hb Hs. cbn [utf8_valid]. rewrite Hb. exact Hs. Qed.

Ltac uv :=
  repeat first [ assumption
               | reflexivity
               | apply utf8_sp
               | apply utf8_valid_app_intro
               | apply utf8_cons_ascii; [reflexivity|] ].

Lemma good_eol : good eol.
Proof. unfold eol. apply good_bindc. intros n. apply good_ret. destruct (Nat.eqb n 3); reflexivity. Qed.

Lemma good_blank_inline_opt : good blank_inline_opt.
Proof. unfold blank_inline_opt. apply good_bindc. intros n. apply good_ret. apply utf8_sp. Qed.

Lemma good_blank_opt : good blank_opt.
Proof.
  unfold blank_opt. apply good_bindc. intros [|[|[|[|n]]]]; try (apply good_ret; reflexivity);
    (apply good_bind; [apply good_eol | intros e He; apply good_ret; uv]).
Qed.

Lemma good_blank_lines n : good (blank_lines n).
Proof.
  induction n as [|n IH]; [apply good_ret; reflexivity|]. cbn [blank_lines].
  apply good_bindc. intros s. apply good_bind; [apply good_eol|]. intros e He.
  apply good_bind; [exact IH|]. intros r Hr. apply good_ret. uv.
Qed.

(* ---- text ---- *)
Lemma utf8_lines_valid v : utf8_valid v = true -> Forall (fun l => utf8_valid l = true) (lines_of v).
Proof.
  remember (length v) as n eqn:En. revert v En. induction n as [n IH] using lt_wf_ind. intros v En Hv.
  destruct (existsb (N.eqb 10) v) eqn:E.
  - destruct (first_lf v E) as (a & b & -> & Ha). rewrite (lines_of_lf a b Ha).
    destruct (utf8_split_lf a b Hv) as [H1 H2]. constructor; [exact H1|].
    apply (IH (length b)); [subst n; rewrite app_length; cbn [length]; lia | reflexivity | exact H2].
  - rewrite (lines_of_no_lf v E). constructor; [exact Hv | constructor].
Qed.

Lemma good_text_lines base continues ls : Forall (fun l => utf8_valid l = true) ls -> good (render_text_lines base continues ls).
Proof.
  induction 1 as [|l r Hl Hr IH]; [apply good_ret; reflexivity|]. cbn [render_text_lines].
  apply good_bind; [apply good_eol|]. intros e He. apply good_bind; [exact IH|]. intros rest Hrest.
  destruct (is_blank_line l && negb (match r with [] => true | _ => false end && continues)).
  - apply good_bindc. intros n. apply good_ret. uv.
  - apply good_ret. uv.
Qed.

Lemma good_text base continues v : utf8_valid v = true -> good (render_text base continues v).
Proof.
  intros Hv. unfold render_text. pose proof (utf8_lines_valid v Hv) as Hl.
  destruct (lines_of v) as [|l0 r]; [apply good_ret; reflexivity|]. inversion Hl; subst.
  apply good_bind; [apply good_text_lines; assumption|]. intros rest Hrest. apply good_ret. uv.
Qed.

(* ---- expressions ---- *)
Definition GPi (i : inline) : Prop := utf8_inline i = true -> good (render_inline i).
Definition GPe (e : expression) : Prop := utf8_expr e = true -> forall ind, good (render_expr ind e).
Definition GPv (v : variant) : Prop := utf8_variant v = true -> forall ind, good (render_variant ind v).
Definition GPp (p : pattern) : Prop := utf8_pattern p = true -> forall base, good (render_pattern_inline base p).
Definition GPel (x : pattern_element) : Prop :=
  match x with TextElement _ => True | PlaceableElement e => utf8_expr e = true -> forall base, good (render_expr base e) end.
Definition GPa (a : call_args) : Prop := utf8_args a = true -> good (render_args a).
Definition GPn (n : named_arg) : Prop := match n with NamedArgument _ v => utf8_inline v = true -> good (render_inline v) end.

Lemma good_render_pos pos : Forall GPi pos -> forallb utf8_inline pos = true -> goodl (render_pos pos).
Proof.
  induction 1 as [|x r Hx Hr IH]; intros Hu; [apply goodl_ret; constructor|]. cbn [forallb] in Hu. apply andb_prop in Hu as [Hux Hur].
  cbn [render_pos]. apply goodl_bind; [apply (Hx Hux)|]. intros a Ha.
  apply goodl_bindl; [apply (IH Hur)|]. intros b Hb. apply goodl_ret. constructor; assumption.
Qed.

Lemma good_render_named named : Forall GPn named -> forallb utf8_named named = true -> goodl (render_named named).
Proof.
  induction 1 as [|[n v] r Hx Hr IH]; intros Hu; [apply goodl_ret; constructor|]. cbn [forallb utf8_named] in Hu.
  apply andb_prop in Hu as [Hux Hur]. apply andb_prop in Hux as [Hn Hv].
  cbn [render_named]. apply goodl_bind; [apply good_blank_opt|]. intros b1 Hb1.
  apply goodl_bind; [apply good_blank_opt|]. intros b2 Hb2.
  apply goodl_bind; [apply (Hx Hv)|]. intros a Ha.
  apply goodl_bindl; [apply (IH Hur)|]. intros b Hb. apply goodl_ret. constructor; [|exact Hb].
  unfold cat. cbn [concat]. rewrite app_nil_r. uv.
Qed.

Lemma good_render_sep l : Forall (fun s => utf8_valid s = true) l -> good (render_sep l).
Proof.
  induction 1 as [|x r Hx Hr IH]; [apply good_ret; reflexivity|].
  destruct r as [|y r'].
  - cbn [render_sep]. apply good_bindc. intros t. apply good_bind; [apply good_blank_opt|]. intros b Hb.
    apply good_ret. destruct (Nat.eqb t 1); uv.
  - change (render_sep (x :: y :: r')) with
      (b1 <~ blank_opt ;; b2 <~ blank_opt ;; rest <~ render_sep (y :: r') ;; rret (cat [x; b1; [44%N]; b2; rest])).
    apply good_bind; [apply good_blank_opt|]. intros b1 Hb1. apply good_bind; [apply good_blank_opt|]. intros b2 Hb2.
    apply good_bind; [exact IH|]. intros rest Hrest. apply good_ret. unfold cat. cbn [concat]. rewrite app_nil_r. uv.
Qed.

Lemma good_render_variants ind vs : Forall GPv vs -> forallb utf8_variant vs = true -> good (render_variants ind vs).
Proof.
  induction 1 as [|v r Hv Hr IH]; intros Hu; [apply good_ret; reflexivity|]. cbn [forallb] in Hu. apply andb_prop in Hu as [Huv Hur].
  cbn [render_variants]. apply good_bind; [apply (Hv Huv)|]. intros a Ha. apply good_bind; [apply (IH Hur)|]. intros b Hb.
  apply good_ret. uv.
Qed.

Lemma good_render_els base els : Forall GPel els -> forallb utf8_element els = true -> good (render_els base els).
Proof.
  induction 1 as [|x r Hx Hr IH]; intros Hu; [apply good_ret; reflexivity|]. cbn [forallb] in Hu. apply andb_prop in Hu as [Hux Hur].
  destruct x as [v | e]; cbn [render_els utf8_element GPel] in *.
  - apply good_bind; [apply good_text, Hux|]. intros a Ha. apply good_bind; [apply (IH Hur)|]. intros b Hb. apply good_ret. uv.
  - apply good_bind; [apply good_blank_opt|]. intros b1 Hb1. apply good_bind; [apply (Hx Hux)|]. intros s Hs.
    apply good_bind; [apply good_blank_opt|]. intros b2 Hb2. apply good_bind; [apply (IH Hur)|]. intros rest Hrest.
    apply good_ret. unfold cat. cbn [concat]. rewrite app_nil_r. uv.
Qed.

Lemma utf8_opt_attr att : utf8_opt att = true -> utf8_valid (match att with Some a => 46%N :: a | None => [] end) = true.
Proof. destruct att as [a|]; [intros H; uv | reflexivity]. Qed.

Lemma good_value_with rp bo nd ind : (forall base, good (rp base)) -> good (render_value_with rp bo nd ind).
Proof.
  intros Hrp. unfold render_value_with. apply good_bindc. intros block.
  destruct ((Nat.eqb block 2 || nd) && bo).
  - apply good_bind; [apply good_blank_inline_opt|]. intros b Hb. apply good_bind; [apply good_eol|]. intros e He.
    apply good_bindc. intros blanks. apply good_bind.
    { destruct (Nat.eqb blanks 1); [|apply good_ret; reflexivity]. apply good_bind; [apply good_eol|]. intros x Hx. apply good_ret. uv. }
    intros e2 He2. apply good_bindc. intros extra. apply good_bind; [apply Hrp|]. intros s Hs.
    apply good_ret. unfold cat. cbn [concat]. rewrite app_nil_r. uv.
  - apply good_bind; [apply good_blank_inline_opt|]. intros b Hb. apply good_bindc. intros extra.
    apply good_bind; [apply Hrp|]. intros s Hs. apply good_ret. uv.
Qed.

Theorem good_render_ast :
  (forall i, GPi i) /\ (forall e, GPe e) /\ (forall v, GPv v) /\ (forall p, GPp p) /\ (forall x, GPel x) /\ (forall a, GPa a) /\ (forall n, GPn n).
Proof.
  apply ast_mutind; unfold GPi, GPe, GPv, GPp, GPel, GPa, GPn.
  - (* StringLiteral *) intros v Hu. cbn [render_inline utf8_inline] in *. apply good_ret. unfold cat. cbn [concat]. rewrite app_nil_r. uv.
  - (* NumberLiteral *) intros v Hu. apply good_ret. exact Hu.
  - (* FunctionReference *)
    intros id a IH Hu. cbn [utf8_inline] in Hu. apply andb_prop in Hu as [Hid Ha]. cbn [render_inline].
    apply good_bind; [apply good_blank_opt|]. intros b Hb. apply good_bind; [apply (IH Ha)|]. intros s Hs. apply good_ret. uv.
  - (* MessageReference *)
    intros id att Hu. cbn [utf8_inline] in Hu. apply andb_prop in Hu as [Hid Hatt]. cbn [render_inline]. apply good_ret.
    pose proof (utf8_opt_attr att Hatt). uv.
  - (* TermReference *)
    intros id att a IH Hu. cbn [utf8_inline] in Hu. apply andb_prop in Hu as [Hu Ha]. apply andb_prop in Hu as [Hid Hatt].
    cbn [render_inline]. pose proof (utf8_opt_attr att Hatt) as Hoa.
    apply good_bind.
    + destruct a as [ca|]; [|apply good_ret; reflexivity]. cbn [opt_P] in IH.
      apply good_bind; [apply good_blank_opt|]. intros b Hb. apply good_bind; [apply (IH Ha)|]. intros s Hs. apply good_ret. uv.
    + intros x Hx. apply good_ret. uv.
  - (* VariableReference *) intros id Hu. cbn [render_inline utf8_inline] in *. apply good_ret. uv.
  - (* Placeable *)
    intros e IH Hu. cbn [utf8_inline] in Hu.
    change (render_inline (Placeable e)) with
      (b1 <~ blank_opt ;; s <~ render_expr 4 e ;; b2 <~ blank_opt ;; rret (cat [[123%N]; b1; s; b2; [125%N]])).
    apply good_bind; [apply good_blank_opt|]. intros b1 Hb1. apply good_bind; [apply (IH Hu 4)|]. intros s Hs.
    apply good_bind; [apply good_blank_opt|]. intros b2 Hb2. apply good_ret. unfold cat. cbn [concat]. rewrite app_nil_r. uv.
  - (* Select *)
    intros s vs IHs IHvs Hu ind. rewrite utf8_select in Hu. apply andb_prop in Hu as [Hus Huvs].
    rewrite render_expr_select.
    apply good_bind; [apply (IHs Hus)|]. intros xs Hxs. apply good_bind; [apply good_blank_opt|]. intros b1 Hb1.
    apply good_bind; [apply good_blank_inline_opt|]. intros b2 Hb2. apply good_bind; [apply good_eol|]. intros e1 He1.
    apply good_bind; [apply (good_render_variants ind vs IHvs Huvs)|]. intros vss Hvss.
    apply good_bindc. intros k. apply good_ret. unfold cat. cbn [concat]. rewrite app_nil_r.
    assert (Hb1' : utf8_valid (match b1 with [] => if ends_with_id_char xs then sp 1 else [] | _ => b1 end) = true)
      by (destruct b1; [destruct (ends_with_id_char xs); reflexivity | exact Hb1]).
    uv.
  - (* Inline *) intros i IH Hu ind. cbn [utf8_expr] in Hu. cbn [render_expr]. apply (IH Hu).
  - (* Variant *)
    intros k p d IH Hu ind. cbn [utf8_variant] in Hu. apply andb_prop in Hu as [Hk Hp].
    cbn [render_variant]. apply good_bindc. intros k0.
    apply good_bind.
    { destruct (Nat.eqb k0 2); [|apply good_ret; reflexivity]. apply good_bind; [apply good_eol|]. intros e He. apply good_ret. uv. }
    intros pre Hpre. apply good_bind; [apply good_blank_opt|]. intros b1 Hb1. apply good_bind; [apply good_blank_opt|]. intros b2 Hb2.
    apply good_bind; [apply good_value_with; intros base; apply (IH Hp)|]. intros pp Hpp. apply good_bind; [apply good_eol|]. intros e2 He2.
    apply good_ret. unfold cat. cbn [concat]. rewrite app_nil_r.
    assert (Hkey : utf8_valid (render_key k) = true) by (destruct k; exact Hk).
    assert (Hd : utf8_valid (if d then [42%N] else []) = true) by (destruct d; reflexivity).
    uv.
  - (* Pattern *)
    intros els IH Hu base. rewrite utf8_pattern_els in Hu. rewrite render_pattern_inline_els. apply (good_render_els base els IH Hu).
  - (* TextElement *) intros; exact Logic.I.
  - (* PlaceableElement *) intros e IH. exact IH.
  - (* CallArguments *)
    intros pos named IHp IHn Hu. rewrite utf8_args_eq in Hu. apply andb_prop in Hu as [Hup Hun].
    rewrite render_args_eq.
    apply good_bind; [apply good_blank_opt|]. intros b0 Hb0.
    apply good_bindl; [apply (good_render_pos pos IHp Hup)|]. intros ps Hps.
    apply good_bindl; [apply (good_render_named named IHn Hun)|]. intros ns Hns.
    apply good_bind; [apply good_render_sep, Forall_app; split; assumption|]. intros body Hbody.
    apply good_bind; [apply good_blank_opt|]. intros b9 Hb9. apply good_ret. unfold cat. cbn [concat]. rewrite app_nil_r. uv.
  - (* NamedArgument *) intros n v IH. exact IH.
Qed.

Lemma good_pattern_inline base p : utf8_pattern p = true -> good (render_pattern_inline base p).
Proof. intros H. destruct good_render_ast as (_ & _ & _ & HP & _). apply (HP p H). Qed.

(* ---- values, attributes, comments, entries ---- *)
Lemma good_value ind p : utf8_pattern p = true -> good (render_value ind p).
Proof.
  intros Hp. unfold render_value. apply good_value_with. intros base. apply (good_pattern_inline _ p Hp).
Qed.

Lemma good_attributes attrs : forallb utf8_attribute attrs = true -> good (render_attributes attrs).
Proof.
  induction attrs as [|a r IH]; intros Hu; [apply good_ret; reflexivity|]. cbn [forallb] in Hu. apply andb_prop in Hu as [Ha Hr].
  unfold utf8_attribute in Ha. apply andb_prop in Ha as [Hid Hp].
  cbn [render_attributes]. apply good_bind.
  - unfold render_attribute. apply good_bind; [apply good_eol|]. intros e He. apply good_bindc. intros k.
    apply good_bind; [apply good_blank_inline_opt|]. intros b1 Hb1. apply good_bind; [apply (good_value 8 _ Hp)|]. intros v Hv.
    apply good_ret. unfold cat. cbn [concat]. rewrite app_nil_r. uv.
  - intros x Hx. apply good_bind; [apply (IH Hr)|]. intros y Hy. apply good_ret. uv.
Qed.

Lemma utf8_sl l : utf8_valid l = true -> utf8_valid (match l with [] => [] | _ => 32%N :: l end) = true.
Proof. destruct l; [reflexivity | intros H; uv]. Qed.

Lemma good_comment_lines P ls : utf8_valid P = true -> forallb utf8_valid ls = true -> good (render_comment_lines P ls).
Proof.
  intros HP. induction ls as [|l r IH]; intros Hu; [apply good_ret; reflexivity|]. cbn [forallb] in Hu. apply andb_prop in Hu as [Hl Hr].
  pose proof (utf8_sl l Hl) as Hsl.
  destruct r as [|l2 r'].
  - cbn [render_comment_lines]. apply good_ret. uv.
  - change (render_comment_lines P (l :: l2 :: r')) with
      (e <~ eol ;; rest <~ render_comment_lines P (l2 :: r') ;; rret (cat [P; match l with [] => [] | _ => 32%N :: l end; e; rest])).
    apply good_bind; [apply good_eol|]. intros e He. apply good_bind; [apply (IH Hr)|]. intros rest Hrest.
    apply good_ret. unfold cat. cbn [concat]. rewrite app_nil_r. uv.
Qed.

Lemma good_opt_comment c : utf8_opt_comment c = true -> good (render_opt_comment c).
Proof.
  destruct c as [cm|]; intros Hu; [|apply good_ret; reflexivity]. cbn [render_opt_comment].
  apply good_bind; [apply (good_comment_lines [35%N] _ eq_refl Hu)|]. intros s Hs. apply good_bind; [apply good_eol|]. intros e He.
  apply good_ret. uv.
Qed.

Lemma good_entry e : utf8_entry e = true -> good (render_entry e).
Proof.
  destruct e as [id v attrs c | id v attrs c | c | c | c | j]; cbn [utf8_entry render_entry]; intros Hu.
  - apply andb_prop in Hu as [Hu Hc]. apply andb_prop in Hu as [Hu Ha]. apply andb_prop in Hu as [Hid Hv].
    apply good_bind; [apply (good_opt_comment c Hc)|]. intros cm Hcm. apply good_bind; [apply good_blank_inline_opt|]. intros b1 Hb1.
    apply good_bind; [destruct v as [p|]; [apply (good_value 4 p Hv) | apply good_ret; reflexivity]|]. intros val Hval.
    apply good_bind; [apply (good_attributes attrs Ha)|]. intros at_ Hat. apply good_ret. unfold cat. cbn [concat]. rewrite app_nil_r. uv.
  - apply andb_prop in Hu as [Hu Hc]. apply andb_prop in Hu as [Hu Ha]. apply andb_prop in Hu as [Hid Hv].
    apply good_bind; [apply (good_opt_comment c Hc)|]. intros cm Hcm. apply good_bind; [apply good_blank_inline_opt|]. intros b1 Hb1.
    apply good_bind; [apply (good_value 4 v Hv)|]. intros val Hval.
    apply good_bind; [apply (good_attributes attrs Ha)|]. intros at_ Hat. apply good_ret. unfold cat. cbn [concat]. rewrite app_nil_r. uv.
  - apply (good_comment_lines [35%N] _ eq_refl Hu).
  - apply (good_comment_lines [35; 35]%N _ eq_refl Hu).
  - apply (good_comment_lines [35; 35; 35]%N _ eq_refl Hu).
  - apply good_ret. exact Hu.
Qed.

Lemma good_entries t : forallb utf8_entry t = true -> good (render_entries t).
Proof.
  induction t as [|e r IH]; intros Hu; [apply good_ret; reflexivity|]. cbn [forallb] in Hu. apply andb_prop in Hu as [He Hr].
  destruct r as [|e2 r'].
  - cbn [render_entries]. apply good_bind; [apply (good_entry e He)|]. intros s Hs. apply good_bindc. intros [|[|fin]].
    + apply good_ret. exact Hs.
    + apply good_bind; [apply good_eol|]. intros x Hx. apply good_ret. uv.
    + apply good_bind; [apply good_eol|]. intros x Hx. apply good_bind; [apply good_blank_lines|]. intros b Hb. apply good_ret. uv.
  - change (render_entries (e :: e2 :: r')) with
      (s <~ render_entry e ;; x <~ eol ;; extra <~ choose 3 ;;
       b <~ blank_lines (min_blank_between e e2 + extra) ;;
       rest <~ render_entries (e2 :: r') ;; rret (cat [s; x; b; rest])).
    apply good_bind; [apply (good_entry e He)|]. intros s Hs. apply good_bind; [apply good_eol|]. intros x Hx.
    apply good_bindc. intros extra. apply good_bind; [apply good_blank_lines|]. intros b Hb.
    apply good_bind; [apply (IH Hr)|]. intros rest Hrest. apply good_ret. unfold cat. cbn [concat]. rewrite app_nil_r. uv.
Qed.

Lemma good_render_m t : wf_utf8_resource t = true ->
  good (n <~ choose 3 ;; b <~ blank_lines n ;; s <~ render_entries t ;; rret (b ++ s)).
Proof.
  intros Hu. apply good_bindc. intros n. apply good_bind; [apply good_blank_lines|]. intros b Hb.
  apply good_bind; [apply (good_entries t Hu)|]. intros s Hs. apply good_ret. uv.
Qed.

(* the text of a tree whose strings are UTF-8 is UTF-8 *)
Theorem render_utf8 cs t : wf_utf8_resource t = true -> utf8_valid (render cs t) = true.
Proof. intros Hu. unfold render. apply (proj1 (good_render_m t Hu) cs). Qed.

(* with the empty choice stream, the entries are printed with the first option everywhere, and nothing is left *)
Lemma render_entries_nil t : wf_utf8_resource t = true -> snd (render_entries t []) = [].
Proof. intros Hu. apply (proj2 (good_entries t Hu)). Qed.

Lemma render_nil t : render [] t = fst (render_entries t []).
Proof.
  unfold render, rbind. cbn [choose blank_lines rret]. destruct (render_entries t []) as [s cs']. reflexivity.
Qed.

(* Syntax/Ast.v — fluent_syntax::ast with S := bytes, plus its s-expression form
   (shared by the parser, serializer and resolver models and by harness/src/ast.rs).
   Definitions only.

   sexp form
     resource  (res entry ...)
     entry     (msg id value attrs comment) | (term id pattern attrs comment)
               | (comment line ...) | (gcomment line ...) | (rcomment line ...) | (junk #content)
     value     none | (some pattern)          comment  none | (some (c line ...))
     attrs     ((attr id pattern) ...)
     pattern   (pat elem ...)      elem  (t #text) | (p expr)
     expr      (sel inline (variant ...)) | (in inline)
     variant   (var key pattern true|false)   key  (id #name) | (num #value)
     inline    (str #v) | (num #v) | (fn id args) | (mref id attr) | (tref id attr optargs)
               | (vref id) | (pl expr)
     args      (args (inline ...) ((named id inline) ...))    attr  none | (some id)            *)
From FluentV Require Export Base.Bytes.

Inductive variant_key := KeyIdentifier (name : bytes) | KeyNumber (value : bytes).

Inductive inline : Type :=
| StringLiteral (value : bytes)
| NumberLiteral (value : bytes)
| FunctionReference (id : bytes) (arguments : call_args)
| MessageReference (id : bytes) (attribute : option bytes)
| TermReference (id : bytes) (attribute : option bytes) (arguments : option call_args)
| VariableReference (id : bytes)
| Placeable (expression : expression)
with expression : Type :=
| Select (selector : inline) (variants : list variant)
| Inline (i : inline)
with variant : Type :=
| Variant (key : variant_key) (value : pattern) (default : bool)
with pattern : Type :=
| Pattern (elements : list pattern_element)
with pattern_element : Type :=
| TextElement (value : bytes)
| PlaceableElement (expression : expression)
with call_args : Type :=
| CallArguments (positional : list inline) (named : list named_arg)
with named_arg : Type :=
| NamedArgument (name : bytes) (value : inline).

Record attribute := Attribute { attr_id : bytes; attr_value : pattern }.
Record comment := Comment { content : list bytes }.

Inductive entry :=
| Message (id : bytes) (value : option pattern) (attributes : list attribute) (cmt : option comment)
| Term (id : bytes) (value : pattern) (attributes : list attribute) (cmt : option comment)
| CommentEntry (c : comment)
| GroupComment (c : comment)
| ResourceComment (c : comment)
| Junk (content : bytes).

Definition resource := list entry.

Definition pattern_elements (p : pattern) : list pattern_element :=
  match p with Pattern els => els end.

(* ---- encoding ---- *)
Definition enc_key (k : variant_key) : sexp :=
  match k with
  | KeyIdentifier n => L [sym "id"; A n]
  | KeyNumber v => L [sym "num"; A v]
  end.

Fixpoint enc_inline (i : inline) : sexp :=
  match i with
  | StringLiteral v => L [sym "str"; A v]
  | NumberLiteral v => L [sym "num"; A v]
  | FunctionReference id a => L [sym "fn"; A id; enc_args a]
  | MessageReference id at_ => L [sym "mref"; A id; sopt A at_]
  | TermReference id at_ a =>
      L [sym "tref"; A id; sopt A at_;
         match a with None => sym "none" | Some a' => L [sym "some"; enc_args a'] end]
  | VariableReference id => L [sym "vref"; A id]
  | Placeable e => L [sym "pl"; enc_expr e]
  end
with enc_expr (e : expression) : sexp :=
  match e with
  | Select s vs =>
      L [sym "sel"; enc_inline s;
         L ((fix go (l : list variant) : list sexp :=
               match l with [] => [] | v :: r => enc_variant v :: go r end) vs)]
  | Inline i => L [sym "in"; enc_inline i]
  end
with enc_variant (v : variant) : sexp :=
  match v with
  | Variant k p d => L [sym "var"; enc_key k; enc_pattern p; sbool d]
  end
with enc_pattern (p : pattern) : sexp :=
  match p with
  | Pattern els =>
      L (sym "pat" ::
         (fix go (l : list pattern_element) : list sexp :=
            match l with [] => [] | x :: r => enc_element x :: go r end) els)
  end
with enc_element (x : pattern_element) : sexp :=
  match x with
  | TextElement v => L [sym "t"; A v]
  | PlaceableElement e => L [sym "p"; enc_expr e]
  end
with enc_args (a : call_args) : sexp :=
  match a with
  | CallArguments pos named =>
      L [sym "args";
         L ((fix go (l : list inline) : list sexp :=
               match l with [] => [] | x :: r => enc_inline x :: go r end) pos);
         L ((fix go (l : list named_arg) : list sexp :=
               match l with [] => [] | x :: r => enc_named x :: go r end) named)]
  end
with enc_named (n : named_arg) : sexp :=
  match n with
  | NamedArgument name v => L [sym "named"; A name; enc_inline v]
  end.

Definition enc_attribute (a : attribute) : sexp :=
  L [sym "attr"; A (attr_id a); enc_pattern (attr_value a)].
Definition enc_comment_lines (c : comment) : list sexp := map A (content c).
Definition enc_opt_comment (c : option comment) : sexp :=
  match c with None => sym "none" | Some c' => L [sym "some"; L (sym "c" :: enc_comment_lines c')] end.

Definition enc_entry (e : entry) : sexp :=
  match e with
  | Message id v attrs c =>
      L [sym "msg"; A id; sopt enc_pattern v; L (map enc_attribute attrs); enc_opt_comment c]
  | Term id v attrs c =>
      L [sym "term"; A id; enc_pattern v; L (map enc_attribute attrs); enc_opt_comment c]
  | CommentEntry c => L (sym "comment" :: enc_comment_lines c)
  | GroupComment c => L (sym "gcomment" :: enc_comment_lines c)
  | ResourceComment c => L (sym "rcomment" :: enc_comment_lines c)
  | Junk content => L [sym "junk"; A content]
  end.

Definition enc_resource (r : resource) : sexp := L (sym "res" :: map enc_entry r).

(* ---- decoding (fuel = nesting depth of the s-expression; see sdepth) ---- *)
Fixpoint sdepth (x : sexp) : nat :=
  match x with
  | L l => S ((fix go (l : list sexp) : nat :=
                 match l with [] => 0 | y :: r => Nat.max (sdepth y) (go r) end) l)
  | _ => 1
  end.

Fixpoint opt_all {X} (l : list (option X)) : option (list X) :=
  match l with
  | [] => Some []
  | None :: _ => None
  | Some x :: r => match opt_all r with Some r' => Some (x :: r') | None => None end
  end.

Definition dec_bytes (x : sexp) : option bytes := match x with A b => Some b | _ => None end.
Definition dec_opt {X} (f : sexp -> option X) (x : sexp) : option (option X) :=
  match x with
  | L [t; y] => if is_sym "some" t then match f y with Some v => Some (Some v) | None => None end else None
  | A _ => if is_sym "none" x then Some None else None
  | _ => None
  end.
Definition dec_bool (x : sexp) : option bool :=
  if is_sym "true" x then Some true else if is_sym "false" x then Some false else None.

Definition dec_key (x : sexp) : option variant_key :=
  match x with
  | L [t; A v] => if is_sym "id" t then Some (KeyIdentifier v)
                  else if is_sym "num" t then Some (KeyNumber v) else None
  | _ => None
  end.

Fixpoint dec_inline (n : nat) (x : sexp) : option inline :=
  match n with
  | O => None
  | S n' =>
      match x with
      | L [t; A v] =>
          if is_sym "str" t then Some (StringLiteral v)
          else if is_sym "num" t then Some (NumberLiteral v)
          else if is_sym "vref" t then Some (VariableReference v)
          else None
      | L [t; y] =>
          if is_sym "pl" t then option_map Placeable (dec_expr n' y) else None
      | L [t; A id; y] =>
          if is_sym "fn" t then option_map (FunctionReference id) (dec_args n' y)
          else if is_sym "mref" t then option_map (MessageReference id) (dec_opt dec_bytes y)
          else None
      | L [t; A id; y; z] =>
          if is_sym "tref" t then
            match dec_opt dec_bytes y, dec_opt (dec_args n') z with
            | Some at_, Some a => Some (TermReference id at_ a)
            | _, _ => None
            end
          else None
      | _ => None
      end
  end
with dec_expr (n : nat) (x : sexp) : option expression :=
  match n with
  | O => None
  | S n' =>
      match x with
      | L [t; y] => if is_sym "in" t then option_map Inline (dec_inline n' y) else None
      | L [t; y; L vs] =>
          if is_sym "sel" t then
            match dec_inline n' y, opt_all (map (dec_variant n') vs) with
            | Some s, Some vs' => Some (Select s vs')
            | _, _ => None
            end
          else None
      | _ => None
      end
  end
with dec_variant (n : nat) (x : sexp) : option variant :=
  match n with
  | O => None
  | S n' =>
      match x with
      | L [t; k; p; d] =>
          if is_sym "var" t then
            match dec_key k, dec_pattern n' p, dec_bool d with
            | Some k', Some p', Some d' => Some (Variant k' p' d')
            | _, _, _ => None
            end
          else None
      | _ => None
      end
  end
with dec_pattern (n : nat) (x : sexp) : option pattern :=
  match n with
  | O => None
  | S n' =>
      match x with
      | L (t :: els) =>
          if is_sym "pat" t then option_map Pattern (opt_all (map (dec_element n') els)) else None
      | _ => None
      end
  end
with dec_element (n : nat) (x : sexp) : option pattern_element :=
  match n with
  | O => None
  | S n' =>
      match x with
      | L [t; A v] => if is_sym "t" t then Some (TextElement v) else None
      | L [t; y] => if is_sym "p" t then option_map PlaceableElement (dec_expr n' y) else None
      | _ => None
      end
  end
with dec_args (n : nat) (x : sexp) : option call_args :=
  match n with
  | O => None
  | S n' =>
      match x with
      | L [t; L pos; L named] =>
          if is_sym "args" t then
            match opt_all (map (dec_inline n') pos), opt_all (map (dec_named n') named) with
            | Some p, Some nm => Some (CallArguments p nm)
            | _, _ => None
            end
          else None
      | _ => None
      end
  end
with dec_named (n : nat) (x : sexp) : option named_arg :=
  match n with
  | O => None
  | S n' =>
      match x with
      | L [t; A name; v] =>
          if is_sym "named" t then option_map (NamedArgument name) (dec_inline n' v) else None
      | _ => None
      end
  end.

Definition dec_attribute (n : nat) (x : sexp) : option attribute :=
  match x with
  | L [t; A id; p] => if is_sym "attr" t then option_map (Attribute id) (dec_pattern n p) else None
  | _ => None
  end.

Definition dec_comment (x : sexp) : option comment :=
  match x with
  | L (t :: lines) => if is_sym "c" t then option_map Comment (opt_all (map dec_bytes lines)) else None
  | _ => None
  end.

Definition dec_entry (n : nat) (x : sexp) : option entry :=
  match x with
  | L [t; A c] => if is_sym "junk" t then Some (Junk c) else
                  if is_sym "comment" t then Some (CommentEntry (Comment [c])) else
                  if is_sym "gcomment" t then Some (GroupComment (Comment [c])) else
                  if is_sym "rcomment" t then Some (ResourceComment (Comment [c])) else None
  | L [t; A id; v; L attrs; c] =>
      if is_sym "msg" t then
        match dec_opt (dec_pattern n) v, opt_all (map (dec_attribute n) attrs), dec_opt dec_comment c with
        | Some v', Some a', Some c' => Some (Message id v' a' c')
        | _, _, _ => None
        end
      else if is_sym "term" t then
        match dec_pattern n v, opt_all (map (dec_attribute n) attrs), dec_opt dec_comment c with
        | Some v', Some a', Some c' => Some (Term id v' a' c')
        | _, _, _ => None
        end
      else None
  | L (t :: lines) =>
      match opt_all (map dec_bytes lines) with
      | Some ls =>
          if is_sym "comment" t then Some (CommentEntry (Comment ls)) else
          if is_sym "gcomment" t then Some (GroupComment (Comment ls)) else
          if is_sym "rcomment" t then Some (ResourceComment (Comment ls)) else None
      | None => None
      end
  | _ => None
  end.

Definition dec_resource (x : sexp) : option resource :=
  match x with
  | L (t :: es) => if is_sym "res" t then opt_all (map (dec_entry (sdepth x)) es) else None
  | _ => None
  end.

(* Syntax/ParserLex.v — lexical validity of the IDENTIFIERS, NUMBERS and STRING LITERALS of a parser output:

     parse_lex : parse bs = Done (t, errs) -> Forall lex_entry t

   lex_entry e: the identifier of a message / term / attribute, of a variable / message / term / function reference,
   an attribute accessor, an identifier key and the name of a named argument is a well-formed identifier
   (Render.wf_identifier: an ASCII letter, then letters, digits, '_' '-'), at every nesting depth; the callee of a
   function reference consists of upper-case letters, digits, '_' '-' (ParserModel.is_callee); every NUMBER literal
   (as an expression and as a variant key) is a well-formed number (Render.wf_number: an optional '-', digits,
   optionally '.' and digits); every STRING literal is a well-formed quoted text (Render.wf_string: no '"' and no
   line feed; a backslash only in the escapes \\ \" \{ \uXXXX \UXXXXXX with hexadecimal digits).  Same knot traversal as ParserShape.v.                     *)
From FluentV Require Import Base.Bytes Base.Outcome Base.Utf8 Syntax.Ast Syntax.ParserModel Syntax.ParserAccounting.
From FluentV Require Import Syntax.Render Syntax.ParserShape.
From Coq Require Import Lia ZifyBool ZifyNat ZifyN List.
Import ListNotations.
Arguments N.add : simpl never. Arguments N.sub : simpl never. Arguments N.eqb : simpl never.
Arguments N.ltb : simpl never. Arguments N.leb : simpl never.

Ltac skipb := eapply spec_bind; [apply spec_any | intros; exact Logic.I | let sa := fresh "sa" in let sq := fresh "sq" in intros sa sq _].
Tactic Notation "skipn" ident(a) ident(q) := eapply spec_bind; [apply spec_any | intros; exact Logic.I | intros a q _].
Ltac useb H := eapply spec_bind; [apply H | intros; exact Logic.I | ].

Definition wfi (id : bytes) : Prop := wf_identifier id = true.
Definition wfo (o : option bytes) : Prop := match o with Some a => wfi a | None => True end.

Fixpoint lex_inline (i : inline) : Prop :=
  match i with
  | StringLiteral v => wf_string v = true
  | NumberLiteral v => wf_number v = true
  | FunctionReference id ca => wfi id /\ is_callee id = true /\ lex_args ca
  | MessageReference id att => wfi id /\ wfo att
  | TermReference id att args => wfi id /\ wfo att /\ match args with Some ca => lex_args ca | None => True end
  | VariableReference id => wfi id
  | Placeable e => lex_expr e
  end
with lex_expr (e : expression) : Prop :=
  match e with
  | Inline i => lex_inline i
  | Select s vs =>
      lex_inline s /\ (fix go (l : list variant) : Prop := match l with [] => True | v :: r => lex_variant v /\ go r end) vs
  end
with lex_variant (v : variant) : Prop :=
  match v with Variant k p _ => match k with KeyIdentifier n => wfi n | KeyNumber n => wf_number n = true end /\ lex_pattern p end
with lex_pattern (p : pattern) : Prop :=
  match p with
  | Pattern els => (fix go (l : list pattern_element) : Prop := match l with [] => True | x :: r => lex_element x /\ go r end) els
  end
with lex_element (x : pattern_element) : Prop :=
  match x with TextElement _ => True | PlaceableElement e => lex_expr e end
with lex_args (a : call_args) : Prop :=
  match a with
  | CallArguments pos named =>
      (fix go (l : list inline) : Prop := match l with [] => True | x :: r => lex_inline x /\ go r end) pos /\
      (fix go (l : list named_arg) : Prop := match l with [] => True | x :: r => lex_named x /\ go r end) named
  end
with lex_named (n : named_arg) : Prop :=
  match n with NamedArgument name v => wfi name /\ lex_inline v end.

Lemma lex_variants_forall vs :
  (fix go (l : list variant) : Prop := match l with [] => True | v :: r => lex_variant v /\ go r end) vs <-> Forall lex_variant vs.
Proof. induction vs as [|v r IH]; [split; [constructor | auto]|]. split; [intros [H1 H2]; constructor; [exact H1 | apply IH, H2] | intros H; inversion H; subst; split; [assumption | apply IH; assumption]]. Qed.
Lemma lex_elements_forall els :
  (fix go (l : list pattern_element) : Prop := match l with [] => True | x :: r => lex_element x /\ go r end) els <-> Forall lex_element els.
Proof. induction els as [|v r IH]; [split; [constructor | auto]|]. split; [intros [H1 H2]; constructor; [exact H1 | apply IH, H2] | intros H; inversion H; subst; split; [assumption | apply IH; assumption]]. Qed.
Lemma lex_pos_forall pos :
  (fix go (l : list inline) : Prop := match l with [] => True | x :: r => lex_inline x /\ go r end) pos <-> Forall lex_inline pos.
Proof. induction pos as [|v r IH]; [split; [constructor | auto]|]. split; [intros [H1 H2]; constructor; [exact H1 | apply IH, H2] | intros H; inversion H; subst; split; [assumption | apply IH; assumption]]. Qed.
Lemma lex_named_forall named :
  (fix go (l : list named_arg) : Prop := match l with [] => True | x :: r => lex_named x /\ go r end) named <-> Forall lex_named named.
Proof. induction named as [|v r IH]; [split; [constructor | auto]|]. split; [intros [H1 H2]; constructor; [exact H1 | apply IH, H2] | intros H; inversion H; subst; split; [assumption | apply IH; assumption]]. Qed.

Lemma lex_select s vs : lex_expr (Select s vs) <-> lex_inline s /\ Forall lex_variant vs.
Proof. cbn [lex_expr]. rewrite lex_variants_forall. reflexivity. Qed.
Lemma lex_pattern_els els : lex_pattern (Pattern els) <-> Forall lex_element els.
Proof. cbn [lex_pattern]. apply lex_elements_forall. Qed.
Lemma lex_args_eq pos named : lex_args (CallArguments pos named) <-> Forall lex_inline pos /\ Forall lex_named named.
Proof. cbn [lex_args]. rewrite lex_pos_forall, lex_named_forall. reflexivity. Qed.

Definition lex_attribute (a : attribute) : Prop := wfi (attr_id a) /\ lex_pattern (attr_value a).
Definition lex_entry (e : entry) : Prop :=
  match e with
  | Message id v attrs _ => wfi id /\ match v with Some p => lex_pattern p | None => True end /\ Forall lex_attribute attrs
  | Term id v attrs _ => wfi id /\ lex_pattern v /\ Forall lex_attribute attrs
  | _ => True
  end.

Section Lex.
Variable bs : bytes.

(* ---- identifiers ---- *)
Definition alpha_at (p : nat) : Prop := exists b, nth_error bs p = Some b /\ is_ascii_alphabetic b = true.

Lemma scan_ident_all p i b : i < scan_while is_ident_char (rest bs p) -> nth_error bs (p + i) = Some b -> is_ident_char b = true.
Proof. apply scan_while_range. Qed.

Lemma su_identifier_unchecked_lex p : 1 <= p -> alpha_at (p - 1) ->
  spec (get_identifier_unchecked bs) p (fun id _ => wfi id) ET.
Proof.
  intros Hp (b0 & Hb0 & Ha). unfold spec, get_identifier_unchecked.
  replace (Nat.leb 1 p) with true by (symmetry; apply Nat.leb_le; exact Hp).
  set (k := scan_while is_ident_char (rest bs p)).
  destruct (slice bs (p - 1) (k + p)) as [id| |] eqn:E; try exact Logic.I.
  unfold slice in E.
  destruct (Nat.leb (p - 1) (k + p) && Nat.leb (k + p) (length bs) && is_char_boundary bs (p - 1) && is_char_boundary bs (k + p)); [|discriminate E].
  injection E as <-. unfold wfi.
  replace (k + p - (p - 1)) with (S k) by lia.
  assert (Es : skipn (p - 1) bs = b0 :: skipn p bs).
  { rewrite (skipn_uncons bs (p - 1)), Hb0. replace (S (p - 1)) with p by lia. reflexivity. }
  rewrite Es. cbn [firstn wf_identifier]. unfold is_alpha. change (N.leb 65 b0 && N.leb b0 90 || N.leb 97 b0 && N.leb b0 122) with (is_ascii_alphabetic b0).
  rewrite Ha. cbn [andb]. apply forallb_forall. intros x Hx. apply In_nth_error in Hx as [i Hi].
  destruct (nth_error_firstn_some _ _ _ _ Hi) as [Hlt Hx]. rewrite nth_error_skipn_add in Hx.
  apply (scan_ident_all p i x Hlt Hx).
Qed.

Lemma su_identifier_lex p : spec (get_identifier bs) p (fun id _ => wfi id) ET.
Proof.
  unfold get_identifier. eapply spec_bind; [apply sp_is_identifier_start | intros ? ? []|]. intros st q [-> ->].
  destruct (byte_at bs p) as [b|] eqn:Eb; cbn [negb]; [|exact Logic.I].
  destruct (is_ascii_alphabetic b) eqn:Ea; cbn [negb]; [|exact Logic.I].
  eapply spec_bind; [apply sp_advance | intros ? ? []|]. intros u q ->.
  apply su_identifier_unchecked_lex; [lia|]. replace (1 + p - 1) with p by lia. exists b. split; [exact Eb | exact Ea].
Qed.

Lemma su_accessor_lex p : spec (get_attribute_accessor bs) p (fun o _ => wfo o) ET.
Proof.
  unfold get_attribute_accessor. skipn dot q1. destruct dot; [|apply spec_ret; exact Logic.I].
  useb (su_identifier_lex q1). intros id q2 Hid. apply spec_ret. exact Hid.
Qed.

(* ---- number literals: an optional '-', digits, optionally '.' and digits ---- *)
Lemma scan_digits_firstn l : forallb is_digit (firstn (scan_while is_ascii_digit l) l) = true /\
                             length (firstn (scan_while is_ascii_digit l) l) = scan_while is_ascii_digit l.
Proof.
  induction l as [|b r [IH1 IH2]]; [split; reflexivity|]. cbn [scan_while].
  destruct (is_ascii_digit b) eqn:E; [|split; reflexivity]. cbn [firstn forallb length]. rewrite IH2.
  change (is_digit b) with (is_ascii_digit b). rewrite E, IH1. split; reflexivity.
Qed.

Lemma split_dot_digits D : forall cur tl, forallb is_digit D = true -> split_dot (D ++ tl) cur = split_dot tl (rev D ++ cur).
Proof.
  induction D as [|d D IH]; intros cur tl H; [reflexivity|]. cbn [forallb] in H. apply andb_prop in H as [Hd HD].
  cbn [app split_dot]. replace (N.eqb d 46) with false by (unfold is_digit in Hd; lia).
  rewrite (IH (d :: cur) tl HD). cbn [rev]. rewrite <- app_assoc. reflexivity.
Qed.

Definition num_tail (od : option bytes) : bytes := match od with Some D2 => 46%N :: D2 | None => [] end.

Lemma wf_number_build (neg : bool) D1 (od : option bytes) : D1 <> [] -> forallb is_digit D1 = true ->
  match od with Some D2 => D2 <> [] /\ forallb is_digit D2 = true | None => True end ->
  wf_number ((if neg then [45%N] else []) ++ D1 ++ num_tail od) = true.
Proof.
  intros Hne HD1 Hod.
  assert (H1 : all_digits1 D1 = true) by (destruct D1; [congruence | exact HD1]).
  assert (Hcore : match split_dot (D1 ++ num_tail od) [] with
                  | (i, None) => all_digits1 i
                  | (i, Some f) => all_digits1 i && all_digits1 f
                  end = true).
  { rewrite (split_dot_digits D1 [] _ HD1), app_nil_r.
    destruct od as [D2|]; unfold num_tail; cbn [split_dot]; rewrite ?N.eqb_refl, rev_involutive, H1; [|reflexivity].
    destruct Hod as [Hne2 HD2]. destruct D2; [congruence | exact HD2]. }
  unfold wf_number. destruct neg; cbn [app].
  - rewrite N.eqb_refl. exact Hcore.
  - destruct D1 as [|d D1']; [congruence|]. cbn [app forallb] in *.
    apply andb_prop in HD1 as [Hd _]. replace (N.eqb d 45) with false by (unfold is_digit in Hd; lia). exact Hcore.
Qed.

Lemma is_byte_at_skipn c p : is_byte_at bs c p = true -> skipn p bs = c :: skipn (S p) bs.
Proof.
  unfold is_byte_at, byte_at. rewrite (skipn_uncons bs p). destruct (nth_error bs p) as [x|]; [|discriminate].
  intros H. apply N.eqb_eq in H. subst x. reflexivity.
Qed.

Lemma su_skip_digits p : spec (skip_digits bs) p
  (fun _ q => q = scan_while is_ascii_digit (rest bs p) + p /\ scan_while is_ascii_digit (rest bs p) <> 0) ET.
Proof.
  unfold spec, skip_digits. destruct (Nat.eqb (scan_while is_ascii_digit (rest bs p)) 0) eqn:E; [exact Logic.I|].
  apply Nat.eqb_neq in E. split; [reflexivity | exact E].
Qed.

Lemma firstn_digits_ne l : scan_while is_ascii_digit l <> 0 -> firstn (scan_while is_ascii_digit l) l <> [].
Proof. intros H E. apply (f_equal (@length N)) in E. rewrite (proj2 (scan_digits_firstn l)) in E. cbn in E. congruence. Qed.

Lemma skipn_skipn' {A} (x y : nat) (l : list A) : skipn x (skipn y l) = skipn (x + y) l.
Proof.
  revert l. induction y as [|y IH]; intros l; [rewrite Nat.add_0_r; reflexivity|].
  destruct l as [|a l]; [rewrite !skipn_nil; reflexivity|]. rewrite Nat.add_succ_r. cbn [skipn]. apply IH.
Qed.

Lemma rest_digits q : rest bs q = firstn (scan_while is_ascii_digit (rest bs q)) (rest bs q) ++ rest bs (scan_while is_ascii_digit (rest bs q) + q).
Proof. unfold rest at 4. rewrite <- (skipn_skipn' _ q bs). symmetry. apply firstn_skipn. Qed.

Lemma su_number_lex p : spec (get_number_literal bs) p (fun v _ => wf_number v = true) ET.
Proof.
  unfold get_number_literal.
  eapply spec_bind; [apply sp_get_ptr | intros ? ? []|]. intros start q0 [-> ->].
  eapply spec_bind; [apply sp_take_byte_if | intros ? ? []|]. intros neg q1 Hneg.
  eapply spec_bind; [apply su_skip_digits | intros; exact Logic.I|]. intros u2 q2 [Eq2 Hk1].
  eapply spec_bind; [apply sp_take_byte_if | intros ? ? []|]. intros dot q3 Hdot.
  destruct (scan_digits_firstn (rest bs q1)) as [HD1 HL1].
  pose proof (firstn_digits_ne _ Hk1) as HD1ne.
  pose proof (rest_digits q1) as Erest1. rewrite <- Eq2 in Erest1.
  set (D1 := firstn (scan_while is_ascii_digit (rest bs q1)) (rest bs q1)) in *.
  assert (Estart : rest bs p = (if neg then [45%N] else []) ++ rest bs q1).
  { destruct Hneg as [(-> & -> & Hb) | (-> & -> & _)]; [|reflexivity]. unfold rest. rewrite (is_byte_at_skipn 45 p Hb). reflexivity. }
  assert (Hq1 : q1 = length (if neg then [45%N] else []) + p) by (destruct Hneg as [(-> & -> & _) | (-> & -> & _)]; reflexivity).
  assert (Hfin : forall (od : option bytes) q4 v,
            match od with Some D2 => D2 <> [] /\ forallb is_digit D2 = true | None => True end ->
            rest bs q2 = num_tail od ++ rest bs q4 -> q4 = length (num_tail od) + q2 ->
            slice bs p q4 = Done v -> wf_number v = true).
  { intros od q4 v Hod Erest2 Eq4 Hsl. unfold slice in Hsl.
    destruct (Nat.leb p q4 && Nat.leb q4 (length bs) && is_char_boundary bs p && is_char_boundary bs q4); [|discriminate Hsl].
    injection Hsl as <-. fold (rest bs p). rewrite Estart, Erest1, Erest2.
    assert (Elen : q4 - p = length ((if neg then [45%N] else []) ++ D1 ++ num_tail od)) by (rewrite !app_length, HL1; lia).
    rewrite Elen. rewrite !app_assoc. rewrite firstn_app, Nat.sub_diag, firstn_O, app_nil_r, firstn_all. rewrite <- !app_assoc.
    apply wf_number_build; assumption. }
  destruct Hdot as [(-> & -> & Hb) | (-> & -> & _)].
  - eapply spec_bind; [apply su_skip_digits | intros; exact Logic.I|]. intros u4 q4 [Eq4 Hk2].
    eapply spec_bind; [apply sp_get_ptr | intros ? ? []|]. intros p0 q5 [-> ->].
    eapply spec_weaken; [apply sp_source_slice | | intros ? ? []]. intros v q6 [_ Hsl].
    destruct (scan_digits_firstn (rest bs (S q2))) as [HD2 HL2].
    apply (Hfin (Some (firstn (scan_while is_ascii_digit (rest bs (S q2))) (rest bs (S q2)))) q4 v).
    + split; [apply firstn_digits_ne, Hk2 | exact HD2].
    + unfold rest at 1. rewrite (is_byte_at_skipn 46 q2 Hb). unfold num_tail. cbn [app]. f_equal. fold (rest bs (S q2)).
      rewrite Eq4. apply rest_digits.
    + unfold num_tail. cbn [length]. rewrite HL2. lia.
    + exact Hsl.
  - eapply spec_bind with (Q1 := fun _ q' => q' = q2) (E1 := ET); [apply spec_ret; reflexivity | intros; exact Logic.I|]. intros u4 q4 ->.
    eapply spec_bind; [apply sp_get_ptr | intros ? ? []|]. intros p0 q5 [-> ->].
    eapply spec_weaken; [apply sp_source_slice | | intros ? ? []]. intros v q6 [_ Hsl].
    apply (Hfin None q2 v); [exact Logic.I | reflexivity | reflexivity | exact Hsl].
Qed.

(* ---- string literals: plain bytes (not '\' '"' LF) and the escapes \\ \" \{ \uXXXX \UXXXXXX ---- *)
Inductive str_ok : bytes -> Prop :=
| so_nil : str_ok []
| so_plain b r : N.eqb b 92 = false -> N.eqb b 34 = false -> N.eqb b 10 = false -> str_ok r -> str_ok (b :: r)
| so_esc c r : N.eqb c 92 || N.eqb c 34 || N.eqb c 123 = true -> str_ok r -> str_ok (92%N :: c :: r)
| so_u4 h r : forallb is_hex h = true -> length h = 4 -> str_ok r -> str_ok (92%N :: 117%N :: h ++ r)
| so_u6 h r : forallb is_hex h = true -> length h = 6 -> str_ok r -> str_ok (92%N :: 85%N :: h ++ r).

Lemma firstn_app_len {A} (a b : list A) : firstn (length a) (a ++ b) = a.
Proof. rewrite firstn_app, Nat.sub_diag, firstn_O, app_nil_r. apply firstn_all. Qed.
Lemma skipn_app_len' {A} (a b : list A) : skipn (length a) (a ++ b) = b.
Proof. induction a as [|x a IH]; [reflexivity | exact IH]. Qed.

Lemma str_ok_wf s : str_ok s -> forall m, length s < m -> wf_string_fuel m s = true.
Proof.
  induction 1 as [| b r H92 H34 H10 Hr IH | c r Hc Hr IH | h r Hh Hl Hr IH | h r Hh Hl Hr IH]; intros m Hm.
  - destruct m; [lia | reflexivity].
  - destruct m as [|m]; [lia|]. cbn [length] in Hm. cbn [wf_string_fuel]. rewrite H92, H34, H10. cbn [orb]. apply IH. lia.
  - destruct m as [|m]; [lia|]. cbn [length] in Hm. cbn [wf_string_fuel]. rewrite N.eqb_refl.
    replace (N.eqb c 92 || N.eqb c 34 || N.eqb c 123) with true. apply IH. lia.
  - destruct m as [|m]; [lia|]. cbn [length] in Hm. rewrite app_length in Hm. cbn [wf_string_fuel]. rewrite N.eqb_refl.
    change (N.eqb 117 92 || N.eqb 117 34 || N.eqb 117 123) with false. cbv iota. rewrite N.eqb_refl.
    rewrite <- Hl, firstn_app_len, skipn_app_len', Hh, Nat.eqb_refl. cbn [andb]. apply IH. lia.
  - destruct m as [|m]; [lia|]. cbn [length] in Hm. rewrite app_length in Hm. cbn [wf_string_fuel]. rewrite N.eqb_refl.
    change (N.eqb 85 92 || N.eqb 85 34 || N.eqb 85 123) with false. cbv iota. change (N.eqb 85 117) with false. cbv iota. rewrite N.eqb_refl.
    rewrite <- Hl, firstn_app_len, skipn_app_len', Hh, Nat.eqb_refl. cbn [andb]. apply IH. lia.
Qed.

Lemma str_ok_app a b : str_ok a -> str_ok b -> str_ok (a ++ b).
Proof.
  induction 1 as [| x r H92 H34 H10 Hr IH | c r Hc Hr IH | h r Hh Hl Hr IH | h r Hh Hl Hr IH]; intros Hb; cbn [app].
  - exact Hb.
  - apply so_plain; auto.
  - apply so_esc; auto.
  - rewrite <- app_assoc. apply so_u4; auto.
  - rewrite <- app_assoc. apply so_u6; auto.
Qed.

Lemma scan_while_firstn_le f k l : k <= scan_while f l -> forallb f (firstn k l) = true /\ length (firstn k l) = k.
Proof.
  revert l. induction k as [|k IH]; intros l Hk; [split; reflexivity|].
  destruct l as [|b r]; [cbn in Hk; lia|]. cbn [scan_while] in Hk. destruct (f b) eqn:E; [|lia].
  destruct (IH r ltac:(lia)) as [I1 I2]. cbn [firstn forallb length]. rewrite E, I1, I2. split; reflexivity.
Qed.

Lemma su_skip_unicode k p : spec (skip_unicode_escape_sequence bs k) p
  (fun _ q => q = k + p /\ k <= scan_while is_ascii_hexdigit (rest bs p)) ET.
Proof.
  unfold spec, skip_unicode_escape_sequence.
  destruct (Nat.eqb (Nat.min k (scan_while is_ascii_hexdigit (rest bs p))) k) eqn:E.
  - apply Nat.eqb_eq in E. split; [rewrite E; reflexivity | lia].
  - destruct (slice bs p _); exact Logic.I.
Qed.

Definition str_run (q q' : nat) : Prop := exists s, rest bs q = s ++ rest bs q' /\ q' = length s + q /\ str_ok s.

Lemma byte_at_rest q b : byte_at bs q = Some b -> rest bs q = b :: rest bs (S q).
Proof. unfold byte_at, rest. intros H. rewrite (skipn_uncons bs q), H. reflexivity. Qed.

Lemma str_run_step q q1 q' s0 : rest bs q = s0 ++ rest bs q1 -> q1 = length s0 + q -> str_ok s0 -> str_run q1 q' -> str_run q q'.
Proof.
  intros E0 Eq H0 (s & E & Eq' & Hs). exists (s0 ++ s). split; [rewrite E0, E, app_assoc; reflexivity|].
  split; [rewrite app_length; lia | apply str_ok_app; assumption].
Qed.

Lemma su_string_loop n : forall q, spec (string_loop bs n) q (fun _ q' => str_run q q') ET.
Proof.
  induction n as [|n IH]; intros q; [exact Logic.I|]. cbn [string_loop]. fold_knot bs.
  assert (Hnil : str_run q q) by (exists []; split; [reflexivity | split; [reflexivity | constructor]]).
  eapply spec_bind; [apply sp_current_byte | intros ? ? []|]. intros cb q0 [-> ->].
  destruct (byte_at bs q) as [b|] eqn:Eb; [|apply spec_ret; exact Hnil].
  destruct (N.eqb b 92) eqn:E92.
  - apply N.eqb_eq in E92. subst b.
    eapply spec_bind; [apply sp_get_ptr | intros ? ? []|]. intros p0 q1 [-> ->].
    destruct (byte_at bs (S q)) as [c|] eqn:Ec; [|exact Logic.I].
    assert (Er : rest bs q = [92%N; c] ++ rest bs (2 + q)).
    { rewrite (byte_at_rest q 92 Eb), (byte_at_rest (S q) c Ec). reflexivity. }
    destruct (N.eqb c 92 || N.eqb c 123 || N.eqb c 34) eqn:Esc.
    + eapply spec_bind; [apply sp_advance | intros ? ? []|]. intros u2 q2 ->.
      eapply spec_weaken; [apply IH | | intros; exact Logic.I]. intros u3 q3 Hrun.
      apply (str_run_step q (2 + q) q3 [92%N; c] Er eq_refl); [|exact Hrun].
      apply so_esc; [|constructor]. destruct (N.eqb c 92), (N.eqb c 123), (N.eqb c 34); try reflexivity; discriminate Esc.
    + assert (Hu : forall k cc, c = cc -> (k = 4 /\ cc = 117%N \/ k = 6 /\ cc = 85%N) ->
                spec (advance 2 ;;; skip_unicode_escape_sequence bs k ;;; string_loop bs n) q (fun _ q' => str_run q q') ET).
      { intros k cc -> Hk.
        eapply spec_bind; [apply sp_advance | intros ? ? []|]. intros u2 q2 ->.
        eapply spec_bind; [apply su_skip_unicode | intros; exact Logic.I|]. intros u3 q3 [-> Hscan].
        eapply spec_weaken; [apply IH | | intros; exact Logic.I]. intros u4 q4 Hrun.
        destruct (scan_while_firstn_le is_ascii_hexdigit k (rest bs (2 + q)) Hscan) as [Hhex Hlen].
        set (h := firstn k (rest bs (2 + q))) in *.
        assert (Eh : rest bs (2 + q) = h ++ rest bs (k + (2 + q))).
        { unfold h, rest. rewrite <- (skipn_skipn' k (2 + q) bs). symmetry. apply firstn_skipn. }
        apply (str_run_step q (k + (2 + q)) q4 (92%N :: cc :: h)); [| cbn [length]; lia | | exact Hrun].
        - rewrite Er, Eh. reflexivity.
        - rewrite <- (app_nil_r h). destruct Hk as [[-> ->] | [-> ->]]; [apply so_u4 | apply so_u6]; try assumption; constructor. }
      destruct (N.eqb c 117) eqn:E117; [apply N.eqb_eq in E117; apply (Hu 4 117%N E117); left; auto|].
      destruct (N.eqb c 85) eqn:E85; [apply N.eqb_eq in E85; apply (Hu 6 85%N E85); right; auto|].
      exact Logic.I.
  - destruct (N.eqb b 34) eqn:E34; [apply spec_ret; exact Hnil|].
    destruct (N.eqb b c_lf) eqn:E10; [exact Logic.I|].
    eapply spec_bind; [apply sp_advance | intros ? ? []|]. intros u2 q2 ->.
    eapply spec_weaken; [apply IH | | intros; exact Logic.I]. intros u3 q3 Hrun.
    apply (str_run_step q (1 + q) q3 [b]); [rewrite (byte_at_rest q b Eb); reflexivity | reflexivity | | exact Hrun].
    apply so_plain; [exact E92 | exact E34 | exact E10 | constructor].
Qed.

Lemma su_string_slice start q' v : str_run start q' -> slice bs start q' = Done v -> wf_string v = true.
Proof.
  intros (s & E & Eq & Hs) Hsl. unfold slice in Hsl.
  destruct (Nat.leb start q' && Nat.leb q' (length bs) && is_char_boundary bs start && is_char_boundary bs q'); [|discriminate Hsl].
  injection Hsl as <-. fold (rest bs start). rewrite E. replace (q' - start) with (length s) by lia. rewrite firstn_app_len.
  unfold wf_string. apply (str_ok_wf s Hs). lia.
Qed.

Definition key_lex (k : variant_key) : Prop := match k with KeyIdentifier n => wfi n | KeyNumber n => wf_number n = true end.

Lemma su_key_lex p : spec (get_variant_key bs) p (fun k _ => key_lex k) ET.
Proof.
  unfold get_variant_key. skipn u1 q1. skipn ns q2.
  eapply spec_bind with (Q1 := fun k _ => key_lex k) (E1 := ET); [|intros; exact Logic.I|].
  - destruct ns; [useb (su_number_lex q2); intros v q3 Hv; apply spec_ret; exact Hv | useb (su_identifier_lex q2); intros v q3 Hv; apply spec_ret; exact Hv].
  - intros k q3 Hk. skipn u4 q4. skipn u5 q5. apply spec_ret. exact Hk.
Qed.

(* ---- patterns ---- *)
Definition phl (ph : placeholder) : Prop := match ph with PHPlaceable e => lex_expr e | PHText _ _ _ _ => True end.
Definition stl (st : pstate) : Prop := Forall phl (elements st).

Lemma sl_finish_element lnb ci i ph p : phl ph ->
  spec (finish_element bs lnb ci i ph) p (fun r _ => match r with Some x => lex_element x | None => True end) ET.
Proof.
  intros Hph. destruct ph as [e | s e ind r]; unfold finish_element.
  - apply spec_ret. exact Hph.
  - destruct (Nat.eqb _ e); [apply spec_ret; exact Logic.I|]. skipn v q. apply spec_ret. exact Logic.I.
Qed.

Lemma sl_finish_elements lnb ci : forall phs i p, Forall phl phs ->
  spec (finish_elements bs lnb ci i phs) p (fun els _ => Forall lex_element els) ET.
Proof.
  induction phs as [|ph r IH]; intros i p Hall; cbn [finish_elements]; [apply spec_ret; constructor|].
  inversion Hall as [|? ? Hph Hr]; subst.
  useb (sl_finish_element lnb ci i ph p Hph). intros x q Hx. useb (IH (S i) q Hr). intros xs q2 Hxs. apply spec_ret.
  destruct x as [x|]; [constructor; assumption | exact Hxs].
Qed.

Lemma drop_tail_rev_lex R : Forall lex_element R -> Forall lex_element (drop_empty_tail_rev R).
Proof.
  induction R as [|x r IH]; intros H; [constructor|]. inversion H; subst.
  destruct x as [v|e]; cbn [drop_empty_tail_rev]; [|exact H].
  destruct (trim_end v); [apply IH; assumption | constructor; [exact Logic.I | assumption]].
Qed.

Definition LP : option pattern -> nat -> Prop := fun r _ => match r with Some p => lex_pattern p | None => True end.

Lemma sl_finish_pattern st p : stl st -> spec (finish_pattern bs st) p LP ET.
Proof.
  intros Hst. unfold finish_pattern. destruct (last_non_blank st) as [lnb|]; [|apply spec_ret; exact Logic.I].
  useb (sl_finish_elements lnb (common_indent st) (firstn (S lnb) (rev (elements st))) 0 p ltac:(apply Forall_firstn, Forall_rev, Hst)).
  intros els q Hels. apply spec_ret. unfold LP, drop_empty_tail.
  assert (H : Forall lex_element (rev (drop_empty_tail_rev (rev els)))) by (apply Forall_rev, drop_tail_rev_lex, Forall_rev, Hels).
  destruct (rev (drop_empty_tail_rev (rev els))); [exact Logic.I | apply lex_pattern_els, H].
Qed.

Lemma text_step_l st slice_start indent ts : stl st -> stl (text_step st slice_start indent ts).
Proof.
  intros Hst. destruct ts as [[[start end_] nonblank] term]. unfold text_step, stl in *.
  assert (Hnew : Forall phl (PHText slice_start end_ indent (role st) :: elements st)) by (constructor; [exact Logic.I | exact Hst]).
  assert (Hnew0 : Forall phl (PHText start end_ 0 (role st) :: elements st)) by (constructor; [exact Logic.I | exact Hst]).
  destruct (negb (Nat.eqb start end_)).
  - destruct (negb (is_line_start (role st)) || nonblank || match term with TLineFeed => true | _ => false end); cbn [elements]; [|assumption].
    destruct (is_line_start (role st) && negb nonblank); assumption.
  - destruct (is_line_start (role st) && match term with TPlaceableStart => true | _ => false end); cbn [elements]; assumption.
Qed.

Definition LA : option call_args -> nat -> Prop := fun r _ => match r with Some ca => lex_args ca | None => True end.

Definition knot_l (n : nat) : Prop :=
  (forall p, spec (get_pattern bs n) p LP ET) /\
  (forall st p, stl st -> spec (pattern_loop bs n st) p (fun st' _ => stl st') ET) /\
  (forall p, spec (get_placeable bs n) p (fun e _ => lex_expr e) ET) /\
  (forall p, spec (get_expression bs n) p (fun e _ => lex_expr e) ET) /\
  (forall p, spec (get_variants bs n) p (fun vs _ => Forall lex_variant vs) ET) /\
  (forall acc (hd : bool) p, Forall lex_variant acc -> spec (variants_loop bs n acc hd) p (fun vs _ => Forall lex_variant vs) ET) /\
  (forall ol p, spec (get_inline_expression bs n ol) p (fun i _ => lex_inline i) ET) /\
  (forall p, spec (get_call_arguments bs n) p LA ET) /\
  (forall pos named names p, Forall lex_inline pos -> Forall lex_named named ->
                             spec (args_loop bs n pos named names) p (fun ca _ => lex_args ca) ET).

Lemma knot_l_all n : knot_l n.
Proof.
  induction n as [|n (IH1 & IH2 & IH3 & IH4 & IH5 & IH6 & IH7 & IH8 & IH9)]; unfold knot_l.
  - repeat split; intros; exact Logic.I.
  - repeat match goal with |- _ /\ _ => split end.
    + intros p. cbn [get_pattern]. fold_knot bs.
      skipb. skipb. skipn r qr.
      useb (IH2 (PState [] 0 None None r) qr ltac:(constructor)). intros st q Hst. apply (sl_finish_pattern st q Hst).
    + intros st p Hst. rewrite pattern_loop_S.
      skipn p0 q0. destruct (negb (Nat.ltb p0 (length_ bs))); [apply spec_ret; exact Hst|].
      skipn brace q1. destruct brace.
      * useb (IH3 q1). intros e q2 He. apply IH2. constructor; [exact He | exact Hst].
      * skipn ss q2. skipn pro q3. destruct pro as [indent|]; [|apply spec_ret; exact Hst].
        skipn ts q4. destruct ts as [[[start end_] nb] term]. apply IH2. apply (text_step_l st ss indent (start, end_, nb, term) Hst).
    + intros p. cbn [get_placeable]. fold_knot bs.
      skipn u1 q1. useb (IH4 q1). intros e q2 He. skipb. skipb.
      destruct e as [s vs | i]; [apply spec_ret; exact He|].
      destruct i as [? | ? | ? ? | ? ? | ? [?|] ? | ? | ?]; try (apply spec_ret; exact He). exact Logic.I.
    + intros p. cbn [get_expression]. fold_knot bs.
      useb (IH7 false p). intros i q Hi. skipn u1 q1. skipn p0 q2.
      destruct (negb (is_byte_at bs 45 p0) || negb (is_byte_at bs 62 (S p0))).
      * destruct i as [? | ? | ? ? | ? ? | ? [?|] ? | ? | ?]; try (apply spec_ret; exact Hi). exact Logic.I.
      * skipb. skipb. skipb. skipn eol q5. destruct (negb eol); [exact Logic.I|]. skipn u6 q6.
        useb (IH5 q6). intros vs q7 Hv. apply spec_ret. apply lex_select. split; assumption.
    + intros p. cbn [get_variants]. fold_knot bs. apply IH6. constructor.
    + intros acc hd p Hacc. cbn [variants_loop]. fold_knot bs.
      skipn dflt q1. destruct (dflt && hd); [exact Logic.I|].
      skipn br q2. destruct (negb br).
      * destruct dflt; [exact Logic.I|]. destruct (hd || false); [|exact Logic.I]. apply spec_ret. apply Forall_rev, Hacc.
      * useb (su_key_lex q2). intros key q3 Hk. useb (IH1 q3). intros v q4 Hv. destruct v as [v|]; [|exact Logic.I]. skipn u5 q5.
        apply IH6. constructor; [|exact Hacc]. cbn [lex_variant]. split; [destruct key; exact Hk | exact Hv].
    + intros ol p. cbn [get_inline_expression]. fold_knot bs.
      eapply spec_bind; [apply sp_current_byte | intros ? ? []|]. intros cb q0 [-> ->].
      destruct (byte_at bs p) as [b|] eqn:Eb; [|destruct ol; exact Logic.I].
      destruct (N.eqb b 34).
      { eapply spec_bind; [apply sp_advance | intros ? ? []|]. intros u1 q1 ->.
        eapply spec_bind; [apply sp_get_ptr | intros ? ? []|]. intros start q2 [-> ->].
        useb (su_string_loop n (1 + p)). intros u3 q3 Hrun.
        eapply spec_bind; [apply sp_expect_byte | intros; exact Logic.I|]. intros u4 q4 [-> _].
        eapply spec_bind; [apply sp_get_ptr | intros ? ? []|]. intros p0 q5 [-> ->].
        skipb.
        eapply spec_bind; [apply sp_source_slice | intros ? ? []|]. intros v q7 [_ Hsl]. apply spec_ret.
        cbn [lex_inline]. replace (S q3 - 1) with q3 in Hsl by lia. apply (su_string_slice (1 + p) q3 v Hrun Hsl). }
      destruct (is_ascii_digit b); [useb (su_number_lex p); intros num qn Hnum; apply spec_ret; exact Hnum|].
      destruct (N.eqb b 45 && negb ol).
      { eapply spec_bind; [apply sp_advance | intros ? ? []|]. intros u1 q1 ->.
        eapply spec_bind; [apply sp_is_identifier_start | intros ? ? []|]. intros st1 q2 [-> ->].
        destruct (byte_at bs (1 + p)) as [b1|] eqn:Eb1; [|skipn ur qr; useb (su_number_lex qr); intros num qn Hnum; apply spec_ret; exact Hnum].
        destruct (is_ascii_alphabetic b1) eqn:Ea1; [|skipn ur qr; useb (su_number_lex qr); intros num qn Hnum; apply spec_ret; exact Hnum].
        eapply spec_bind; [apply sp_advance | intros ? ? []|]. intros u3 q3 ->.
        useb (su_identifier_unchecked_lex (1 + (1 + p)) ltac:(lia) ltac:(replace (1 + (1 + p) - 1) with (1 + p) by lia; exists b1; auto)).
        intros id q4 Hid. useb (su_accessor_lex q4). intros att q5 Hatt.
        useb (IH8 q5). intros args q6 Hargs. apply spec_ret. cbn [lex_inline]. split; [exact Hid | split; [exact Hatt | destruct args; exact Hargs || exact Logic.I]]. }
      destruct (N.eqb b 45); [useb (su_number_lex p); intros num qn Hnum; apply spec_ret; exact Hnum|].
      destruct (N.eqb b 36 && negb ol); [skipb; useb (su_identifier_lex sq); intros id q2 Hid; apply spec_ret; exact Hid|].
      destruct (is_ascii_alphabetic b && negb ol) eqn:Ea'.
      { assert (Ea : is_ascii_alphabetic b = true) by (apply andb_prop in Ea' as [Ea' _]; exact Ea').
        eapply spec_bind; [apply sp_advance | intros ? ? []|]. intros u1 q1 ->.
        useb (su_identifier_unchecked_lex (1 + p) ltac:(lia) ltac:(replace (1 + p - 1) with p by lia; exists b; auto)).
        intros id q2 Hid. useb (IH8 q2). intros args q3 Hargs. destruct args as [args|].
        - destruct (negb (is_callee id)) eqn:Ec; [exact Logic.I | apply spec_ret; cbn [lex_inline]].
          apply negb_false_iff in Ec. split; [exact Hid | split; [exact Ec | exact Hargs]].
        - useb (su_accessor_lex q3). intros att q4 Hatt. apply spec_ret. split; assumption. }
      destruct (N.eqb b 123 && negb ol).
      { skipn u1 q1. useb (IH3 q1). intros e q2 He. apply spec_ret. exact He. }
      destruct ol; exact Logic.I.
    + intros p. cbn [get_call_arguments]. fold_knot bs.
      skipb. skipn op q2. destruct (negb op); [apply spec_ret; exact Logic.I|].
      skipn u3 q3. useb (IH9 [] [] [] q3 ltac:(constructor) ltac:(constructor)). intros ca q4 Hca. skipb. apply spec_ret. exact Hca.
    + intros pos named names p Hpos Hnamed. cbn [args_loop]. fold_knot bs.
      skipn p0 q0.
      assert (Hret : lex_args (CallArguments (rev pos) (rev named))) by (apply lex_args_eq; split; apply Forall_rev; assumption).
      destruct (negb (Nat.ltb p0 (length_ bs))); [apply spec_ret; exact Hret|].
      destruct (is_byte_at bs 41 p0); [apply spec_ret; exact Hret|].
      useb (IH7 false q0). intros e q He.
      eapply spec_bind with (Q1 := fun st _ => let '(a, b, c) := st in Forall lex_inline a /\ Forall lex_named b) (E1 := ET); [|intros; exact Logic.I|].
      * assert (Hpos' : forall q', spec (match names with [] => ret (e :: pos, named, names) | _ :: _ => error_here PositionalArgumentFollowsNamed end) q'
                             (fun st _ => let '(a, b, c) := st in Forall lex_inline a /\ Forall lex_named b) ET).
        { intros q'. destruct names; [apply spec_ret; split; [constructor; assumption | assumption] | exact Logic.I]. }
        destruct e as [? | ? | ? ? | id [a|] | ? ? ? | ? | ?]; try apply Hpos'.
        skipn u1 q1. skipn colon q2. destruct colon; [|apply Hpos'].
        destruct (has_name names id); [exact Logic.I|]. skipn u3 q3. skipn u4 q4. useb (IH7 true q4). intros v q5 Hv.
        apply spec_ret. split; [exact Hpos|]. constructor; [|exact Hnamed]. cbn [lex_named]. cbn [lex_inline] in He. split; [apply He | exact Hv].
      * intros [[a b] c] q2 [Ha Hb]. skipb. skipb. skipb. apply IH9; assumption.
Qed.

(* ---- entries ---- *)
Lemma sl_get_pattern n p : spec (get_pattern bs n) p LP ET.
Proof. apply (proj1 (knot_l_all n)). Qed.

Lemma sl_get_attribute n p : spec (get_attribute bs n) p (fun a _ => lex_attribute a) ET.
Proof.
  unfold get_attribute. useb (su_identifier_lex p). intros id q1 Hid. skipn u2 q2. skipn u3 q3. useb (sl_get_pattern n q3). intros pat q4 Hp.
  destruct pat as [pat|]; [apply spec_ret; split; assumption | exact Logic.I].
Qed.

Lemma sl_get_attributes n : forall acc p, Forall lex_attribute acc ->
  spec (get_attributes bs n acc) p (fun attrs _ => Forall lex_attribute attrs) ET.
Proof.
  induction n as [|n IH]; intros acc p Hacc; [exact Logic.I|]. cbn [get_attributes].
  skipn ls q1. skipn u2 q2. skipn dot q3.
  destruct (negb dot); [skipb; apply spec_ret; apply Forall_rev, Hacc|].
  eapply spec_bind; [apply spec_try, (sl_get_attribute n q3) | intros ? ? []|].
  intros r q4 Hr. destruct r as [e | attr].
  - skipb. apply spec_ret. apply Forall_rev, Hacc.
  - apply IH. constructor; assumption.
Qed.

Lemma sl_get_message n es p : spec (get_message bs n es) p (fun e _ => lex_entry e) ET.
Proof.
  unfold get_message. useb (su_identifier_lex p). intros id q1 Hid. skipn u2 q2. skipn u3 q3. useb (sl_get_pattern n q3). intros pat q4 Hp.
  skipn u5 q5. useb (sl_get_attributes n [] q5 ltac:(constructor)). intros attrs q6 Ha.
  destruct pat as [pat|]; [apply spec_ret; split; [exact Hid | split; assumption]|].
  destruct attrs as [|a r]; [skipb; exact Logic.I | apply spec_ret; split; [exact Hid | split; [exact Logic.I | exact Ha]]].
Qed.

Lemma sl_get_term n es p : spec (get_term bs n es) p (fun e _ => lex_entry e) ET.
Proof.
  unfold get_term. skipn u0 q0. useb (su_identifier_lex q0). intros id q1 Hid. skipn u2 q2. skipn u3 q3. skipn u4 q4.
  useb (sl_get_pattern n q4). intros pat q5 Hp. skipn u6 q6. useb (sl_get_attributes n [] q6 ltac:(constructor)). intros attrs q7 Ha.
  destruct pat as [pat|]; [apply spec_ret; split; [exact Hid | split; assumption] | skipb; exact Logic.I].
Qed.

Lemma sl_get_entry n es p : spec (get_entry bs n es) p (fun e _ => lex_entry e) ET.
Proof.
  unfold get_entry. skipn cb q0. destruct cb as [b|]; [|apply sl_get_message].
  destruct (N.eqb b 35).
  - skipn cl q1. destruct cl as [c lvl]. destruct lvl; try (apply spec_ret; exact Logic.I). exact Logic.I.
  - destruct (N.eqb b 45); [apply sl_get_term | apply sl_get_message].
Qed.

Lemma lex_attach e c : lex_entry e -> lex_entry (attach e c).
Proof. destruct e; exact (fun H => H). Qed.

Lemma sl_parse_loop n : forall body errors lc cnt p, Forall lex_entry body ->
  spec (parse_loop bs n body errors lc cnt) p (fun r _ => Forall lex_entry (fst r)) ET.
Proof.
  induction n as [|n IH]; intros body errors lc cnt p Hbody; [exact Logic.I|]. cbn [parse_loop].
  skipn p0 q0.
  destruct (negb (Nat.ltb p0 (length_ bs))).
  { apply spec_ret. cbn [fst]. apply Forall_rev. destruct lc; [constructor; [exact Logic.I | exact Hbody] | exact Hbody]. }
  eapply spec_bind; [apply spec_try, (sl_get_entry n p0 q0) | intros ? ? []|].
  intros r q1 Hr.
  set (rb := match lc with
             | Some c =>
                 match r with
                 | inr (Message _ _ _ _ as e) | inr (Term _ _ _ _ as e) =>
                     if Nat.ltb cnt 2 then (inr (attach e c), body) else (r, CommentEntry c :: body)
                 | _ => (r, CommentEntry c :: body)
                 end
             | None => (r, body)
             end).
  assert (Hrb : match fst rb with inr e => lex_entry e | inl _ => True end /\ Forall lex_entry (snd rb)).
  { unfold rb. destruct lc as [c|]; [|split; [exact Hr | exact Hbody]].
    assert (Hb' : Forall lex_entry (CommentEntry c :: body)) by (constructor; [exact Logic.I | exact Hbody]).
    destruct r as [e | e]; [split; [exact Logic.I | exact Hb']|].
    destruct e; try (split; [exact Hr | exact Hb']); destruct (Nat.ltb cnt 2); split; try exact Hr; try exact Hb'; try exact Hbody. }
  destruct rb as [r' body'] eqn:Erb. cbn [fst snd] in Hrb. destruct Hrb as [Hr' Hb'].
  eapply spec_bind with (Q1 := fun st _ => Forall lex_entry (fst (fst st))) (E1 := ET); [|intros; exact Logic.I|].
  - destruct r' as [err | e].
    + eapply spec_bind with (Q1 := fun ej _ => lex_entry (snd ej)) (E1 := ET); [|intros; exact Logic.I|].
      * unfold recover. skipn rew q2. skipn p2 q3. skipn content0 q4. apply spec_ret. exact Logic.I.
      * intros ej q2 Hej. apply spec_ret. cbn [fst]. constructor; [exact Hej | exact Hb'].
    + destruct e; try (apply spec_ret; cbn [fst]; constructor; [exact Hr' | exact Hb']).
      apply spec_ret. cbn [fst]. exact Hb'.
  - intros [[b1 e1] l1] q2 Hst. cbn [fst] in Hst. skipn c2 q3. apply IH. exact Hst.
Qed.

Theorem parse_m_lex n : spec (parse_m bs n) 0 (fun r _ => Forall lex_entry (fst r)) ET.
Proof. unfold parse_m. skipn u q. apply sl_parse_loop. constructor. Qed.

End Lex.

Theorem parse_lex bs t errs : parse bs = Done (t, errs) -> Forall lex_entry t.
Proof.
  unfold parse. intros H. pose proof (parse_m_lex bs (fuel_for bs)) as Hs. unfold spec in Hs.
  destruct (parse_m bs (fuel_for bs) 0) as [[t' e'] q | e q | m |]; cbn [to_outcome] in H; try discriminate H.
  injection H as -> ->. exact Hs.
Qed.

(* Syntax/RoundTripNest.v — property C02 with NESTED call arguments: the positional arguments of a function
   reference / term reference are arbitrary inline expressions (calls, term attributes, placeables that hold
   any expression of the class, select expressions included), at every nesting depth.

   Two classes, indexed by the nesting depth d:
     aokn d i   the inline expression i may stand as a positional ARGUMENT
     eokn d e   the expression e may stand in a PLACEABLE
   depth 0: simple inline expressions (ParseLemmas.simple_inline);
   aokn (d+1): a simple one, a function reference / a term reference (with or without attribute) whose
       arguments are of ArgsNest.gargs_ok (aokn d), a term attribute without arguments, a placeable { e } with
       eokn d e;
   eokn (d+1): an inline expression of ArgsNest.binl (aokn d) (simple, or a call with arguments of aokn d), a
       placeable around an expression of eokn d, a select expression whose selector is of ArgsNest.bsl (aokn d)
       and whose variant values are patterns (RoundTripML.wl_pattern) with placeables of eokn d.
     1. the parser on selectors and placeables (generic in the argument class)
     2. the classes, their layouts, render
     3. all facts by induction on the depth
     4. parse (render cs t); the fragment contains RoundTripSel.sel_resource                             *)
From FluentV Require Import Base.Bytes Base.Outcome Base.Utf8 Base.Utf8Facts.
From FluentV Require Import Syntax.Ast Syntax.ParserModel Syntax.Render Syntax.TreeNorm Syntax.ParseLemmas Syntax.RoundTrip
  Syntax.EntryLoop Syntax.RoundTripML Syntax.CallArgs Syntax.RoundTripSel Syntax.ArgsNest.
From Coq Require Import Lia ZifyBool ZifyNat ZifyN.

Arguments N.add : simpl never.
Arguments N.sub : simpl never.
Arguments N.eqb : simpl never.
Arguments N.ltb : simpl never.
Arguments N.leb : simpl never.

(* ---------------------------------------------------------------------------------------------- *)
(* 1. The parser on selectors and placeables                                                        *)

(* the text of a select expression with a selector of ArgsNest.bsl *)
Inductive gselect_layout (atext : inline -> bytes -> Prop) (vl : list pattern_element -> bytes -> Prop) :
  expression -> bytes -> Prop :=
| gsell sel vs Xs b1' j x0 W0 VS :
    gseltext atext sel Xs -> all_blank b1' -> (ends_with_id_char Xs = true -> b1' <> []) -> is_eol_bytes x0 -> all_blank W0 ->
    variants_layout vl vs VS ->
    gselect_layout atext vl (Select sel vs) (Xs ++ b1' ++ [45; 62]%N ++ sp j ++ x0 ++ W0 ++ VS).

(* "-" id "." attribute in front of a blank and a delimiter (no arguments): the blank is skipped *)
Lemma get_inline_term_attr_d bs id a b c t p n :
  wf_identifier id = true -> wf_identifier a = true -> all_blank b -> delim c ->
  at_ bs p (45%N :: id ++ 46%N :: a ++ b ++ c :: t) -> 4 <= n ->
  get_inline_expression bs n false p =
  Ok (TermReference id (Some a) None) (length (45%N :: id ++ 46%N :: a) + length b + p).
Proof.
  intros Hid Ha Hb Hc H Hn. destruct n as [|[|n]]; try lia. destruct id as [|b0 r]; [discriminate|].
  cbn [wf_identifier] in Hid. apply andb_prop in Hid as [Hb0 Hr]. rewrite is_alpha_eq in Hb0.
  cbn [get_inline_expression]. rewrite bind_current_byte. rewrite (at_byte _ _ _ _ H).
  change (N.eqb 45 34) with false. change (is_ascii_digit 45) with false. change (N.eqb 45 45 && negb false) with true. cbv iota.
  rewrite bind_advance. change (1 + p) with (S p).
  pose proof (at_cons _ _ _ _ H) as H0.
  step (is_identifier_start_at bs _ b0 _ H0). rewrite Hb0. rewrite bind_advance. change (1 + S p) with (S (S p)).
  assert (H0' : at_ bs (S p) ((b0 :: r) ++ 46%N :: a ++ b ++ c :: t)) by exact H0.
  step (get_identifier_unchecked_ok bs (S p) b0 r _ H0' (alpha_not_cont _ Hb0) Hr eq_refl eq_refl).
  pose proof (at_app _ _ _ _ H0') as H1.
  unfold get_attribute_accessor. rewrite bind_assoc. step (take_byte_if_yes bs _ 46 _ H1).
  pose proof (at_cons _ _ _ _ H1) as H2.
  destruct (all_blank_head_delim b c t Hb Hc) as (Hh1 & Hh2 & _).
  rewrite bind_assoc. step (get_identifier_ok bs _ a _ H2 Ha Hh1 Hh2). rewrite bind_ret.
  pose proof (at_app _ _ _ _ H2) as H3.
  step (get_call_arguments_none_d bs b c t _ (S n) Hb Hc H3 ltac:(lia)).
  unfold ret. f_equal. cbn [length]. rewrite !app_length. cbn [length]. lia.
Qed.

Section NSel.
Variable aok : inline -> bool.
Variable atext : inline -> bytes -> Prop.
Variable agood : inline -> Prop.
Variable eok : expression -> bool.
Variable etext : expression -> bytes -> Prop.
Variable egood : expression -> Prop.
Variable bs : bytes.

Hypothesis Hahead : forall i X, aok i = true -> atext i X ->
  exists b0 t0, X = b0 :: t0 /\ N.eqb b0 41 = false /\ N.eqb b0 32 = false /\ N.eqb b0 10 = false /\ N.eqb b0 13 = false.
Hypothesis Haparse : forall i X b c t p n,
  aok i = true -> atext i X -> all_blank b -> delim c -> at_ bs p (X ++ b ++ c :: t) ->
  3 * length (X ++ b ++ c :: t) + 6 <= n ->
  exists i' q, get_inline_expression bs n false p = Ok i' q /\ irel agood i' i /\
               (q = length X + p \/ q = length X + length b + p).
Hypothesis Hpat : forall els V T used c nx p n,
  wl_pattern eok (Pattern els) = true -> wl_value_layout etext els V -> after_value T used c nx -> at_ bs p (V ++ T) ->
  3 * length (V ++ T) + 12 <= n ->
  exists els', get_pattern bs n p = Ok (Some (Pattern els')) (used + (length V + p)) /\ srel egood els' els.

(* what get_inline_expression returns for a call or a selector: the same expression up to its arguments *)
Definition crel (i' i : inline) : Prop := join_inline i' = join_inline i /\ good_inl agood i'.

Lemma crel_refl i : (forall ca, match i with FunctionReference _ c => c <> ca | TermReference _ _ (Some c) => c <> ca | _ => True end) -> crel i i.
Proof. intros H. split; [reflexivity|]. destruct i as [s | v | id ca | id att | id att [ca|] | id | e]; try exact Logic.I; exfalso; apply (H ca eq_refl). Qed.

Lemma crel_simple i : simple_inline i = true -> crel i i.
Proof.
  intros Hi. split; [reflexivity|]. destruct i as [s | v | id ca | id att | id [a|] [ca|] | id | e]; try discriminate Hi; exact Logic.I.
Qed.

(* ---- the selector ---- *)
Lemma gget_selector sel Xs b1' t p n :
  bsl aok sel = true -> gseltext atext sel Xs -> all_blank b1' -> (ends_with_id_char Xs = true -> b1' <> []) ->
  at_ bs p (Xs ++ b1' ++ 45%N :: t) -> 3 * length (Xs ++ b1' ++ 45%N :: t) + 6 <= n ->
  exists sel', get_inline_expression bs n false p = Ok sel' (length Xs + (if sel_eats sel then length b1' else 0) + p) /\
               crel sel' sel.
Proof.
  intros Hsel HX Hb Hid H Hn. pose proof (gseltext_ends_id aok atext sel Xs Hsel HX) as Hends. revert Hsel Hends H Hn Hid.
  destruct HX as [i Hi | id ca b A Hb0 HA | id a | id a ca b A Hb0 HA]; intros Hsel Hends H Hn Hid.
  - assert (Hso : sel_ok i = true /\ sel_eats i = false).
    { destruct i as [s | v | id args | id att | id [a|] [ca|] | id | e]; try discriminate Hsel; try discriminate Hi;
        split; try reflexivity; exact Hi. }
    destruct Hso as [Hso ->]. rewrite Nat.add_0_r. exists i. split; [|apply (crel_simple i Hi)].
    apply (get_selector eok etext egood bs Hpat i b1' t p n Hso Hb Hid H).
    rewrite !app_length in Hn. lia.
  - cbn [bsl] in Hsel. apply andb_prop in Hsel as [Hcal Hca]. cbn [sel_eats]. rewrite Nat.add_0_r.
    destruct (gget_inline_function aok atext agood Hahead bs Haparse id ca b A (b1' ++ 45%N :: t) p n Hcal Hca Hb0 HA) as (ca' & E & Hrel).
    + rewrite <- !app_assoc in H. exact H.
    + rewrite <- !app_assoc in Hn. exact Hn.
    + exists (FunctionReference id ca'). split; [exact E|]. split.
      * cbn [join_inline]. rewrite (arel_join_eq agood ca' ca Hrel). reflexivity.
      * apply (arel_good agood ca' ca Hrel).
  - cbn [bsl] in Hsel. apply andb_prop in Hsel as [Hsel _]. apply andb_prop in Hsel as [Hidw Ha]. cbn [sel_eats].
    exists (TermReference id (Some a) None). split; [|split; [reflexivity | exact Logic.I]].
    apply (get_inline_term_attr bs id a b1' t p n Hidw Ha Hb (Hid (Hends eq_refl))); [|lia].
    cbn [app] in H. rewrite <- !app_assoc in H. cbn [app] in H. rewrite <- ?app_assoc in H. exact H.
  - cbn [bsl] in Hsel. apply andb_prop in Hsel as [Hsel Hca]. apply andb_prop in Hsel as [Hidw Ha]. cbn [sel_eats]. rewrite Nat.add_0_r.
    destruct (gget_inline_term_args aok atext agood Hahead bs Haparse id (Some a) ca b A (b1' ++ 45%N :: t) p n Hidw Ha Hca Hb0 HA) as (ca' & E & Hrel).
    + cbn [app] in H. rewrite <- !app_assoc in H. cbn [app] in H. rewrite <- ?app_assoc in H. exact H.
    + cbn [app] in Hn. rewrite <- !app_assoc in Hn. cbn [app] in Hn. rewrite <- ?app_assoc in Hn. exact Hn.
    + exists (TermReference id (Some a) (Some ca')). split; [rewrite E; f_equal|]. split.
      * cbn [join_inline]. rewrite (arel_join_eq agood ca' ca Hrel). reflexivity.
      * apply (arel_good agood ca' ca Hrel).
Qed.


(* the selector check of get_expression passes *)
Lemma crel_chk sel' sel : crel sel' sel -> bsl aok sel = true -> forall B (g : unit -> M B) q,
  bind (match sel' with
        | MessageReference _ None => error_here MessageReferenceAsSelector
        | MessageReference _ (Some _) => error_here MessageAttributeAsSelector
        | TermReference _ None _ => error_here TermReferenceAsSelector
        | TermReference _ (Some _) _ => ret tt
        | StringLiteral _ | NumberLiteral _ | VariableReference _ | FunctionReference _ _ => ret tt
        | Placeable _ => error_here ExpectedSimpleExpressionAsSelector
        end) g q = g tt q.
Proof.
  intros [Hj _] Hsel B0 g q.
  destruct sel as [s | v | id ca | id att | id [a|] args | id | e]; try discriminate Hsel;
    destruct sel' as [s' | v' | id' ca' | id' att' | id' [a'|] args' | id' | e']; cbn [join_inline] in Hj; try discriminate Hj; reflexivity.
Qed.

(* ---- a placeable with a select expression, from behind its "{" ---- *)
Lemma gget_expression_select sel vs X b2 rest p n :
  bsl aok sel = true -> count_defaults vs = 1 -> forallb (variant_ok eok) vs = true ->
  gselect_layout atext (wl_value_layout etext) (Select sel vs) X -> all_blank b2 ->
  at_ bs p (X ++ b2 ++ 125%N :: rest) -> 3 * length (X ++ b2 ++ 125%N :: rest) + 7 <= n ->
  exists sel' vs', get_expression bs n p = Ok (Select sel' vs') (length (X ++ b2) + p) /\ crel sel' sel /\
                   Forall2 (vrel egood) vs' vs.
Proof.
  intros Hsel Hcnt Hvs HX Hb2 H Hn.
  inversion HX as [sel0 vs0 S0 b1' j x0 W0 VS HS0x Hb1' Hid Hx0 HW0 HVS E1 E2]; subst sel0 vs0 X. clear HX.
  assert (Hvne : vs <> []) by (intros ->; discriminate Hcnt).
  pose proof (variants_layout_tail _ vs VS b2 HVS Hvne Hb2) as HVS'.
  assert (Hx0len : 1 <= length x0) by (destruct Hx0 as [-> | ->]; cbn; lia).
  assert (H1 : at_ bs p (S0 ++ b1' ++ 45%N :: 62%N :: sp j ++ x0 ++ W0 ++ (VS ++ b2) ++ 125%N :: rest)).
  { rewrite <- !app_assoc in H. cbn [app] in H. rewrite <- ?app_assoc in H.
    replace (VS ++ b2 ++ 125%N :: rest) with ((VS ++ b2) ++ 125%N :: rest) in H by (rewrite <- app_assoc; reflexivity). exact H. }
  clear H.
  assert (Hlen : length ((S0 ++ b1' ++ [45; 62]%N ++ sp j ++ x0 ++ W0 ++ VS) ++ b2 ++ 125%N :: rest) =
                 length S0 + length b1' + 2 + j + length x0 + length W0 + length ((VS ++ b2) ++ 125%N :: rest)).
  { repeat (rewrite app_length || rewrite sp_length || cbn [length]). lia. }
  rewrite Hlen in Hn. clear Hlen.
  destruct n as [|n2]; [lia|]. rewrite get_expression_S.
  destruct (gget_selector sel S0 b1' _ _ n2 Hsel HS0x Hb1' Hid H1
              ltac:(repeat (rewrite app_length || rewrite sp_length || cbn [length]); repeat (rewrite app_length in Hn || cbn [length] in Hn); lia))
    as (sel' & Esel & Hcrel).
  step Esel.
  pose proof (at_app _ _ _ _ H1) as H2.
  assert (Hsk : skip_blank bs (length S0 + (if sel_eats sel then length b1' else 0) + p) = Ok tt (length b1' + (length S0 + p))).
  { destruct (sel_eats sel).
    - pose proof (at_app _ _ _ _ H2) as H2'.
      replace (length b1' + (length S0 + p)) with (length S0 + length b1' + p) in H2' |- * by lia.
      apply (skip_blank_none bs _ _ H2'). reflexivity.
    - rewrite Nat.add_0_r. apply (skip_blank_blank bs _ b1' _ H2 Hb1'). reflexivity. }
  step Hsk.
  pose proof (at_app _ _ _ _ H2) as H3.
  rewrite bind_get_ptr. rewrite (at_is_byte _ _ 45 _ H3). change (N.eqb 45 45) with true.
  rewrite (at_is_byte _ _ 62 _ (at_cons _ _ _ _ H3)). change (N.eqb 62 62) with true. cbn [negb orb].
  rewrite (crel_chk sel' sel Hcrel Hsel). rewrite bind_advance.
  pose proof (at_cons _ _ _ _ (at_cons _ _ _ _ H3)) as H4.
  assert (Hhx : head_not is_space (x0 ++ W0 ++ (VS ++ b2) ++ 125%N :: rest)) by (destruct Hx0 as [-> | ->]; reflexivity).
  replace (2 + (length b1' + (length S0 + p))) with (S (S (length b1' + (length S0 + p)))) by lia.
  step (skip_blank_inline_sp bs _ j _ H4 Hhx).
  pose proof (at_app _ _ _ _ H4) as H5. rewrite sp_length in H5.
  step (skip_eol_eol bs _ x0 _ H5 Hx0). cbn [negb].
  pose proof (at_app _ _ _ _ H5) as H6.
  destruct (variants_layout_head _ _ _ HVS' Hvne) as (b & t & EVS & Hb).
  step (skip_blank_blank bs _ W0 _ H6 HW0
          ltac:(rewrite EVS; cbn [app]; destruct (stop_byte_facts b Hb) as (A1 & A2 & A3 & _); apply no_blank_head_byte; assumption)).
  pose proof (at_app _ _ _ _ H6) as H7.
  destruct n2 as [|n3]; [lia|]. rewrite get_variants_S.
  destruct (variants_loop_ok eok etext egood bs Hpat vs (VS ++ b2) HVS' Hvs rest [] false _ n3 ltac:(rewrite Hcnt; reflexivity) H7 ltac:(lia))
    as (vs' & El & Hrels).
  exists sel', vs'. split; [|split; [exact Hcrel | exact Hrels]].
  step El. cbn [rev app]. unfold ret. f_equal.
  repeat (rewrite app_length || rewrite sp_length || cbn [length]). lia.
Qed.

Lemma gget_placeable_select sel vs X b1 b2 rest p n :
  bsl aok sel = true -> count_defaults vs = 1 -> forallb (variant_ok eok) vs = true ->
  gselect_layout atext (wl_value_layout etext) (Select sel vs) X -> all_blank b1 -> all_blank b2 ->
  at_ bs p (b1 ++ X ++ b2 ++ 125%N :: rest) -> 3 * length (b1 ++ X ++ b2 ++ 125%N :: rest) + 8 <= n ->
  exists sel' vs', get_placeable bs n p = Ok (Select sel' vs') (S (length (b1 ++ X ++ b2) + p)) /\ crel sel' sel /\
                   Forall2 (vrel egood) vs' vs.
Proof.
  intros Hsel Hcnt Hvs HX Hb1 Hb2 H Hn.
  assert (Hhead : no_blank_head (X ++ b2 ++ 125%N :: rest)).
  { inversion HX as [sel0 vs0 S0 c1 j x0 W0 VS HS0x _ _ _ _ _ E1 E2]; subst. rewrite <- !app_assoc.
    apply (gseltext_head aok atext Hahead sel S0 _ Hsel HS0x). }
  destruct n as [|n1]; [lia|]. rewrite get_placeable_S'.
  step (skip_blank_blank bs p b1 _ H Hb1 Hhead).
  pose proof (at_app _ _ _ _ H) as H1.
  destruct (gget_expression_select sel vs X b2 rest _ n1 Hsel Hcnt Hvs HX Hb2 H1 ltac:(rewrite app_length in Hn; lia))
    as (sel' & vs' & E & Hcrel & Hrels).
  exists sel', vs'. split; [|split; [exact Hcrel | exact Hrels]]. step E.
  assert (H8 : at_ bs (length (X ++ b2) + (length b1 + p)) (125%N :: rest)).
  { rewrite app_assoc in H1. apply (at_app _ _ _ _ H1). }
  step (skip_blank_inline_sp bs _ 0 _ H8 ltac:(reflexivity)).
  step (expect_byte_yes bs _ 125 _ H8). unfold ret. f_equal.
  repeat (rewrite app_length || cbn [length]). lia.
Qed.

(* ---- a placeable with an inline expression of binl ---- *)
Lemma gget_placeable_binl i X b1 b2 rest p n :
  binl aok i = true -> gitext atext i X -> all_blank b1 -> all_blank b2 ->
  at_ bs p (b1 ++ X ++ b2 ++ 125%N :: rest) -> 3 * length (b1 ++ X ++ b2 ++ 125%N :: rest) + 8 <= n ->
  exists i', get_placeable bs n p = Ok (Inline i') (S (length (b1 ++ X ++ b2) + p)) /\ crel i' i.
Proof.
  intros Hi HX Hb1 Hb2 H Hn. revert Hi H Hn.
  destruct HX as [i0 Hs | id ca b A Hb HA | id ca b A Hb HA]; intros Hi H Hn.
  - exists i0. split; [|apply (crel_simple i0 Hs)].
    rewrite (get_placeable_simple bs i0 b1 b2 rest p n Hs Hb1 Hb2 H ltac:(rewrite !app_length in Hn; lia)). f_equal. rewrite !app_length. lia.
  - cbn [binl] in Hi. apply andb_prop in Hi as [Hid Hca].
    destruct n as [|[|n]]; try lia. rewrite get_placeable_S'.
    assert (Hbi : binl aok (FunctionReference id ca) = true) by (cbn [binl]; rewrite Hid, Hca; reflexivity).
    step (skip_blank_blank bs p b1 _ H Hb1 (gitext_head aok atext Hahead _ _ _ Hbi (gitx_fun atext id ca b A Hb HA))).
    pose proof (at_app _ _ _ _ H) as H1. rewrite get_expression_S', bind_assoc.
    assert (H1' : at_ bs (length b1 + p) (id ++ b ++ A ++ b2 ++ 125%N :: rest)) by (rewrite <- !app_assoc in H1; exact H1).
    destruct (gget_inline_function aok atext agood Hahead bs Haparse id ca b A _ _ n Hid Hca Hb HA H1'
                ltac:(repeat (rewrite app_length in Hn || cbn [length] in Hn); repeat (rewrite app_length || cbn [length]); lia))
      as (ca' & E & Hrel).
    exists (FunctionReference id ca'). split.
    + step E.
      assert (H2 : at_ bs (length (id ++ b ++ A) + (length b1 + p)) (b2 ++ 125%N :: rest)).
      { replace (id ++ b ++ A ++ b2 ++ 125%N :: rest) with ((id ++ b ++ A) ++ b2 ++ 125%N :: rest) in H1' by (rewrite <- !app_assoc; reflexivity).
        apply (at_app _ _ _ _ H1'). }
      rewrite ?bind_assoc. step (skip_blank_blank bs _ b2 _ H2 Hb2 ltac:(reflexivity)).
      pose proof (at_app _ _ _ _ H2) as H3.
      rewrite ?bind_assoc, bind_get_ptr. rewrite (at_is_byte _ _ 45 _ H3). change (N.eqb 125 45) with false. cbn [negb orb]. rewrite bind_ret.
      step (skip_blank_inline_sp bs _ 0 _ H3 ltac:(reflexivity)).
      step (expect_byte_yes bs _ 125 _ H3). unfold ret. f_equal. rewrite !app_length. lia.
    + split; [cbn [join_inline]; rewrite (arel_join_eq agood ca' ca Hrel); reflexivity | apply (arel_good agood ca' ca Hrel)].
  - cbn [binl] in Hi. apply andb_prop in Hi as [Hid Hca].
    destruct n as [|[|n]]; try lia. rewrite get_placeable_S'.
    step (skip_blank_blank bs p b1 _ H Hb1 ltac:(reflexivity)).
    pose proof (at_app _ _ _ _ H) as H1. rewrite get_expression_S', bind_assoc.
    assert (H1' : at_ bs (length b1 + p) (45%N :: id ++ [] ++ b ++ A ++ b2 ++ 125%N :: rest)).
    { cbn [app] in H1 |- *. rewrite <- !app_assoc in H1. exact H1. }
    destruct (gget_inline_term_args aok atext agood Hahead bs Haparse id None ca b A _ _ n Hid Logic.I Hca Hb HA H1'
                ltac:(repeat (rewrite app_length in Hn || cbn [length] in Hn); repeat (rewrite app_length || cbn [length]); lia))
      as (ca' & E & Hrel).
    exists (TermReference id None (Some ca')). split.
    + step E. cbn [app].
      assert (H2 : at_ bs (length (45%N :: id ++ b ++ A) + (length b1 + p)) (b2 ++ 125%N :: rest)).
      { cbn [app] in H1'. replace (45%N :: id ++ b ++ A ++ b2 ++ 125%N :: rest) with ((45%N :: id ++ b ++ A) ++ b2 ++ 125%N :: rest) in H1'
          by (cbn [app]; rewrite <- !app_assoc; reflexivity).
        apply (at_app _ _ _ _ H1'). }
      rewrite ?bind_assoc. step (skip_blank_blank bs _ b2 _ H2 Hb2 ltac:(reflexivity)).
      pose proof (at_app _ _ _ _ H2) as H3.
      rewrite ?bind_assoc, bind_get_ptr. rewrite (at_is_byte _ _ 45 _ H3). change (N.eqb 125 45) with false. cbn [negb orb]. rewrite bind_ret.
      step (skip_blank_inline_sp bs _ 0 _ H3 ltac:(reflexivity)).
      step (expect_byte_yes bs _ 125 _ H3). unfold ret. f_equal. cbn [length]. rewrite !app_length. cbn [length]. rewrite !app_length. lia.
    + split; [cbn [join_inline]; rewrite (arel_join_eq agood ca' ca Hrel); reflexivity | apply (arel_good agood ca' ca Hrel)].
Qed.

End NSel.

(* ---------------------------------------------------------------------------------------------- *)
(* 2. render prints a layout of a select expression; the classes                                     *)

Section NRender.
Variable aok : inline -> bool.
Variable atext : inline -> bytes -> Prop.
Variable eok : expression -> bool.
Variable etext : expression -> bytes -> Prop.
Hypothesis Harender : forall i cs, aok i = true -> exists X cs', render_inline i cs = (X, cs') /\ atext i X.
Hypothesis HrenderV : forall ind els cs, wl_pattern eok (Pattern els) = true -> 1 <= ind ->
  exists V cs', render_value ind (Pattern els) cs = (V, cs') /\ wl_value_layout etext els V.

Lemma grender_select_layout ind sel vs cs :
  bsl aok sel = true -> forallb (variant_ok eok) vs = true -> vs <> [] ->
  exists X cs', render_expr ind (Select sel vs) cs = (X, cs') /\ gselect_layout atext (wl_value_layout etext) (Select sel vs) X.
Proof.
  intros Hsel Hvs Hne. rewrite render_expr_select.
  destruct (grender_bsl aok atext Harender sel cs Hsel) as (Xs & cs0 & E0 & HXs). rewrite (rbind_eq _ _ _ _ _ E0).
  destruct (blank_opt_spec cs0) as [b1 [cs1 [E1 Hb1]]]. rewrite (rbind_eq _ _ _ _ _ E1).
  destruct (blank_inline_opt_spec cs1) as [j [cs2 E2]]. rewrite (rbind_eq _ _ _ _ _ E2).
  destruct (eol_spec' cs2) as [x0 [cs3 [E3 Hx0]]]. rewrite (rbind_eq _ _ _ _ _ E3).
  destruct (render_variants_layout eok etext HrenderV ind vs cs3 Hvs Hne) as (out & cs4 & E4 & Hout). rewrite (rbind_eq _ _ _ _ _ E4).
  unfold rbind at 1. destruct (choose 3 cs4) as [k cs5].
  destruct (Hout (sp k) (all_blank_sp k)) as (W0 & VS & EW & HW0 & HVS).
  eexists. exists cs5. split; [reflexivity|].
  set (b1' := match b1 with [] => if ends_with_id_char Xs then sp 1 else [] | _ => b1 end).
  unfold cat. cbn [concat]. rewrite app_nil_r.
  replace (Xs ++ b1' ++ [45; 62]%N ++ sp j ++ x0 ++ out ++ sp k)
    with (Xs ++ b1' ++ [45; 62]%N ++ sp j ++ x0 ++ W0 ++ VS) by (rewrite <- EW; reflexivity).
  apply gsell; try assumption.
  - unfold b1'. destruct b1; [destruct (ends_with_id_char Xs); [apply all_blank_sp | reflexivity] | exact Hb1].
  - unfold b1'. intros Hid. destruct b1; [rewrite Hid; discriminate | discriminate].
Qed.

End NRender.

(* ---- the classes ---- *)
Fixpoint aokn (d : nat) (i : inline) {struct d} : bool :=
  match d with
  | 0 => simple_inline i
  | S d' =>
      match i with
      | FunctionReference id ca => wf_callee id && gargs_ok (aokn d') ca
      | TermReference id att args =>
          match args with
          | Some ca => wf_identifier id && match att with Some a => wf_identifier a | None => true end && gargs_ok (aokn d') ca
          | None => match att with Some a => wf_identifier id && wf_identifier a | None => wf_identifier id end
          end
      | Placeable e1 => eokn d' e1
      | _ => simple_inline i
      end
  end
with eokn (d : nat) (e : expression) {struct d} : bool :=
  match d with
  | 0 => eoks e
  | S d' =>
      match e with
      | Inline (Placeable e1) => eokn d' e1
      | Inline i => binl (aokn d') i
      | Select sel vs => bsl (aokn d') sel && Nat.eqb (count_defaults vs) 1 && forallb (variant_ok (eokn d')) vs
      end
  end.

Definition opt_attr (att : option bytes) : bytes := match att with Some a => 46%N :: a | None => [] end.

Fixpoint atextn (d : nat) : inline -> bytes -> Prop :=
  match d with
  | 0 => fun i X => simple_inline i = true /\ X = inline_text i
  | S d' => fun i X =>
      (simple_inline i = true /\ X = inline_text i) \/
      (exists id ca b A, i = FunctionReference id ca /\ all_blank b /\ gargs_layout (atextn d') ca A /\ X = id ++ b ++ A) \/
      (exists id att ca b A, i = TermReference id att (Some ca) /\ all_blank b /\ gargs_layout (atextn d') ca A /\
                             X = 45%N :: id ++ opt_attr att ++ b ++ A) \/
      (exists id a, i = TermReference id (Some a) None /\ X = 45%N :: id ++ 46%N :: a) \/
      (exists e1 b1 b2 X1, i = Placeable e1 /\ all_blank b1 /\ all_blank b2 /\ etextn d' e1 X1 /\
                           X = 123%N :: b1 ++ X1 ++ b2 ++ [125%N])
  end
with etextn (d : nat) : expression -> bytes -> Prop :=
  match d with
  | 0 => etexts
  | S d' => fun e X =>
      (exists i, e = Inline i /\ gitext (atextn d') i X) \/
      (exists e1 b1 b2 X1, e = Inline (Placeable e1) /\ all_blank b1 /\ all_blank b2 /\ etextn d' e1 X1 /\
                           X = 123%N :: b1 ++ X1 ++ b2 ++ [125%N]) \/
      gselect_layout (atextn d') (wl_value_layout (etextn d')) e X
  end.

(* what is known of the parser's result besides that it joins to the printed tree: at every nesting level, the
   text elements of the variant values are non-empty and have a line feed only as their last byte *)
Fixpoint gooda (d : nat) (i : inline) : Prop :=
  match d with
  | 0 => True
  | S d' => match i with Placeable e1 => goodn d' e1 | _ => good_inl (gooda d') i end
  end
with goodn (d : nat) (e : expression) : Prop :=
  match d with
  | 0 => True
  | S d' =>
      match e with
      | Inline (Placeable e1) => goodn d' e1
      | Inline i => good_inl (gooda d') i
      | Select sel vs =>
          good_inl (gooda d') sel /\
          Forall (fun v => match v with Variant _ (Pattern els) _ => Forall (text_ok (goodn d')) els end) vs
      end
  end.

Lemma aokn_S_cases d i : aokn (S d) i = true ->
  simple_inline i = true \/
  (exists id ca, i = FunctionReference id ca /\ wf_callee id = true /\ gargs_ok (aokn d) ca = true) \/
  (exists id att ca, i = TermReference id att (Some ca) /\ wf_identifier id = true /\
                     match att with Some a => wf_identifier a = true | None => True end /\ gargs_ok (aokn d) ca = true) \/
  (exists id a, i = TermReference id (Some a) None /\ wf_identifier id = true /\ wf_identifier a = true) \/
  (exists e1, i = Placeable e1 /\ eokn d e1 = true).
Proof.
  destruct i as [s | v | id ca | id att | id att [ca|] | id | e1]; cbn [aokn]; intros H; try (left; exact H).
  - apply andb_prop in H as [H1 H2]. right; left. eauto.
  - apply andb_prop in H as [H H3]. apply andb_prop in H as [H1 H2]. right; right; left. exists id, att, ca.
    split; [reflexivity | split; [exact H1 | split; [destruct att; [exact H2 | exact Logic.I] | exact H3]]].
  - destruct att as [a|]; [|left; exact H]. apply andb_prop in H as [H1 H2]. right; right; right; left. eauto.
  - right; right; right; right. eauto.
Qed.

Lemma eokn_S_cases d e : eokn (S d) e = true ->
  (exists i, e = Inline i /\ binl (aokn d) i = true) \/
  (exists e1, e = Inline (Placeable e1) /\ eokn d e1 = true) \/
  (exists sel vs, e = Select sel vs /\ bsl (aokn d) sel = true /\ count_defaults vs = 1 /\ forallb (variant_ok (eokn d)) vs = true).
Proof.
  destruct e as [sel vs | i]; cbn [eokn].
  - intros H. apply andb_prop in H as [H Hvs]. apply andb_prop in H as [Hsel Hcnt]. apply Nat.eqb_eq in Hcnt.
    right; right. exists sel, vs. auto.
  - destruct i as [s | v | id args | id att | id att args | id | e1]; intros H; try (left; eexists; split; [reflexivity | exact H]).
    right; left. exists e1. auto.
Qed.

(* ---------------------------------------------------------------------------------------------- *)
(* 3. All facts, by induction on the depth                                                          *)

Definition head_ok (X : bytes) : Prop :=
  exists b0 t0, X = b0 :: t0 /\ N.eqb b0 41 = false /\ N.eqb b0 32 = false /\ N.eqb b0 10 = false /\ N.eqb b0 13 = false.

Definition ahead_fact (d : nat) : Prop := forall i X, aokn d i = true -> atextn d i X -> head_ok X.
Definition aparse_fact (d : nat) : Prop := forall bs i X b c t p n,
  aokn d i = true -> atextn d i X -> all_blank b -> delim c -> at_ bs p (X ++ b ++ c :: t) ->
  3 * length (X ++ b ++ c :: t) + 6 <= n ->
  exists i' q, get_inline_expression bs n false p = Ok i' q /\ irel (gooda d) i' i /\
               (q = length X + p \/ q = length X + length b + p).
Definition arender_fact (d : nat) : Prop := forall i cs, aokn d i = true ->
  exists X cs', render_inline i cs = (X, cs') /\ atextn d i X.
Definition ajoin_fact (d : nat) : Prop := forall i, aokn d i = true -> join_inline i = i.
Definition awf_fact (d : nat) : Prop := forall i, aokn d i = true -> wf_inline i = true /\ lines_ok_inline i = true.

Definition render_factn (d : nat) : Prop := forall base e cs, eokn d e = true ->
  exists X cs', render_expr base e cs = (X, cs') /\ etextn d e X.
Definition join_factn (d : nat) : Prop := forall e, eokn d e = true -> join_expr e = e.
Definition wf_factn (d : nat) : Prop := forall e, eokn d e = true -> wf_expr e = true /\ lines_ok_expr e = true.
Definition place_factn (d : nat) : Prop := forall bs e X b1 b2 rest p n,
  eokn d e = true -> etextn d e X -> all_blank b1 -> all_blank b2 ->
  at_ bs p (b1 ++ X ++ b2 ++ 125%N :: rest) -> 3 * length (b1 ++ X ++ b2 ++ 125%N :: rest) + 8 <= n ->
  exists e', get_placeable bs n p = Ok e' (S (length (b1 ++ X ++ b2) + p)) /\ join_expr e' = join_expr e /\ goodn d e'.

Lemma simple_head i : simple_inline i = true -> head_ok (inline_text i).
Proof.
  unfold head_ok.
  destruct i as [s | v | id args | id att | id att args | id | e]; cbn [simple_inline inline_text]; intros H; try discriminate H;
    try (eexists; eexists; split; [reflexivity | repeat split; reflexivity]).
  - pose proof (wf_number_shape v H) as [neg ip fr Hi1 Hi2 Hf].
    destruct neg; [eexists; eexists; split; [reflexivity | repeat split; reflexivity]|].
    destruct ip as [|d ip]; [congruence|]. cbn [forallb] in Hi2. apply andb_prop in Hi2 as [Hd _].
    eexists; eexists; split; [reflexivity|]. unfold is_ascii_digit, in_rng in Hd. repeat split; lia.
  - assert (Hid : wf_identifier id = true) by (destruct att; [apply andb_prop in H as [H _]|]; exact H).
    destruct (wf_identifier_head id Hid) as (b & r & -> & Hb). eexists; eexists; split; [reflexivity|].
    unfold is_ascii_alphabetic, in_rng in Hb. repeat split; lia.
Qed.

(* ---- depth 0 ---- *)
Lemma afacts0 : ahead_fact 0 /\ aparse_fact 0 /\ arender_fact 0 /\ ajoin_fact 0 /\ awf_fact 0.
Proof.
  split; [|split; [|split; [|split]]].
  - intros i X Hi [_ ->]. apply (simple_head i Hi).
  - intros bs i X b c t p n Hi [_ ->] Hb Hc H Hn. cbn [aokn] in Hi.
    exists i, (length (inline_text i) + (if inline_eats_blank i then length b else 0) + p).
    split; [|split; [split; [reflexivity | exact Logic.I]|]].
    + apply (get_inline_simple_d bs i b c t p n Hi Hb Hc H). rewrite app_length in Hn. lia.
    + destruct (inline_eats_blank i); [right | left]; lia.
  - intros i cs Hi. exists (inline_text i), cs. split; [apply (render_inline_simple i cs Hi) | split; [exact Hi | reflexivity]].
  - intros i Hi. apply (simple_inline_join i Hi).
  - intros i Hi. apply (simple_wf_inline i Hi).
Qed.

Lemma efacts0 : render_factn 0 /\ join_factn 0 /\ wf_factn 0 /\ place_factn 0.
Proof.
  split; [|split; [|split]].
  - intros base e cs. apply render_facts.
  - intros e. apply join_facts.
  - intros e. apply wf_facts.
  - intros bs e X b1 b2 rest p n He HX Hb1 Hb2 H Hn.
    destruct (place_facts bs e X b1 b2 rest p n He HX Hb1 Hb2 H Hn) as (e' & E & Ej & _). exists e'. split; [exact E | split; [exact Ej | exact Logic.I]].
Qed.

(* ---- the step for the arguments ---- *)
Lemma gooda_not_placeable d i : (forall e, i <> Placeable e) -> good_inl (gooda d) i -> gooda (S d) i.
Proof. intros Hnp Hg. cbn [gooda]. destruct i; try exact Hg. exfalso. apply (Hnp _ eq_refl). Qed.

Lemma ahead_S d : ahead_fact (S d).
Proof.
  intros i X Hi HX. cbn [atextn] in HX.
  destruct HX as [[Hs ->] | [(id & ca & b & A & -> & _ & _ & ->) | [(id & att & ca & b & A & -> & _ & _ & ->) | [(id & a & -> & ->) |
                  (e1 & b1 & b2 & X1 & -> & _ & _ & _ & ->)]]]].
  - apply (simple_head i Hs).
  - destruct (aokn_S_cases d _ Hi) as [Hs | [(id' & ca' & E & Hid & _) | [(? & ? & ? & E & _) | [(? & ? & E & _) | (? & E & _)]]]]; try discriminate E; try discriminate Hs.
    injection E as <- <-. destruct (wf_callee_identifier id Hid) as [Hwf _].
    destruct (wf_identifier_head id Hwf) as (b0 & r & -> & Hb0). eexists; eexists; split; [reflexivity|].
    unfold is_ascii_alphabetic, in_rng in Hb0. repeat split; lia.
  - eexists; eexists; split; [reflexivity | repeat split; reflexivity].
  - eexists; eexists; split; [reflexivity | repeat split; reflexivity].
  - eexists; eexists; split; [reflexivity | repeat split; reflexivity].
Qed.

Lemma aparse_S d : ahead_fact d -> aparse_fact d -> place_factn d -> aparse_fact (S d).
Proof.
  intros Hhead Hparse Hplace bs i X b c t p n Hi HX Hb Hc H Hn. cbn [atextn] in HX.
  destruct HX as [[Hs ->] | [(id & ca & b0 & A & -> & Hb0 & HA & ->) | [(id & att & ca & b0 & A & -> & Hb0 & HA & ->) | [(id & a & -> & ->) |
                  (e1 & b1 & b2 & X1 & -> & Hb1 & Hb2 & HX1 & ->)]]]].
  - exists i, (length (inline_text i) + (if inline_eats_blank i then length b else 0) + p).
    split; [|split; [split; [reflexivity|]|]].
    + apply (get_inline_simple_d bs i b c t p n Hs Hb Hc H). rewrite app_length in Hn. lia.
    + apply gooda_not_placeable; [intros e ->; discriminate Hs|].
      destruct i as [s | v | id ca | id att | id [a|] [ca|] | id | e]; try discriminate Hs; exact Logic.I.
    + destruct (inline_eats_blank i); [right | left]; lia.
  - destruct (aokn_S_cases d _ Hi) as [Hs | [(id' & ca' & E & Hid & Hca) | [(? & ? & ? & E & _) | [(? & ? & E & _) | (? & E & _)]]]]; try discriminate E; try discriminate Hs.
    injection E as <- <-.
    destruct (gget_inline_function (aokn d) (atextn d) (gooda d) Hhead bs (Hparse bs) id ca b0 A (b ++ c :: t) p n Hid Hca Hb0 HA) as (ca' & E & Hrel).
    + rewrite <- !app_assoc in H. exact H.
    + rewrite <- !app_assoc in Hn. exact Hn.
    + exists (FunctionReference id ca'), (length (id ++ b0 ++ A) + p). split; [exact E | split; [split|left; reflexivity]].
      * cbn [join_inline]. rewrite (arel_join_eq (gooda d) ca' ca Hrel). reflexivity.
      * cbn [gooda good_inl]. apply (arel_good (gooda d) ca' ca Hrel).
  - destruct (aokn_S_cases d _ Hi) as [Hs | [(? & ? & E & _) | [(id' & att' & ca' & E & Hid & Hatt & Hca) | [(? & ? & E & _) | (? & E & _)]]]]; try discriminate E; try (destruct att; discriminate Hs).
    injection E as <- <- <-.
    destruct (gget_inline_term_args (aokn d) (atextn d) (gooda d) Hhead bs (Hparse bs) id att ca b0 A (b ++ c :: t) p n Hid Hatt Hca Hb0 HA) as (ca' & E & Hrel).
    + unfold opt_attr in H. cbn [app] in H. rewrite <- !app_assoc in H. exact H.
    + unfold opt_attr in Hn. cbn [app] in Hn. rewrite <- !app_assoc in Hn. exact Hn.
    + exists (TermReference id att (Some ca')), (length (45%N :: id ++ opt_attr att ++ b0 ++ A) + p).
      split; [exact E | split; [split|left; reflexivity]].
      * cbn [join_inline]. rewrite (arel_join_eq (gooda d) ca' ca Hrel). reflexivity.
      * cbn [gooda good_inl]. apply (arel_good (gooda d) ca' ca Hrel).
  - destruct (aokn_S_cases d _ Hi) as [Hs | [(? & ? & E & _) | [(? & ? & ? & E & _) | [(id' & a' & E & Hid & Ha) | (? & E & _)]]]]; try discriminate E; try discriminate Hs.
    injection E as <- <-.
    exists (TermReference id (Some a) None), (length (45%N :: id ++ 46%N :: a) + length b + p).
    split; [|split; [split; [reflexivity | exact Logic.I] | right; reflexivity]].
    apply (get_inline_term_attr_d bs id a b c t p n Hid Ha Hb Hc); [|lia].
    cbn [app] in H. rewrite <- !app_assoc in H. cbn [app] in H. exact H.
  - destruct (aokn_S_cases d _ Hi) as [Hs | [(? & ? & E & _) | [(? & ? & ? & E & _) | [(? & ? & E & _) | (e1' & E & He1)]]]]; try discriminate E; try discriminate Hs.
    injection E as <-.
    destruct n as [|n]; [lia|].
    assert (H0 : at_ bs p (123%N :: b1 ++ X1 ++ b2 ++ 125%N :: b ++ c :: t)).
    { cbn [app] in H. rewrite <- !app_assoc in H. cbn [app] in H. exact H. }
    destruct (Hplace bs e1 X1 b1 b2 (b ++ c :: t) (S p) n He1 HX1 Hb1 Hb2 (at_cons _ _ _ _ H0)) as (e1' & E1 & Ej & Hg).
    { repeat (rewrite app_length in Hn || cbn [length] in Hn). repeat (rewrite app_length || cbn [length]). lia. }
    exists (Placeable e1'), (length (123%N :: b1 ++ X1 ++ b2 ++ [125%N]) + p).
    split; [|split; [split|left; reflexivity]].
    + cbn [get_inline_expression]. rewrite bind_current_byte. rewrite (at_byte _ _ _ _ H0).
      change (N.eqb 123 34) with false. change (is_ascii_digit 123) with false. change (N.eqb 123 45) with false.
      change (N.eqb 123 36) with false. change (is_ascii_alphabetic 123) with false. change (N.eqb 123 123) with true.
      cbn [andb negb]. rewrite bind_advance. change (1 + p) with (S p).
      step E1. unfold ret. f_equal. repeat (rewrite app_length || cbn [length]). lia.
    + cbn [join_inline]. rewrite Ej. reflexivity.
    + exact Hg.
Qed.

Lemma arender_S d : arender_fact d -> render_factn d -> arender_fact (S d).
Proof.
  intros HA HR i cs Hi.
  destruct (aokn_S_cases d _ Hi) as [Hs | [(id & ca & -> & Hid & Hca) | [(id & att & ca & -> & Hid & Hatt & Hca) | [(id & a & -> & Hid & Ha) | (e1 & -> & He1)]]]].
  - exists (inline_text i), cs. split; [apply (render_inline_simple i cs Hs) | left; split; [exact Hs | reflexivity]].
  - cbn [render_inline].
    destruct (blank_opt_spec' cs) as (b & cs1 & E1 & Hb). rewrite (rbind_eq' _ _ _ _ _ E1).
    destruct (grender_args_layout (aokn d) (atextn d) HA ca cs1 Hca) as (A & cs2 & E2 & HAl). rewrite (rbind_eq' _ _ _ _ _ E2).
    eexists. exists cs2. split; [reflexivity|]. right; left. exists id, ca, b, A. auto.
  - cbn [render_inline].
    destruct (blank_opt_spec' cs) as (b & cs1 & E1 & Hb).
    destruct (grender_args_layout (aokn d) (atextn d) HA ca cs1 Hca) as (A & cs2 & E2 & HAl).
    assert (Ea : (b0 <~ blank_opt ;; s <~ render_args ca ;; rret (b0 ++ s)) cs = (b ++ A, cs2))
      by (rewrite (rbind_eq' _ _ _ _ _ E1), (rbind_eq' _ _ _ _ _ E2); reflexivity).
    rewrite (rbind_eq' _ _ _ _ _ Ea).
    eexists. exists cs2. split; [reflexivity|]. right; right; left. exists id, att, ca, b, A.
    split; [reflexivity | split; [exact Hb | split; [exact HAl | reflexivity]]].
  - cbn [render_inline]. rewrite rbind_rret. eexists. exists cs. split; [reflexivity|]. right; right; right; left.
    exists id, a. split; [reflexivity|]. rewrite app_nil_r. reflexivity.
  - change (render_inline (Placeable e1) cs) with
      ((b1 <~ blank_opt ;; s <~ render_expr 4 e1 ;; b2 <~ blank_opt ;; rret (cat [[123%N]; b1; s; b2; [125%N]])) cs).
    destruct (blank_opt_spec cs) as [b1 [cs1 [E1 Hb1]]]. rewrite (rbind_eq _ _ _ _ _ E1).
    destruct (HR 4 e1 cs1 He1) as (X1 & cs2 & E2 & HX1). rewrite (rbind_eq _ _ _ _ _ E2).
    destruct (blank_opt_spec cs2) as [b2 [cs3 [E3 Hb2]]]. rewrite (rbind_eq _ _ _ _ _ E3).
    eexists. exists cs3. split; [reflexivity|]. right; right; right; right. exists e1, b1, b2, X1.
    split; [reflexivity | split; [exact Hb1 | split; [exact Hb2 | split; [exact HX1|]]]].
    unfold cat. cbn [concat app]. rewrite ?app_nil_r. reflexivity.
Qed.

Lemma ajoin_S d : ajoin_fact d -> join_factn d -> ajoin_fact (S d).
Proof.
  intros HA HJ i Hi.
  destruct (aokn_S_cases d _ Hi) as [Hs | [(id & ca & -> & Hid & Hca) | [(id & att & ca & -> & Hid & Hatt & Hca) | [(id & a & -> & Hid & Ha) | (e1 & -> & He1)]]]].
  - apply (simple_inline_join i Hs).
  - cbn [join_inline]. rewrite (gjoin_args_ok (aokn d) HA ca Hca). reflexivity.
  - cbn [join_inline]. rewrite (gjoin_args_ok (aokn d) HA ca Hca). reflexivity.
  - reflexivity.
  - cbn [join_inline]. rewrite (HJ e1 He1). reflexivity.
Qed.

Lemma awf_S d : awf_fact d -> wf_factn d -> awf_fact (S d).
Proof.
  intros HA HW i Hi.
  destruct (aokn_S_cases d _ Hi) as [Hs | [(id & ca & -> & Hid & Hca) | [(id & att & ca & -> & Hid & Hatt & Hca) | [(id & a & -> & Hid & Ha) | (e1 & -> & He1)]]]].
  - apply (simple_wf_inline i Hs).
  - destruct (gwf_args_ok (aokn d) HA ca Hca) as [W1 W2]. cbn [wf_inline lines_ok_inline]. rewrite Hid, W1. destruct ca. split; [reflexivity | exact W2].
  - destruct (gwf_args_ok (aokn d) HA ca Hca) as [W1 W2]. cbn [wf_inline lines_ok_inline]. rewrite Hid, W1.
    destruct att as [a|]; [rewrite Hatt|]; destruct ca; split; try reflexivity; exact W2.
  - cbn [wf_inline lines_ok_inline]. rewrite Hid, Ha. split; reflexivity.
  - destruct (HW e1 He1) as [W1 W2]. cbn [wf_inline lines_ok_inline]. split; assumption.
Qed.

(* ---- the step for the placeables ---- *)
Lemma gwf_select aok sel vs :
  (forall i, aok i = true -> wf_inline i = true /\ lines_ok_inline i = true) ->
  bsl aok sel = true -> count_defaults vs = 1 ->
  Forall (fun v => match v with Variant k p _ => key_ok k = true /\ wf_pattern p && lines_ok_pattern p = true end) vs ->
  wf_expr (Select sel vs) = true /\ lines_ok_expr (Select sel vs) = true.
Proof.
  intros Hawf Hsel Hcnt Hvs. destruct (gwf_bsl aok Hawf sel Hsel) as (W1' & W2 & Wk).
  cbn [wf_expr lines_ok_expr]. rewrite W1', W2, Hcnt, Wk. cbn [Nat.eqb andb].
  cbn [andb]. clear Hcnt. split.
  - induction Hvs as [|v r Hv Hr IH]; [reflexivity|]. destruct v as [k p d0]. destruct Hv as [Hk Hp].
    apply andb_prop in Hp as [Hp _]. cbn [wf_variant].
    replace (match k with KeyIdentifier n => wf_identifier n | KeyNumber n => wf_number n end) with true
      by (destruct k; symmetry; exact Hk).
    rewrite Hp. cbn [andb]. exact IH.
  - induction Hvs as [|v r Hv Hr IH]; [reflexivity|]. destruct v as [k p d0]. destruct Hv as [Hk Hp].
    apply andb_prop in Hp as [_ Hp]. rewrite Hp. cbn [andb]. exact IH.
Qed.

Lemma efacts_S d :
  ahead_fact d -> aparse_fact d -> arender_fact d -> ajoin_fact d -> awf_fact d ->
  render_factn d -> join_factn d -> wf_factn d -> place_factn d ->
  render_factn (S d) /\ join_factn (S d) /\ wf_factn (S d) /\ place_factn (S d).
Proof.
  intros AH AP AR AJ AW R J W P.
  assert (HrenderV : forall ind els cs, wl_pattern (eokn d) (Pattern els) = true -> 1 <= ind ->
            exists V cs', render_value ind (Pattern els) cs = (V, cs') /\ wl_value_layout (etextn d) els V).
  { intros ind els cs Hp Hind. apply (render_value_wl_layout (eokn d) (etextn d) (goodn d) R P ind els cs Hp Hind). }
  assert (Hwfp : forall els, wl_pattern (eokn d) (Pattern els) = true ->
            wf_pattern (Pattern els) && lines_ok_pattern (Pattern els) = true).
  { intros els Hp. apply (wl_pattern_wf (eokn d) (etextn d) (goodn d)); assumption. }
  assert (Hpat : forall bs els V T used c nx p n,
            wl_pattern (eokn d) (Pattern els) = true -> wl_value_layout (etextn d) els V -> after_value T used c nx ->
            at_ bs p (V ++ T) -> 3 * length (V ++ T) + 12 <= n ->
            exists els', get_pattern bs n p = Ok (Some (Pattern els')) (used + (length V + p)) /\ srel (goodn d) els' els).
  { intros bs els V T used c nx p n. apply (get_pattern_wl (eokn d) (etextn d) (goodn d)); assumption. }
  split; [|split; [|split]].
  - (* render *)
    intros base e cs He. destruct (eokn_S_cases d e He) as [(i & -> & Hi) | [(e1 & -> & He1) | (sel & vs & -> & Hsel & Hcnt & Hvs)]].
    + destruct (grender_binl (aokn d) (atextn d) AR i cs Hi) as (X & cs' & E & HX). exists X, cs'. split; [exact E | left; exists i; auto].
    + change (render_expr base (Inline (Placeable e1)) cs) with
        ((b1 <~ blank_opt ;; s <~ render_expr 4 e1 ;; b2 <~ blank_opt ;; rret (cat [[123%N]; b1; s; b2; [125%N]])) cs).
      destruct (blank_opt_spec cs) as [b1 [cs1 [E1 Hb1]]]. rewrite (rbind_eq _ _ _ _ _ E1).
      destruct (R 4 e1 cs1 He1) as (X1 & cs2 & E2 & HX1). rewrite (rbind_eq _ _ _ _ _ E2).
      destruct (blank_opt_spec cs2) as [b2 [cs3 [E3 Hb2]]]. rewrite (rbind_eq _ _ _ _ _ E3).
      eexists. exists cs3. split; [reflexivity|]. right; left. exists e1, b1, b2, X1.
      split; [reflexivity | split; [exact Hb1 | split; [exact Hb2 | split; [exact HX1|]]]].
      unfold cat. cbn [concat app]. rewrite ?app_nil_r. reflexivity.
    + assert (Hne : vs <> []) by (intros ->; discriminate Hcnt).
      destruct (grender_select_layout (aokn d) (atextn d) (eokn d) (etextn d) AR HrenderV base sel vs cs Hsel Hvs Hne) as (X & cs' & E & HX).
      exists X, cs'. split; [exact E | right; right; exact HX].
  - (* joined form *)
    intros e He. destruct (eokn_S_cases d e He) as [(i & -> & Hi) | [(e1 & -> & He1) | (sel & vs & -> & Hsel & Hcnt & Hvs)]].
    + change (join_expr (Inline i)) with (Inline (join_inline i)). rewrite (gjoin_binl (aokn d) AJ i Hi). reflexivity.
    + change (join_expr (Inline (Placeable e1))) with (Inline (Placeable (join_expr e1))). rewrite (J e1 He1). reflexivity.
    + rewrite join_expr_select, (gjoin_bsl (aokn d) AJ sel Hsel), (variants_join (eokn d) vs J Hvs). reflexivity.
  - (* well-formed *)
    intros e He. destruct (eokn_S_cases d e He) as [(i & -> & Hi) | [(e1 & -> & He1) | (sel & vs & -> & Hsel & Hcnt & Hvs)]].
    + apply (gwf_binl (aokn d) AW i Hi).
    + destruct (W e1 He1) as [W1 W2]. split; [exact W1 | exact W2].
    + apply (gwf_select (aokn d) sel vs AW Hsel Hcnt). rewrite forallb_forall in Hvs. apply Forall_forall. intros v Hv.
      specialize (Hvs v Hv). destruct v as [k [els] d0]. unfold variant_ok in Hvs. apply andb_prop in Hvs as [Hk Hp].
      split; [exact Hk | apply (Hwfp els Hp)].
  - (* get_placeable *)
    intros bs e X b1 b2 rest p n He HX Hb1 Hb2 H Hn.
    destruct (eokn_S_cases d e He) as [(i & -> & Hi) | [(e1 & -> & He1) | (sel & vs & -> & Hsel & Hcnt & Hvs)]].
    + assert (Hnp : forall e1, i <> Placeable e1) by (intros e1 ->; discriminate Hi).
      assert (HX0 : gitext (atextn d) i X).
      { destruct HX as [(i0 & E & HX) | [(e1 & c1 & c2 & X1 & E & _) | HX]]; [injection E as <-; exact HX | | inversion HX].
        exfalso. injection E. intros E'. apply (Hnp e1 E'). }
      destruct (gget_placeable_binl (aokn d) (atextn d) (gooda d) (eokn d) (etextn d) (goodn d) bs AH (AP bs) (Hpat bs) i X b1 b2 rest p n Hi HX0 Hb1 Hb2 H Hn)
        as (i' & E & Hj & Hg).
      exists (Inline i'). split; [exact E | split].
      * change (join_expr (Inline i')) with (Inline (join_inline i')). rewrite Hj. reflexivity.
      * cbn [goodn]. assert (Hnp' : forall e1, i' <> Placeable e1).
        { intros e1 ->. destruct i; cbn [join_inline] in Hj; try discriminate Hj. apply (Hnp _ eq_refl). }
        destruct i'; try exact Hg. exfalso. apply (Hnp' _ eq_refl).
    + assert (HXn : exists c1 c2 X1, all_blank c1 /\ all_blank c2 /\ etextn d e1 X1 /\ X = 123%N :: c1 ++ X1 ++ c2 ++ [125%N]).
      { destruct HX as [(i0 & E & HX) | [(e1' & c1 & c2 & X1 & E & Hc1 & Hc2 & HX1 & EX) | HX]]; [| | inversion HX].
        - injection E as <-. exfalso. inversion HX as [i0 Hs | | ]; subst. discriminate Hs.
        - injection E as <-. exists c1, c2, X1. auto. }
      destruct HXn as (c1 & c2 & X1 & Hc1 & Hc2 & HX1 & ->).
      destruct n as [|[|[|n]]]; try lia.
      assert (H1 : at_ bs (S (length b1 + p)) (c1 ++ X1 ++ c2 ++ 125%N :: b2 ++ 125%N :: rest)).
      { apply at_app in H. cbn [app] in H. apply at_cons in H. rewrite <- !app_assoc in H. cbn [app] in H. exact H. }
      destruct (P bs e1 X1 c1 c2 (b2 ++ 125%N :: rest) (S (length b1 + p)) n He1 HX1 Hc1 Hc2 H1) as (e1' & E1 & Ej & Hg).
      { repeat (rewrite app_length in Hn || cbn [length] in Hn). repeat (rewrite app_length || cbn [length]). lia. }
      exists (Inline (Placeable e1')). split; [|split].
      * apply (get_placeable_nested (eokn d) (etextn d) (goodn d) bs (Hpat bs) e1' c1 X1 c2 b1 b2 rest p n Hb1 Hb2 H E1).
      * change (join_expr (Inline (Placeable e1'))) with (Inline (Placeable (join_expr e1'))). rewrite Ej. reflexivity.
      * exact Hg.
    + assert (HXs : gselect_layout (atextn d) (wl_value_layout (etextn d)) (Select sel vs) X).
      { destruct HX as [(i0 & E & _) | [(e1' & c1 & c2 & X1 & E & _) | HX]]; [discriminate E | discriminate E | exact HX]. }
      destruct (gget_placeable_select (aokn d) (atextn d) (gooda d) (eokn d) (etextn d) (goodn d) bs AH (AP bs) (Hpat bs) sel vs X b1 b2 rest p n Hsel Hcnt Hvs HXs Hb1 Hb2 H Hn)
        as (sel' & vs' & E & [Hj Hg] & Hrels).
      exists (Select sel' vs'). split; [exact E | split].
      * rewrite !join_expr_select. f_equal; [exact Hj | apply (vrel_join (eokn d) (goodn d) vs' vs J Hvs Hrels)].
      * cbn [goodn]. split; [exact Hg|]. clear - Hrels. induction Hrels as [|v' v l' l Hv Hl IH]; constructor; [|exact IH].
        destruct v' as [k' [els'] d'], v as [k [els] d0]. cbn [vrel] in Hv. destruct Hv as (_ & _ & _ & Hok & _). exact Hok.
Qed.

Lemma facts_alln d :
  (ahead_fact d /\ aparse_fact d /\ arender_fact d /\ ajoin_fact d /\ awf_fact d) /\
  (render_factn d /\ join_factn d /\ wf_factn d /\ place_factn d).
Proof.
  induction d as [|d [(AH & AP & AR & AJ & AW) (R & J & W & P)]]; [split; [exact afacts0 | exact efacts0]|].
  split.
  - split; [apply ahead_S | split; [apply (aparse_S d AH AP P) | split; [apply (arender_S d AR R) | split; [apply (ajoin_S d AJ J) | apply (awf_S d AW W)]]]].
  - apply efacts_S; assumption.
Qed.

(* ---------------------------------------------------------------------------------------------- *)
(* 4. parse (render cs t) on the fragment of depth d                                                 *)

Definition nest_pattern (d : nat) (p : pattern) : bool := wl_pattern (eokn d) p.
Definition nest_resource (d : nat) (t : resource) : bool := ml_resource (eokn d) t.

Theorem parse_render_nest_split d cs t : nest_resource d t = true -> last_comment_ok t = true ->
  exists t', parse (render cs t) = Done (t', []) /\ Forall2 (rel_entry (srel (goodn d))) t' t.
Proof.
  destruct (facts_alln d) as (_ & R & J & W & P). apply (parse_render_ml_split (eokn d) (etextn d) (goodn d)); assumption.
Qed.

Theorem parse_render_nest d cs t : nest_resource d t = true -> last_comment_ok t = true ->
  exists t', parse (render cs t) = Done (t', []) /\ map join_entry t' = t.
Proof.
  destruct (facts_alln d) as (_ & R & J & W & P). apply (parse_render_ml (eokn d) (etextn d) (goodn d)); assumption.
Qed.

Theorem nest_resource_wf d t : nest_resource d t = true -> wf_resource t = true.
Proof.
  destruct (facts_alln d) as (_ & R & J & W & P). apply (ml_resource_wf (eokn d) (etextn d) (goodn d)); assumption.
Qed.

(* ---------------------------------------------------------------------------------------------- *)
(* 5. The classes grow with the depth and contain those of RoundTripSel.v                            *)

Lemma gargs_ok_mono (a1 a2 : inline -> bool) ca : (forall i, a1 i = true -> a2 i = true) ->
  gargs_ok a1 ca = true -> gargs_ok a2 ca = true.
Proof.
  intros Hm. destruct ca as [pos named]. unfold gargs_ok. intros H. apply andb_prop in H as [H H3]. apply andb_prop in H as [H1 H2].
  rewrite H2, H3, !andb_true_r. rewrite forallb_forall in *. intros x Hx. apply Hm, H1, Hx.
Qed.

Lemma binl_mono (a1 a2 : inline -> bool) i : (forall i, a1 i = true -> a2 i = true) -> binl a1 i = true -> binl a2 i = true.
Proof.
  intros Hm. destruct i as [s | v | id ca | id att | id [a|] [ca|] | id | e]; cbn [binl]; intros H; try exact H.
  - apply andb_prop in H as [H1 H2]. rewrite H1, (gargs_ok_mono a1 a2 ca Hm H2). reflexivity.
  - apply andb_prop in H as [H1 H2]. rewrite H1, (gargs_ok_mono a1 a2 ca Hm H2). reflexivity.
Qed.

Lemma bsl_mono (a1 a2 : inline -> bool) i : (forall i, a1 i = true -> a2 i = true) -> bsl a1 i = true -> bsl a2 i = true.
Proof.
  intros Hm. destruct i as [s | v | id ca | id att | id [a|] [ca|] | id | e]; cbn [bsl]; intros H; try exact H.
  - apply andb_prop in H as [H1 H2]. rewrite H1, (gargs_ok_mono a1 a2 ca Hm H2). reflexivity.
  - apply andb_prop in H as [H1 H2]. rewrite H1, (gargs_ok_mono a1 a2 ca Hm H2). reflexivity.
Qed.

Lemma simple_aokn d i : simple_inline i = true -> aokn d i = true.
Proof.
  destruct d as [|d]; [exact (fun H => H)|].
  destruct i as [s | v | id ca | id att | id [a|] [ca|] | id | e]; intros H; try discriminate H; exact H.
Qed.

Lemma variants_ok_mono (e1 e2 : expression -> bool) vs : (forall e, e1 e = true -> e2 e = true) ->
  forallb (variant_ok e1) vs = true -> forallb (variant_ok e2) vs = true.
Proof.
  intros Hm H. rewrite forallb_forall in *. intros v Hv. specialize (H v Hv). destruct v as [k p d0]. unfold variant_ok in *.
  apply andb_prop in H as [Hk Hp]. rewrite Hk, (wl_pattern_mono e1 e2 p Hm Hp). reflexivity.
Qed.

Lemma classes_mono d : (forall i, aokn d i = true -> aokn (S d) i = true) /\ (forall e, eokn d e = true -> eokn (S d) e = true).
Proof.
  induction d as [|d [IHa IHe]].
  - split.
    + intros i Hi. apply (simple_aokn 1 i Hi).
    + intros e He. destruct e as [sel vs | i]; [discriminate He|]. cbn [eokn eoks] in He.
      cbn [eokn]. destruct i; try discriminate He; apply (simple_binl (aokn 0)), He.
  - split.
    + intros i Hi.
      destruct (aokn_S_cases d _ Hi) as [Hs | [(id & ca & -> & Hid & Hca) | [(id & att & ca & -> & Hid & Hatt & Hca) | [(id & a & -> & Hid & Ha) | (e1 & -> & He1)]]]].
      * apply (simple_aokn _ i Hs).
      * cbn [aokn]. rewrite Hid. apply (gargs_ok_mono _ _ ca IHa Hca).
      * change (aokn (S (S d)) (TermReference id att (Some ca)))
          with (wf_identifier id && match att with Some a => wf_identifier a | None => true end && gargs_ok (aokn (S d)) ca).
        rewrite Hid, (gargs_ok_mono _ _ ca IHa Hca). destruct att; [rewrite Hatt|]; reflexivity.
      * cbn [aokn]. rewrite Hid, Ha. reflexivity.
      * change (aokn (S (S d)) (Placeable e1)) with (eokn (S d) e1). apply IHe, He1.
    + intros e He.
      destruct (eokn_S_cases d e He) as [(i & -> & Hi) | [(e1 & -> & He1) | (sel & vs & -> & Hsel & Hcnt & Hvs)]].
      * assert (Hb : binl (aokn (S d)) i = true) by apply (binl_mono _ _ i IHa Hi).
        destruct i; try exact Hb. discriminate Hi.
      * change (eokn (S (S d)) (Inline (Placeable e1))) with (eokn (S d) e1). apply IHe, He1.
      * change (eokn (S (S d)) (Select sel vs)) with
          (bsl (aokn (S d)) sel && Nat.eqb (count_defaults vs) 1 && forallb (variant_ok (eokn (S d))) vs).
        rewrite (bsl_mono _ _ sel IHa Hsel), Hcnt, (variants_ok_mono _ _ vs IHe Hvs). reflexivity.
Qed.

Lemma aokn_le d d' i : d <= d' -> aokn d i = true -> aokn d' i = true.
Proof. induction 1 as [|d' _ IH]; [exact (fun H => H)|]. intros H. apply (proj1 (classes_mono d')), IH, H. Qed.
Lemma eokn_le d d' e : d <= d' -> eokn d e = true -> eokn d' e = true.
Proof. induction 1 as [|d' _ IH]; [exact (fun H => H)|]. intros H. apply (proj2 (classes_mono d')), IH, H. Qed.

Theorem nest_resource_mono d d' t : d <= d' -> nest_resource d t = true -> nest_resource d' t = true.
Proof.
  intros Hle. unfold nest_resource. rewrite <- !ml_resource_g. apply g_resource_mono. intros els.
  unfold ml_pok. apply wl_pattern_mono. intros e. apply (eokn_le d d' e Hle).
Qed.

(* the classes of RoundTripSel.v (call arguments: simple inline expressions only) *)
Lemma args_ok_gargs ca : args_ok ca = true -> gargs_ok simple_inline ca = true.
Proof. destruct ca. exact (fun H => H). Qed.
Lemma binline_binl i : binline i = true -> binl simple_inline i = true.
Proof. destruct i as [s | v | id ca | id att | id [a|] [ca|] | id | e]; cbn [binline binl]; try exact (fun H => H); destruct ca; exact (fun H => H). Qed.
Lemma bsel_bsl i : bsel i = true -> bsl simple_inline i = true.
Proof. destruct i as [s | v | id ca | id att | id [a|] [ca|] | id | e]; cbn [bsel bsl]; try exact (fun H => H); destruct ca; exact (fun H => H). Qed.

Lemma eokd_eokn d : forall e, eokd d e = true -> eokn (S d) e = true.
Proof.
  induction d as [|d IH]; intros e He.
  - destruct e as [sel vs | i]; [discriminate He|]. cbn [eokd eok0] in He.
    assert (Hb : binl (aokn 0) i = true) by apply (binl_mono simple_inline (aokn 0) i (fun i H => H) (binline_binl i He)).
    cbn [eokn]. destruct i; try exact Hb. discriminate He.
  - destruct (eokd_S_cases d e He) as [(i & -> & Hi) | [(e1 & -> & He1) | (sel & vs & -> & Hsel & Hcnt & Hvs)]].
    + assert (Hb : binl (aokn (S d)) i = true) by apply (binl_mono simple_inline (aokn (S d)) i (simple_aokn (S d)) (binline_binl i Hi)).
      destruct i; try exact Hb. discriminate Hi.
    + change (eokn (S (S d)) (Inline (Placeable e1))) with (eokn (S d) e1). apply IH, He1.
    + change (eokn (S (S d)) (Select sel vs)) with
        (bsl (aokn (S d)) sel && Nat.eqb (count_defaults vs) 1 && forallb (variant_ok (eokn (S d))) vs).
      rewrite (bsl_mono simple_inline (aokn (S d)) sel (simple_aokn (S d)) (bsel_bsl sel Hsel)), Hcnt, (variants_ok_mono _ _ vs IH Hvs). reflexivity.
Qed.

Theorem sel_resource_nest d t : sel_resource d t = true -> nest_resource (S d) t = true.
Proof.
  unfold sel_resource, nest_resource. rewrite <- !ml_resource_g. apply g_resource_mono. intros els.
  unfold ml_pok. apply wl_pattern_mono, eokd_eokn.
Qed.

(* ---------------------------------------------------------------------------------------------- *)
(* 6. ALL layouts                                                                                   *)

(* `nest_layout d t bs`: bs is a layout of the tree t.  The relation (EntryLoop.gresource_layout over
   RoundTripML.wl_value_layout and the layouts etextn d of the placeables) allows far more than the choices of
   Render.v: ANY number of blank lines (each with any number of spaces) at the start and between entries (at least
   the number the grammar requires after a stand-alone comment), any number of spaces around '=', any indentation
   >= 1 of attribute lines and of the continuation lines of a value (the same for all lines of the value), any number
   of spaces on a blank line inside a value, a value
   that starts on the line of the '=' (only if one of its continuation lines is not indented deeper than its first
   line, or it has one line) or on a later line (only if its first byte is not a dot, an opening bracket or an asterisk), blanks of any length (spaces, line breaks) inside braces,
   brackets and parentheses, LF or CRLF at every line end, with or without a final line end *)
Definition nest_layout (d : nat) (t : resource) (bs : bytes) : Prop := gresource_layout (wl_value_layout (etextn d)) t bs.

Theorem parse_layout_nest_split d t bs : nest_resource d t = true -> nest_layout d t bs ->
  exists t', parse bs = Done (t', []) /\ Forall2 (rel_entry (srel (goodn d))) t' t.
Proof.
  intros Ht HL. destruct (facts_alln d) as (_ & R & J & W & P).
  apply (g_parse_layout (ml_pok (eokn d)) (wl_value_layout (etextn d)) (srel (goodn d)) t bs).
  - intros els V T used c nx p n Hp. apply (get_pattern_wl (eokn d) (etextn d) (goodn d) R J P bs els V T used c nx p n Hp).
  - intros els V Hp. apply (wl_value_layout_strip (eokn d) (etextn d) els V Hp).
  - rewrite ml_resource_g. exact Ht.
  - exact HL.
Qed.

Theorem parse_layout_nest d t bs : nest_resource d t = true -> nest_layout d t bs ->
  exists t', parse bs = Done (t', []) /\ map join_entry t' = t.
Proof.
  intros Ht HL. destruct (parse_layout_nest_split d t bs Ht HL) as (t' & E & Hrel). exists t'. split; [exact E|].
  apply jrel_entries. apply (rel_entries_mono (srel (goodn d)) jrel t' t); [intros x y [H _]; exact H | exact Hrel].
Qed.

(* the texts of Render.v are layouts *)
Theorem render_nest_layout d cs t : nest_resource d t = true -> last_comment_ok t = true -> nest_layout d t (render cs t).
Proof.
  intros Ht Hl. destruct (facts_alln d) as (_ & R & J & W & P).
  apply (g_render_layout (ml_pok (eokn d)) (wl_value_layout (etextn d)) (fun _ _ => True)); [| rewrite ml_resource_g; exact Ht | exact Hl].
  intros ind els cs0 Hp Hind. apply (render_value_wl_layout (eokn d) (etextn d) (goodn d) R P ind els cs0 Hp Hind).
Qed.

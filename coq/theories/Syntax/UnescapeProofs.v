(* Syntax/UnescapeProofs.v — the byte-cursor decoder of unicode.rs (UnescapeModel.v) computes
   `unescape_spec`, never panics and never runs out of fuel, on every well-formed UTF-8 input.

   Method: a valid string is `encode_chars cs` for scalar values cs (Utf8Facts.utf8_valid_decode).
   The loop invariant says: `start` and `ptr` are the byte lengths of two character prefixes of cs,
   no backslash lies between them, and what has been written plus what is still pending is the
   specification's output for the characters consumed so far.                                    *)
From FluentV Require Import Base.Utf8 Base.Utf8Facts Syntax.UnescapeModel Gen.Extracted.
From Coq Require Import Lia ZifyBool ZifyNat ZifyN.

Local Notation E := encode_chars.
Definition P (cs : list N) : nat := length (encode_chars cs).

Lemma P_app a b : P (a ++ b) = P a + P b.
Proof. unfold P. rewrite encode_chars_app, app_length. reflexivity. Qed.

Lemma P_cons c r : P (c :: r) = length (encode_char c) + P r.
Proof. unfold P. rewrite encode_chars_cons, app_length. reflexivity. Qed.

Lemma P_nil : P [] = 0.
Proof. reflexivity. Qed.

Lemma nth_error_E_split a b j : nth_error (E (a ++ b)) (P a + j) = nth_error (E b) j.
Proof. unfold P. rewrite encode_chars_app, nth_error_app2 by lia. f_equal. lia. Qed.

Lemma skipn_E_split a b : skipn (P a) (E (a ++ b)) = E b.
Proof. unfold P. rewrite encode_chars_app, skipn_app, skipn_all, Nat.sub_diag. reflexivity. Qed.

(* ------------------------------------------------------------------------------------------ *)
(* hex digits                                                                                  *)

Lemma is_hexdigit_val b : is_hexdigit b = true ->
  exists d, hex_digit_val b = Some d /\ (d <= 15)%N /\ (b < 128)%N /\ b <> 43%N /\ b <> 45%N.
Proof.
  unfold is_hexdigit, hex_digit_val. intros H.
  destruct (in_rng 48 57 b) eqn:H1; [eexists; split; [reflexivity | arith]|].
  destruct (in_rng 97 102 b) eqn:H2; [eexists; split; [reflexivity | arith]|].
  destruct (in_rng 65 70 b) eqn:H3; [eexists; split; [reflexivity | arith]|].
  discriminate.
Qed.

Lemma not_hexdigit_val b : is_hexdigit b = false -> hex_digit_val b = None.
Proof.
  unfold is_hexdigit, hex_digit_val. intros H.
  destruct (in_rng 48 57 b); [discriminate|]. destruct (in_rng 97 102 b); [rewrite orb_true_r in H; discriminate|].
  destruct (in_rng 65 70 b); [discriminate|]. reflexivity.
Qed.

Lemma radix16_digits_ok x : forall acc, forallb is_hexdigit x = true ->
  (acc * 16 ^ N.of_nat (length x) + 16 ^ N.of_nat (length x) <= 4294967296)%N ->
  radix16_digits acc x = hex_value (length x) acc x.
Proof.
  induction x as [|b x IH]; intros acc Hh Hb; [reflexivity|].
  cbn [forallb] in Hh. apply andb_prop in Hh as [Hb0 Hh].
  destruct (is_hexdigit_val b Hb0) as (d & Hd & Hd15 & _).
  cbn [radix16_digits hex_value length]. rewrite Hd.
  cbn [length] in Hb. rewrite Nat2N.inj_succ, N.pow_succ_r' in Hb.
  set (p := (16 ^ N.of_nat (length x))%N) in *.
  assert (Hp0 : (p <> 0)%N) by (subst p; apply N.pow_nonzero; lia).
  assert (Hp : (1 <= p)%N) by lia.
  assert (H1 : ((acc * 16 + d) * p + p <= 4294967296)%N) by nia.
  replace (N.ltb 4294967295 (acc * 16 + d)) with false by (symmetry; apply N.ltb_ge; nia).
  apply IH; assumption.
Qed.

Lemma u32_from_str_radix_16_hex x : forallb is_hexdigit x = true -> length x = 4 \/ length x = 6 ->
  u32_from_str_radix_16 x = hex_value (length x) 0 x.
Proof.
  intros Hh Hl. destruct x as [|b r]; [cbn in Hl; lia|].
  pose proof Hh as Hh'. cbn [forallb] in Hh'. apply andb_prop in Hh' as [Hb _].
  destruct (is_hexdigit_val b Hb) as (d & _ & _ & _ & H43 & H45).
  unfold u32_from_str_radix_16.
  apply N.eqb_neq in H43, H45. rewrite H43, H45. cbn [orb andb].
  apply radix16_digits_ok; [exact Hh|].
  destruct Hl as [-> | ->]; cbn; lia.
Qed.

Lemma hex_value_app k : forall acc hs rest, length hs = k -> hex_value k acc (hs ++ rest) = hex_value k acc hs.
Proof.
  induction k as [|k IH]; intros acc hs rest Hl; [reflexivity|].
  destruct hs as [|h hs]; [discriminate|]. cbn [app hex_value].
  destruct (hex_digit_val h); [|reflexivity]. apply IH. cbn in Hl. lia.
Qed.

(* either the next k characters are hex digits (then they are k ASCII bytes), or neither the
   specification nor the byte-level filter accepts *)
Lemma hex_prefix_dec k : forall post, scalars post ->
  (exists hs rest, post = hs ++ rest /\ length hs = k /\ forallb is_hexdigit hs = true /\ E hs = hs) \/
  ((forall acc, hex_value k acc post = None) /\
   (length (firstn k (E post)) = k -> forallb is_hexdigit (firstn k (E post)) = false)).
Proof.
  induction k as [|k IH]; intros post Hs.
  { left. exists [], post. auto. }
  destruct post as [|c post].
  { right. split; [reflexivity | cbn; discriminate]. }
  apply scalars_cons in Hs as [Hc Hs].
  destruct (is_hexdigit c) eqn:Hh.
  - destruct (is_hexdigit_val c Hh) as (d & Hd & _ & Hlt & _).
    pose proof (encode_char_ascii c Hlt) as Ec.
    destruct (IH post Hs) as [(hs & rest & -> & Hl & Hhs & Ehs) | [Hn Hf]].
    + left. exists (c :: hs), rest. split; [reflexivity|]. split; [cbn; lia|].
      split; [cbn [forallb]; rewrite Hh; exact Hhs|].
      rewrite encode_chars_cons, Ec, Ehs. reflexivity.
    + right. split.
      * intros acc. cbn [hex_value]. rewrite Hd. apply Hn.
      * rewrite encode_chars_cons, Ec. cbn [app firstn length forallb]. intros Hl.
        rewrite Hf by lia. apply andb_false_r.
  - right. split.
    + intros acc. cbn [hex_value]. rewrite (not_hexdigit_val c Hh). reflexivity.
    + rewrite encode_chars_cons.
      destruct (encode_char_shape c Hc) as [[_ ->] | [_ (b & t & -> & Hb & _)]]; cbn [app firstn forallb]; intros _.
      * rewrite Hh. reflexivity.
      * replace (is_hexdigit b) with false; [reflexivity|]. unfold is_hexdigit. arith.
Qed.

Lemma UNKNOWN_CHAR_is_fffd : UNKNOWN_CHAR = 65533%N.
Proof. reflexivity. Qed.

(* encode_unicode(input.get(seq_start..seq_start+k)) read at a character position *)
Lemma encode_unicode_spec a post k : scalars (a ++ post) -> k = 4 \/ k = 6 ->
  encode_unicode (slice_get (E (a ++ post)) (P a) (P a + k)) = scalar_or_fffd (hex_value k 0 post).
Proof.
  intros Hs Hk. apply scalars_app in Hs as [Ha Hp].
  destruct (hex_prefix_dec k post Hp) as [(hs & rest & -> & Hl & Hhs & Ehs) | [Hn Hf]].
  - apply scalars_app in Hp as [Hhs' Hrest].
    assert (Hpos : P a + k = P (a ++ hs)) by (rewrite P_app; unfold P at 3; rewrite Ehs; lia).
    unfold slice_get. rewrite Hpos. unfold P. rewrite slice_chars by assumption.
    unfold encode_unicode. rewrite Ehs, Hhs.
    rewrite u32_from_str_radix_16_hex by (try assumption; lia).
    rewrite Hl, hex_value_app by exact Hl.
    unfold scalar_or_fffd, char_from_u32. rewrite UNKNOWN_CHAR_is_fffd.
    destruct (hex_value k 0 hs) as [n|]; [destruct (is_scalar n)|]; reflexivity.
  - rewrite Hn. cbn [scalar_or_fffd]. unfold slice_get, slice.
    destruct (_ && _ && _ && _) eqn:Hc; [|reflexivity].
    apply andb_prop in Hc as [Hc _]. apply andb_prop in Hc as [Hc _]. apply andb_prop in Hc as [_ Hc].
    apply Nat.leb_le in Hc. rewrite skipn_E_split.
    replace (P a + k - P a) with k by lia.
    assert (Hlen : length (firstn k (E post)) = k).
    { rewrite firstn_length. fold (P (a ++ post)) in Hc. rewrite P_app in Hc. unfold P in Hc at 3. lia. }
    unfold encode_unicode. rewrite (Hf Hlen). reflexivity.
Qed.

(* ------------------------------------------------------------------------------------------ *)
(* the specification's skip counter as a function on character lists                            *)

Fixpoint drop_skip (k : nat) (cs : list N) : list N :=
  match cs with
  | [] => []
  | c :: r => match k with O => cs | S _ => drop_skip (k - length (encode_char c)) r end
  end.

Lemma drop_skip_0 cs : drop_skip 0 cs = cs.
Proof. destruct cs; reflexivity. Qed.

Lemma unescape_chars_drop_skip cs : forall k, unescape_chars k cs = unescape_chars 0 (drop_skip k cs).
Proof.
  induction cs as [|c r IH]; intros k; [reflexivity|].
  destruct k as [|k]; [reflexivity|]. cbn [unescape_chars drop_skip]. apply IH.
Qed.

Lemma drop_skip_length k : forall cs, length (drop_skip k cs) <= length cs.
Proof.
  intros cs; revert k; induction cs as [|c r IH]; intros k; [cbn; lia|].
  destruct k; cbn [drop_skip length]; [lia|]. specialize (IH (S k - length (encode_char c))). lia.
Qed.

Lemma unescape_chars_plain cs : Forall (fun c => c <> 92%N) cs -> unescape_chars 0 cs = cs.
Proof.
  induction 1 as [|c r Hc _ IH]; [reflexivity|]. cbn [unescape_chars].
  apply N.eqb_neq in Hc. rewrite Hc, IH. reflexivity.
Qed.

(* ------------------------------------------------------------------------------------------ *)
(* the loops                                                                                   *)

Section Loop.
Variable cs : list N.
Hypothesis Hcs : scalars cs.
Let input := E cs.

Lemma encode_char_92 : encode_char 92 = [92%N].
Proof. reflexivity. Qed.

(* the inner `while`: from k bytes after a character position to the next boundary *)
Lemma skip_inside a c r L : cs = a ++ c :: r -> L = length (encode_char c) ->
  forall j k fuel, 0 < k -> k + j = L -> length input - (P a + k) < fuel ->
  skip_to_boundary fuel input (P a + k) = Done (P a + L).
Proof.
  intros Hsplit HL. assert (Hs := Hcs). rewrite Hsplit in Hs. apply scalars_app in Hs as [Ha Hs].
  apply scalars_cons in Hs as [Hc Hr].
  assert (Hlen : length input = P a + L + P r).
  { unfold input. fold (P cs). rewrite Hsplit, P_app, P_cons. lia. }
  induction j as [|j IH]; intros k fuel Hk Hj Hf.
  - assert (k = L) by lia. subst k.
    destruct fuel as [|fuel]; [lia|]. cbn [skip_to_boundary].
    replace (is_char_boundary input (P a + L)) with true; [rewrite andb_false_r; reflexivity|].
    symmetry. unfold input. rewrite Hsplit.
    replace (a ++ c :: r) with ((a ++ [c]) ++ r) by (rewrite <- app_assoc; reflexivity).
    replace (P a + L) with (P (a ++ [c])) by (rewrite P_app, P_cons, P_nil; lia).
    apply boundary_prefix, Hr.
  - destruct fuel as [|fuel]; [lia|]. cbn [skip_to_boundary].
    destruct (inside_char_not_boundary (E a) c (E r) k Hc ltac:(lia)) as (x & Hx & Hcx).
    assert (Hin : input = E a ++ encode_char c ++ E r).
    { unfold input. rewrite Hsplit, encode_chars_app, encode_chars_cons. reflexivity. }
    fold (P a) in Hx. rewrite <- Hin in Hx.
    replace (Nat.ltb (P a + k) (length input)) with true by (symmetry; apply Nat.ltb_lt; lia).
    replace (is_char_boundary input (P a + k)) with false.
    2:{ symmetry. unfold is_char_boundary.
        replace (Nat.eqb (P a + k) 0) with false by (symmetry; apply Nat.eqb_neq; lia).
        replace (Nat.compare (P a + k) (length input)) with Lt by (symmetry; apply Nat.compare_lt_iff; lia).
        rewrite Hx, Hcx. reflexivity. }
    cbn [andb negb]. replace (P a + k + 1) with (P a + (k + 1)) by lia. apply IH; lia.
Qed.

Lemma skip_ok : forall post a k fuel, cs = a ++ post -> length input - (P a + k) < fuel ->
  exists p', skip_to_boundary fuel input (P a + k) = Done p' /\
    ((drop_skip k post = [] /\ length input <= p') \/
     (exists taken, post = taken ++ drop_skip k post /\ p' = P (a ++ taken))).
Proof.
  induction post as [|c r IH]; intros a k fuel Hsplit Hf.
  - assert (Hlen : length input = P a) by (unfold input; rewrite Hsplit, app_nil_r; reflexivity).
    destruct fuel as [|fuel]; [lia|]. cbn [skip_to_boundary].
    replace (Nat.ltb (P a + k) (length input)) with false by (symmetry; apply Nat.ltb_ge; lia).
    cbn [andb]. eexists; split; [reflexivity|]. left. split; [reflexivity | lia].
  - assert (Hs := Hcs). rewrite Hsplit in Hs. apply scalars_app in Hs as [Ha Hs].
    pose proof (encode_char_length c) as HL.
    assert (Hlen : length input = P a + length (encode_char c) + P r).
    { unfold input. fold (P cs). rewrite Hsplit, P_app, P_cons. lia. }
    destruct k as [|k].
    + destruct fuel as [|fuel]; [lia|]. cbn [skip_to_boundary].
      replace (is_char_boundary input (P a + 0)) with true.
      2:{ symmetry. rewrite Nat.add_0_r. unfold input. rewrite Hsplit. apply boundary_prefix, Hs. }
      rewrite andb_false_r. eexists; split; [reflexivity|]. right. exists []. split; [reflexivity|].
      rewrite app_nil_r. lia.
    + destruct (Nat.le_gt_cases (length (encode_char c)) (S k)) as [Hge | Hlt].
      * assert (Hsplit' : cs = (a ++ [c]) ++ r) by (rewrite <- app_assoc; exact Hsplit).
        destruct (IH (a ++ [c]) (S k - length (encode_char c)) fuel Hsplit') as (p' & Hp' & Hd).
        { rewrite P_app, P_cons, P_nil. lia. }
        exists p'. split.
        { rewrite <- Hp'. f_equal. rewrite P_app, P_cons, P_nil. lia. }
        cbn [drop_skip]. destruct Hd as [Hd | (taken & Ht & ->)]; [left; exact Hd | right].
        exists (c :: taken). split; [cbn; f_equal; exact Ht |]. rewrite <- app_assoc. reflexivity.
      * exists (P a + length (encode_char c)). split.
        { eapply (skip_inside a c r _ Hsplit eq_refl (length (encode_char c) - S k)); lia. }
        right. exists [c]. cbn [drop_skip].
        replace (S k - length (encode_char c)) with 0 by lia. rewrite drop_skip_0.
        split; [reflexivity|]. rewrite P_app, P_cons, P_nil. lia.
Qed.

(* scanning bytes that are not a backslash *)
Lemma loop_S fuel inp w start ptr :
  unescape_loop (S fuel) inp w start ptr =
  match nth_error inp ptr with
  | None => Done (w, start, ptr)
  | Some b =>
      if negb (N.eqb b 92) then unescape_loop fuel inp w start (ptr + 1)
      else
        let* w := flush_pending inp w start ptr in
        let '(new_char, ptr) := escape_at inp (ptr + 1) in
        let* ptr := skip_to_boundary (S (length inp)) inp (ptr + 1) in
        unescape_loop fuel inp (w ++ encode_char new_char) ptr ptr
  end.
Proof. reflexivity. Qed.

Lemma scan_bytes l : forall a b fuel w start, Forall (fun x => x <> 92%N) l ->
  unescape_loop (length l + fuel) (a ++ l ++ b) w start (length a)
  = unescape_loop fuel (a ++ l ++ b) w start (length a + length l).
Proof.
  induction l as [|x l IH]; intros a b fuel w start Hl.
  - cbn. rewrite Nat.add_0_r. reflexivity.
  - inversion Hl as [|? ? Hx Hl']; subst. cbn [length Nat.add]. rewrite loop_S.
    rewrite nth_error_app2, Nat.sub_diag by lia. cbn [app nth_error].
    apply N.eqb_neq in Hx. rewrite Hx. cbn [negb].
    replace (a ++ x :: l ++ b) with ((a ++ [x]) ++ l ++ b) by (rewrite <- app_assoc; reflexivity).
    replace (length a + 1) with (length (a ++ [x])) by (rewrite app_length; reflexivity).
    rewrite IH by exact Hl'. f_equal. rewrite app_length. cbn. lia.
Qed.

Lemma encode_char_no_backslash c : is_scalar c = true -> c <> 92%N ->
  Forall (fun x => x <> 92%N) (encode_char c).
Proof.
  intros Hc Hne. destruct (encode_char_shape c Hc) as [[_ ->] | [_ (b & t & -> & Hb & Ht)]].
  - repeat constructor. exact Hne.
  - constructor; [lia|]. eapply Forall_impl; [|exact Ht]. intros x Hx. arith.
Qed.

(* pending text between two character positions *)
Lemma flush_chars pre0 mid post w : cs = pre0 ++ mid ++ post ->
  flush_pending input w (P pre0) (P (pre0 ++ mid)) = Done (w ++ E mid).
Proof.
  intros Hsplit. assert (Hs := Hcs). rewrite Hsplit in Hs.
  apply scalars_app in Hs as [_ Hs]. apply scalars_app in Hs as [Hm Hp].
  unfold flush_pending. destruct (Nat.eqb (P pre0) (P (pre0 ++ mid))) eqn:He; cbn [negb].
  - apply Nat.eqb_eq in He. rewrite P_app in He. assert (H0 : P mid = 0) by lia.
    unfold P in H0. destruct (E mid); [|discriminate]. rewrite app_nil_r. reflexivity.
  - unfold input. rewrite Hsplit. unfold P. rewrite slice_chars by assumption. reflexivity.
Qed.

(* the escape block read just after a backslash *)
Lemma escape_at_spec pre r : cs = pre ++ 92%N :: r ->
  escape_at input (P pre + 1) = (fst (decode_escape r), P pre + snd (decode_escape r)).
Proof.
  intros Hsplit. assert (Hs := Hcs). rewrite Hsplit in Hs.
  assert (Hsplit' : cs = (pre ++ [92%N]) ++ r) by (rewrite <- app_assoc; exact Hsplit).
  assert (Hq : P pre + 1 = P (pre ++ [92%N]) + 0) by (rewrite P_app, P_cons, P_nil; cbn; lia).
  unfold escape_at. unfold input at 1. rewrite Hsplit' at 1. rewrite Hq, nth_error_E_split.
  destruct r as [|c r']; [cbn; rewrite UNKNOWN_CHAR_is_fffd; f_equal; lia|].
  apply scalars_app in Hs as [Hpre Hs]. apply scalars_cons in Hs as [_ Hs]. apply scalars_cons in Hs as [Hc Hr'].
  rewrite encode_chars_cons. unfold decode_escape.
  destruct (encode_char_shape c Hc) as [[Hlt ->] | [Hge (b & t & -> & Hb & _)]]; cbn [app nth_error].
  - destruct (N.eqb c 92) eqn:E1; [cbn; f_equal; lia|].
    destruct (N.eqb c 34) eqn:E2; [cbn; f_equal; lia|].
    destruct (N.eqb c 117) eqn:E3.
    { apply N.eqb_eq in E3. subst c. cbn [orb fst snd].
      assert (Hsp : cs = (pre ++ [92; 117]%N) ++ r') by (rewrite <- app_assoc; exact Hsplit).
      assert (Hq' : P (pre ++ [92%N]) + 0 + 1 = P (pre ++ [92; 117]%N)).
      { rewrite !P_app, !P_cons, P_nil. cbn. lia. }
      rewrite Hq'. unfold input. rewrite Hsp. rewrite encode_unicode_spec; [f_equal; lia | | auto].
      rewrite <- Hsp. exact Hcs. }
    destruct (N.eqb c 85) eqn:E4.
    { apply N.eqb_eq in E4. subst c. cbn [orb fst snd].
      assert (Hsp : cs = (pre ++ [92; 85]%N) ++ r') by (rewrite <- app_assoc; exact Hsplit).
      assert (Hq' : P (pre ++ [92%N]) + 0 + 1 = P (pre ++ [92; 85]%N)).
      { rewrite !P_app, !P_cons, P_nil. cbn. lia. }
      rewrite Hq'. unfold input. rewrite Hsp. rewrite encode_unicode_spec; [f_equal; lia | | auto].
      rewrite <- Hsp. exact Hcs. }
    cbn. rewrite UNKNOWN_CHAR_is_fffd. f_equal. lia.
  - replace (N.eqb b 92) with false by (symmetry; apply N.eqb_neq; lia).
    replace (N.eqb b 34) with false by (symmetry; apply N.eqb_neq; lia).
    replace (N.eqb b 117) with false by (symmetry; apply N.eqb_neq; lia).
    replace (N.eqb b 85) with false by (symmetry; apply N.eqb_neq; lia).
    replace (N.eqb c 92) with false by (symmetry; apply N.eqb_neq; lia).
    replace (N.eqb c 34) with false by (symmetry; apply N.eqb_neq; lia).
    replace (N.eqb c 117) with false by (symmetry; apply N.eqb_neq; lia).
    replace (N.eqb c 85) with false by (symmetry; apply N.eqb_neq; lia).
    cbn. rewrite UNKNOWN_CHAR_is_fffd. f_equal. lia.
Qed.

Lemma decode_escape_fst_scalar r : scalars r -> is_scalar (fst (decode_escape r)) = true.
Proof.
  intros _. unfold decode_escape. destruct r as [|c r']; [reflexivity|].
  assert (Hsf : forall o, is_scalar (scalar_or_fffd o) = true).
  { intros [n|]; cbn; [destruct (is_scalar n) eqn:En; [exact En|]|]; reflexivity. }
  destruct (N.eqb c 92); [reflexivity|]. destruct (N.eqb c 34); [reflexivity|].
  destruct (N.eqb c 117); [apply Hsf|]. destruct (N.eqb c 85); [apply Hsf|]. reflexivity.
Qed.

Lemma decode_escape_snd_pos r : 0 < snd (decode_escape r).
Proof.
  unfold decode_escape. destruct r as [|c r']; [cbn; lia|].
  destruct (N.eqb c 92); [cbn; lia|]. destruct (N.eqb c 34); [cbn; lia|].
  destruct (N.eqb c 117); [cbn; lia|]. destruct (N.eqb c 85); cbn; lia.
Qed.

Definition plain (l : list N) : Prop := Forall (fun c => c <> 92%N) l.

(* THE loop invariant *)
Lemma loop_main : forall n post, length post <= n -> forall pre0 mid w fuel,
  cs = pre0 ++ mid ++ post -> plain mid -> P post < fuel ->
  exists w' s' p',
    unescape_loop fuel input w (P pre0) (P (pre0 ++ mid)) = Done (w', s', p') /\
    flush_pending input w' s' p' = Done (w ++ E mid ++ E (unescape_chars 0 post)) /\
    ((s' = P pre0 /\ w' = w /\ plain post) \/ (0 < s' /\ In 92%N post)).
Proof.
  induction n as [|n IH]; intros post Hn pre0 mid w fuel Hsplit Hmid Hfuel.
  - destruct post; [|cbn in Hn; lia]. clear Hn.
    destruct fuel as [|fuel]; [lia|]. rewrite loop_S.
    assert (Hend : nth_error input (P (pre0 ++ mid)) = None).
    { apply nth_error_None. unfold input. fold (P cs). rewrite Hsplit, app_nil_r. lia. }
    rewrite Hend. eexists; eexists; eexists. split; [reflexivity|]. split.
    + rewrite (flush_chars pre0 mid [] w Hsplit). cbn. rewrite app_nil_r. reflexivity.
    + left. repeat split. constructor.
  - destruct post as [|c post].
    { apply (IH [] ltac:(cbn; lia) pre0 mid w fuel Hsplit Hmid Hfuel). }
    cbn [length] in Hn.
    assert (Hs := Hcs). rewrite Hsplit in Hs. apply scalars_app in Hs as [Hpre0 Hs].
    apply scalars_app in Hs as [Hsm Hs]. apply scalars_cons in Hs as [Hc Hpost].
    destruct (N.eq_dec c 92) as [-> | Hne].
    + (* an escape *)
      set (pre := pre0 ++ mid).
      assert (Hsp : cs = pre ++ 92%N :: post) by (unfold pre; rewrite <- app_assoc; exact Hsplit).
      rewrite P_cons, encode_char_92 in Hfuel. cbn [length] in Hfuel.
      destruct fuel as [|fuel]; [lia|]. rewrite loop_S.
      assert (Hnth : nth_error input (P pre) = Some 92%N).
      { unfold input. rewrite Hsp. rewrite <- (Nat.add_0_r (P pre)), nth_error_E_split. reflexivity. }
      rewrite Hnth. cbn [N.eqb Pos.eqb negb].
      pose proof (flush_chars pre0 mid (92%N :: post) w Hsplit) as Hfl0. fold pre in Hfl0.
      rewrite Hfl0. cbn [obind].
      rewrite (escape_at_spec pre post Hsp).
      destruct (decode_escape post) as [x k] eqn:Hde. cbn [fst snd].
      assert (Hx : is_scalar x = true) by (pose proof (decode_escape_fst_scalar post Hpost) as H; rewrite Hde in H; exact H).
      assert (Hsp' : cs = (pre ++ [92%N]) ++ post) by (rewrite <- app_assoc; exact Hsp).
      replace (P pre + k + 1) with (P (pre ++ [92%N]) + k) by (rewrite P_app, P_cons, P_nil; cbn; lia).
      destruct (skip_ok post (pre ++ [92%N]) k (S (length input)) Hsp' ltac:(lia)) as (p' & Hp' & Hd).
      rewrite Hp'. cbn [obind].
      assert (Hspec : unescape_chars 0 (92%N :: post) = x :: unescape_chars 0 (drop_skip k post)).
      { cbn [unescape_chars N.eqb Pos.eqb]. rewrite Hde. rewrite unescape_chars_drop_skip. reflexivity. }
      rewrite Hspec.
      destruct Hd as [[Hnil Hge] | (taken & Htk & ->)].
      * rewrite Hnil. destruct fuel as [|fuel]; [lia|]. rewrite loop_S.
        replace (nth_error input p') with (@None N) by (symmetry; apply nth_error_None; exact Hge).
        eexists; eexists; eexists. split; [reflexivity|]. split.
        { unfold flush_pending. rewrite Nat.eqb_refl. cbn [negb unescape_chars].
          rewrite encode_chars_cons. cbn [encode_chars flat_map]. rewrite app_nil_r, app_assoc. reflexivity. }
        right. split; [|left; reflexivity].
        assert (P (pre ++ [92%N]) <= length input).
        { unfold input. fold (P cs). rewrite Hsp'. rewrite (P_app (pre ++ [92%N])). lia. }
        rewrite P_app, P_cons, P_nil in H. cbn in H. lia.
      * set (rest := drop_skip k post) in *.
        assert (Hsp2 : cs = (pre ++ 92%N :: taken) ++ [] ++ rest).
        { cbn [app]. rewrite <- app_assoc. cbn [app]. rewrite <- Htk. exact Hsp. }
        assert (Hl : length rest <= n).
        { pose proof (drop_skip_length k post). fold rest in H. lia. }
        assert (Hfu : P rest < fuel).
        { rewrite Htk, P_app in Hfuel. lia. }
        replace ((pre ++ [92%N]) ++ taken) with (pre ++ 92%N :: taken) by (rewrite <- app_assoc; reflexivity).
        destruct (IH rest Hl (pre ++ 92%N :: taken) [] (w ++ E mid ++ encode_char x) fuel Hsp2 ltac:(constructor) Hfu)
          as (w' & s' & q' & Hrun & Hfl & Hdis).
        rewrite app_nil_r in Hrun.
        exists w', s', q'. split; [rewrite <- app_assoc; exact Hrun|]. split.
        { rewrite Hfl. rewrite encode_chars_cons. cbn [encode_chars flat_map app]. rewrite <- !app_assoc. reflexivity. }
        right. split; [|left; reflexivity].
        assert (0 < P (pre ++ 92%N :: taken)) by (rewrite P_app, P_cons; cbn; lia).
        destruct Hdis as [(-> & _ & _) | (Hpos & _)]; lia.
    + (* an ordinary character: scan its bytes *)
      pose proof (encode_char_length c) as HL.
      rewrite P_cons in Hfuel.
      assert (Hin : input = E (pre0 ++ mid) ++ encode_char c ++ E post).
      { unfold input. rewrite Hsplit, app_assoc, encode_chars_app, encode_chars_cons. reflexivity. }
      replace fuel with (length (encode_char c) + (fuel - length (encode_char c))) by lia.
      unfold P at 2. rewrite Hin, scan_bytes by (apply encode_char_no_backslash; assumption). rewrite <- Hin.
      assert (Hsplit' : cs = pre0 ++ (mid ++ [c]) ++ post).
      { rewrite Hsplit. rewrite <- !app_assoc. reflexivity. }
      destruct (IH post ltac:(lia) pre0 (mid ++ [c]) w (fuel - length (encode_char c)) Hsplit')
        as (w' & s' & p' & Hrun & Hfl & Hdis).
      { apply Forall_app. split; [exact Hmid | repeat constructor; exact Hne]. }
      { lia. }
      exists w', s', p'. split.
      { rewrite <- Hrun. f_equal. rewrite app_assoc, (P_app (pre0 ++ mid)), P_cons, P_nil. fold (P (pre0 ++ mid)). lia. }
      split.
      { rewrite Hfl. cbn [unescape_chars]. apply N.eqb_neq in Hne. rewrite Hne.
        rewrite encode_chars_app, encode_chars_cons. cbn [encode_chars flat_map]. rewrite app_nil_r.
        rewrite <- !app_assoc. reflexivity. }
      destruct Hdis as [(-> & -> & Hpl) | (Hpos & Hin92)]; [left | right].
      * repeat split. constructor; assumption.
      * split; [exact Hpos | right; exact Hin92].
Qed.

Definition has_backslash (l : list N) : bool := existsb (N.eqb 92) l.

Lemma has_backslash_false l : has_backslash l = false -> plain l.
Proof.
  induction l as [|c l IH]; intros H; [constructor|]. cbn in H. apply orb_false_elim in H as [H1 H2].
  constructor; [apply N.eqb_neq; rewrite N.eqb_sym; exact H1 | apply IH, H2].
Qed.

Lemma plain_not_in l : plain l -> ~ In 92%N l.
Proof. intros H Hin. eapply Forall_forall in H; [|exact Hin]. congruence. Qed.

Lemma unescape_chars_result w :
  unescape w input =
  Done (if has_backslash cs then (w ++ E (unescape_chars 0 cs), true) else (w, false)).
Proof.
  unfold unescape, unescape_fuel.
  destruct (loop_main (length cs) cs (le_n _) [] [] w (S (length input)) eq_refl ltac:(constructor) ltac:(unfold P, input; lia))
    as (w' & s' & p' & Hrun & Hfl & Hdis).
  rewrite P_nil in Hrun. cbn [app] in Hrun. rewrite P_nil in Hrun. rewrite Hrun. cbn [obind].
  destruct Hdis as [(-> & -> & Hpl) | (Hpos & Hin)].
  - rewrite P_nil. cbn [Nat.eqb].
    destruct (has_backslash cs) eqn:Hb; [|reflexivity].
    exfalso. apply (plain_not_in _ Hpl). unfold has_backslash in Hb. apply existsb_exists in Hb as (x & Hx & Hex).
    apply N.eqb_eq in Hex. subst x. exact Hx.
  - replace (Nat.eqb s' 0) with false by (symmetry; apply Nat.eqb_neq; lia).
    rewrite Hfl. cbn [obind app].
    destruct (has_backslash cs) eqn:Hb; [reflexivity|].
    exfalso. apply (plain_not_in _ (has_backslash_false _ Hb)), Hin.
Qed.

End Loop.

(* ------------------------------------------------------------------------------------------ *)
(* results about byte strings                                                                  *)

Lemma in_encode_chars_92 cs : scalars cs -> (In 92%N (E cs) <-> In 92%N cs).
Proof.
  induction cs as [|c cs IH]; intros Hs; [tauto|]. apply scalars_cons in Hs as [Hc Hs].
  rewrite encode_chars_cons, in_app_iff, (IH Hs). cbn [In].
  destruct (encode_char_shape c Hc) as [[_ ->] | [Hge (b & t & -> & Hb & Ht)]]; cbn [In].
  - intuition congruence.
  - split; [intros [[H | H] | H]; [lia | | tauto] | intros [H | H]; [subst c; lia | tauto]].
    eapply Forall_forall in Ht; [|exact H]. revert Ht. arith.
Qed.

Lemma has_backslash_iff l : has_backslash l = true <-> In 92%N l.
Proof.
  unfold has_backslash. rewrite existsb_exists. split.
  - intros (x & Hx & He). apply N.eqb_eq in He. subst. exact Hx.
  - intros H. exists 92%N. split; [exact H | reflexivity].
Qed.

Lemma unescape_scalars : forall cs k, scalars cs -> scalars (unescape_chars k cs).
Proof.
  induction cs as [|c r IH]; intros k Hs; [constructor|]. apply scalars_cons in Hs as [Hc Hr].
  destruct k as [|k]; cbn [unescape_chars]; [|apply IH, Hr].
  destruct (N.eqb c 92).
  - destruct (decode_escape r) as [x j] eqn:Hde. apply scalars_cons. split; [|apply IH, Hr].
    pose proof (decode_escape_fst_scalar r Hr) as H. rewrite Hde in H. exact H.
  - apply scalars_cons. split; [exact Hc | apply IH, Hr].
Qed.

Theorem unescape_correct bs w : utf8_valid bs = true ->
  unescape w bs =
  Done (if has_backslash bs then (w ++ unescape_spec bs, true) else (w, false)).
Proof.
  intros Hv. destruct (utf8_valid_decode bs Hv) as [Hs He]. unfold unescape_spec.
  set (cs := decode_chars bs) in *. rewrite <- He at 1. rewrite (unescape_chars_result cs Hs w).
  replace (has_backslash bs) with (has_backslash cs); [reflexivity|].
  apply eq_true_iff_eq. rewrite !has_backslash_iff, <- He. symmetry. apply in_encode_chars_92, Hs.
Qed.

Lemma unescape_spec_plain bs : utf8_valid bs = true -> has_backslash bs = false -> unescape_spec bs = bs.
Proof.
  intros Hv Hb. destruct (utf8_valid_decode bs Hv) as [Hs He]. unfold unescape_spec.
  rewrite unescape_chars_plain; [exact He|].
  apply has_backslash_false. apply not_true_is_false. intros H. apply has_backslash_iff in H.
  apply in_encode_chars_92 in H; [|exact Hs]. rewrite He in H. apply has_backslash_iff in H. congruence.
Qed.

Theorem to_string_correct bs : utf8_valid bs = true ->
  unescape_unicode_to_string bs =
  Done (if has_backslash bs then Owned (unescape_spec bs) else Borrowed bs).
Proof.
  intros Hv. unfold unescape_unicode_to_string. rewrite (unescape_correct bs [] Hv).
  destruct (has_backslash bs); reflexivity.
Qed.

Theorem to_string_spec bs : utf8_valid bs = true ->
  exists c, unescape_unicode_to_string bs = Done c /\ cow_bytes c = unescape_spec bs.
Proof.
  intros Hv. rewrite (to_string_correct bs Hv). destruct (has_backslash bs) eqn:Hb.
  - eexists; split; reflexivity.
  - eexists; split; [reflexivity|]. cbn. symmetry. apply unescape_spec_plain; assumption.
Qed.

Theorem writer_correct bs w : utf8_valid bs = true -> unescape_unicode w bs = Done (w ++ unescape_spec bs).
Proof.
  intros Hv. unfold unescape_unicode. rewrite (unescape_correct bs w Hv).
  destruct (has_backslash bs) eqn:Hb; cbn [obind]; [reflexivity|].
  rewrite unescape_spec_plain by assumption. reflexivity.
Qed.

Theorem spec_utf8 bs : utf8_valid bs = true -> utf8_valid (unescape_spec bs) = true.
Proof.
  intros Hv. destruct (utf8_valid_decode bs Hv) as [Hs _]. unfold unescape_spec.
  apply utf8_valid_encode_chars, unescape_scalars, Hs.
Qed.

(* ------------------------------------------------------------------------------------------ *)
(* what the specification says about well-formed \u / \U escapes                               *)

Lemma hex_digit_val_ascii h d : hex_digit_val h = Some d -> length (encode_char h) = 1.
Proof.
  intros H. rewrite encode_char_ascii; [reflexivity|]. unfold hex_digit_val in H.
  destruct (in_rng 48 57 h) eqn:H1; [arith|]. destruct (in_rng 97 102 h) eqn:H2; [arith|].
  destruct (in_rng 65 70 h) eqn:H3; [arith|]. discriminate.
Qed.

Lemma drop_skip_hex k : forall acc hs rest v, length hs = k -> hex_value k acc hs = Some v ->
  drop_skip k (hs ++ rest) = rest.
Proof.
  induction k as [|k IH]; intros acc hs rest v Hl Hv.
  - destruct hs; [apply drop_skip_0 | discriminate].
  - destruct hs as [|h hs]; [discriminate|]. cbn [hex_value] in Hv.
    destruct (hex_digit_val h) as [d|] eqn:Hd; [|discriminate].
    cbn [app drop_skip]. rewrite (hex_digit_val_ascii h d Hd).
    replace (S k - 1) with k by lia. eapply IH; [cbn in Hl; lia | exact Hv].
Qed.

Lemma spec_u4 hs rest v : length hs = 4 -> hex_value 4 0 hs = Some v ->
  unescape_chars 0 (92%N :: 117%N :: hs ++ rest) = (if is_scalar v then v else 65533%N) :: unescape_chars 0 rest.
Proof.
  intros Hl Hv. cbn [unescape_chars N.eqb Pos.eqb decode_escape].
  rewrite hex_value_app, Hv by exact Hl. cbn [scalar_or_fffd]. f_equal.
  rewrite unescape_chars_drop_skip. f_equal. cbn [drop_skip].
  change (5 - length (encode_char 117)) with 4. eapply drop_skip_hex; eassumption.
Qed.

Lemma spec_u6 hs rest v : length hs = 6 -> hex_value 6 0 hs = Some v ->
  unescape_chars 0 (92%N :: 85%N :: hs ++ rest) = (if is_scalar v then v else 65533%N) :: unescape_chars 0 rest.
Proof.
  intros Hl Hv. cbn [unescape_chars N.eqb Pos.eqb decode_escape].
  rewrite hex_value_app, Hv by exact Hl. cbn [scalar_or_fffd]. f_equal.
  rewrite unescape_chars_drop_skip. f_equal. cbn [drop_skip].
  change (7 - length (encode_char 85)) with 6. eapply drop_skip_hex; eassumption.
Qed.

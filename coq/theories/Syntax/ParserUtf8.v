(* Syntax/ParserUtf8.v — the strings of a parser output are UTF-8 when the input is:

     parse_utf8 : utf8_valid bs = true -> parse bs = Done (t, errs) -> wf_utf8_resource t = true
     join_utf8  : wf_utf8_resource t = true -> wf_utf8_resource (map join_entry t) = true

   Every string of the tree is a slice of the source between two character boundaries (Utf8.slice checks them), a
   final text element in addition trimmed of ASCII whitespace.  Same knot traversal as ParserShape.v.          *)
From FluentV Require Import Base.Bytes Base.Outcome Base.Utf8 Base.Utf8Facts.
From FluentV Require Import Syntax.Ast Syntax.ParserModel Syntax.ParserAccounting Syntax.Render Syntax.TreeNorm Syntax.WfUtf8.
From FluentV Require Import Syntax.ParserShape.
From Coq Require Import Lia ZifyBool ZifyNat ZifyN List.
Import ListNotations.
Arguments N.add : simpl never. Arguments N.sub : simpl never. Arguments N.eqb : simpl never.
Arguments N.ltb : simpl never. Arguments N.leb : simpl never.

Ltac skipb := eapply spec_bind; [apply spec_any | intros; exact Logic.I | let sa := fresh "sa" in let sq := fresh "sq" in intros sa sq _].
Tactic Notation "skipn" ident(a) ident(q) := eapply spec_bind; [apply spec_any | intros; exact Logic.I | intros a q _].
Ltac useb H := eapply spec_bind; [apply H | intros; exact Logic.I | ].

(* ---------------------------------------------------------------------------------------------- *)
(* 1. Slices of a valid string                                                                      *)

Lemma boundary_firstn s a b : a <= b -> b <= length s -> is_char_boundary s a = true -> is_char_boundary (firstn b s) a = true.
Proof.
  intros Hab Hb H. apply is_char_boundary_iff in H. apply is_char_boundary_iff. destruct H as [-> | [Hle Hs]]; [left; reflexivity|].
  right. rewrite firstn_length. split; [lia|].
  destruct (Nat.eq_dec a b) as [-> | Hne].
  - rewrite skipn_all2 by (rewrite firstn_length; lia). reflexivity.
  - destruct (skipn a s) as [|x t] eqn:E.
    + exfalso. apply (f_equal (@length N)) in E. rewrite skipn_length in E. cbn in E. lia.
    + assert (Ex : nth_error s a = Some x) by (rewrite nth_error_skipn, E; reflexivity).
      destruct (skipn a (firstn b s)) as [|y t'] eqn:E'.
      * exfalso. apply (f_equal (@length N)) in E'. rewrite skipn_length, firstn_length in E'. cbn in E'. lia.
      * assert (Ey : nth_error (firstn b s) a = Some y) by (rewrite nth_error_skipn, E'; reflexivity).
        destruct (nth_error_firstn_some s b a y Ey) as [_ Ey']. rewrite Ex in Ey'. injection Ey' as <-. exact Hs.
Qed.

Lemma slice_valid bs a b v : utf8_valid bs = true -> slice bs a b = Done v -> utf8_valid v = true.
Proof.
  intros Hv Hs. unfold slice in Hs.
  destruct (Nat.leb a b && Nat.leb b (length bs) && is_char_boundary bs a && is_char_boundary bs b) eqn:E; [|discriminate Hs].
  injection Hs as <-. apply andb_prop in E as [E Hb]. apply andb_prop in E as [E Ha]. apply andb_prop in E as [E1 E2].
  apply Nat.leb_le in E1, E2.
  destruct (utf8_valid_firstn_skipn bs b Hv Hb) as [H1 _].
  destruct (utf8_valid_firstn_skipn (firstn b bs) a H1 (boundary_firstn bs a b E1 E2 Ha)) as [_ H2].
  rewrite skipn_firstn_comm in H2. exact H2.
Qed.

Lemma scan_while_all' f (l : bytes) x : In x (firstn (scan_while f l) l) -> f x = true.
Proof.
  induction l as [|y l IH]; cbn [scan_while]; [intros []|]. destruct (f y) eqn:E; cbn [firstn]; [|intros []].
  intros [<- | H]; [exact E | apply IH, H].
Qed.

Lemma trim_end_valid v : utf8_valid v = true -> utf8_valid (trim_end v) = true.
Proof.
  intros Hv. destruct (trim_end_prefix v) as [w E].
  assert (Hw : forall x, In x w -> is_ascii x = true).
  { unfold trim_end in E. set (k := scan_while matches_fluent_ws (rev v)) in *.
    assert (Ew : w = rev (firstn k (rev v))).
    { apply (app_inv_head (rev (skipn k (rev v)))). rewrite <- E, <- rev_app_distr, firstn_skipn, rev_involutive. reflexivity. }
    intros x Hx. rewrite Ew in Hx. apply in_rev in Hx. apply scan_while_all' in Hx.
    unfold matches_fluent_ws, c_sp, c_cr, c_lf, is_ascii in *. lia. }
  rewrite E in Hv.
  assert (Hb : is_char_boundary (trim_end v ++ w) (length (trim_end v)) = true).
  { apply is_char_boundary_iff. right. rewrite app_length. split; [lia|]. rewrite skipn_app, skipn_all, Nat.sub_diag. cbn [skipn app].
    destruct w as [|x t]; [reflexivity|]. cbn [starts_char]. specialize (Hw x (or_introl eq_refl)).
    unfold is_ascii, is_cont, in_rng in *. lia. }
  destruct (utf8_valid_firstn_skipn _ _ Hv Hb) as [H1 _]. rewrite firstn_app, firstn_all, Nat.sub_diag in H1.
  cbn [firstn] in H1. rewrite app_nil_r in H1. exact H1.
Qed.

(* ---------------------------------------------------------------------------------------------- *)
(* 2. The parser                                                                                    *)

Section U.
Variable bs : bytes.
Hypothesis Hbs : utf8_valid bs = true.

Definition UV : bytes -> nat -> Prop := fun v _ => utf8_valid v = true.

Lemma su_source_slice a b p : spec (source_slice bs a b) p UV ET.
Proof. eapply spec_weaken; [apply sp_source_slice | | intros ? ? []]. intros v q [_ Hv]. apply (slice_valid bs a b v Hbs Hv). Qed.

Lemma su_identifier_unchecked p : spec (get_identifier_unchecked bs) p UV ET.
Proof.
  unfold spec, get_identifier_unchecked. destruct (Nat.leb 1 p); [|exact Logic.I].
  destruct (slice bs (p - 1) (scan_while is_ident_char (rest bs p) + p)) eqn:E; try exact Logic.I.
  apply (slice_valid bs _ _ _ Hbs E).
Qed.

Lemma su_identifier p : spec (get_identifier bs) p UV ET.
Proof. unfold get_identifier. skipn st q1. destruct (negb st); [exact Logic.I|]. skipn u2 q2. apply su_identifier_unchecked. Qed.

Lemma su_number p : spec (get_number_literal bs) p UV ET.
Proof.
  unfold get_number_literal. skipn s0 q0. skipn u1 q1. skipn u2 q2. skipn dot q3. skipn u4 q4. skipn p5 q5. apply su_source_slice.
Qed.

Lemma su_accessor p : spec (get_attribute_accessor bs) p (fun o _ => utf8_opt o = true) ET.
Proof.
  unfold get_attribute_accessor. skipn dot q1. destruct dot; [|apply spec_ret; reflexivity].
  useb (su_identifier q1). intros id q2 Hid. apply spec_ret. exact Hid.
Qed.

Definition key_u (k : variant_key) : Prop := match k with KeyIdentifier n | KeyNumber n => utf8_valid n = true end.

Lemma su_key p : spec (get_variant_key bs) p (fun k _ => key_u k) ET.
Proof.
  unfold get_variant_key. skipn u1 q1. skipn ns q2.
  eapply spec_bind with (Q1 := fun k _ => key_u k) (E1 := ET); [|intros; exact Logic.I|].
  - destruct ns; [useb (su_number q2) | useb (su_identifier q2)]; intros v q3 Hv; apply spec_ret; exact Hv.
  - intros k q3 Hk. skipn u4 q4. skipn u5 q5. apply spec_ret. exact Hk.
Qed.

Lemma su_comment_line p : spec (get_comment_line bs) p UV ET.
Proof.
  unfold spec, get_comment_line. destruct (slice bs p (line_len bs (S (length_ bs) - p) p + p)) eqn:E; try exact Logic.I.
  apply (slice_valid bs _ _ _ Hbs E).
Qed.

(* ---- patterns ---- *)
Definition phu (ph : placeholder) : Prop := match ph with PHPlaceable e => utf8_expr e = true | PHText _ _ _ _ => True end.
Definition stu (st : pstate) : Prop := Forall phu (elements st).

Lemma su_finish_element lnb ci i ph p : phu ph ->
  spec (finish_element bs lnb ci i ph) p (fun r _ => match r with Some x => utf8_element x = true | None => True end) ET.
Proof.
  intros Hph. destruct ph as [e | s e ind r]; unfold finish_element.
  - apply spec_ret. exact Hph.
  - destruct (Nat.eqb _ e); [apply spec_ret; exact Logic.I|].
    useb (su_source_slice (if is_line_start r then match ci with Some c => s + Nat.min ind c | None => s + ind end else s) e p).
    intros v q Hv. apply spec_ret. cbn [utf8_element]. destruct (Nat.eqb lnb i); [apply trim_end_valid, Hv | exact Hv].
Qed.

Lemma su_finish_elements lnb ci : forall phs i p, Forall phu phs ->
  spec (finish_elements bs lnb ci i phs) p (fun els _ => forallb utf8_element els = true) ET.
Proof.
  induction phs as [|ph r IH]; intros i p Hall; cbn [finish_elements]; [apply spec_ret; reflexivity|].
  inversion Hall as [|? ? Hph Hr]; subst.
  useb (su_finish_element lnb ci i ph p Hph). intros x q Hx. useb (IH (S i) q Hr). intros xs q2 Hxs. apply spec_ret.
  destruct x as [x|]; [cbn [forallb]; rewrite Hx, Hxs; reflexivity | exact Hxs].
Qed.

Lemma utf8_pattern_forallb els : utf8_pattern (Pattern els) = forallb utf8_element els.
Proof. reflexivity. Qed.

Lemma drop_tail_rev_u R : forallb utf8_element R = true -> forallb utf8_element (drop_empty_tail_rev R) = true.
Proof.
  induction R as [|x r IH]; intros H; [reflexivity|]. cbn [forallb] in H. apply andb_prop in H as [Hx Hr].
  destruct x as [v|e]; cbn [drop_empty_tail_rev]; [|cbn [forallb]; rewrite Hx, Hr; reflexivity].
  destruct (trim_end v) as [|b t] eqn:Et; [apply IH, Hr|]. cbn [forallb utf8_element]. rewrite <- Et.
  cbn [utf8_element] in Hx. rewrite (trim_end_valid v Hx), Hr. reflexivity.
Qed.

Lemma forallb_rev {X} (f : X -> bool) l : forallb f (rev l) = forallb f l.
Proof. induction l as [|x l IH]; [reflexivity|]. cbn [rev forallb]. rewrite forallb_app, IH. cbn [forallb]. rewrite andb_true_r, andb_comm. reflexivity. Qed.

Definition UP : option pattern -> nat -> Prop := fun r _ => match r with Some p => utf8_pattern p = true | None => True end.

Lemma su_finish_pattern st p : stu st -> spec (finish_pattern bs st) p UP ET.
Proof.
  intros Hst. unfold finish_pattern. destruct (last_non_blank st) as [lnb|]; [|apply spec_ret; exact Logic.I].
  useb (su_finish_elements lnb (common_indent st) (firstn (S lnb) (rev (elements st))) 0 p ltac:(apply Forall_firstn, Forall_rev, Hst)).
  intros els q Hels. apply spec_ret. unfold UP, drop_empty_tail.
  assert (H : forallb utf8_element (rev (drop_empty_tail_rev (rev els))) = true).
  { rewrite forallb_rev. apply drop_tail_rev_u. rewrite forallb_rev. exact Hels. }
  destruct (rev (drop_empty_tail_rev (rev els))); [exact Logic.I | exact H].
Qed.

Lemma text_step_u st slice_start indent ts : stu st -> stu (text_step st slice_start indent ts).
Proof.
  intros Hst. destruct ts as [[[start end_] nonblank] term]. unfold text_step, stu in *.
  assert (Hnew : Forall phu (PHText slice_start end_ indent (role st) :: elements st)) by (constructor; [exact Logic.I | exact Hst]).
  assert (Hnew0 : Forall phu (PHText start end_ 0 (role st) :: elements st)) by (constructor; [exact Logic.I | exact Hst]).
  destruct (negb (Nat.eqb start end_)).
  - destruct (negb (is_line_start (role st)) || nonblank || match term with TLineFeed => true | _ => false end); cbn [elements]; [|assumption].
    destruct (is_line_start (role st) && negb nonblank); assumption.
  - destruct (is_line_start (role st) && match term with TPlaceableStart => true | _ => false end); cbn [elements]; assumption.
Qed.

Definition UVs : list variant -> nat -> Prop := fun vs _ => forallb utf8_variant vs = true.
Definition UA : option call_args -> nat -> Prop := fun r _ => match r with Some ca => utf8_args ca = true | None => True end.

Definition knot_u (n : nat) : Prop :=
  (forall p, spec (get_pattern bs n) p UP ET) /\
  (forall st p, stu st -> spec (pattern_loop bs n st) p (fun st' _ => stu st') ET) /\
  (forall p, spec (get_placeable bs n) p (fun e _ => utf8_expr e = true) ET) /\
  (forall p, spec (get_expression bs n) p (fun e _ => utf8_expr e = true) ET) /\
  (forall p, spec (get_variants bs n) p UVs ET) /\
  (forall acc (hd : bool) p, forallb utf8_variant acc = true -> spec (variants_loop bs n acc hd) p UVs ET) /\
  (forall ol p, spec (get_inline_expression bs n ol) p (fun i _ => utf8_inline i = true) ET) /\
  (forall p, spec (get_call_arguments bs n) p UA ET) /\
  (forall pos named names p, forallb utf8_inline pos = true -> forallb utf8_named named = true ->
                             spec (args_loop bs n pos named names) p (fun ca _ => utf8_args ca = true) ET).

Lemma utf8_select_eq s vs : utf8_expr (Select s vs) = utf8_inline s && forallb utf8_variant vs.
Proof. reflexivity. Qed.
Lemma utf8_args_eq' pos named : utf8_args (CallArguments pos named) = forallb utf8_inline pos && forallb utf8_named named.
Proof. reflexivity. Qed.

Lemma knot_u_all n : knot_u n.
Proof.
  induction n as [|n (IH1 & IH2 & IH3 & IH4 & IH5 & IH6 & IH7 & IH8 & IH9)]; unfold knot_u.
  - repeat split; intros; exact Logic.I.
  - repeat match goal with |- _ /\ _ => split end.
    + intros p. cbn [get_pattern]. fold_knot bs.
      skipb. skipb. skipn r qr.
      useb (IH2 (PState [] 0 None None r) qr ltac:(constructor)). intros st q Hst. apply (su_finish_pattern st q Hst).
    + intros st p Hst. rewrite pattern_loop_S.
      skipn p0 q0. destruct (negb (Nat.ltb p0 (length_ bs))); [apply spec_ret; exact Hst|].
      skipn brace q1. destruct brace.
      * useb (IH3 q1). intros e q2 He. apply IH2. constructor; [exact He | exact Hst].
      * skipn ss q2. skipn pro q3. destruct pro as [indent|]; [|apply spec_ret; exact Hst].
        skipn ts q4. destruct ts as [[[start end_] nb] term]. apply IH2. apply (text_step_u st ss indent (start, end_, nb, term) Hst).
    + intros p. cbn [get_placeable]. fold_knot bs.
      skipn u1 q1. useb (IH4 q1). intros e q2 He. skipb. skipb.
      destruct e as [s vs | i]; [apply spec_ret; exact He|].
      destruct i as [? | ? | ? ? | ? ? | ? [?|] ? | ? | ?]; try (apply spec_ret; exact He). exact Logic.I.
    + intros p. cbn [get_expression]. fold_knot bs.
      useb (IH7 false p). intros i q Hi. skipn u1 q1. skipn p0 q2.
      destruct (negb (is_byte_at bs 45 p0) || negb (is_byte_at bs 62 (S p0))).
      * destruct i as [? | ? | ? ? | ? ? | ? [?|] ? | ? | ?]; try (apply spec_ret; exact Hi). exact Logic.I.
      * skipb. skipb. skipb. skipn eol q5. destruct (negb eol); [exact Logic.I|]. skipn u6 q6.
        useb (IH5 q6). intros vs q7 Hv. apply spec_ret. rewrite utf8_select_eq. cbn [utf8_expr] in Hi. unfold UVs in Hv. rewrite Hi, Hv. reflexivity.
    + intros p. cbn [get_variants]. fold_knot bs. apply IH6. reflexivity.
    + intros acc hd p Hacc. cbn [variants_loop]. fold_knot bs.
      skipn dflt q1. destruct (dflt && hd); [exact Logic.I|].
      skipn br q2. destruct (negb br).
      * destruct dflt; [exact Logic.I|]. destruct (hd || false); [|exact Logic.I].
        apply spec_ret. unfold UVs. rewrite forallb_rev. exact Hacc.
      * useb (su_key q2). intros key q3 Hk. useb (IH1 q3). intros v q4 Hv. destruct v as [v|]; [|exact Logic.I]. skipn u5 q5.
        apply IH6. cbn [forallb utf8_variant]. unfold UP in Hv. rewrite Hv, Hacc.
        destruct key; cbn [key_u] in Hk; rewrite Hk; reflexivity.
    + intros ol p. cbn [get_inline_expression]. fold_knot bs.
      skipn cb q0. destruct cb as [b|]; [|destruct ol; exact Logic.I].
      destruct (N.eqb b 34).
      { skipb. skipb. skipb. skipb. skipn p5 q5. skipb. useb (su_source_slice sa0 (p5 - 1) sq3). intros s q7 Hs. apply spec_ret. exact Hs. }
      destruct (is_ascii_digit b); [useb (su_number q0); intros v q1 Hv; apply spec_ret; exact Hv|].
      destruct (N.eqb b 45 && negb ol).
      { skipb. skipn st1 q2. destruct st1.
        - skipb. useb (su_identifier_unchecked sq0). intros id q4 Hid. useb (su_accessor q4). intros att q5 Hatt.
          useb (IH8 q5). intros args q6 Hargs. apply spec_ret. cbn [utf8_inline]. unfold UV in Hid. rewrite Hid, Hatt.
          destruct args; [exact Hargs | reflexivity].
        - skipb. useb (su_number sq0). intros v q4 Hv. apply spec_ret. exact Hv. }
      destruct (N.eqb b 45); [useb (su_number q0); intros v q1 Hv; apply spec_ret; exact Hv|].
      destruct (N.eqb b 36 && negb ol); [skipb; useb (su_identifier sq); intros id q2 Hid; apply spec_ret; exact Hid|].
      destruct (is_ascii_alphabetic b && negb ol).
      { skipb. useb (su_identifier_unchecked sq). intros id q2 Hid. useb (IH8 q2). intros args q3 Hargs. destruct args as [args|].
        - destruct (negb (is_callee id)); [exact Logic.I | apply spec_ret; cbn [utf8_inline]; unfold UV in Hid; rewrite Hid; exact Hargs].
        - useb (su_accessor q3). intros att q4 Hatt. apply spec_ret. cbn [utf8_inline]. unfold UV in Hid. rewrite Hid, Hatt. reflexivity. }
      destruct (N.eqb b 123 && negb ol).
      { skipn u1 q1. useb (IH3 q1). intros e q2 He. apply spec_ret. exact He. }
      destruct ol; exact Logic.I.
    + intros p. cbn [get_call_arguments]. fold_knot bs.
      skipb. skipn op q2. destruct (negb op); [apply spec_ret; exact Logic.I|].
      skipn u3 q3. useb (IH9 [] [] [] q3 eq_refl eq_refl). intros ca q4 Hca. skipb. apply spec_ret. exact Hca.
    + intros pos named names p Hpos Hnamed. cbn [args_loop]. fold_knot bs.
      skipn p0 q0.
      assert (Hret : utf8_args (CallArguments (rev pos) (rev named)) = true) by (rewrite utf8_args_eq', !forallb_rev, Hpos, Hnamed; reflexivity).
      destruct (negb (Nat.ltb p0 (length_ bs))); [apply spec_ret; exact Hret|].
      destruct (is_byte_at bs 41 p0); [apply spec_ret; exact Hret|].
      useb (IH7 false q0). intros e q He.
      eapply spec_bind with (Q1 := fun st _ => let '(a, b, c) := st in forallb utf8_inline a = true /\ forallb utf8_named b = true) (E1 := ET);
        [|intros; exact Logic.I|].
      * assert (Hpos' : forall q', spec (match names with [] => ret (e :: pos, named, names) | _ :: _ => error_here PositionalArgumentFollowsNamed end) q'
                             (fun st _ => let '(a, b, c) := st in forallb utf8_inline a = true /\ forallb utf8_named b = true) ET).
        { intros q'. destruct names; [apply spec_ret; split; [cbn [forallb]; rewrite He, Hpos; reflexivity | exact Hnamed] | exact Logic.I]. }
        destruct e as [? | ? | ? ? | id [a|] | ? ? ? | ? | ?]; try apply Hpos'.
        skipn u1 q1. skipn colon q2. destruct colon; [|apply Hpos'].
        destruct (has_name names id); [exact Logic.I|]. skipn u3 q3. skipn u4 q4. useb (IH7 true q4). intros v q5 Hv.
        apply spec_ret. split; [exact Hpos|]. cbn [forallb utf8_named]. cbn [utf8_inline] in He. apply andb_prop in He as [Hid _].
        rewrite Hid, Hv, Hnamed. reflexivity.
      * intros [[a b] c] q2 [Ha Hb]. skipb. skipb. skipb. apply IH9; assumption.
Qed.


(* ---- entries ---- *)
Lemma su_get_pattern n p : spec (get_pattern bs n) p UP ET.
Proof. apply (proj1 (knot_u_all n)). Qed.

Lemma su_get_attribute n p : spec (get_attribute bs n) p (fun a _ => utf8_attribute a = true) ET.
Proof.
  unfold get_attribute. useb (su_identifier p). intros id q1 Hid. skipn u2 q2. skipn u3 q3. useb (su_get_pattern n q3). intros pat q4 Hp.
  destruct pat as [pat|]; [apply spec_ret; unfold utf8_attribute; cbn [attr_id attr_value]; unfold UV in Hid; unfold UP in Hp; rewrite Hid, Hp; reflexivity | exact Logic.I].
Qed.

Lemma su_get_attributes n : forall acc p, forallb utf8_attribute acc = true ->
  spec (get_attributes bs n acc) p (fun attrs _ => forallb utf8_attribute attrs = true) ET.
Proof.
  induction n as [|n IH]; intros acc p Hacc; [exact Logic.I|]. cbn [get_attributes].
  skipn ls q1. skipn u2 q2. skipn dot q3.
  destruct (negb dot); [skipb; apply spec_ret; rewrite forallb_rev; exact Hacc|].
  eapply spec_bind; [apply spec_try, (su_get_attribute n q3) | intros ? ? []|].
  intros r q4 Hr. destruct r as [e | attr].
  - skipb. apply spec_ret. rewrite forallb_rev. exact Hacc.
  - apply IH. cbn [forallb]. rewrite Hr, Hacc. reflexivity.
Qed.

Lemma su_get_message n es p : spec (get_message bs n es) p (fun e _ => utf8_entry e = true) ET.
Proof.
  unfold get_message. useb (su_identifier p). intros id q1 Hid. skipn u2 q2. skipn u3 q3. useb (su_get_pattern n q3). intros pat q4 Hp.
  skipn u5 q5. useb (su_get_attributes n [] q5 eq_refl). intros attrs q6 Ha. unfold UV in Hid. unfold UP in Hp.
  destruct pat as [pat|].
  - apply spec_ret. cbn [utf8_entry utf8_opt_comment]. rewrite Hid, Hp, Ha. reflexivity.
  - destruct attrs as [|a r]; [skipb; exact Logic.I | apply spec_ret; cbn [utf8_entry utf8_opt_comment]; rewrite Hid, Ha; reflexivity].
Qed.

Lemma su_get_term n es p : spec (get_term bs n es) p (fun e _ => utf8_entry e = true) ET.
Proof.
  unfold get_term. skipn u0 q0. useb (su_identifier q0). intros id q1 Hid. skipn u2 q2. skipn u3 q3. skipn u4 q4.
  useb (su_get_pattern n q4). intros pat q5 Hp. skipn u6 q6. useb (su_get_attributes n [] q6 eq_refl). intros attrs q7 Ha.
  unfold UV in Hid. unfold UP in Hp.
  destruct pat as [pat|]; [apply spec_ret; cbn [utf8_entry utf8_opt_comment]; rewrite Hid, Hp, Ha; reflexivity | skipb; exact Logic.I].
Qed.

Lemma su_comment_loop n : forall lvl acc p, forallb utf8_valid acc = true ->
  spec (get_comment_loop bs n lvl acc) p (fun cl _ => utf8_comment (fst cl) = true) ET.
Proof.
  induction n as [|n IH]; intros lvl acc p Hc; [exact Logic.I|]. cbn [get_comment_loop].
  assert (Hret : utf8_comment (Comment (rev acc)) = true) by (unfold utf8_comment; cbn [content]; rewrite forallb_rev; exact Hc).
  skipn p0 q0. destruct (negb (Nat.ltb p0 (length_ bs))); [apply spec_ret; exact Hret|].
  skipn ll q1. destruct (level_eqb ll LNone); [skipb; apply spec_ret; exact Hret|].
  destruct (negb (level_eqb lvl LNone) && negb (level_eqb ll lvl)); [skipb; apply spec_ret; exact Hret|].
  skipn p2 q2. destruct (Nat.eqb p2 (length_ bs)); [apply spec_ret; exact Hret|].
  skipn eol q3. destruct eol.
  - useb (su_comment_line q3). intros line q4 Hl. skipn u5 q5. apply IH. cbn [forallb]. unfold UV in Hl. rewrite Hl, Hc. reflexivity.
  - skipn r q4. destruct r as [e | u].
    + destruct acc; [exact Logic.I | skipb; apply spec_ret; exact Hret].
    + useb (su_comment_line q4). intros line q5 Hl. skipn u6 q6. apply IH. cbn [forallb]. unfold UV in Hl. rewrite Hl, Hc. reflexivity.
Qed.

Lemma su_get_entry n es p : spec (get_entry bs n es) p (fun e _ => utf8_entry e = true) ET.
Proof.
  unfold get_entry. skipn cb q0. destruct cb as [b|]; [|apply su_get_message].
  destruct (N.eqb b 35).
  - unfold get_comment. useb (su_comment_loop n LNone [] q0 eq_refl). intros [c lvl] q1 Hc. cbn [fst] in Hc.
    destruct lvl; try (apply spec_ret; exact Hc). exact Logic.I.
  - destruct (N.eqb b 45); [apply su_get_term | apply su_get_message].
Qed.

Lemma utf8_attach e c : utf8_entry e = true -> utf8_comment c = true -> utf8_entry (attach e c) = true.
Proof.
  destruct e as [id v a c0 | id v a c0 | | | |]; cbn [attach utf8_entry]; intros He Hc; try exact He.
  - apply andb_prop in He as [He _]. rewrite He. exact Hc.
  - apply andb_prop in He as [He _]. rewrite He. exact Hc.
Qed.

Lemma su_parse_loop n : forall body errors lc cnt p, forallb utf8_entry body = true -> utf8_opt_comment lc = true ->
  spec (parse_loop bs n body errors lc cnt) p (fun r _ => forallb utf8_entry (fst r) = true) ET.
Proof.
  induction n as [|n IH]; intros body errors lc cnt p Hbody Hlc; [exact Logic.I|]. cbn [parse_loop].
  skipn p0 q0.
  destruct (negb (Nat.ltb p0 (length_ bs))).
  { apply spec_ret. cbn [fst]. rewrite forallb_rev. destruct lc; [cbn [forallb utf8_entry]; cbn [utf8_opt_comment] in Hlc; rewrite Hlc, Hbody; reflexivity | exact Hbody]. }
  eapply spec_bind; [apply spec_try, (su_get_entry n p0 q0) | intros ? ? []|].
  intros r q1 Hr.
  set (rb := match lc with
             | Some c =>
                 match r with
                 | inr (Message _ _ _ _ as e) | inr (Term _ _ _ _ as e) =>
                     if Nat.ltb cnt 2 then (inr (attach e c), body) else (r, CommentEntry c :: body)
                 | _ => (r, CommentEntry c :: body)
                 end
             | None => (r, body)
             end).
  assert (Hrb : match fst rb with inr e => utf8_entry e = true | inl _ => True end /\ forallb utf8_entry (snd rb) = true).
  { unfold rb. destruct lc as [c|]; [|split; [exact Hr | exact Hbody]]. cbn [utf8_opt_comment] in Hlc.
    assert (Hb' : forallb utf8_entry (CommentEntry c :: body) = true) by (cbn [forallb utf8_entry]; rewrite Hlc, Hbody; reflexivity).
    destruct r as [e | e]; [split; [exact Logic.I | exact Hb']|].
    destruct e; try (split; [exact Hr | exact Hb']); destruct (Nat.ltb cnt 2); split; try exact Hr; try exact Hb'; try exact Hbody;
      apply utf8_attach; assumption. }
  destruct rb as [r' body'] eqn:Erb. cbn [fst snd] in Hrb. destruct Hrb as [Hr' Hb'].
  eapply spec_bind with (Q1 := fun st _ => forallb utf8_entry (fst (fst st)) = true /\ utf8_opt_comment (snd st) = true) (E1 := ET); [|intros; exact Logic.I|].
  - destruct r' as [err | e].
    + eapply spec_bind with (Q1 := fun ej _ => utf8_entry (snd ej) = true) (E1 := ET); [|intros; exact Logic.I|].
      * unfold recover. skipn rew q2. skipn p2 q3. useb (su_source_slice p0 p2 q3). intros content q4 Hc. apply spec_ret. exact Hc.
      * intros ej q2 Hej. apply spec_ret. cbn [fst snd]. split; [cbn [forallb]; rewrite Hej, Hb'; reflexivity | reflexivity].
    + destruct e; try (apply spec_ret; cbn [fst snd]; split; [cbn [forallb]; rewrite Hr', Hb'; reflexivity | reflexivity]).
      apply spec_ret. cbn [fst snd]. split; [exact Hb' | exact Hr'].
  - intros [[b1 e1] l1] q2 [Hst Hl]. cbn [fst snd] in Hst, Hl. skipn c2 q3. apply IH; assumption.
Qed.

Theorem parse_m_utf8 n : spec (parse_m bs n) 0 (fun r _ => forallb utf8_entry (fst r) = true) ET.
Proof. unfold parse_m. skipn u q. apply su_parse_loop; reflexivity. Qed.

End U.

(* the strings of a parser output are UTF-8 when the input is *)
Theorem parse_utf8 bs t errs : utf8_valid bs = true -> parse bs = Done (t, errs) -> wf_utf8_resource t = true.
Proof.
  unfold parse. intros Hb H. pose proof (parse_m_utf8 bs Hb (fuel_for bs)) as Hs. unfold spec in Hs.
  destruct (parse_m bs (fuel_for bs) 0) as [[t' e'] q | e q | m |]; cbn [to_outcome] in H; try discriminate H.
  injection H as -> ->. exact Hs.
Qed.

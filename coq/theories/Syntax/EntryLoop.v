(* Syntax/EntryLoop.v — the entry level of property C02, generic in the patterns.

   Given a class of patterns (`pok`), their layouts after "=" (`vlay`), and the fact that get_pattern maps every
   layout to elements related (`rel`) to the pattern's, this file proves: the parser maps every layout of a
   resource whose messages, terms and attributes have such patterns (with attached and stand-alone comments)
   to a resource related to it, without errors; and `render` prints such a layout.
   The pattern-independent parts (comments, blank lines, identifiers) come from RoundTrip.v.              *)
From FluentV Require Import Base.Bytes Base.Outcome Base.Utf8 Base.Utf8Facts.
From FluentV Require Import Syntax.Ast Syntax.ParserModel Syntax.Render Syntax.TreeNorm Syntax.ParseLemmas Syntax.RoundTrip.
From Coq Require Import Lia ZifyBool ZifyNat ZifyN.

Arguments N.add : simpl never.
Arguments N.sub : simpl never.
Arguments N.eqb : simpl never.
Arguments N.ltb : simpl never.
Arguments N.leb : simpl never.

Ltac nlia :=
  repeat match goal with
         | H : ?T |- _ =>
             lazymatch T with
             | _ <= _ => fail
             | _ < _ => fail
             | @eq nat _ _ => fail
             | _ => clear H
             end
         end; lia.

Section Generic.
Variable pok : list pattern_element -> bool.
Variable vlay : list pattern_element -> bytes -> Prop.
Variable rel : list pattern_element -> list pattern_element -> Prop.

(* ---- the fragment ---- *)
Definition g_pattern (p : pattern) : bool := match p with Pattern els => pok els end.
Definition g_attribute (a : attribute) : bool := wf_identifier (attr_id a) && g_pattern (attr_value a).

Definition g_plain_entry (e : entry) : bool :=
  match e with
  | CommentEntry c | GroupComment c | ResourceComment c => wide_comment c
  | Message id (Some p) attrs None => wf_identifier id && g_pattern p && forallb g_attribute attrs
  | Message id None attrs None =>
      wf_identifier id && negb (match attrs with [] => true | _ => false end) && forallb g_attribute attrs
  | Term id p attrs None => wf_identifier id && g_pattern p && forallb g_attribute attrs
  | _ => false
  end.
Definition g_entry (e : entry) : bool :=
  g_plain_entry (strip_comment e) && match entry_comment e with Some c => wide_comment c | None => true end.
Definition g_resource (t : resource) : bool := forallb g_entry t.

(* ---- what the parser's tree has to do with the tree that was printed ---- *)
Definition rel_pattern (p' p : pattern) : Prop := rel (pattern_elements p') (pattern_elements p).
Definition rel_attr (a' a : attribute) : Prop := attr_id a' = attr_id a /\ rel_pattern (attr_value a') (attr_value a).
Definition rel_entry (e' e : entry) : Prop :=
  match e', e with
  | Message id' (Some p') a' c', Message id (Some p) a c =>
      id' = id /\ rel_pattern p' p /\ Forall2 rel_attr a' a /\ c' = c
  | Message id' None a' c', Message id None a c => id' = id /\ Forall2 rel_attr a' a /\ c' = c
  | Term id' p' a' c', Term id p a c => id' = id /\ rel_pattern p' p /\ Forall2 rel_attr a' a /\ c' = c
  | CommentEntry c', CommentEntry c | GroupComment c', GroupComment c | ResourceComment c', ResourceComment c => c' = c
  | _, _ => False
  end.

(* finding D7: the bare prefix of a stand-alone comment *)
Definition d7_prefix (e : entry) (P : bytes) : Prop :=
  match e with
  | CommentEntry _ => P = [35%N]
  | GroupComment _ => P = [35; 35]%N
  | ResourceComment _ => P = [35; 35; 35]%N
  | _ => False
  end.

(* ---- layouts ---- *)
Inductive gattr_layout : attribute -> bytes -> Prop :=
| gatl aid els x k k1 V :
    is_eol_bytes x -> vlay els V ->
    gattr_layout (Attribute aid (Pattern els)) (x ++ sp (S k) ++ 46%N :: aid ++ sp k1 ++ 61%N :: V).

Inductive gattrs_layout : list attribute -> bytes -> Prop :=
| gal_nil : gattrs_layout [] []
| gal_cons a r L A : gattr_layout a L -> gattrs_layout r A -> gattrs_layout (a :: r) (L ++ A).

Inductive gplain_layout : entry -> bytes -> Prop :=
| gel_comment ls C : comment_layout [35%N] ls C -> gplain_layout (CommentEntry (Comment ls)) C
| gel_gcomment ls C : comment_layout [35; 35]%N ls C -> gplain_layout (GroupComment (Comment ls)) C
| gel_rcomment ls C : comment_layout [35; 35; 35]%N ls C -> gplain_layout (ResourceComment (Comment ls)) C
| gel_message id els attrs k V A :
    vlay els V -> gattrs_layout attrs A ->
    gplain_layout (Message id (Some (Pattern els)) attrs None) (id ++ sp k ++ 61%N :: V ++ A)
| gel_message_novalue id attrs k A :
    attrs <> [] -> gattrs_layout attrs A ->
    gplain_layout (Message id None attrs None) (id ++ sp k ++ 61%N :: A)
| gel_term id els attrs k V A :
    vlay els V -> gattrs_layout attrs A ->
    gplain_layout (Term id (Pattern els) attrs None) (45%N :: id ++ sp k ++ 61%N :: V ++ A).

Inductive gentry_layout : entry -> bytes -> Prop :=
| gel_plain e E : entry_comment e = None -> gplain_layout e E -> gentry_layout e E
| gel_attached e ls C x E :
    is_message_or_term e = true -> entry_comment e = None ->
    comment_layout [35%N] ls C -> is_eol_bytes x -> gplain_layout e E ->
    gentry_layout (attach e (Comment ls)) (C ++ x ++ E).

Inductive gentries_layout : list entry -> bytes -> Prop :=
| gesl_nil : gentries_layout [] []
| gesl_cons e r E T : gentry_layout e E -> gtail_layout e r T -> gentries_layout (e :: r) (E ++ T)
with gtail_layout : entry -> list entry -> bytes -> Prop :=
| gtl_eof e : eof_ok e -> gtail_layout e [] []
(* the text of finding D7, read as an (unusual) layout of the comment WITHOUT the empty last line: behind the
   last entry, a stand-alone comment, a line end and the bare comment prefix at the end of the input *)
| gtl_d7 e x P : d7_prefix e P -> is_eol_bytes x -> gtail_layout e [] (x ++ P)
| gtl_more e r x c BL S :
    is_eol_bytes x -> blank_lines_of c BL -> gentries_layout r S ->
    match r with e2 :: _ => min_blank_between e e2 <= c | [] => True end ->
    gtail_layout e r (x ++ BL ++ S).

Inductive gresource_layout : list entry -> bytes -> Prop :=
| grl c BL t S : blank_lines_of c BL -> gentries_layout t S -> gresource_layout t (BL ++ S).

(* ---------------------------------------------------------------------------------------------- *)
(* the parser                                                                                       *)
Section Parse.
Variable bs : bytes.

Hypothesis Hpattern : forall els V T used c nx p n,
  pok els = true -> vlay els V -> after_value T used c nx -> at_ bs p (V ++ T) ->
  3 * length (V ++ T) + 12 <= n ->
  exists els', get_pattern bs n p = Ok (Some (Pattern els')) (used + (length V + p)) /\ rel els' els.

(* a value layout starts with spaces; what follows them is a layout again and does not start with a space *)
Hypothesis Hstrip : forall els V, pok els = true -> vlay els V ->
  exists k V0, V = sp k ++ V0 /\ vlay els (sp 0 ++ V0) /\ forall T, head_not is_space (V0 ++ T).


(* ---- attributes ---- *)
Inductive gattrs_at : list attribute -> bytes -> bytes -> nat -> nat -> Prop :=
| gaa_nil next : gattrs_at [] next next 0 0
| gaa_cons aid els r k k1 V T used c R next cm len :
    wf_identifier aid = true -> pok els = true ->
    vlay els V -> after_value T used c R -> gattrs_at r R next cm len ->
    gattrs_at (Attribute aid (Pattern els) :: r)
              (sp (S k) ++ 46%N :: aid ++ sp k1 ++ 61%N :: V ++ T) next (Nat.max c cm)
              (length (sp (S k) ++ 46%N :: aid ++ sp k1 ++ 61%N :: V) + used + len).

Lemma g_get_attribute_at aid els k1 V T used c R p n :
  wf_identifier aid = true -> pok els = true -> vlay els V -> after_value T used c R ->
  at_ bs p (aid ++ sp k1 ++ 61%N :: V ++ T) -> 3 * length (V ++ T) + 2 * c + 12 <= n ->
  exists els', get_attribute bs n p =
               Ok (Attribute aid (Pattern els')) (used + (length (aid ++ sp k1 ++ 61%N :: V) + p)) /\ rel els' els.
Proof.
  intros Hid Hv HV HT H Hn. unfold get_attribute.
  destruct (sp_eq_head k1 (V ++ T)) as [Hh1 Hh2].
  step (get_identifier_ok bs p aid _ H Hid Hh1 Hh2).
  pose proof (at_app _ _ _ _ H) as H1.
  step (skip_blank_inline_sp bs _ k1 _ H1 eq_refl).
  pose proof (at_app _ _ _ _ H1) as H2. rewrite sp_length in H2.
  step (expect_byte_yes bs _ 61 _ H2).
  pose proof (at_cons _ _ _ _ H2) as H3.
  destruct (Hpattern els V T used c R _ n Hv HV HT H3 ltac:(lia)) as (els' & Ep & Hrel).
  exists els'. split; [|exact Hrel]. step Ep.
  unfold ret. f_equal. rewrite !app_length, sp_length. cbn [length]. lia.
Qed.

Lemma after_value_len T used c R : after_value T used c R -> length T = used + length R.
Proof. intros [|x c' BL nx Hx HBL Hn]; [reflexivity|]. rewrite !app_length. lia. Qed.

Lemma g_get_attributes_at attrs R next cm len : gattrs_at attrs R next cm len -> entry_start_bytes next ->
  forall acc p n, at_ bs p R -> 3 * length R + 2 * cm + 14 <= n ->
  exists attrs', get_attributes bs n acc p = Ok (rev acc ++ attrs') (len + p) /\ Forall2 rel_attr attrs' attrs /\
                 at_ bs (len + p) next.
Proof.
  intros HA Hnext. induction HA as [next | aid els r k k1 V T used c R next cm len Hid Hv HV HT HA IH];
    intros acc p n H Hn.
  - exists []. split; [|split; [constructor | exact H]]. rewrite app_nil_r.
    apply (get_attributes_none bs next acc p n Hnext H). lia.
  - destruct n as [|n]; [lia|]. cbn [get_attributes]. rewrite bind_get_ptr.
    step (skip_blank_inline_sp bs p (S k) _ H eq_refl).
    pose proof (at_app _ _ _ _ H) as H1. rewrite sp_length in H1.
    step (take_byte_if_yes bs _ 46 _ H1).
    pose proof (at_cons _ _ _ _ H1) as H2.
    pose proof (after_value_len T used c R HT) as HlenT.
    rewrite (app_length (sp (S k))), sp_length in Hn. cbn [length] in Hn. rewrite !app_length in Hn. cbn [length] in Hn.
    rewrite !app_length in Hn.
    assert (Hc : 3 * length (V ++ T) + 2 * c + 12 <= n) by (rewrite app_length; lia).
    destruct (g_get_attribute_at aid els k1 V T used c R _ n Hid Hv HV HT H2 Hc) as (els' & Hga & Hrel).
    cbn [negb]. step (try_ok _ _ _ _ Hga).
    assert (H3 : at_ bs (used + (length (aid ++ sp k1 ++ 61%N :: V) + S (S k + p))) R).
    { apply (after_value_next bs T used c R HT).
      replace (aid ++ sp k1 ++ 61%N :: V ++ T) with ((aid ++ sp k1 ++ 61%N :: V) ++ T) in H2
        by (rewrite <- !app_assoc; reflexivity).
      apply (at_app _ _ _ _ H2). }
    destruct (IH Hnext (Attribute aid (Pattern els') :: acc) _ n H3 ltac:(lia)) as (attrs' & E & Hrels & Hat).
    assert (Hpos : len + (used + (length (aid ++ sp k1 ++ 61%N :: V) + S (S k + p))) =
                   length (sp (S k) ++ 46%N :: aid ++ sp k1 ++ 61%N :: V) + used + len + p).
    { rewrite (app_length (sp (S k))), sp_length. cbn [length]. lia. }
    rewrite Hpos in E, Hat.
    exists (Attribute aid (Pattern els') :: attrs'). split; [|split; [|exact Hat]].
    + rewrite E. cbn [rev]. rewrite <- app_assoc. reflexivity.
    + constructor; [split; [reflexivity | exact Hrel] | exact Hrels].
Qed.

Lemma gattrs_layout_length attrs A : gattrs_layout attrs A -> length attrs <= length A.
Proof.
  induction 1 as [|a r L A HL HA IH]; [cbn; lia|].
  destruct HL as [aid els x k k1 V Hx HV]. cbn [length]. rewrite !app_length, sp_length. cbn [length].
  destruct Hx as [-> | ->]; cbn [length lf crlf]; lia.
Qed.

Lemma gattrs_layout_at attrs A : gattrs_layout attrs A -> forallb g_attribute attrs = true ->
  forall T used c next, entry_tail T used c next ->
  (attrs = [] /\ A = []) \/
  exists x R len, A ++ T = x ++ R /\ is_eol_bytes x /\ gattrs_at attrs R next c len /\
                  (exists s b t, R = sp (S s) ++ b :: t /\ is_byte_pattern_continuation b = false) /\
                  length A + used = length x + len.
Proof.
  induction 1 as [|a r L A HL HA IH]; intros Hs T used c next HT; [left; split; reflexivity|].
  right. cbn [forallb] in Hs. apply andb_prop in Hs as [Ha Hr].
  destruct HL as [aid els x k k1 V Hx HV].
  unfold g_attribute in Ha. cbn [attr_id attr_value g_pattern] in Ha.
  apply andb_prop in Ha as [Hid Hv].
  destruct (IH Hr T used c next HT) as [[-> ->] | (x' & R' & len' & E' & Hx' & HA' & Hstart & Hlen)].
  - exists x, (sp (S k) ++ 46%N :: aid ++ sp k1 ++ 61%N :: V ++ T). eexists.
    split; [rewrite app_nil_r, <- !app_assoc; cbn [app]; rewrite <- !app_assoc; reflexivity|].
    split; [exact Hx|]. split.
    + rewrite <- (Nat.max_0_r c).
      apply (gaa_cons aid els [] k k1 V T used c next next 0 0 Hid Hv HV (entry_tail_after_value _ _ _ _ HT)).
      constructor.
    + split; [exists k, 46%N; eexists; split; reflexivity|].
      rewrite app_nil_r, !app_length. lia.
  - exists x, (sp (S k) ++ 46%N :: aid ++ sp k1 ++ 61%N :: V ++ x' ++ [] ++ R'). eexists.
    split; [rewrite <- !app_assoc; cbn [app]; rewrite <- !app_assoc, E'; reflexivity|].
    split; [exact Hx|]. split.
    + replace c with (Nat.max 0 c) by apply Nat.max_0_l.
      apply (gaa_cons aid els r k k1 V (x' ++ [] ++ R') (length x' + length (@nil N)) 0 R' next c len' Hid Hv HV); [|exact HA'].
      constructor; [exact Hx' | constructor|].
      destruct Hstart as (s & b & t & -> & Hb). right; right. exists s, b, t. split; [reflexivity | exact Hb].
    + split; [exists k, 46%N; eexists; split; reflexivity|].
      rewrite !app_length in *. cbn [length]. lia.
Qed.

Lemma gattrs_tail attrs A T used c next :
  gattrs_layout attrs A -> forallb g_attribute attrs = true -> entry_tail T used c next ->
  exists used' c' R cm len,
    after_value (A ++ T) used' c' R /\ gattrs_at attrs R next cm len /\ no_blank_line_head R /\
    c' <= c /\ cm <= c /\ used' + len = length A + used.
Proof.
  intros HA Hs HT.
  destruct (gattrs_layout_at attrs A HA Hs T used c next HT)
    as [[-> ->] | (x & R & len & E & Hx & HAt & (s & b & t & -> & Hb) & Hlen)].
  - exists used, c, next, 0, 0. cbn [app length].
    split; [apply entry_tail_after_value, HT|]. split; [constructor|].
    split; [apply entry_start_no_blank_line; destruct HT; [left; reflexivity | assumption]|]. lia.
  - exists (length x + length (@nil N)), 0, (sp (S s) ++ b :: t), c, len. rewrite E.
    split; [apply (av_lines x 0 [] _ Hx bl_nil); right; right; exists s, b, t; auto|].
    split; [exact HAt|]. split; [apply not_continuation_no_blank_line, Hb|]. cbn [length]. lia.
Qed.

Lemma entry_tail_len T used c next : entry_tail T used c next -> length T = used + length next /\ c <= length T.
Proof.
  intros [|x c' BL nx Hx HBL Hn]; [cbn; lia|]. pose proof (blank_lines_length _ _ HBL). rewrite !app_length. lia.
Qed.

(* ---- messages and terms ---- *)
Lemma g_get_message id els attrs k V A T used c next p n entry_start :
  wf_identifier id = true -> pok els = true -> forallb g_attribute attrs = true ->
  vlay els V -> gattrs_layout attrs A -> entry_tail T used c next ->
  at_ bs p ((id ++ sp k ++ 61%N :: V ++ A) ++ T) ->
  3 * length ((id ++ sp k ++ 61%N :: V ++ A) ++ T) + 2 * c + 14 <= n ->
  exists els' attrs',
    get_message bs n entry_start p =
    Ok (Message id (Some (Pattern els')) attrs' None) (used + (length (id ++ sp k ++ 61%N :: V ++ A) + p)) /\
    rel els' els /\ Forall2 rel_attr attrs' attrs.
Proof.
  intros Hid Hv Hattrs HV HA HT H Hn. unfold get_message.
  destruct (gattrs_tail attrs A T used c next HA Hattrs HT) as (used' & c' & R & cm & len & HT' & HAt & HR & Hc' & Hcm & Hlen).
  pose proof (after_value_len _ _ _ _ HT') as HlenAT. rewrite app_length in HlenAT.
  rewrite !app_length in Hn. cbn [length] in Hn. rewrite !app_length in Hn.
  assert (Hfuel1 : 3 * length (V ++ A ++ T) + 2 * c' + 12 <= n) by (rewrite !app_length; lia).
  assert (Hfuel2 : 3 * length R + 2 * cm + 14 <= n) by lia.
  destruct (sp_eq_head k (V ++ A ++ T)) as [Hh1 Hh2].
  assert (H0 : at_ bs p (id ++ sp k ++ 61%N :: V ++ A ++ T)).
  { rewrite <- !app_assoc in H. cbn [app] in H. rewrite <- ?app_assoc in H. exact H. }
  step (get_identifier_ok bs p id _ H0 Hid Hh1 Hh2).
  pose proof (at_app _ _ _ _ H0) as H1.
  step (skip_blank_inline_sp bs _ k _ H1 eq_refl).
  pose proof (at_app _ _ _ _ H1) as H2. rewrite sp_length in H2.
  step (expect_byte_yes bs _ 61 _ H2).
  pose proof (at_cons _ _ _ _ H2) as H3.
  destruct (Hpattern els V (A ++ T) used' c' R _ n Hv HV HT' H3 ltac:(lia)) as (els' & Ep & Hrel).
  step Ep.
  pose proof (after_value_next bs _ _ _ _ HT' _ (at_app _ _ _ _ H3)) as H4.
  step (skip_blank_block_none bs _ R H4 HR).
  assert (Hnext : entry_start_bytes next) by (destruct HT; [left; reflexivity | assumption]).
  destruct (g_get_attributes_at attrs R next cm len HAt Hnext [] _ n H4 Hfuel2) as (attrs' & Ega & Hrels & _).
  exists els', attrs'. split; [|split; assumption].
  step Ega. cbn [rev app].
  unfold ret. f_equal.
  rewrite !app_length, sp_length. cbn [length]. rewrite !app_length. lia.
Qed.

Lemma g_get_message_novalue id attrs k A T used c next p n entry_start :
  wf_identifier id = true -> forallb g_attribute attrs = true -> attrs <> [] ->
  gattrs_layout attrs A -> entry_tail T used c next ->
  at_ bs p ((id ++ sp k ++ 61%N :: A) ++ T) ->
  3 * length ((id ++ sp k ++ 61%N :: A) ++ T) + 2 * c + 14 <= n ->
  exists attrs',
    get_message bs n entry_start p = Ok (Message id None attrs' None) (used + (length (id ++ sp k ++ 61%N :: A) + p)) /\
    Forall2 rel_attr attrs' attrs.
Proof.
  intros Hid Hattrs Hne HA HT H Hn. unfold get_message.
  destruct (gattrs_layout_at attrs A HA Hattrs T used c next HT)
    as [[-> _] | (x & R & len & E & Hx & HAt & (s & b & t & -> & Hb) & Hlen)]; [congruence|].
  rewrite !app_length in Hn. cbn [length] in Hn. rewrite ?app_length in Hn.
  assert (HlenAT : length A + length T = length x + length (sp (S s) ++ b :: t)).
  { rewrite <- !app_length, E. reflexivity. }
  assert (Hfuel2 : 3 * length (sp (S s) ++ b :: t) + 2 * c + 14 <= n) by lia.
  destruct (sp_eq_head k (A ++ T)) as [Hh1 Hh2].
  assert (H0 : at_ bs p (id ++ sp k ++ 61%N :: A ++ T)).
  { rewrite <- !app_assoc in H. cbn [app] in H. rewrite <- ?app_assoc in H. exact H. }
  step (get_identifier_ok bs p id _ H0 Hid Hh1 Hh2).
  pose proof (at_app _ _ _ _ H0) as H1.
  step (skip_blank_inline_sp bs _ k _ H1 eq_refl).
  pose proof (at_app _ _ _ _ H1) as H2. rewrite sp_length in H2.
  step (expect_byte_yes bs _ 61 _ H2).
  pose proof (at_cons _ _ _ _ H2) as H3. rewrite E in H3.
  step (get_pattern_none bs x s b t _ n Hx Hb H3 ltac:(lia)).
  pose proof (at_app _ _ _ _ H3) as H4.
  step (skip_blank_block_none bs _ _ H4 (not_continuation_no_blank_line s b t Hb)).
  assert (Hnext : entry_start_bytes next) by (destruct HT; [left; reflexivity | assumption]).
  destruct (g_get_attributes_at attrs _ next c len HAt Hnext [] _ n H4 Hfuel2) as (attrs' & Ega & Hrels & _).
  exists attrs'. split; [|exact Hrels].
  step Ega. cbn [rev app].
  assert (Hne' : attrs' <> []) by (intros ->; inversion Hrels; subst; congruence).
  destruct attrs' as [|a0 r0]; [congruence|].
  unfold ret. f_equal. rewrite !app_length, sp_length. cbn [length]. lia.
Qed.

Lemma g_get_term id els attrs k V A T used c next p n entry_start :
  wf_identifier id = true -> pok els = true -> forallb g_attribute attrs = true ->
  vlay els V -> gattrs_layout attrs A -> entry_tail T used c next ->
  at_ bs p ((45%N :: id ++ sp k ++ 61%N :: V ++ A) ++ T) ->
  3 * length ((45%N :: id ++ sp k ++ 61%N :: V ++ A) ++ T) + 2 * c + 14 <= n ->
  exists els' attrs',
    get_term bs n entry_start p =
    Ok (Term id (Pattern els') attrs' None) (used + (length (45%N :: id ++ sp k ++ 61%N :: V ++ A) + p)) /\
    rel els' els /\ Forall2 rel_attr attrs' attrs.
Proof.
  intros Hid Hv Hattrs HV HA HT H Hn. unfold get_term.
  destruct (gattrs_tail attrs A T used c next HA Hattrs HT) as (used' & c' & R & cm & len & HT' & HAt & HR & Hc' & Hcm & Hlen).
  pose proof (after_value_len _ _ _ _ HT') as HlenAT. rewrite app_length in HlenAT.
  cbn [app length] in Hn. rewrite !app_length in Hn. cbn [length] in Hn. rewrite !app_length in Hn.
  assert (Hfuel2 : 3 * length R + 2 * cm + 14 <= n) by lia.
  assert (H0 : at_ bs p (45%N :: id ++ sp k ++ 61%N :: V ++ A ++ T)).
  { cbn [app] in H. rewrite <- !app_assoc in H. cbn [app] in H. rewrite <- ?app_assoc in H. exact H. }
  step (expect_byte_yes bs p 45 _ H0).
  pose proof (at_cons _ _ _ _ H0) as H0'.
  destruct (sp_eq_head k (V ++ A ++ T)) as [Hh1 Hh2].
  step (get_identifier_ok bs _ id _ H0' Hid Hh1 Hh2).
  pose proof (at_app _ _ _ _ H0') as H1.
  step (skip_blank_inline_sp bs _ k _ H1 eq_refl).
  pose proof (at_app _ _ _ _ H1) as H2. rewrite sp_length in H2.
  step (expect_byte_yes bs _ 61 _ H2).
  pose proof (at_cons _ _ _ _ H2) as H3.
  destruct (Hstrip els V Hv HV) as (kv & V0 & -> & HV0 & Hhead).
  rewrite app_length, sp_length in Hn.
  assert (Hfuel1 : 3 * length ((sp 0 ++ V0) ++ A ++ T) + 2 * c' + 12 <= n).
  { cbn [sp repeat app]. rewrite !app_length. lia. }
  rewrite <- app_assoc in H3.
  step (skip_blank_inline_sp bs _ kv _ H3 (Hhead (A ++ T))).
  pose proof (at_app _ _ _ _ H3) as H3'. rewrite sp_length in H3'.
  destruct (Hpattern els (sp 0 ++ V0) (A ++ T) used' c' R _ n Hv HV0 HT' H3' ltac:(lia)) as (els' & Ep & Hrel).
  step Ep.
  pose proof (after_value_next bs _ _ _ _ HT' _ (at_app _ _ _ _ H3')) as H4.
  step (skip_blank_block_none bs _ R H4 HR).
  assert (Hnext : entry_start_bytes next) by (destruct HT; [left; reflexivity | assumption]).
  destruct (g_get_attributes_at attrs R next cm len HAt Hnext [] _ n H4 Hfuel2) as (attrs' & Ega & Hrels & _).
  exists els', attrs'. split; [|split; assumption].
  step Ega. cbn [rev app]. unfold ret. f_equal.
  cbn [sp repeat app length]. rewrite !app_length, !sp_length. cbn [length].
  rewrite !app_length, sp_length. lia.
Qed.

(* ---- entries ---- *)
Lemma gentry_layout_start e E : g_plain_entry e = true -> gplain_layout e E -> forall T, entry_start_bytes (E ++ T).
Proof.
  intros He HE T.
  destruct HE as [ls C HC | ls C HC | ls C HC
                  | id els attrs k V A HV HA | id attrs k A Hne HA | id els attrs k V A HV HA]; cbn [g_plain_entry] in He.
  1-3: (destruct (comment_layout_head _ ls C HC) as [t [-> _]]; right; exists 35%N; eexists;
        (split; [reflexivity | right; right; reflexivity])).
  all: apply andb_prop in He as [He _]; apply andb_prop in He as [Hid _].
  - destruct (wf_identifier_head id Hid) as (b & r & -> & Hb). right. exists b. eexists. split; [reflexivity|].
    left. exact Hb.
  - destruct (wf_identifier_head id Hid) as (b & r & -> & Hb). right. exists b. eexists. split; [reflexivity|].
    left. exact Hb.
  - right. exists 45%N. eexists. split; [reflexivity|]. right; left; reflexivity.
Qed.

Lemma gentry_layout_length e E : gplain_layout e E -> 1 <= length E /\ nattrs e + nlines e <= length E.
Proof.
  intros HE.
  destruct HE as [ls C HC | ls C HC | ls C HC
                  | id els attrs k V A HV HA | id attrs k A Hne HA | id els attrs k V A HV HA].
  1-3: (pose proof (comment_layout_length _ ls C HC ltac:(discriminate)) as HL;
        destruct (comment_layout_head _ ls C HC) as [t [EC _]]; apply (f_equal (@length N)) in EC;
        rewrite app_length in EC; cbn [length] in EC; cbn [nattrs nlines content]; lia).
  all: pose proof (gattrs_layout_length _ _ HA); cbn [nattrs nlines length]; rewrite !app_length; cbn [length];
    rewrite ?app_length; lia.
Qed.

Lemma gany_layout_start e E : g_entry e = true -> gentry_layout e E -> forall T, entry_start_bytes (E ++ T).
Proof.
  intros He HE T. destruct HE as [e E Hc HE | e ls C x E Hmt Hc HC Hx HE].
  - apply (gentry_layout_start e E); [|exact HE].
    unfold g_entry in He. rewrite (strip_comment_none e Hc) in He. apply andb_prop in He as [He _]. exact He.
  - destruct (comment_layout_head _ ls C HC) as [t [-> _]]. right. exists 35%N. eexists.
    split; [reflexivity | right; right; reflexivity].
Qed.

Lemma gany_layout_length e E : gentry_layout e E -> 1 <= length E.
Proof.
  intros [e0 E0 Hc HE | e0 ls C x E0 Hmt Hc HC Hx HE].
  - apply (gentry_layout_length e0 E0 HE).
  - destruct (gentry_layout_length e0 E0 HE) as [H1 _]. rewrite !app_length. lia.
Qed.

Lemma gentries_layout_start r S : g_resource r = true -> gentries_layout r S -> entry_start_bytes S.
Proof.
  intros Hr HS. destruct HS as [|e r' E T HE HT]; [left; reflexivity|].
  cbn [g_resource forallb] in Hr. apply andb_prop in Hr as [He _].
  apply (gany_layout_start e E He HE T).
Qed.

(* the first bytes of the entries that follow tell the comment loop to stop *)
Lemma gplain_layout_after_comment lvl e2 E T :
  g_plain_entry e2 = true -> gplain_layout e2 E -> line_end_or_eof T -> level_of_entry e2 <> lvl ->
  (exists b t, E ++ T = b :: t /\ N.eqb b 35 = false) \/
  (exists P' lvl' t, E ++ T = P' ++ t /\ prefix_level P' lvl' /\ head_not_hash t /\ lvl' <> lvl).
Proof.
  intros He HE HT Hlvl.
  destruct HE as [ls C HC | ls C HC | ls C HC
                  | id els attrs k V A HV HA | id attrs k A Hne HA | id els attrs k V A HV HA];
    cbn [g_plain_entry level_of_entry] in *.
  1-3: (right; destruct (comment_layout_head _ ls C HC) as [t [-> Ht]]; rewrite <- app_assoc).
  - exists [35%N], LRegular, (t ++ T). split; [reflexivity|]. split; [left; auto|]. split; [|exact Hlvl].
    destruct t; [|exact Ht]. destruct HT as [-> | (x & r & -> & [-> | ->])]; [exact Logic.I | reflexivity | reflexivity].
  - exists [35; 35]%N, LGroup, (t ++ T). split; [reflexivity|]. split; [right; left; auto|]. split; [|exact Hlvl].
    destruct t; [|exact Ht]. destruct HT as [-> | (x & r & -> & [-> | ->])]; [exact Logic.I | reflexivity | reflexivity].
  - exists [35; 35; 35]%N, LResource, (t ++ T). split; [reflexivity|]. split; [right; right; auto|]. split; [|exact Hlvl].
    destruct t; [|exact Ht]. destruct HT as [-> | (x & r & -> & [-> | ->])]; [exact Logic.I | reflexivity | reflexivity].
  - left. apply andb_prop in He as [He _]; apply andb_prop in He as [Hid _].
    destruct (wf_identifier_head id Hid) as (b & r0 & -> & Hb). exists b. eexists. split; [reflexivity|].
    unfold is_ascii_alphabetic, in_rng in Hb. lia.
  - left. apply andb_prop in He as [He _]; apply andb_prop in He as [Hid _].
    destruct (wf_identifier_head id Hid) as (b & r0 & -> & Hb). exists b. eexists. split; [reflexivity|].
    unfold is_ascii_alphabetic, in_rng in Hb. lia.
  - left. exists 45%N. eexists. split; reflexivity.
Qed.

Lemma gtail_layout_line_end e r T : gtail_layout e r T -> line_end_or_eof T.
Proof. intros [e' _ | e' x P _ Hx | e' r' x c BL S Hx HBL HS Hmin]; [left; reflexivity | right; exists x, P; auto | right; exists x, (BL ++ S); auto]. Qed.

Lemma gtail_layout_eof e r T : gtail_layout e r T -> T = [] -> eof_ok e.
Proof.
  intros [e' Hok | e' x P _ Hx | e' r' x c BL S Hx HBL HS Hmin] E; [exact Hok | |]; destruct Hx as [-> | ->]; discriminate E.
Qed.

Lemma gentries_layout_after_comment lvl r S :
  g_resource r = true -> gentries_layout r S ->
  match r with e2 :: _ => head_level e2 <> lvl | [] => True end ->
  next_after_comment lvl 0 S.
Proof.
  intros Hr HS Hlvl _. destruct HS as [|e2 r' E T HE HT]; [left; reflexivity|].
  cbn [g_resource forallb] in Hr. apply andb_prop in Hr as [He _]. right.
  destruct HE as [e E Hc HE | e ls C x E Hmt Hc HC Hx HE].
  - unfold g_entry in He. rewrite (strip_comment_none e Hc) in He. apply andb_prop in He as [He _].
    apply (gplain_layout_after_comment lvl e E T He HE (gtail_layout_line_end _ _ _ HT)).
    destruct e as [? ? ? cm|? ? ? cm| | | |]; cbn [entry_comment] in Hc; try subst cm; exact Hlvl.
  - right. destruct (comment_layout_head _ ls C HC) as [t [-> Ht]].
    exists [35%N], LRegular, (t ++ (x ++ E) ++ T). split; [rewrite <- !app_assoc; reflexivity|].
    split; [left; auto|]. split.
    + destruct t; [|exact Ht]. destruct Hx as [-> | ->]; reflexivity.
    + destruct e as [? ? ? cm|? ? ? cm| | | |]; try discriminate Hmt; exact Hlvl.
Qed.

Lemma gtail_layout_entry_tail e r T : g_resource r = true -> gtail_layout e r T ->
  (exists used c S, entry_tail T used c S /\ gentries_layout r S /\ length T = used + length S /\
                    follows_ok e c S /\
                    match r with e2 :: _ => min_blank_between e e2 <= c | [] => True end) \/
  (r = [] /\ exists x P, T = x ++ P /\ d7_prefix e P /\ is_eol_bytes x).
Proof.
  intros Hr HT. destruct HT as [e' _ | e' x P HP Hx | e' r' x c BL S Hx HBL HS Hmin]; [left | right; split; [reflexivity | exists x, P; auto] | left].
  - exists 0, 0, []. split; [constructor | split; [constructor | split; [reflexivity|]]].
    split; [|exact Logic.I]. destruct e'; cbn [follows_ok]; try exact Logic.I; intros _; left; reflexivity.
  - exists (length x + length BL), c, S. split; [|split; [exact HS|split; [|split; [|exact Hmin]]]].
    + constructor; try assumption. apply (gentries_layout_start r' S Hr HS).
    + rewrite !app_length. lia.
    + assert (Hgen : forall lvl, level_of_entry e' = lvl -> lvl <> LNone -> next_after_comment lvl c S).
      { intros lvl El Hnn Hc. subst c.
        apply (gentries_layout_after_comment lvl r' S Hr HS); [|reflexivity].
        destruct r' as [|e2 r2]; [exact Logic.I|]. intros E2.
        unfold min_blank_between in Hmin.
        destruct e' as [? ? ? ?|? ? ? ?|c1|c1|c1|?]; cbn [level_of_entry] in El; try congruence;
          destruct e2 as [? ? ? [?|]|? ? ? [?|]|c2|c2|c2|?]; cbn [head_level] in E2; try congruence;
          cbn in Hmin; lia. }
      destruct e'; cbn [follows_ok]; try exact Logic.I; apply Hgen; (reflexivity || discriminate).
Qed.

(* ---- facts about rel_entry ---- *)
Lemma rel_entry_mt e' e : rel_entry e' e -> is_message_or_term e' = is_message_or_term e.
Proof.
  destruct e' as [? [?|] ? ?|? ? ? ?| | | |], e as [? [?|] ? ?|? ? ? ?| | | |]; cbn; intros H; try contradiction; reflexivity.
Qed.
Lemma rel_entry_comment e' e : rel_entry e' e -> entry_comment e' = entry_comment e.
Proof.
  destruct e' as [? [?|] ? ?|? ? ? ?| | | |], e as [? [?|] ? ?|? ? ? ?| | | |]; cbn; intros H; try contradiction;
    try reflexivity; intuition.
Qed.
Lemma rel_entry_is_comment e' e : rel_entry e' e -> is_comment_entry e = true -> e' = e.
Proof.
  destruct e' as [? [?|] ? ?|? ? ? ?| | | |], e as [? [?|] ? ?|? ? ? ?| | | |]; cbn; intros H Hc; try contradiction;
    try discriminate Hc; subst; reflexivity.
Qed.
Lemma rel_entry_not_comment e' e : rel_entry e' e -> is_comment_entry e' = is_comment_entry e.
Proof.
  destruct e' as [? [?|] ? ?|? ? ? ?| | | |], e as [? [?|] ? ?|? ? ? ?| | | |]; cbn; intros H; try contradiction; reflexivity.
Qed.
Lemma rel_entry_attach e' e c : is_message_or_term e = true -> rel_entry e' e -> rel_entry (attach e' c) (attach e c).
Proof.
  destruct e' as [? [?|] ? ?|? ? ? ?| | | |], e as [? [?|] ? ?|? ? ? ?| | | |]; cbn; intros Hm H; try contradiction;
    try discriminate Hm; intuition.
Qed.

(* get_entry on a printed message or term of the fragment *)
Lemma g_get_entry e E T used c next p n :
  g_plain_entry e = true -> is_comment_entry e = false -> gplain_layout e E -> entry_tail T used c next ->
  at_ bs p (E ++ T) -> 3 * length (E ++ T) + 2 * c + 14 <= n ->
  exists e', get_entry bs n p p = Ok e' (used + (length E + p)) /\ rel_entry e' e.
Proof.
  intros He Hnc HE HT H Hn. unfold get_entry. rewrite bind_current_byte.
  destruct HE as [ls C HC | ls C HC | ls C HC
                  | id els attrs k V A HV HA | id attrs k A Hne HA | id els attrs k V A HV HA];
    try discriminate Hnc; cbn [g_plain_entry g_pattern] in He.
  - apply andb_prop in He as [He Hattrs]. apply andb_prop in He as [Hid Hv].
    destruct (wf_identifier_head id Hid) as (b & r & Eid & Hb).
    assert (Hb0 : at_ bs p (b :: r ++ (sp k ++ 61%N :: V ++ A) ++ T)).
    { rewrite Eid in H. rewrite <- app_assoc in H. exact H. }
    rewrite (at_byte _ _ _ _ Hb0).
    replace (N.eqb b 35) with false by (unfold is_ascii_alphabetic, in_rng in Hb; lia).
    replace (N.eqb b 45) with false by (unfold is_ascii_alphabetic, in_rng in Hb; lia).
    destruct (g_get_message id els attrs k V A T used c next p n p Hid Hv Hattrs HV HA HT H Hn) as (els' & attrs' & E1 & R1 & R2).
    exists (Message id (Some (Pattern els')) attrs' None). split; [exact E1|].
    cbn [rel_entry]. split; [reflexivity | split; [exact R1 | split; [exact R2 | reflexivity]]].
  - apply andb_prop in He as [He Hattrs]. apply andb_prop in He as [Hid _].
    destruct (wf_identifier_head id Hid) as (b & r & Eid & Hb).
    assert (Hb0 : at_ bs p (b :: r ++ (sp k ++ 61%N :: A) ++ T)).
    { rewrite Eid in H. rewrite <- app_assoc in H. exact H. }
    rewrite (at_byte _ _ _ _ Hb0).
    replace (N.eqb b 35) with false by (unfold is_ascii_alphabetic, in_rng in Hb; lia).
    replace (N.eqb b 45) with false by (unfold is_ascii_alphabetic, in_rng in Hb; lia).
    destruct (g_get_message_novalue id attrs k A T used c next p n p Hid Hattrs Hne HA HT H Hn) as (attrs' & E1 & R2).
    exists (Message id None attrs' None). split; [exact E1|].
    cbn [rel_entry]. split; [reflexivity | split; [exact R2 | reflexivity]].
  - apply andb_prop in He as [He Hattrs]. apply andb_prop in He as [Hid Hv].
    assert (Hb0 : at_ bs p (45%N :: (id ++ sp k ++ 61%N :: V ++ A) ++ T)) by exact H.
    rewrite (at_byte _ _ _ _ Hb0). change (N.eqb 45 35) with false. change (N.eqb 45 45) with true. cbv iota.
    destruct (g_get_term id els attrs k V A T used c next p n p Hid Hv Hattrs HV HA HT H Hn) as (els' & attrs' & E1 & R1 & R2).
    exists (Term id (Pattern els') attrs' None). split; [exact E1|].
    cbn [rel_entry]. split; [reflexivity | split; [exact R1 | split; [exact R2 | reflexivity]]].
Qed.

(* one entry of the fragment and the blank lines after it *)
Lemma g_entry_step e E T used c S' p n :
  g_plain_entry e = true -> gplain_layout e E -> entry_tail T used c S' -> follows_ok e c S' -> (T = [] -> eof_ok e) ->
  at_ bs p (E ++ T) -> 3 * length (E ++ T) + 2 * c + 14 <= n ->
  exists e' p1 cnt, get_entry bs n p p = Ok e' p1 /\ rel_entry e' e /\
                 skip_blank_block bs p1 = Ok cnt (used + (length E + p)) /\
                 (1 <= c -> is_comment_entry e = true -> cnt = S c) /\ cnt <= S c.
Proof.
  intros He HE HT Hf Heof H Hn.
  destruct (is_comment_entry e) eqn:Hce.
  - assert (Hgen : forall P lvl ls C (mk : comment -> entry),
               comment_layout P ls C -> prefix_level P lvl -> E = C ->
               wide_comment (Comment ls) = true -> (last ls [] = [] -> T <> []) -> next_after_comment lvl c S' -> length ls + 1 <= n ->
               (forall cm, match lvl with
                           | LRegular => @ret entry (CommentEntry cm) | LGroup => ret (GroupComment cm)
                           | LResource => ret (ResourceComment cm) | LNone => panic "unreachable" end = ret (mk cm)) ->
               exists p1 cnt, get_entry bs n p p = Ok (mk (Comment ls)) p1 /\
                              skip_blank_block bs p1 = Ok cnt (used + (length E + p)) /\ (1 <= c -> true = true -> cnt = S c) /\ cnt <= S c).
    { intros P lvl ls C mk HC HP -> Hsc Hlast Hnx Hfuel Hmk.
      destruct (wide_comment_spec ls Hsc) as [_ Hs].
      destruct (comment_entry_step bs P lvl ls C T used c S' p n HC HP Hs Hlast HT Hnx H Hfuel) as (p1 & cnt & E1 & E2 & E3 & E4).
      exists p1, cnt. split; [|split; [exact E2 | split; [intros Hc _; apply E3, Hc | exact E4]]].
      unfold get_entry. rewrite bind_current_byte.
      assert (Hb : byte_at bs p = Some 35%N).
      { destruct (comment_layout_head P ls C HC) as [t [-> _]].
        destruct HP as [[-> _] | [[-> _] | [-> _]]]; cbn [app] in H; apply (at_byte _ _ _ _ H). }
      rewrite Hb. change (N.eqb 35 35) with true. cbv iota. unfold get_comment. step E1. cbv beta iota.
      rewrite Hmk. reflexivity. }
    rewrite app_length in Hn.
    destruct HE as [ls C HC | ls C HC | ls C HC | | | ]; try discriminate Hce; cbn [g_plain_entry follows_ok nlines content] in *;
      pose proof (comment_layout_length _ ls C HC ltac:(discriminate)) as HlsC.
    + destruct (Hgen [35%N] LRegular ls C CommentEntry HC) as (p1 & cnt & X1 & X2 & X3 & X4); auto; [left; auto | intros E0 ET; apply (Heof ET E0) | lia|].
      exists (CommentEntry (Comment ls)), p1, cnt. repeat split; auto.
    + destruct (Hgen [35; 35]%N LGroup ls C GroupComment HC) as (p1 & cnt & X1 & X2 & X3 & X4); auto; [right; left; auto | intros E0 ET; apply (Heof ET E0) | lia|].
      exists (GroupComment (Comment ls)), p1, cnt. repeat split; auto.
    + destruct (Hgen [35; 35; 35]%N LResource ls C ResourceComment HC) as (p1 & cnt & X1 & X2 & X3 & X4); auto; [right; right; auto | intros E0 ET; apply (Heof ET E0) | lia|].
      exists (ResourceComment (Comment ls)), p1, cnt. repeat split; auto.
  - destruct (g_get_entry e E T used c S' p n He Hce HE HT H Hn) as (e' & E1 & R1).
    exists e', (used + (length E + p)), 0. split; [exact E1 | split; [exact R1 | split; [|split; [discriminate | lia]]]].
    destruct (entry_tail_next bs T used c S' HT) as [Hnext Hat].
    apply (skip_blank_block_none bs _ S' (Hat _ (at_app _ _ _ _ H)) (entry_start_no_blank_line _ Hnext)).
Qed.

(* one turn of the main loop on a printed entry without attached comment *)
Lemma g_parse_loop_turn e E T used c S' p n body pending cnt :
  g_plain_entry e = true -> gplain_layout e E -> entry_tail T used c S' -> follows_ok e c S' -> (T = [] -> eof_ok e) ->
  at_ bs p (E ++ T) -> 3 * length (E ++ T) + 2 * c + 14 <= n ->
  exists e' cnt', rel_entry e' e /\
    parse_loop bs (S n) body [] pending cnt p =
    parse_loop bs n (fst (turn pending cnt e' body)) [] (snd (turn pending cnt e' body)) cnt' (used + (length E + p)) /\
    (1 <= c -> is_comment_entry e = true -> cnt' = S c) /\ cnt' <= S c.
Proof.
  intros He HE HET Hfol Heof H Hc.
  cbn [parse_loop]. rewrite bind_get_ptr.
  destruct (gentry_layout_length e E HE) as [HE1 HE2].
  assert (Hlt : Nat.ltb p (length_ bs) = true).
  { destruct (gentry_layout_start e E He HE T) as [E0 | (b & t & E0 & _)].
    - exfalso. apply (f_equal (@length N)) in E0. rewrite app_length in E0. cbn [length] in E0. lia.
    - rewrite E0 in H. apply (at_ltb _ _ _ _ H). }
  rewrite Hlt. cbn [negb].
  destruct (g_entry_step e E T used c S' p n He HE HET Hfol Heof H Hc) as (e' & p1 & cnt' & Hge & Hrel & Hsb & Hcnt & Hle).
  rewrite (bind_ok _ _ _ _ _ (try_ok _ _ _ _ Hge)).
  exists e', cnt'. split; [exact Hrel|]. split; [|split; assumption].
  unfold turn. destruct pending as [c0|].
  - destruct (Nat.ltb cnt 2) eqn:Elt;
      destruct e' as [? ? ? ?|? ? ? ?| | | |]; cbn [is_message_or_term andb attach fst snd]; cbv beta iota; rewrite bind_ret;
      try (step Hsb; reflexivity); exfalso; destruct HE; exact Hrel.
  - destruct e' as [? ? ? ?|? ? ? ?| | | |]; cbn [fst snd]; cbv beta iota; rewrite bind_ret;
      try (step Hsb; reflexivity); exfalso; destruct HE; exact Hrel.
Qed.

Lemma turn_noattach pending cnt e body r :
  (forall c0, pending = Some c0 -> is_message_or_term e && Nat.ltb cnt 2 = false) ->
  rev (fst (turn pending cnt e body)) ++ pending_list (snd (turn pending cnt e body)) ++ r =
  rev body ++ pending_list pending ++ e :: r.
Proof.
  intros Hno. unfold turn. destruct pending as [c0|]; [rewrite (Hno c0 eq_refl)|];
    destruct e; cbn [fst snd pending_list rev app]; rewrite <- ?app_assoc; reflexivity.
Qed.

Lemma turn_snd_rel pending cnt e' e body body' :
  rel_entry e' e -> snd (turn pending cnt e' body) = snd (turn pending cnt e body').
Proof.
  intros Hrel. unfold turn. rewrite (rel_entry_mt e' e Hrel).
  destruct pending as [c0|]; [destruct (is_message_or_term e && Nat.ltb cnt 2); [reflexivity|]|];
    destruct e' as [? [?|] ? ?|? ? ? ?| | | |], e as [? [?|] ? ?|? ? ? ?| | | |]; cbn in Hrel; try contradiction;
    cbn [snd]; try reflexivity; subst; reflexivity.
Qed.

(* finding D7: the last entry is a stand-alone comment, followed by a line end and its bare prefix at the end
   of the input: the parser returns the comment, without an additional empty line *)
Lemma g_parse_loop_turn_d7 e E x P p n body pending cnt :
  g_plain_entry e = true -> gplain_layout e E -> d7_prefix e P -> is_eol_bytes x ->
  at_ bs p (E ++ x ++ P) -> nlines e + 3 <= n ->
  parse_loop bs (S n) body [] pending cnt p =
  parse_loop bs n (fst (turn pending cnt e body)) [] (snd (turn pending cnt e body)) 0 (length (E ++ x ++ P) + p).
Proof.
  intros He HE HP Hx H Hn.
  assert (Hgen : forall P0 lvl ls C (mk : comment -> entry),
             comment_layout P0 ls C -> prefix_level P0 lvl -> E = C -> P = P0 -> e = mk (Comment ls) ->
             wide_comment (Comment ls) = true -> length ls + 1 <= n ->
             (forall cm, match lvl with
                         | LRegular => @ret entry (CommentEntry cm) | LGroup => ret (GroupComment cm)
                         | LResource => ret (ResourceComment cm) | LNone => panic "unreachable" end = ret (mk cm)) ->
             get_entry bs n p p = Ok e (length (E ++ x ++ P) + p)).
  { intros P0 lvl ls C mk HC HP0 -> -> -> Hsc Hfuel Hmk.
    destruct (wide_comment_spec ls Hsc) as [_ Hs].
    unfold get_entry. rewrite bind_current_byte.
    assert (Hb : byte_at bs p = Some 35%N).
    { destruct (comment_layout_head P0 ls C HC) as [t [-> _]].
      destruct HP0 as [[-> _] | [[-> _] | [-> _]]]; cbn [app] in H; apply (at_byte _ _ _ _ H). }
    rewrite Hb. change (N.eqb 35 35) with true. cbv iota. unfold get_comment.
    step (comment_entry_step_d7 bs P0 lvl ls C x p n HC HP0 Hs Hx H Hfuel).
    cbv beta iota. rewrite Hmk. reflexivity. }
  assert (Hge : get_entry bs n p p = Ok e (length (E ++ x ++ P) + p)).
  { destruct HE as [ls C HC | ls C HC | ls C HC | | | ]; cbn [d7_prefix] in HP; try contradiction; cbn [g_plain_entry] in He.
    - apply (Hgen [35%N] LRegular ls C CommentEntry HC); auto; [left; auto | cbn [nlines content] in Hn; lia].
    - apply (Hgen [35; 35]%N LGroup ls C GroupComment HC); auto; [right; left; auto | cbn [nlines content] in Hn; lia].
    - apply (Hgen [35; 35; 35]%N LResource ls C ResourceComment HC); auto; [right; right; auto | cbn [nlines content] in Hn; lia]. }
  cbn [parse_loop]. rewrite bind_get_ptr.
  destruct (gentry_layout_length e E HE) as [HE1 HE2].
  assert (Hlt : Nat.ltb p (length_ bs) = true).
  { destruct (gentry_layout_start e E He HE (x ++ P)) as [E0 | (b & t & E0 & _)].
    - exfalso. apply (f_equal (@length N)) in E0. rewrite app_length in E0. cbn [length] in E0. lia.
    - rewrite E0 in H. apply (at_ltb _ _ _ _ H). }
  rewrite Hlt. cbn [negb].
  rewrite (bind_ok _ _ _ _ _ (try_ok _ _ _ _ Hge)).
  assert (Hend : at_ bs (length (E ++ x ++ P) + p) []).
  { replace (E ++ x ++ P) with ((E ++ x ++ P) ++ []) in H by apply app_nil_r. apply (at_app _ _ _ _ H). }
  pose proof (skip_blank_block_none bs _ [] Hend no_blank_line_head_nil) as Hsb.
  unfold turn. destruct pending as [c0|].
  - destruct (Nat.ltb cnt 2) eqn:Elt;
      destruct e as [? ? ? ?|? ? ? ?| | | |]; cbn [d7_prefix] in HP; try contradiction;
      cbn [is_message_or_term andb attach fst snd]; cbv beta iota; rewrite bind_ret; step Hsb; reflexivity.
  - destruct e as [? ? ? ?|? ? ? ?| | | |]; cbn [d7_prefix] in HP; try contradiction;
      cbn [fst snd]; cbv beta iota; rewrite bind_ret; step Hsb; reflexivity.
Qed.

Lemma rel_entry_comment_refl e P : d7_prefix e P -> rel_entry e e.
Proof. destruct e; cbn [d7_prefix rel_entry]; intros H; try contradiction; reflexivity. Qed.

(* the main loop over the printed entries *)
Lemma g_parse_loop_entries t : forall S, gentries_layout t S -> g_resource t = true ->
  forall p body pending cnt n, at_ bs p S -> pending_ok pending cnt t -> 8 * length S + 16 <= n ->
  exists t', parse_loop bs n body [] pending cnt p = Ok (rev body ++ pending_list pending ++ t', []) (length S + p) /\
             Forall2 rel_entry t' t.
Proof.
  induction t as [|e r IH]; intros S HS Ht p body pending cnt n H Hpend Hn.
  - inversion HS; subst. destruct n as [|n]; [lia|]. exists []. split; [|constructor].
    cbn [parse_loop]. rewrite bind_get_ptr.
    rewrite (at_ltb_nil _ _ H). cbn [negb].
    destruct pending; cbn [pending_list rev app]; rewrite ?app_nil_r; reflexivity.
  - inversion HS as [|e' r' E T HE HT]; subst. clear HS.
    cbn [g_resource forallb] in Ht. apply andb_prop in Ht as [He Hr].
    destruct (gtail_layout_entry_tail e r T Hr HT) as [(used & c & S' & HET & HS' & HlenT & Hfol & Hmin) | (-> & x & P & -> & HP & Hx)].
    2:{ (* finding D7 *)
      destruct HE as [e E Hcm HE | e0 ls C x0 E0 Hmt Hcm HC Hx0 HE0];
        [|destruct e0; try discriminate Hmt; cbn [attach d7_prefix] in HP; contradiction].
      assert (Hp : g_plain_entry e = true).
      { unfold g_entry in He. rewrite (strip_comment_none e Hcm) in He. apply andb_prop in He as [He _]. exact He. }
      destruct (gentry_layout_length e E HE) as [HE1 HE2].
      destruct n as [|n]; [lia|]. rewrite app_length in Hn.
      rewrite (g_parse_loop_turn_d7 e E x P p n body pending cnt Hp HE HP Hx H ltac:(lia)).
      assert (Hend : at_ bs (length (E ++ x ++ P) + p) []).
      { replace (E ++ x ++ P) with ((E ++ x ++ P) ++ []) in H by apply app_nil_r. apply (at_app _ _ _ _ H). }
      assert (Hpo : pending_ok (snd (turn pending cnt e body)) 0 []) by (destruct (snd (turn pending cnt e body)); exact Logic.I).
      destruct (IH [] (gesl_nil) eq_refl _ (fst (turn pending cnt e body)) (snd (turn pending cnt e body)) 0 n Hend Hpo
                  ltac:(cbn [length]; lia)) as (t' & Eloop & Hrels).
      inversion Hrels; subst. exists [e]. split; [|constructor; [apply (rel_entry_comment_refl e P HP) | constructor]].
      rewrite Eloop. cbn [length Nat.add]. rewrite app_nil_r. f_equal. f_equal.
      rewrite <- (app_nil_r (pending_list (snd (turn pending cnt e body)))).
      apply turn_noattach. intros c0 _. destruct e; cbn [d7_prefix] in HP; try contradiction; reflexivity. }
    destruct (entry_tail_blank_bound T used c S' HET) as [HcT _].
    destruct (entry_tail_next bs T used c S' HET) as [Hnext Hat].
    pose proof (gany_layout_length e E HE) as HE1.
    destruct n as [|n]; [lia|].
    rewrite app_length in Hn.
    destruct HE as [e E Hcm HE | e0 ls C x E0 Hmt Hcm HC Hx HE0].
    + (* an entry without attached comment: one turn *)
      assert (Hp : g_plain_entry e = true).
      { unfold g_entry in He. rewrite (strip_comment_none e Hcm) in He. apply andb_prop in He as [He _]. exact He. }
      destruct (g_parse_loop_turn e E T used c S' p n body pending cnt Hp HE HET Hfol (gtail_layout_eof e r T HT) H
                  ltac:(rewrite app_length; nlia)) as (e' & cnt' & Hrel & Eturn & Hcnt & Hle).
      rewrite Eturn.
      pose proof (Hat _ (at_app _ _ _ _ H)) as H1.
      destruct (IH S' HS' Hr _ (fst (turn pending cnt e' body)) (snd (turn pending cnt e' body)) cnt' n H1) as (t' & Eloop & Hrels);
        [| nlia |].
      * (* the new pending comment and the next entry *)
        rewrite (turn_snd_rel pending cnt e' e body body Hrel).
        unfold turn.
        assert (Hsnd : forall c1, e = CommentEntry c1 -> pending_ok (Some c1) cnt' r).
        { intros c1 ->. destruct r as [|e2 r2]; [exact Logic.I|]. intros Hmt2 Hc2.
          unfold min_blank_between in Hmin. cbn [comment_level Nat.eqb] in Hmin. rewrite Hmt2 in Hmin. cbn [andb] in Hmin.
          rewrite (Hcnt Hmin eq_refl). lia. }
        destruct pending as [c0|]; [destruct (is_message_or_term e && Nat.ltb cnt 2)|];
          destruct e; cbn [snd]; try exact Logic.I; try (destruct r; exact Logic.I); apply Hsnd; reflexivity.
      * exists (e' :: t'). split; [|constructor; assumption].
        rewrite Eloop. f_equal; [|rewrite app_length; nlia]. f_equal.
        apply turn_noattach. intros c0 ->. rewrite (rel_entry_mt e' e Hrel).
        destruct (is_message_or_term e) eqn:Emt; [|reflexivity].
        cbn [andb]. apply Nat.ltb_ge. apply (Hpend Emt Hcm).
    + (* a message or term with its comment: the comment's turn, then the entry's turn attaches it *)
      assert (He0 : g_plain_entry e0 = true /\ wide_comment (Comment ls) = true).
      { destruct e0 as [id v a cm|id v a cm| | | |]; try discriminate Hmt; cbn [entry_comment] in Hcm; subst cm;
          unfold g_entry in He; cbn [attach strip_comment entry_comment] in He; apply andb_prop in He; exact He. }
      destruct He0 as [Hp0 Hsc].
      destruct (gentry_layout_length e0 E0 HE0) as [HE01 _].
      rewrite !app_length in Hn, HE1.
      (* first turn: the comment *)
      assert (HET1 : entry_tail (x ++ [] ++ (E0 ++ T)) (length x + length (@nil N)) 0 (E0 ++ T)).
      { constructor; [exact Hx | constructor | apply (gentry_layout_start e0 E0 Hp0 HE0 T)]. }
      assert (Hfol1 : follows_ok (CommentEntry (Comment ls)) 0 (E0 ++ T)).
      { cbn [follows_ok]. intros _. right.
        destruct (gplain_layout_after_comment LRegular e0 E0 T Hp0 HE0 (gtail_layout_line_end _ _ _ HT)) as [Hl | Hr'].
        - destruct e0; try discriminate Hmt; discriminate.
        - left. exact Hl.
        - right. exact Hr'. }
      assert (H' : at_ bs p (C ++ x ++ [] ++ E0 ++ T)) by (rewrite <- !app_assoc in H; exact H).
      assert (Hpc : g_plain_entry (CommentEntry (Comment ls)) = true) by exact Hsc.
      destruct (g_parse_loop_turn (CommentEntry (Comment ls)) C (x ++ [] ++ (E0 ++ T)) _ 0 (E0 ++ T) p n body pending cnt
                  Hpc (gel_comment ls C HC) HET1 Hfol1 ltac:(intros Enil; destruct Hx as [-> | ->]; discriminate Enil) H'
                  ltac:(rewrite !app_length; cbn [length]; nlia))
        as (ec & cnt1 & Hrelc & Eturn1 & _ & Hle1).
      rewrite (rel_entry_is_comment _ _ Hrelc eq_refl) in Eturn1. clear ec Hrelc.
      rewrite Eturn1.
      assert (Et1 : turn pending cnt (CommentEntry (Comment ls)) body = (pending_list pending ++ body, Some (Comment ls))).
      { unfold turn. destruct pending; reflexivity. }
      rewrite Et1. cbn [fst snd].
      (* second turn: the entry *)
      destruct n as [|n]; [lia|].
      assert (H2 : at_ bs (length x + length (@nil N) + (length C + p)) (E0 ++ T)).
      { apply at_app in H'. apply at_app in H'. cbn [app length] in *.
        replace (length x + 0 + (length C + p)) with (length x + (length C + p)) by lia. exact H'. }
      assert (Hfol0 : follows_ok e0 c S') by (destruct e0; try discriminate Hmt; exact Logic.I).
      destruct (g_parse_loop_turn e0 E0 T used c S' _ n (pending_list pending ++ body) (Some (Comment ls)) cnt1
                  Hp0 HE0 HET Hfol0 ltac:(intros _; destruct e0; try discriminate Hmt; exact Logic.I) H2
                  ltac:(rewrite app_length; nlia)) as (e0' & cnt2 & Hrel0 & Eturn2 & _ & _).
      rewrite Eturn2.
      assert (Et2 : turn (Some (Comment ls)) cnt1 e0' (pending_list pending ++ body) =
                    (attach e0' (Comment ls) :: pending_list pending ++ body, None)).
      { unfold turn. rewrite (rel_entry_mt _ _ Hrel0), Hmt.
        replace (Nat.ltb cnt1 2) with true by (symmetry; apply Nat.ltb_lt; lia). reflexivity. }
      rewrite Et2. cbn [fst snd].
      pose proof (Hat _ (at_app _ _ _ _ H2)) as H3.
      destruct (IH S' HS' Hr _ (attach e0' (Comment ls) :: pending_list pending ++ body) None cnt2 n H3 Logic.I ltac:(nlia))
        as (t' & Eloop & Hrels).
      exists (attach e0' (Comment ls) :: t'). split; [|constructor; [apply rel_entry_attach; assumption | exact Hrels]].
      rewrite Eloop.
      f_equal; [|cbn [length]; rewrite !app_length; nlia]. f_equal.
      cbn [rev pending_list app]. rewrite rev_app_distr.
      destruct pending; cbn [pending_list rev app]; rewrite <- ?app_assoc; reflexivity.
Qed.

End Parse.

(* ---------------------------------------------------------------------------------------------- *)
Lemma g_parse_layout t bs :
  (forall els V T used c nx p n,
      pok els = true -> vlay els V -> after_value T used c nx -> at_ bs p (V ++ T) ->
      3 * length (V ++ T) + 12 <= n ->
      exists els', get_pattern bs n p = Ok (Some (Pattern els')) (used + (length V + p)) /\ rel els' els) ->
  (forall els V, pok els = true -> vlay els V ->
      exists k V0, V = sp k ++ V0 /\ vlay els (sp 0 ++ V0) /\ forall T, head_not is_space (V0 ++ T)) ->
  g_resource t = true -> gresource_layout t bs ->
  exists t', parse bs = Done (t', []) /\ Forall2 rel_entry t' t.
Proof.
  intros Hpat Hstr Ht HL. destruct HL as [c BL t' S HBL HS]. unfold parse, parse_m.
  pose proof (at_0 (BL ++ S)) as H0.
  rewrite (bind_ok _ _ _ _ _ (skip_blank_block_lines (BL ++ S) 0 c BL S H0 HBL
                                (entry_start_no_blank_line _ (gentries_layout_start t' S Ht HS)))).
  pose proof (at_app _ _ _ _ H0) as H1.
  destruct (g_parse_loop_entries (BL ++ S) Hpat Hstr t' S HS Ht _ [] None 0 (fuel_for (BL ++ S)) H1 Logic.I) as (t2 & E & Hrel).
  - unfold fuel_for. rewrite app_length. lia.
  - exists t2. split; [|exact Hrel]. rewrite E. reflexivity.
Qed.

(* ---------------------------------------------------------------------------------------------- *)
(* the printer                                                                                      *)
Section RenderG.
Hypothesis Hrender : forall ind els cs, pok els = true -> 1 <= ind ->
  exists V cs', render_value ind (Pattern els) cs = (V, cs') /\ vlay els V.

Lemma g_render_attributes_layout attrs : forall cs, forallb g_attribute attrs = true ->
  exists A cs', render_attributes attrs cs = (A, cs') /\ gattrs_layout attrs A.
Proof.
  induction attrs as [|a r IH]; intros cs Ha.
  - exists [], cs. split; [reflexivity | constructor].
  - cbn [forallb] in Ha. apply andb_prop in Ha as [Ha Hr].
    destruct a as [aid [els]]. unfold g_attribute in Ha. cbn [attr_id attr_value g_pattern] in Ha. apply andb_prop in Ha as [Hid Hv].
    cbn [render_attributes]. unfold render_attribute. cbn [attr_id attr_value].
    rewrite (rbind_eq _ _ cs
               (let '(x, cs1) := eol cs in let '(k, cs2) := choose 3 cs1 in
                let '(b1, cs3) := blank_inline_opt cs2 in let '(V, cs4) := render_value 8 (Pattern els) cs3 in
                cat [x; sp (S k); [46%N]; aid; b1; [61%N]; V])
               (let '(x, cs1) := eol cs in let '(k, cs2) := choose 3 cs1 in
                let '(b1, cs3) := blank_inline_opt cs2 in let '(V, cs4) := render_value 8 (Pattern els) cs3 in
                cs4)).
    2:{ unfold rbind. destruct (eol cs) as [x cs1]. destruct (choose 3 cs1) as [k cs2].
        destruct (blank_inline_opt cs2) as [b1 cs3]. destruct (render_value 8 (Pattern els) cs3) as [V cs4].
        reflexivity. }
    destruct (eol_spec' cs) as [x [cs1 [E1 Hx]]]. rewrite E1.
    destruct (choose 3 cs1) as [k cs2].
    destruct (blank_inline_opt_spec cs2) as [k1 [cs3 E3]]. rewrite E3.
    destruct (Hrender 8 els cs3 Hv ltac:(lia)) as [V [cs4 [E4 HV]]]. rewrite E4.
    destruct (IH cs4 Hr) as [A [cs5 [E5 HA]]]. rewrite (rbind_eq _ _ _ _ _ E5).
    eexists. exists cs5. split; [reflexivity|].
    constructor; [|exact HA].
    unfold cat. cbn [concat app]. rewrite app_nil_r.
    replace (x ++ sp (S k) ++ 46%N :: aid ++ sp k1 ++ 61%N :: V)
      with (x ++ sp (S k) ++ 46%N :: aid ++ sp k1 ++ 61%N :: V) by reflexivity.
    apply (gatl aid els x k k1 V Hx HV).
Qed.

Lemma g_render_plain_layout e cs : g_plain_entry e = true ->
  exists E cs', render_entry e cs = (E, cs') /\ gplain_layout e E.
Proof.
  intros He. destruct e as [id [p|] attrs [|]|id p attrs [|]|[ls]|[ls]|[ls]|]; try discriminate.
  - cbn [g_plain_entry] in He. apply andb_prop in He as [He Hattrs]. apply andb_prop in He as [_ Hp].
    destruct p as [els]. pose proof Hp as Hv. cbn [g_pattern] in Hv.
    cbn [render_entry render_opt_comment]. rewrite rbind_rret.
    destruct (blank_inline_opt_spec cs) as [k [cs1 E1]]. rewrite (rbind_eq _ _ _ _ _ E1).
    destruct (Hrender 4 els cs1 Hv ltac:(lia)) as [V [cs2 [E2 HV]]].
    rewrite (rbind_eq _ _ _ _ _ E2).
    destruct (g_render_attributes_layout attrs cs2 Hattrs) as [A [cs3 [E3 HA]]]. rewrite (rbind_eq _ _ _ _ _ E3).
    eexists. exists cs3. split; [reflexivity|].
    unfold cat. cbn [concat app]. rewrite !app_nil_r. apply gel_message; assumption.
  - cbn [g_plain_entry] in He. apply andb_prop in He as [He Hattrs]. apply andb_prop in He as [_ Hne].
    cbn [render_entry render_opt_comment]. rewrite rbind_rret.
    destruct (blank_inline_opt_spec cs) as [k [cs1 E1]]. rewrite (rbind_eq _ _ _ _ _ E1). rewrite rbind_rret.
    destruct (g_render_attributes_layout attrs cs1 Hattrs) as [A [cs3 [E3 HA]]]. rewrite (rbind_eq _ _ _ _ _ E3).
    eexists. exists cs3. split; [reflexivity|].
    unfold cat. cbn [concat app]. rewrite !app_nil_r. apply gel_message_novalue; [|exact HA].
    destruct attrs; [discriminate Hne | discriminate].
  - cbn [g_plain_entry] in He. apply andb_prop in He as [He Hattrs]. apply andb_prop in He as [_ Hp].
    destruct p as [els]. pose proof Hp as Hv. cbn [g_pattern] in Hv.
    cbn [render_entry render_opt_comment]. rewrite rbind_rret.
    destruct (blank_inline_opt_spec cs) as [k [cs1 E1]]. rewrite (rbind_eq _ _ _ _ _ E1).
    destruct (Hrender 4 els cs1 Hv ltac:(lia)) as [V [cs2 [E2 HV]]].
    rewrite (rbind_eq _ _ _ _ _ E2).
    destruct (g_render_attributes_layout attrs cs2 Hattrs) as [A [cs3 [E3 HA]]]. rewrite (rbind_eq _ _ _ _ _ E3).
    eexists. exists cs3. split; [reflexivity|].
    unfold cat. cbn [concat app]. rewrite !app_nil_r. apply gel_term; assumption.
  - cbn [g_plain_entry] in He. apply wide_comment_ne in He. cbn [content] in He. cbn [render_entry content].
    destruct (render_comment_lines_layout [35%N] ls He cs) as [C [cs' [E HC]]].
    exists C, cs'. split; [exact E | constructor; exact HC].
  - cbn [g_plain_entry] in He. apply wide_comment_ne in He. cbn [content] in He. cbn [render_entry content].
    destruct (render_comment_lines_layout [35; 35]%N ls He cs) as [C [cs' [E HC]]].
    exists C, cs'. split; [exact E | constructor; exact HC].
  - cbn [g_plain_entry] in He. apply wide_comment_ne in He. cbn [content] in He. cbn [render_entry content].
    destruct (render_comment_lines_layout [35; 35; 35]%N ls He cs) as [C [cs' [E HC]]].
    exists C, cs'. split; [exact E | constructor; exact HC].
Qed.

Lemma g_entry_cases e : g_entry e = true ->
  (entry_comment e = None /\ g_plain_entry e = true) \/
  (exists e0 ls, e = attach e0 (Comment ls) /\ is_message_or_term e0 = true /\ entry_comment e0 = None /\
                 g_plain_entry e0 = true /\ wide_comment (Comment ls) = true).
Proof.
  unfold g_entry. intros H. apply andb_prop in H as [Hp Hc].
  destruct e as [id v attrs [[ls]|]|id v attrs [[ls]|]|c|c|c|j]; cbn [entry_comment strip_comment] in *;
    try (left; split; [reflexivity | exact Hp]).
  - right. exists (Message id v attrs None), ls. repeat split; assumption.
  - right. exists (Term id v attrs None), ls. repeat split; assumption.
Qed.

(* the text of an entry with an attached comment: the comment, a line end, the entry *)
Lemma g_render_entry_layout e cs : g_entry e = true ->
  exists E cs', render_entry e cs = (E, cs') /\ gentry_layout e E.
Proof.
  intros He. destruct (g_entry_cases e He) as [[Hc Hp] | (e0 & ls & -> & Hmt & Hc & Hp & Hcm)].
  - destruct (g_render_plain_layout e cs Hp) as [E [cs' [E1 HE]]]. exists E, cs'. split; [exact E1 | apply gel_plain; assumption].
  - rewrite (render_entry_attached e0 ls cs Hmt Hc).
    pose proof (wide_comment_ne _ Hcm) as Hne. cbn [content] in Hne.
    destruct (render_comment_lines_layout [35%N] ls Hne cs) as [C [cs1 [E1 HC]]]. rewrite E1.
    destruct (eol_spec' cs1) as [x [cs2 [E2 Hx]]]. rewrite E2.
    destruct (g_render_plain_layout e0 cs2 Hp) as [E [cs3 [E3 HE]]]. rewrite E3.
    exists ((C ++ x) ++ E), cs3. split; [reflexivity|]. rewrite <- app_assoc. apply gel_attached; assumption.
Qed.

Lemma g_render_entries_layout t : forall cs, g_resource t = true -> last_comment_ok t = true ->
  exists S cs', render_entries t cs = (S, cs') /\ gentries_layout t S.
Proof.
  induction t as [|e r IH]; intros cs Ht Hlast.
  - exists [], cs. split; [reflexivity | constructor].
  - cbn [g_resource forallb] in Ht. apply andb_prop in Ht as [He Hr].
    destruct (g_render_entry_layout e cs He) as [E [cs1 [E1 HE]]].
    destruct r as [|e2 r'].
    + cbn [render_entries]. rewrite (rbind_eq _ _ _ _ _ E1).
      unfold rbind at 1. destruct (choose 3 cs1) as [fin cs2].
      destruct fin as [|[|fin]].
      * exists E, cs2. split; [reflexivity|].
        replace E with (E ++ []) by apply app_nil_r. constructor; [exact HE | constructor].
        apply eof_okb_spec. exact Hlast.
      * destruct (eol_spec' cs2) as [x [cs3 [E3 Hx]]]. rewrite (rbind_eq _ _ _ _ _ E3).
        exists (E ++ x), cs3. split; [reflexivity|]. constructor; [exact HE|].
        replace x with (x ++ [] ++ []) by (rewrite !app_nil_r; reflexivity).
        apply (gtl_more e [] x 0 [] []); [exact Hx | constructor | constructor | exact Logic.I].
      * destruct (eol_spec' cs2) as [x [cs3 [E3 Hx]]]. rewrite (rbind_eq _ _ _ _ _ E3).
        destruct (blank_lines_spec 1 cs3) as [BL [cs4 [E4 HBL]]]. rewrite (rbind_eq _ _ _ _ _ E4).
        exists (E ++ x ++ BL), cs4. split; [reflexivity|]. constructor; [exact HE|].
        replace (x ++ BL) with (x ++ BL ++ []) by (rewrite !app_nil_r; reflexivity).
        apply (gtl_more e [] x 1 BL []); [exact Hx | exact HBL | constructor | exact Logic.I].
    + change (render_entries (e :: e2 :: r') cs) with
        ((s <~ render_entry e ;; x <~ eol ;; extra <~ choose 3 ;;
          b <~ blank_lines (min_blank_between e e2 + extra) ;;
          rest <~ render_entries (e2 :: r') ;; rret (cat [s; x; b; rest])) cs).
      rewrite (rbind_eq _ _ _ _ _ E1).
      destruct (eol_spec' cs1) as [x [cs2 [E2 Hx]]]. rewrite (rbind_eq _ _ _ _ _ E2).
      unfold rbind at 1. destruct (choose 3 cs2) as [extra cs3].
      destruct (blank_lines_spec (min_blank_between e e2 + extra) cs3) as [BL [cs4 [E4 HBL]]].
      rewrite (rbind_eq _ _ _ _ _ E4).
      destruct (IH cs4 Hr Hlast) as [S [cs5 [E5 HS]]]. rewrite (rbind_eq _ _ _ _ _ E5).
      eexists. exists cs5. split; [reflexivity|].
      unfold cat. cbn [concat]. rewrite app_nil_r. constructor; [exact HE|].
      apply (gtl_more e (e2 :: r') x (min_blank_between e e2 + extra) BL S); [exact Hx | exact HBL | exact HS | lia].
Qed.

Lemma g_render_layout t cs : g_resource t = true -> last_comment_ok t = true -> gresource_layout t (render cs t).
Proof.
  intros Ht Hlast. unfold render. unfold rbind at 1. destruct (choose 3 cs) as [n cs1].
  destruct (blank_lines_spec n cs1) as [BL [cs2 [E2 HBL]]]. rewrite (rbind_eq _ _ _ _ _ E2).
  destruct (g_render_entries_layout t cs2 Ht Hlast) as [S [cs3 [E3 HS]]]. rewrite (rbind_eq _ _ _ _ _ E3).
  cbn [fst rret]. unfold rret. cbn [fst]. econstructor; eassumption.
Qed.

(* ---------------------------------------------------------------------------------------------- *)
(* 3. The parser on a layout                                                                        *)
End RenderG.

(* ---------------------------------------------------------------------------------------------- *)
(* the fragment lies inside wf_resource when its patterns are well-formed values                    *)
Section WfG.
Hypothesis Hwf : forall els, pok els = true -> wf_value (Pattern els) = true.

Lemma g_pattern_wf p : g_pattern p = true -> wf_value p = true.
Proof. destruct p as [els]. apply Hwf. Qed.

Lemma g_attributes_wf attrs : forallb g_attribute attrs = true -> forallb wf_attribute attrs = true.
Proof.
  rewrite !forallb_forall. intros H a Ha. specialize (H a Ha). unfold g_attribute in H.
  apply andb_prop in H as [Hid Hp]. unfold wf_attribute. rewrite Hid, (g_pattern_wf _ Hp). reflexivity.
Qed.

Lemma g_plain_entry_wf e : g_plain_entry e = true -> wf_entry e = true.
Proof.
  destruct e as [id [p|] attrs [|]|id p attrs [|]|c|c|c|]; try discriminate; cbn [g_plain_entry wf_entry]; intros H.
  4-6: apply wide_comment_wf, H.
  all: apply andb_prop in H as [H Hattrs]; apply andb_prop in H as [Hid Hp];
    rewrite Hid, (g_attributes_wf attrs Hattrs), ?(g_pattern_wf _ Hp), ?Hp; reflexivity.
Qed.

Lemma g_entry_wf e : g_entry e = true -> wf_entry e = true.
Proof.
  intros He. destruct (g_entry_cases e He) as [[Hc Hp] | (e0 & ls & -> & Hmt & Hc & Hp & Hcm)];
    [apply g_plain_entry_wf, Hp|].
  pose proof (g_plain_entry_wf e0 Hp) as Hw. apply wide_comment_wf in Hcm.
  destruct e0 as [id v a cm|id v a cm| | | |]; try discriminate Hmt; cbn [entry_comment] in Hc; subst cm;
    cbn [attach wf_entry] in *; rewrite andb_true_r in Hw; rewrite Hw, Hcm; reflexivity.
Qed.

Theorem g_resource_wf t : g_resource t = true -> wf_resource t = true.
Proof.
  unfold g_resource, wf_resource. rewrite !forallb_forall. intros H e He. apply g_entry_wf, H, He.
Qed.
End WfG.

End Generic.

(* ---------------------------------------------------------------------------------------------- *)
(* the relation used for C02: the parser's elements join to the printed ones                        *)
Definition jrel (els' els : list pattern_element) : Prop := join_pattern (Pattern els') = Pattern els.

Lemma jrel_attrs a' a : Forall2 (rel_attr jrel) a' a -> map join_attribute a' = a.
Proof.
  induction 1 as [|x y l l' Hxy Hl IH]; [reflexivity|]. cbn [map]. rewrite IH. f_equal.
  destruct x as [id' [els']], y as [id [els]]. destruct Hxy as [Hid Hp]. cbn [attr_id attr_value] in *.
  unfold rel_pattern, jrel in Hp. cbn [pattern_elements] in Hp. unfold join_attribute. cbn [attr_id attr_value].
  rewrite Hp, Hid. reflexivity.
Qed.

Lemma jrel_entry e' e : rel_entry jrel e' e -> join_entry e' = e.
Proof.
  destruct e' as [id' [[els']|] a' c'|id' [els'] a' c'|c'|c'|c'|j'], e as [id [[els]|] a c|id [els] a c|c|c|c|j];
    cbn [rel_entry]; intros H; try contradiction; try (subst; reflexivity).
  - destruct H as (-> & Hp & Ha & ->). unfold rel_pattern, jrel in Hp. cbn [pattern_elements] in Hp.
    cbn [join_entry option_map]. rewrite Hp, (jrel_attrs a' a Ha). reflexivity.
  - destruct H as (-> & Ha & ->). cbn [join_entry option_map]. rewrite (jrel_attrs a' a Ha). reflexivity.
  - destruct H as (-> & Hp & Ha & ->). unfold rel_pattern, jrel in Hp. cbn [pattern_elements] in Hp.
    cbn [join_entry]. rewrite Hp, (jrel_attrs a' a Ha). reflexivity.
Qed.

Lemma jrel_entries t' t : Forall2 (rel_entry jrel) t' t -> map join_entry t' = t.
Proof. induction 1 as [|x y l l' Hxy Hl IH]; [reflexivity|]. cbn [map]. rewrite IH, (jrel_entry x y Hxy). reflexivity. Qed.

(* rel_entry is monotone in the relation *)
Lemma rel_attrs_mono (r1 r2 : list pattern_element -> list pattern_element -> Prop) a' a :
  (forall x y, r1 x y -> r2 x y) -> Forall2 (rel_attr r1) a' a -> Forall2 (rel_attr r2) a' a.
Proof.
  intros Hm H. induction H as [|x y l l' Hxy Hl IH]; constructor; [|exact IH].
  destruct Hxy as [H1 H2]. split; [exact H1 | apply Hm, H2].
Qed.
Lemma rel_entry_mono (r1 r2 : list pattern_element -> list pattern_element -> Prop) e' e :
  (forall x y, r1 x y -> r2 x y) -> rel_entry r1 e' e -> rel_entry r2 e' e.
Proof.
  intros Hm. destruct e' as [id' [p'|] a' c'|id' p' a' c'|c'|c'|c'|j'], e as [id [p|] a c|id p a c|c|c|c|j];
    cbn [rel_entry]; intros H; try contradiction; try exact H.
  - destruct H as (H1 & H2 & H3 & H4). repeat split; try assumption; [apply Hm, H2 | apply (rel_attrs_mono r1 r2 _ _ Hm H3)].
  - destruct H as (H1 & H3 & H4). repeat split; try assumption. apply (rel_attrs_mono r1 r2 _ _ Hm H3).
  - destruct H as (H1 & H2 & H3 & H4). repeat split; try assumption; [apply Hm, H2 | apply (rel_attrs_mono r1 r2 _ _ Hm H3)].
Qed.
Lemma rel_entries_mono (r1 r2 : list pattern_element -> list pattern_element -> Prop) t' t :
  (forall x y, r1 x y -> r2 x y) -> Forall2 (rel_entry r1) t' t -> Forall2 (rel_entry r2) t' t.
Proof. intros Hm H. induction H; constructor; [apply (rel_entry_mono r1 r2 _ _ Hm); assumption | assumption]. Qed.

(* C02 for a class of patterns, from its three facts *)
Theorem g_parse_render_rel pok vlay rel cs t :
  (forall ind els cs, pok els = true -> 1 <= ind ->
     exists V cs', render_value ind (Pattern els) cs = (V, cs') /\ vlay els V) ->
  (forall bs els V T used c nx p n,
      pok els = true -> vlay els V -> after_value T used c nx -> at_ bs p (V ++ T) ->
      3 * length (V ++ T) + 12 <= n ->
      exists els', get_pattern bs n p = Ok (Some (Pattern els')) (used + (length V + p)) /\ rel els' els) ->
  (forall els V, pok els = true -> vlay els V ->
      exists k V0, V = sp k ++ V0 /\ vlay els (sp 0 ++ V0) /\ forall T, head_not is_space (V0 ++ T)) ->
  g_resource pok t = true -> last_comment_ok t = true ->
  exists t', parse (render cs t) = Done (t', []) /\ Forall2 (rel_entry rel) t' t.
Proof.
  intros Hrender Hpat Hstrip Ht Hlast.
  apply (g_parse_layout pok vlay rel t (render cs t) (Hpat (render cs t)) Hstrip Ht
           (g_render_layout pok vlay rel Hrender t cs Ht Hlast)).
Qed.

Theorem g_parse_render pok vlay cs t :
  (forall ind els cs, pok els = true -> 1 <= ind ->
     exists V cs', render_value ind (Pattern els) cs = (V, cs') /\ vlay els V) ->
  (forall bs els V T used c nx p n,
      pok els = true -> vlay els V -> after_value T used c nx -> at_ bs p (V ++ T) ->
      3 * length (V ++ T) + 12 <= n ->
      exists els', get_pattern bs n p = Ok (Some (Pattern els')) (used + (length V + p)) /\ jrel els' els) ->
  (forall els V, pok els = true -> vlay els V ->
      exists k V0, V = sp k ++ V0 /\ vlay els (sp 0 ++ V0) /\ forall T, head_not is_space (V0 ++ T)) ->
  g_resource pok t = true -> last_comment_ok t = true ->
  exists t', parse (render cs t) = Done (t', []) /\ map join_entry t' = t.
Proof.
  intros Hrender Hpat Hstrip Ht Hlast.
  destruct (g_parse_render_rel pok vlay jrel cs t Hrender Hpat Hstrip Ht Hlast) as (t' & E & Hrel).
  exists t'. split; [exact E | apply jrel_entries, Hrel].
Qed.

(* the fragment grows with the class of patterns; it has no Junk *)
Lemma g_resource_mono (pok1 pok2 : list pattern_element -> bool) t :
  (forall els, pok1 els = true -> pok2 els = true) -> g_resource pok1 t = true -> g_resource pok2 t = true.
Proof.
  intros Hm.
  assert (Hp : forall p, g_pattern pok1 p = true -> g_pattern pok2 p = true) by (intros [els]; apply Hm).
  assert (Ha : forall attrs, forallb (g_attribute pok1) attrs = true -> forallb (g_attribute pok2) attrs = true).
  { intros attrs. rewrite !forallb_forall. intros H a Hin. specialize (H a Hin). unfold g_attribute in *.
    apply andb_prop in H as [H1 H2]. rewrite H1, (Hp _ H2). reflexivity. }
  assert (Hpe : forall e, g_plain_entry pok1 e = true -> g_plain_entry pok2 e = true).
  { intros e. destruct e as [id [p|] attrs [|]|id p attrs [|]|c|c|c|]; try discriminate; cbn [g_plain_entry];
      intros H; try exact H.
    all: apply andb_prop in H as [H Hattrs]; apply andb_prop in H as [Hid Hv];
      rewrite Hid, (Ha attrs Hattrs), ?(Hp _ Hv), ?Hv; reflexivity. }
  unfold g_resource. rewrite !forallb_forall. intros H e Hin. specialize (H e Hin).
  unfold g_entry in *. apply andb_prop in H as [H1 H2]. rewrite (Hpe _ H1), H2. reflexivity.
Qed.

Lemma g_no_junk pok t with_junk : g_resource pok t = true -> drop_junk_unless with_junk t = t.
Proof.
  intros Ht. destruct with_junk; [reflexivity|]. unfold drop_junk_unless.
  induction t as [|e r IH]; [reflexivity|]. cbn [g_resource forallb] in Ht.
  apply andb_prop in Ht as [He Hr]. cbn [filter]. destruct e; try discriminate; cbn [entry_is_junk negb];
    rewrite (IH Hr); reflexivity.
Qed.

Lemma simple_resource_g t : simple_resource t = true -> g_resource (fun els => simple_pattern (Pattern els)) t = true.
Proof.
  assert (Hp : forall p, g_pattern (fun els => simple_pattern (Pattern els)) p = simple_pattern p) by (intros [els]; reflexivity).
  assert (Ha : forall attrs, forallb (g_attribute (fun els => simple_pattern (Pattern els))) attrs = forallb simple_attribute attrs).
  { induction attrs as [|a r IH]; [reflexivity|]. cbn [forallb]. rewrite IH. unfold g_attribute, simple_attribute. rewrite Hp. reflexivity. }
  assert (Hpe : forall e, plain_entry e = true -> g_plain_entry (fun els => simple_pattern (Pattern els)) e = true).
  { intros e. destruct e as [id [p|] attrs [c|]|id p attrs [c|]|c|c|c|]; cbn [g_plain_entry plain_entry]; rewrite ?Hp, ?Ha;
      try exact (fun H => H); apply simple_wide_comment. }
  unfold g_resource, simple_resource. rewrite !forallb_forall. intros H e He. specialize (H e He).
  unfold g_entry, simple_entry in *. apply andb_prop in H as [H1 H2]. rewrite (Hpe _ H1). cbn [andb].
  destruct (entry_comment e); [apply simple_wide_comment, H2 | reflexivity].
Qed.

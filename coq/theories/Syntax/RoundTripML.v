(* Syntax/RoundTripML.v — property C02 for MULTI-LINE patterns (the dedent core): parse (render cs t) gives,
   without errors, a tree t' with map join_entry t' = t (the parser returns one text element per line).

   The fragment `ml_resource` extends RoundTrip.simple_resource: pattern text may contain line breaks.
     1.  the fragment: ml_pattern (values printable inline or in block form) and the wider wl_pattern used for every
         value (block form only if all continuation lines, or the first line, are indented)
     2.  layouts of a multi-line pattern (ml_value_layout, wl_value_layout), and render prints one
     3.  the pattern loop over continuation lines (ml_loop, ml_loop_block)
     3b. get_pattern on a layout (get_pattern_ml, get_pattern_wl)
     4.  parse (render cs t) (parse_render_ml; the entry level is Syntax/EntryLoop.v)
     5.  the fragment lies inside wf_resource (wl_pattern_wf, ml_resource_wf) and contains simple_resource *)
From FluentV Require Import Base.Bytes Base.Outcome Base.Utf8 Base.Utf8Facts.
From FluentV Require Import Syntax.Ast Syntax.ParserModel Syntax.Render Syntax.TreeNorm Syntax.ParseLemmas Syntax.RoundTrip
  Syntax.EntryLoop.
From Coq Require Import Lia ZifyBool ZifyNat ZifyN.

Arguments N.add : simpl never.
Arguments N.sub : simpl never.
Arguments N.eqb : simpl never.
Arguments N.ltb : simpl never.
Arguments N.leb : simpl never.

(* lia on the arithmetic hypotheses only (the contexts below are large) *)
Ltac nlia :=
  repeat match goal with
         | H : ?T |- _ =>
             lazymatch T with
             | _ <= _ => fail
             | _ < _ => fail
             | @eq nat _ _ => fail
             | _ => clear H
             end
         end; lia.

(* The development is generic in the placeables: `eok e` says which expressions may stand in a placeable,
   `etext e X` that X is a layout of e (the text between the blanks inside the braces).  What is needed of
   them is stated as hypotheses where it is used: render prints such a layout (Hrender_e), get_placeable maps
   it to an expression that joins to e (Hplace), e is well-formed and in joined form (Hwf_e, Hjoin_e).
   Instances: RoundTripSel.v.                                                                          *)
Section Frag.
Variable eok : expression -> bool.
Variable etext : expression -> bytes -> Prop.
(* what is known of the expression the parser returns for a placeable, beyond that it joins to the printed one
   (used for C04: its nested patterns have one text element per line) *)
Variable egood : expression -> Prop.

(* ---------------------------------------------------------------------------------------------- *)
(* 1. The fragment                                                                                  *)

(* a line of text inside a pattern: no '{' '}' CR LF; its first byte starts a character *)
Definition ml_line (l : bytes) : bool := forallb wf_text_byte l && starts_char l.

(* a line that follows a line break.  `led`: the line goes on with a placeable.  A line of spaces only must be
   empty unless it leads a placeable; otherwise its first byte after the spaces is none of . [ *        *)
Definition cont_line_ok (led : bool) (l : bytes) : bool :=
  ml_line l &&
  (if is_blank_line l then led || (match l with [] => true | _ => false end) else line_start_ok l).

Fixpoint cont_lines_ok (continues : bool) (ls : list bytes) : bool :=
  match ls with
  | [] => true
  | [l] => cont_line_ok continues l
  | l :: r => cont_line_ok false l && cont_lines_ok continues r
  end.

(* a text element: not empty; `continues`: a placeable follows it *)
Definition ml_text (continues : bool) (v : bytes) : bool :=
  match lines_of v with
  | [] => false
  | l0 :: rest => negb (match v with [] => true | _ => false end) && ml_line l0 && cont_lines_ok continues rest
  end.

Fixpoint ml_elements (l : list pattern_element) (prev_text : bool) : bool :=
  match l with
  | [] => true
  | TextElement v :: r =>
      negb prev_text && ml_text (match r with [] => false | _ => true end) v && ml_elements r true
  | PlaceableElement e :: r => eok e && ml_elements r false
  end.

(* the indentation, beyond the common one, of every non-blank line after the first *)
Fixpoint own_indents_lines (continues : bool) (ls : list bytes) : list nat :=
  match ls with
  | [] => []
  | [l] => if is_blank_line l then (if continues then [length l] else []) else [leading_spaces l]
  | l :: r => (if is_blank_line l then [] else [leading_spaces l]) ++ own_indents_lines continues r
  end.
Fixpoint own_indents (l : list pattern_element) : list nat :=
  match l with
  | [] => []
  | TextElement v :: r =>
      own_indents_lines (match r with [] => false | _ => true end) (tl (lines_of v)) ++ own_indents r
  | _ :: r => own_indents r
  end.

(* the first line does not start with a space or a line break, the last line does not end with one *)
Definition ml_first_ok (els : list pattern_element) : bool :=
  match els with TextElement (b :: _) :: _ => negb (N.eqb b 32) && negb (N.eqb b 10) | _ => true end.
(* the weaker condition for a value in block form: the first line may be indented (a first text that starts with
   spaces); it is a line like the others then: not blank, and after its indentation it does not start with . [ *
   (or it is the indentation of a placeable) *)
Definition ml_first_nolf (els : list pattern_element) : bool :=
  match els with TextElement (b :: _) :: _ => negb (N.eqb b 10) | _ => true end.
Definition first_sp (els : list pattern_element) : bool :=
  match els with TextElement (b :: _) :: _ => N.eqb b 32 | _ => false end.
Definition first_line_ok (els : list pattern_element) : bool :=
  match els with
  | TextElement v :: _ =>
      match lines_of v with
      | l0 :: rest => if is_blank_line l0 then (match rest with [] => true | _ => false end) else line_start_ok l0
      | [] => true
      end
  | _ => true
  end.
Lemma ml_first_ok_split els : ml_first_ok els = ml_first_nolf els && negb (first_sp els).
Proof. destruct els as [|[[|b t]|e] r]; try reflexivity. cbn [ml_first_ok ml_first_nolf first_sp]. apply andb_comm. Qed.

Definition ml_last_ok (els : list pattern_element) : bool :=
  match rev els with
  | TextElement v :: _ => negb (N.eqb (last v 0%N) 32) && negb (N.eqb (last v 0%N) 10)
  | _ => true
  end.

(* does some text contain a line break? *)
Definition has_lf (els : list pattern_element) : bool :=
  existsb (fun el => match el with TextElement v => existsb (N.eqb 10) v | PlaceableElement _ => false end) els.

(* if the pattern has several lines, one of the lines after the first is not indented (the common indent is 0) *)
Definition ml_pattern (p : pattern) : bool :=
  match p with
  | Pattern els =>
      negb (match els with [] => true | _ => false end) && ml_elements els false &&
      ml_first_ok els && ml_last_ok els &&
      (negb (has_lf els) || existsb (Nat.eqb 0) (own_indents els))
  end.

(* a value (of a message, a term, an attribute, a variant): a value whose continuation lines are ALL indented deeper than its
   first line (no line at indentation 0 after the first) is faithful only in BLOCK form (value on the lines after
   the '=', where the first line takes part in the common indentation); Render.v prints such a value in block form
   (needs_block) and so does the serializer; its first byte must be one that may start a block line.  The FIRST
   line may be indented as well (first_sp): block form only, the line is like a continuation line (first_line_ok), and
   some other line is not indented.  The same
   holds for the value of a variant (after the key).  ml_pattern is the stricter class of the values that may be
   printed in either form. *)
Definition wl_pattern (p : pattern) : bool :=
  match p with
  | Pattern els =>
      negb (match els with [] => true | _ => false end) && ml_elements els false &&
      ml_first_nolf els && ml_last_ok els &&
      (if first_sp els then first_line_ok els && existsb (Nat.eqb 0) (own_indents els)
       else negb (has_lf els) || existsb (Nat.eqb 0) (own_indents els) || first_byte_ok_for_block (Pattern els))
  end.

Definition ml_attribute (a : attribute) : bool := wf_identifier (attr_id a) && wl_pattern (attr_value a).

Definition ml_plain_entry (e : entry) : bool :=
  match e with
  | CommentEntry c | GroupComment c | ResourceComment c => wide_comment c
  | Message id (Some p) attrs None => wf_identifier id && wl_pattern p && forallb ml_attribute attrs
  | Message id None attrs None =>
      wf_identifier id && negb (match attrs with [] => true | _ => false end) && forallb ml_attribute attrs
  | Term id p attrs None => wf_identifier id && wl_pattern p && forallb ml_attribute attrs
  | _ => false
  end.

Definition ml_entry (e : entry) : bool :=
  ml_plain_entry (strip_comment e) && match entry_comment e with Some c => wide_comment c | None => true end.

Definition ml_resource (t : resource) : bool := forallb ml_entry t.

(* ---------------------------------------------------------------------------------------------- *)
(* 2. Layouts                                                                                       *)

Definition continues_after (r : list pattern_element) : bool := match r with [] => false | _ => true end.

(* the lines of a text element after its first line break; B: the indentation of the pattern.  A blank line
   that does not lead a placeable is printed as a line end and ANY number of spaces (its own content is not
   printed; since the repair of finding D33 the parser returns "LF" for a blank line whatever spaces it has);
   every other line as a line end, B spaces and the line *)
Inductive cont_layout (B : nat) (continues : bool) : list bytes -> bytes -> Prop :=
| col_nil : cont_layout B continues [] []
| col_blank l r x s TL :
    is_blank_line l && negb ((match r with [] => true | _ => false end) && continues) = true ->
    is_eol_bytes x -> cont_layout B continues r TL ->
    cont_layout B continues (l :: r) (x ++ sp s ++ TL)
| col_line l r x TL :
    is_blank_line l && negb ((match r with [] => true | _ => false end) && continues) = false ->
    is_eol_bytes x -> cont_layout B continues r TL ->
    cont_layout B continues (l :: r) (x ++ sp B ++ l ++ TL).

Inductive ml_line_layout (B : nat) : list pattern_element -> bytes -> Prop :=
| mll_nil : ml_line_layout B [] []
| mll_text v l0 rest r TL L :
    lines_of v = l0 :: rest -> cont_layout B (continues_after r) rest TL -> ml_line_layout B r L ->
    ml_line_layout B (TextElement v :: r) (l0 ++ TL ++ L)
| mll_placeable e b1 b2 X r L :
    all_blank b1 -> all_blank b2 -> etext e X -> ml_line_layout B r L ->
    ml_line_layout B (PlaceableElement e :: r) (123%N :: b1 ++ X ++ b2 ++ 125%N :: L).

Inductive ml_value_layout (els : list pattern_element) : bytes -> Prop :=
| mvl_inline k B L : 1 <= B -> ml_line_layout B els L -> ml_value_layout els (sp k ++ L)
| mvl_block k x c BL B L :
    first_byte_ok_for_block (Pattern els) = true ->
    is_eol_bytes x -> blank_lines_of c BL -> 1 <= B -> ml_line_layout B els L ->
    ml_value_layout els (sp k ++ x ++ BL ++ sp B ++ L).

(* ---- render prints a layout ---- *)
Lemma render_text_lines_layout base continues ls : forall cs,
  exists TL cs', render_text_lines base continues ls cs = (TL, cs') /\ cont_layout base continues ls TL.
Proof.
  induction ls as [|l r IH]; intros cs.
  - exists [], cs. split; [reflexivity | constructor].
  - cbn [render_text_lines].
    destruct (eol_spec' cs) as [x [cs1 [E1 Hx]]]. rewrite (rbind_eq _ _ _ _ _ E1).
    destruct (IH cs1) as [TL [cs2 [E2 HTL]]]. rewrite (rbind_eq _ _ _ _ _ E2).
    destruct (is_blank_line l && negb ((match r with [] => true | _ => false end) && continues)) eqn:Eb.
    + unfold rbind at 1. destruct (choose 2 cs2) as [n cs3].
      exists (x ++ sp (Nat.min n base) ++ TL), cs3. split; [reflexivity|].
      apply col_blank; try assumption.
    + exists (x ++ sp base ++ l ++ TL), cs2. split; [reflexivity|]. apply col_line; assumption.
Qed.

Lemma lines_of_cons v : exists l0 rest, lines_of v = l0 :: rest.
Proof.
  unfold lines_of. generalize (@nil N). induction v as [|b r IH]; intros cur; cbn [split_lines].
  - eexists; eexists; reflexivity.
  - destruct (N.eqb b 10); [eexists; eexists; reflexivity | apply IH].
Qed.

(* render prints a layout of every expression of the class *)
Hypothesis Hrender_e : forall base e cs, eok e = true ->
  exists X cs', render_expr base e cs = (X, cs') /\ etext e X.

Lemma render_els_ml_layout base els : forall prev cs, ml_elements els prev = true ->
  exists L cs', render_els base els cs = (L, cs') /\ ml_line_layout base els L.
Proof.
  induction els as [|el r IH]; intros prev cs Hs.
  - exists [], cs. split; [reflexivity | constructor].
  - destruct el as [v | e]; cbn [ml_elements] in Hs.
    + apply andb_prop in Hs as [Hs Hr]. cbn [render_els]. unfold render_text.
      destruct (lines_of_cons v) as (l0 & rest & El). rewrite El.
      change (match r with [] => false | _ :: _ => true end) with (continues_after r).
      unfold rbind at 1. unfold rbind at 1.
      destruct (render_text_lines_layout base (continues_after r) rest cs) as [TL [cs1 [E1 HTL]]]. rewrite E1.
      unfold rret at 1.
      destruct (IH true cs1 Hr) as [L [cs2 [E2 HL]]]. rewrite (rbind_eq _ _ _ _ _ E2).
      exists (l0 ++ TL ++ L), cs2. split; [unfold rret; rewrite <- app_assoc; reflexivity|].
      apply (mll_text base v l0 rest r TL L El HTL HL).
    + apply andb_prop in Hs as [Hi Hr].
      cbn [render_els].
      destruct (blank_opt_spec cs) as [b1 [cs1 [E1 Hb1]]]. rewrite (rbind_eq _ _ _ _ _ E1).
      destruct (Hrender_e base e cs1 Hi) as [X [cs1' [EX HX]]]. rewrite (rbind_eq _ _ _ _ _ EX).
      destruct (blank_opt_spec cs1') as [b2 [cs2 [E2 Hb2]]]. rewrite (rbind_eq _ _ _ _ _ E2).
      destruct (IH false cs2 Hr) as [L [cs3 [E3 HL]]]. rewrite (rbind_eq _ _ _ _ _ E3).
      eexists. exists cs3. split; [reflexivity|].
      unfold cat. cbn [concat app]. rewrite app_nil_r. constructor; assumption.
Qed.

Lemma render_value_ml_layout ind els cs : ml_elements els false = true -> 1 <= ind ->
  exists V cs', render_value ind (Pattern els) cs = (V, cs') /\ ml_value_layout els V.
Proof.
  intros Hv Hind. unfold render_value, render_value_with. unfold rbind at 1. destruct (choose 3 cs) as [block cs1].
  destruct ((Nat.eqb block 2 || needs_block (Pattern els)) && first_byte_ok_for_block (Pattern els)) eqn:Eb.
  - apply andb_prop in Eb as [_ Hok].
    destruct (blank_inline_opt_spec cs1) as [k [cs2 E2]]. rewrite (rbind_eq _ _ _ _ _ E2).
    destruct (eol_spec' cs2) as [x [cs3 [E3 Hx]]]. rewrite (rbind_eq _ _ _ _ _ E3).
    unfold rbind at 1. destruct (choose 2 cs3) as [blanks cs4].
    assert (Hb : exists c BL cs5,
               (if Nat.eqb blanks 1 then x0 <~ eol ;; rret (sp 2 ++ x0) else rret []) cs4 = (BL, cs5) /\
               blank_lines_of c BL).
    { destruct (Nat.eqb blanks 1).
      - destruct (eol_spec' cs4) as [y [cs5 [E5 Hy]]]. rewrite (rbind_eq _ _ _ _ _ E5).
        exists 1, (sp 2 ++ y), cs5. split; [reflexivity|].
        replace (sp 2 ++ y) with (sp 2 ++ y ++ []) by (rewrite app_nil_r; reflexivity).
        constructor; [exact Hy | constructor].
      - exists 0, [], cs4. split; [reflexivity | constructor]. }
    destruct Hb as [c [BL [cs5 [E5 HBL]]]]. rewrite (rbind_eq _ _ _ _ _ E5).
    unfold rbind at 1. destruct (choose 3 cs5) as [extra cs6].
    rewrite render_pattern_inline_els.
    destruct (render_els_ml_layout (ind + extra) els false cs6 Hv) as [L [cs7 [E7 HL]]]. rewrite (rbind_eq _ _ _ _ _ E7).
    eexists. exists cs7. split; [reflexivity|].
    unfold cat. cbn [concat]. rewrite app_nil_r.
    apply (mvl_block els k x c BL (ind + extra) L); try assumption. lia.
  - destruct (blank_inline_opt_spec cs1) as [k [cs2 E2]]. rewrite (rbind_eq _ _ _ _ _ E2).
    unfold rbind at 1. destruct (choose 3 cs2) as [extra cs3].
    rewrite render_pattern_inline_els.
    destruct (render_els_ml_layout (ind + extra) els false cs3 Hv) as [L [cs4 [E4 HL]]]. rewrite (rbind_eq _ _ _ _ _ E4).
    eexists. exists cs4. split; [reflexivity|]. apply (mvl_inline els k (ind + extra) L); [lia | exact HL].
Qed.

(* ---------------------------------------------------------------------------------------------- *)
(* 3. The pattern loop over continuation lines                                                      *)

(* ---- streams: a pattern as a sequence of text bytes and placeables; joining does not change it ---- *)
Definition stream_el (el : pattern_element) : list (N + expression) :=
  match el with TextElement v => map inl v | PlaceableElement e => [inr (join_expr e)] end.
Definition stream (els : list pattern_element) : list (N + expression) := flat_map stream_el els.

Definition text_nonempty (el : pattern_element) : Prop :=
  match el with TextElement [] => False | _ => True end.
(* ... and a line feed only as the last byte of a text element: the parser returns one text element per line *)
Definition lf_last (v : bytes) : Prop := existsb (N.eqb 10) (removelast v) = false.
Definition text_ok (el : pattern_element) : Prop :=
  match el with TextElement v => v <> [] /\ lf_last v | PlaceableElement e => egood e end.
Lemma text_ok_nonempty el : text_ok el -> text_nonempty el.
Proof. destruct el as [[|b v]|e]; cbn; [intros [H _]; congruence | auto | auto]. Qed.
Lemma existsb_removelast {X} (f : X -> bool) l : existsb f l = false -> existsb f (removelast l) = false.
Proof.
  induction l as [|x l IH]; [auto|]. cbn [existsb]. intros H. apply orb_false_elim in H as [H1 H2].
  destruct l as [|y l']; [reflexivity|]. change (removelast (x :: y :: l')) with (x :: removelast (y :: l')).
  cbn [existsb]. rewrite H1. apply IH, H2.
Qed.
Lemma no_lf_lf_last v : existsb (N.eqb 10) v = false -> lf_last v.
Proof. apply existsb_removelast. Qed.
Lemma lf_last_snoc v : existsb (N.eqb 10) v = false -> lf_last (v ++ [10%N]).
Proof. intros H. unfold lf_last. rewrite removelast_last. exact H. Qed.
(* no two text elements in a row, no empty text *)
Fixpoint normal_els (l : list pattern_element) (prev_text : bool) : Prop :=
  match l with
  | [] => True
  | TextElement v :: r => prev_text = false /\ v <> [] /\ normal_els r true
  | PlaceableElement _ :: r => normal_els r false
  end.

Lemma stream_app a b : stream (a ++ b) = stream a ++ stream b.
Proof. unfold stream. apply flat_map_app. Qed.

(* the normal list with a given stream *)
Fixpoint unstream (s : list (N + expression)) : list pattern_element :=
  match s with
  | [] => []
  | inl x :: r =>
      match unstream r with
      | TextElement v :: r' => TextElement (x :: v) :: r'
      | r' => TextElement [x] :: r'
      end
  | inr e :: r => PlaceableElement e :: unstream r
  end.

Lemma unstream_text w s : w <> [] ->
  unstream (map inl w ++ s) =
  match unstream s with
  | TextElement v :: r' => TextElement (w ++ v) :: r'
  | r' => TextElement w :: r'
  end.
Proof.
  induction w as [|x w IH]; intros Hne; [congruence|].
  destruct w as [|y w].
  - cbn [map app unstream]. destruct (unstream s) as [|[v|e] r']; reflexivity.
  - change (map inl (x :: y :: w) ++ s) with (inl x :: (map inl (y :: w) ++ s)).
    cbn [unstream]. rewrite (IH ltac:(discriminate)).
    destruct (unstream s) as [|[v|e] r']; reflexivity.
Qed.

Lemma join_unstream a : Forall text_nonempty a -> join_elements (join_els_map a) = unstream (stream a).
Proof.
  induction 1 as [|x a Hx Ha IH]; [reflexivity|].
  destruct x as [w|e].
  - destruct w as [|w0 w]; [contradiction|].
    unfold stream. cbn [flat_map stream_el]. fold (stream a).
    rewrite (unstream_text (w0 :: w) (stream a) ltac:(discriminate)), <- IH.
    cbn [join_els_map join_element join_elements]. destruct (join_elements (join_els_map a)) as [|[v|e] r']; reflexivity.
  - unfold stream. cbn [flat_map stream_el app unstream join_els_map join_element join_elements]. fold (stream a).
    rewrite IH. reflexivity.
Qed.

Lemma unstream_normal b : forall prev, normal_els b prev -> unstream (stream b) = join_els_map b.
Proof.
  induction b as [|x b IH]; intros prev Hb; [reflexivity|].
  destruct x as [v|e]; cbn [normal_els] in Hb.
  - destruct Hb as (_ & Hv & Hb). unfold stream. cbn [flat_map stream_el]. fold (stream b).
    rewrite (unstream_text v (stream b) Hv), (IH true Hb). cbn [join_els_map join_element].
    destruct b as [|[v2|e2] b2]; try reflexivity. cbn [normal_els] in Hb. destruct Hb as [Hb _]. discriminate.
  - unfold stream. cbn [flat_map stream_el app unstream join_els_map join_element]. fold (stream b). rewrite (IH false Hb). reflexivity.
Qed.

(* pieces with the stream of a normal list join to that list (placeables compared after joining) *)
Lemma join_of_stream a b prev :
  normal_els b prev -> Forall text_nonempty a -> stream a = stream b ->
  join_pattern (Pattern a) = Pattern (join_els_map b).
Proof. intros Hb Ha Hs. rewrite join_pattern_els, (join_unstream a Ha), Hs, (unstream_normal b prev Hb). reflexivity. Qed.

Section MLLoop.
Variable bs : bytes.
Variable B : nat.            (* the indentation of the pattern = its common indent *)
Hypothesis HB : 1 <= B.

(* get_placeable, from behind the "{", on a layout of an expression of the class: it returns an expression
   that joins to it *)
Hypothesis Hplace : forall e X b1 b2 rest p n, eok e = true -> etext e X -> all_blank b1 -> all_blank b2 ->
  at_ bs p (b1 ++ X ++ b2 ++ 125%N :: rest) -> 3 * length (b1 ++ X ++ b2 ++ 125%N :: rest) + 8 <= n ->
  exists e', get_placeable bs n p = Ok e' (S (length (b1 ++ X ++ b2) + p)) /\ join_expr e' = join_expr e /\ egood e'.

Lemma after_value_cc T used cc nx : after_value T used cc nx -> cc <= length T.
Proof.
  intros [|x c BL next Hx HBL Hn]; [cbn; lia|]. pose proof (blank_lines_length _ _ HBL). rewrite !app_length. lia.
Qed.

(* ---- what the placeholders pushed so far will finish to ---- *)
Inductive raw := RText (v : bytes) | RPlace (e : expression).

Definition finish_out (lnbF i : nat) (r : option raw) : option pattern_element :=
  match r with
  | Some (RText v) => Some (TextElement (if Nat.eqb lnbF i then trim_end v else v))
  | Some (RPlace e) => Some (PlaceableElement e)
  | None => None
  end.

(* whatever the index of the last non-blank element turns out to be; the common indent will be B *)
(* ... or there will be none, if no text placeholder stands at a line start (a one-line value) *)
Definition ph_nls (ph : placeholder) : Prop :=
  match ph with PHText _ _ _ role0 => is_line_start role0 = false | PHPlaceable _ => True end.
Definition fin_gen (i : nat) (ph : placeholder) (r : option raw) : Prop :=
  forall lnbF, fin bs lnbF (Some B) i ph (finish_out lnbF i r) /\
               (ph_nls ph -> fin bs lnbF None i ph (finish_out lnbF i r)).
(* the common indent at the end of the loop *)
Definition ci_end_ok (ci : option nat) (phs : list placeholder) : Prop :=
  ci = Some B \/ (ci = None /\ Forall ph_nls phs).

(* phs: newest first (as in the parser state); raws: oldest first *)
Inductive acc : list placeholder -> list (option raw) -> Prop :=
| acc_nil : acc [] []
| acc_push ph phs r raws : acc phs raws -> fin_gen (length phs) ph r -> acc (ph :: phs) (raws ++ [r]).

Lemma acc_length phs raws : acc phs raws -> length raws = length phs.
Proof. induction 1; [reflexivity|]. rewrite app_length. cbn [length]. lia. Qed.

Definition opt_cons {X} (o : option X) (l : list X) : list X := match o with Some x => x :: l | None => l end.

Fixpoint finish_raws (lnbF i : nat) (raws : list (option raw)) : list pattern_element :=
  match raws with
  | [] => []
  | r :: rs => opt_cons (finish_out lnbF i r) (finish_raws lnbF (S i) rs)
  end.

Lemma finish_raws_app lnbF i a b :
  finish_raws lnbF i (a ++ b) = finish_raws lnbF i a ++ finish_raws lnbF (length a + i) b.
Proof.
  revert i. induction a as [|r a IH]; intros i; [reflexivity|].
  cbn [app finish_raws length]. rewrite IH. replace (length a + S i) with (S (length a + i)) by lia.
  destruct (finish_out lnbF i r); reflexivity.
Qed.

Lemma finish_elements_app lnbF ci l1 l2 : forall i q,
  finish_elements bs lnbF ci i (l1 ++ l2) q =
  (xs <- finish_elements bs lnbF ci i l1 ;; ys <- finish_elements bs lnbF ci (length l1 + i) l2 ;; ret (xs ++ ys)) q.
Proof.
  induction l1 as [|a l1 IH]; intros i q.
  - cbn [app finish_elements length Nat.add]. unfold bind, ret.
    destruct (finish_elements bs lnbF ci i l2 q); reflexivity.
  - cbn [app finish_elements length]. unfold bind, ret.
    destruct (finish_element bs lnbF ci i a q) as [x q'| | |]; try reflexivity.
    pose proof (IH (S i) q') as IH'. unfold bind, ret in IH'. rewrite IH'.
    replace (length l1 + S i) with (S (length l1 + i)) by lia.
    change (S (length l1) + i) with (S (length l1 + i)).
    destruct (finish_elements bs lnbF ci (S i) l1 q') as [xs q2| | |]; try reflexivity.
    destruct (finish_elements bs lnbF ci (S (length l1 + i)) l2 q2) as [ys q3| | |]; try reflexivity.
    destruct x; reflexivity.
Qed.

Lemma finish_elements_snoc lnbF ci l i els ph o q :
  finish_elements bs lnbF ci i l q = Ok els q -> fin bs lnbF ci (length l + i) ph o ->
  finish_elements bs lnbF ci i (l ++ [ph]) q = Ok (els ++ opt_cons o []) q.
Proof.
  intros Hl Hph. rewrite finish_elements_app. step Hl. cbn [finish_elements].
  rewrite bind_assoc. step (Hph q). unfold bind, ret. destruct o; reflexivity.
Qed.

Lemma acc_finish phs raws : acc phs raws -> forall ci, ci_end_ok ci phs -> forall lnbF q,
  finish_elements bs lnbF ci 0 (rev phs) q = Ok (finish_raws lnbF 0 raws) q.
Proof.
  induction 1 as [|ph phs r raws Hacc IH Hf]; intros ci Hci lnbF q; [reflexivity|].
  assert (Hci' : ci_end_ok ci phs).
  { destruct Hci as [-> | [-> Hall]]; [left; reflexivity | right; split; [reflexivity|]]. inversion Hall; assumption. }
  cbn [rev]. rewrite (finish_elements_snoc lnbF ci (rev phs) 0 _ ph (finish_out lnbF (length phs) r) q (IH ci Hci' lnbF q)).
  - rewrite finish_raws_app. cbn [finish_raws]. rewrite (acc_length _ _ Hacc), Nat.add_0_r.
    destruct (finish_out lnbF (length phs) r); reflexivity.
  - rewrite rev_length, Nat.add_0_r. destruct (Hf lnbF) as [F1 F2].
    destruct Hci as [-> | [-> Hall]]; [exact F1 | apply F2]. inversion Hall; assumption.
Qed.

Lemma finish_acc extra phs raws ne' lnbF ci role' q :
  acc phs raws -> ci_end_ok ci phs -> length phs = S lnbF ->
  finish_pattern bs (PState (extra ++ phs) ne' (Some lnbF) ci role') q =
  Ok (drop_empty_tail (finish_raws lnbF 0 raws)) q.
Proof.
  intros Hacc Hci Hlen. unfold finish_pattern. cbn [last_non_blank elements common_indent].
  rewrite rev_app_distr. rewrite <- Hlen, <- (rev_length phs), firstn_app_len.
  step (acc_finish phs raws Hacc ci Hci lnbF q). reflexivity.
Qed.

(* ---- the stream of what has been pushed ---- *)
Definition stream_raw (r : option raw) : list (N + expression) :=
  match r with Some (RText v) => map inl v | Some (RPlace e) => [inr (join_expr e)] | None => [] end.
Definition stream_raws (raws : list (option raw)) : list (N + expression) := flat_map stream_raw raws.
Definition raw_ne (r : option raw) : Prop :=
  match r with Some (RText v) => v <> [] /\ lf_last v | Some (RPlace e) => egood e | None => True end.
Lemma raw_ne_line_lf c : text_line c -> raw_ne (Some (RText (c ++ [10%N]))).
Proof. intros H. split; [destruct c; discriminate | apply lf_last_snoc, text_line_no_lf, H]. Qed.
Lemma raw_ne_line c : text_line c -> c <> [] -> raw_ne (Some (RText c)).
Proof. intros H Hne. split; [exact Hne | apply no_lf_lf_last, text_line_no_lf, H]. Qed.
Lemma raw_ne_lf : raw_ne (Some (RText [10%N])).
Proof. split; [discriminate | reflexivity]. Qed.
Lemma sp_no_lf k : existsb (N.eqb 10) (sp k) = false.
Proof. induction k as [|k IH]; [reflexivity|]. cbn [sp repeat existsb]. exact IH. Qed.
Lemma raw_ne_sp k : raw_ne (match k with 0 => None | S _ => Some (RText (sp k)) end).
Proof. destruct k; [exact Logic.I|]. split; [discriminate | apply no_lf_lf_last, sp_no_lf]. Qed.

Lemma stream_raws_app a b : stream_raws (a ++ b) = stream_raws a ++ stream_raws b.
Proof. apply flat_map_app. Qed.

Lemma stream_opt_cons o l : stream (opt_cons o l) = stream (opt_cons o []) ++ stream l.
Proof. destruct o; [|reflexivity]. unfold stream. cbn [opt_cons flat_map]. rewrite app_nil_r. reflexivity. Qed.

(* no trimming below the index of the last non-blank element *)
Lemma finish_raws_untrimmed lnbF raws : forall i, length raws + i <= lnbF ->
  stream (finish_raws lnbF i raws) = stream_raws raws /\
  (Forall raw_ne raws -> Forall text_ok (finish_raws lnbF i raws)).
Proof.
  induction raws as [|r rs IH]; intros i Hle; [split; [reflexivity | constructor]|].
  cbn [finish_raws length] in *. destruct (IH (S i) ltac:(lia)) as [IH1 IH2].
  assert (Hi : Nat.eqb lnbF i = false) by (apply Nat.eqb_neq; lia).
  split.
  - rewrite stream_opt_cons, IH1. unfold stream_raws. cbn [flat_map]. f_equal.
    destruct r as [[v|e]|]; cbn [finish_out opt_cons stream_raw]; rewrite ?Hi; unfold stream; cbn [flat_map stream_el];
      rewrite ?app_nil_r; reflexivity.
  - intros Hne. inversion Hne as [|? ? Hr Hrs]; subst. specialize (IH2 Hrs).
    destruct r as [[v|e]|]; cbn [finish_out opt_cons]; rewrite ?Hi; try (constructor; [|exact IH2]); try exact IH2.
    + exact Hr.
    + exact Hr.
Qed.


(* ---- lines: indentation and content ---- *)
Lemma sp_add a b : sp a ++ sp b = sp (a + b).
Proof. unfold sp. rewrite <- repeat_app. reflexivity. Qed.

Lemma leading_spaces_split l : l = sp (leading_spaces l) ++ skipn (leading_spaces l) l.
Proof.
  induction l as [|b l IH]; [reflexivity|]. cbn [leading_spaces].
  destruct (N.eqb b 32) eqn:E; [|reflexivity]. apply N.eqb_eq in E. subst b.
  cbn [skipn sp repeat app]. f_equal. exact IH.
Qed.

Lemma nonblank_content l : is_blank_line l = false ->
  exists b t, skipn (leading_spaces l) l = b :: t /\ N.eqb b 32 = false.
Proof.
  induction l as [|b l IH]; [discriminate|]. cbn [is_blank_line forallb leading_spaces]. intros H.
  rewrite N.eqb_sym in H. destruct (N.eqb b 32) eqn:E.
  - cbn [andb] in H. cbn [skipn]. apply IH, H.
  - exists b, l. split; [reflexivity | exact E].
Qed.

Lemma blank_all_spaces l : is_blank_line l = true -> l = sp (length l).
Proof.
  induction l as [|b l IH]; [reflexivity|]. cbn [is_blank_line forallb]. intros H.
  apply andb_prop in H as [Hb Hl]. apply N.eqb_eq in Hb. subst b. cbn [length sp repeat]. f_equal. apply IH, Hl.
Qed.

Definition ci_min (ci : option nat) (k : nat) : option nat :=
  Some (match ci with None => k | Some c => Nat.min c k end).
Definition ci_ge (ci : option nat) : Prop := match ci with None => True | Some c => B <= c end.

Lemma ci_min_ge ci k : ci_ge ci -> B <= k -> ci_ge (ci_min ci k).
Proof. unfold ci_min, ci_ge. destruct ci as [c|]; intros H1 H2; [apply Nat.min_glb; assumption | exact H2]. Qed.
Lemma ci_min_hit ci : ci_ge ci -> ci_min ci B = Some B.
Proof. unfold ci_min, ci_ge. destruct ci as [c|]; intros H; f_equal. apply Nat.min_r, H. Qed.
Lemma ci_min_keep k : B <= k -> ci_min (Some B) k = Some B.
Proof. unfold ci_min. intros H. f_equal. apply Nat.min_l, H. Qed.

(* a line with text at the start of a line: B + own spaces, then the content, which starts with a byte that
   continues a pattern *)
Lemma step_ls_text own b t X term eo po phs ne lnb ci p n :
  N.eqb b 32 = false -> is_byte_pattern_continuation b = true ->
  at_ bs p (sp (B + own) ++ (b :: t) ++ X) ->
  get_text_slice bs (B + own + p) =
    Ok (B + own + p, eo + (length (b :: t) + (B + own + p)), true, term) (po + (length (b :: t) + (B + own + p))) ->
  pattern_loop bs (S n) (PState phs ne lnb ci LineStart) p =
  pattern_loop bs n (PState (PHText p (eo + (length (b :: t) + (B + own + p))) (B + own) LineStart :: phs) (S ne) (Some ne)
                            (ci_min ci (B + own)) (role_after term))
               (po + (length (b :: t) + (B + own + p))).
Proof.
  intros H32 Hcont H Hts. cbn [pattern_loop]. rewrite bind_get_ptr.
  destruct (B + own) as [|k] eqn:Ek; [lia|].
  assert (H0 : at_ bs p (32%N :: sp k ++ (b :: t) ++ X)) by exact H.
  rewrite (at_ltb _ _ _ _ H0). cbn [negb].
  step (take_byte_if_no bs p 123 _ H0 eq_refl). rewrite bind_get_ptr.
  cbn [role is_line_start].
  assert (Hsp : skip_blank_inline bs p = Ok (S k) (S k + p)) by (eapply skip_blank_inline_sp; [exact H | exact H32]).
  rewrite bind_assoc. step Hsp. rewrite bind_assoc, bind_current_byte.
  pose proof (at_app _ _ _ _ H) as H1. rewrite sp_length in H1.
  assert (Hb : at_ bs (S k + p) (b :: t ++ X)) by exact H1.
  rewrite (at_byte _ _ _ _ Hb). cbn [Nat.eqb].
  rewrite Hcont. cbn [negb]. rewrite bind_ret.
  step Hts.
  cbn [is_line_start andb orb negb elements n_elements last_non_blank common_indent role].
  replace (Nat.eqb (S k + p) (eo + (length (b :: t) + (S k + p)))) with false
    by (symmetry; apply Nat.eqb_neq; cbn [length]; lia).
  cbn [negb elements n_elements last_non_blank common_indent role].
  assert (Hci : match ci with Some c => if Nat.ltb (S k) c then Some (S k) else Some c | None => Some (S k) end = ci_min ci (S k)).
  { unfold ci_min. destruct ci as [c|]; [|reflexivity]. destruct (Nat.ltb (S k) c) eqn:E; f_equal;
      [apply Nat.ltb_lt in E | apply Nat.ltb_ge in E]; lia. }
  rewrite Hci. destruct term; reflexivity.
Qed.

(* a line that starts with a placeable: the indentation becomes a placeholder of its own *)
Lemma step_ls_indent k rest phs ne lnb ci p n :
  1 <= k -> at_ bs p (sp k ++ 123%N :: rest) ->
  pattern_loop bs (S n) (PState phs ne lnb ci LineStart) p =
  pattern_loop bs n (PState (PHText p (k + p) k LineStart :: phs) (S ne) lnb (ci_min ci k) Continuation) (k + p).
Proof.
  intros Hk H. cbn [pattern_loop]. rewrite bind_get_ptr.
  destruct k as [|k]; [lia|].
  assert (H0 : at_ bs p (32%N :: sp k ++ 123%N :: rest)) by exact H.
  rewrite (at_ltb _ _ _ _ H0). cbn [negb].
  step (take_byte_if_no bs p 123 _ H0 eq_refl). rewrite bind_get_ptr.
  cbn [role is_line_start].
  assert (Hsp : skip_blank_inline bs p = Ok (S k) (S k + p)) by (eapply skip_blank_inline_sp; [exact H | reflexivity]).
  rewrite bind_assoc. step Hsp. rewrite bind_assoc, bind_current_byte.
  pose proof (at_app _ _ _ _ H) as H1. rewrite sp_length in H1.
  rewrite (at_byte _ _ _ _ H1). cbn [Nat.eqb].
  change (is_byte_pattern_continuation 123) with true. cbn [negb]. rewrite bind_ret.
  step (get_text_slice_placeable bs (S k + p) [] rest H1 eq_refl).
  cbn [length is_nonblank existsb Nat.add is_line_start andb orb negb elements n_elements last_non_blank common_indent role].
  rewrite Nat.eqb_refl. cbn [negb].
  unfold ci_min. destruct ci as [c|]; reflexivity.
Qed.


(* ---- finishing the placeholders the steps push ---- *)
Lemma fin_gen_text i start end_ ind rl q0 v :
  (if is_line_start rl then start + Nat.min ind B else start) = q0 ->
  q0 <> end_ -> slice bs q0 end_ = Done v -> fin_gen i (PHText start end_ ind rl) (Some (RText v)).
Proof.
  intros Hq Hne Hs lnbF. split; [apply (fin_text bs lnbF (Some B) i start end_ ind rl q0 v Hq Hne Hs)|].
  cbn [ph_nls]. intros Hrl. rewrite Hrl in Hq. apply (fin_text bs lnbF None i start end_ ind rl q0 v); [rewrite Hrl; exact Hq | exact Hne | exact Hs].
Qed.

Lemma fin_gen_none i start end_ ind rl :
  (if is_line_start rl then start + Nat.min ind B else start) = end_ -> fin_gen i (PHText start end_ ind rl) None.
Proof.
  intros Hq lnbF. split; [apply (fin_text_none bs lnbF (Some B) i start end_ ind rl Hq)|].
  cbn [ph_nls]. intros Hrl. rewrite Hrl in Hq. apply (fin_text_none bs lnbF None i start end_ ind rl). rewrite Hrl. exact Hq.
Qed.

Lemma fin_gen_place i e : fin_gen i (PHPlaceable e) (Some (RPlace e)).
Proof. intros lnbF. split; [|intros _]; apply fin_placeable. Qed.

Lemma slice_lf q next : at_ bs q (10%N :: next) -> starts_char next = true -> slice bs q (S q) = Done [10%N].
Proof. intros H Hn. apply (at_slice bs q [10%N] next H eq_refl Hn). Qed.

(* the state of the loop with its bookkeeping: the placeholders, what they finish to *)
Definition st_of (phs : list placeholder) (lnb ci : option nat) (rl : position) : pstate :=
  PState phs (length phs) lnb ci rl.

Definition reach (n : nat) (st : pstate) (p : nat) (n' : nat) (st' : pstate) (p' : nat) : Prop :=
  pattern_loop bs n st p = pattern_loop bs n' st' p'.

Lemma reach_trans n1 st1 p1 n2 st2 p2 n3 st3 p3 :
  reach n1 st1 p1 n2 st2 p2 -> reach n2 st2 p2 n3 st3 p3 -> reach n1 st1 p1 n3 st3 p3.
Proof. unfold reach. congruence. Qed.

(* a blank step on the LF that a CR LF line end leaves behind *)
Lemma lf_rest_reach next phs raws lnb ci q n :
  at_ bs q (10%N :: next) -> starts_char next = true -> acc phs raws ->
  reach (S n) (st_of phs lnb ci LineStart) q n (st_of (PHText q (S q) 0 LineStart :: phs) lnb ci LineStart) (S q) /\
  acc (PHText q (S q) 0 LineStart :: phs) (raws ++ [Some (RText [10%N])]).
Proof.
  intros H Hn Hacc. split.
  - unfold reach, st_of. rewrite (loop_step_blank_lf bs 0 next phs (length phs) lnb ci q n H). reflexivity.
  - apply acc_push; [exact Hacc|]. apply (fin_gen_text _ q (S q) 0 LineStart q [10%N]).
    + cbn [is_line_start]. rewrite Nat.min_0_l. lia.
    + lia.
    + apply (slice_lf q next H Hn).
Qed.

(* a line end right at ptr, in the middle of a line (after a placeable) *)
Lemma eol_reach x next phs raws lnb ci rl p :
  is_eol_bytes x -> at_ bs p (x ++ next) -> starts_char next = true -> is_line_start rl = false -> acc phs raws ->
  exists k phs', k <= length x /\ acc phs' (raws ++ [Some (RText [10%N])]) /\
    forall n, reach (k + n) (st_of phs lnb ci rl) p n (st_of phs' lnb ci LineStart) (length x + p).
Proof.
  intros Hx H Hn Hrl Hacc. destruct Hx as [-> | ->]; cbn [lf crlf app length] in *.
  - exists 1, (PHText p (S p) 0 rl :: phs). split; [unfold lf, crlf; cbn [length]; lia|]. split.
    + apply acc_push; [exact Hacc|]. apply (fin_gen_text _ p (S p) 0 rl p [10%N]); [rewrite Hrl; reflexivity | lia|].
      apply (slice_lf p next H Hn).
    + intros n. unfold reach, st_of. cbn [Nat.add]. rewrite (step_eol_lf bs next phs (length phs) lnb ci rl p n Hrl H). reflexivity.
  - destruct (lf_rest_reach next phs raws lnb ci (S p) 0 (at_cons _ _ _ _ H) Hn Hacc) as [_ Hacc'].
    exists 2, (PHText (S p) (S (S p)) 0 LineStart :: phs). split; [unfold lf, crlf; cbn [length]; lia|]. split; [exact Hacc'|].
    intros n. unfold reach, st_of. cbn [Nat.add].
    rewrite (step_eol_crlf bs next phs (length phs) lnb ci rl p (S n) Hrl H).
    rewrite (loop_step_blank_lf bs 0 next phs (length phs) lnb ci (S p) n (at_cons _ _ _ _ H)). reflexivity.
Qed.

(* a blank line: at most B spaces and a line end *)
Lemma blank_eol_reach s x next phs raws lnb ci p :
  is_eol_bytes x -> at_ bs p (sp s ++ x ++ next) -> starts_char next = true -> acc phs raws ->
  exists k phs', k <= length x /\ acc phs' (raws ++ [Some (RText [10%N])]) /\
    forall n, reach (k + n) (st_of phs lnb ci LineStart) p n (st_of phs' lnb ci LineStart) (length (sp s ++ x) + p).
Proof.
  intros Hx H Hn Hacc. pose proof (at_app _ _ _ _ H) as H1. rewrite sp_length in H1.
  destruct Hx as [-> | ->]; cbn [lf crlf app] in *.
  - exists 1, (PHText (s + p) (S (s + p)) 0 LineStart :: phs). split; [unfold lf, crlf; cbn [length]; lia|]. split.
    + apply acc_push; [exact Hacc|]. apply (fin_gen_text _ (s + p) (S (s + p)) 0 LineStart (s + p) [10%N]).
      * cbn [is_line_start Nat.min]. lia.
      * lia.
      * apply (slice_lf (s + p) next H1 Hn).
    + intros n. unfold reach, st_of. cbn [Nat.add]. rewrite (loop_step_blank_lf bs s next phs (length phs) lnb ci p n H).
      rewrite app_length, sp_length. unfold lf. cbn [length]. replace (s + 1 + p) with (S (s + p)) by lia. reflexivity.
  - destruct (lf_rest_reach next phs raws lnb ci (S (s + p)) 0 (at_cons _ _ _ _ H1) Hn Hacc) as [_ Hacc'].
    exists 2, (PHText (S (s + p)) (S (S (s + p))) 0 LineStart :: phs). split; [unfold lf, crlf; cbn [length]; lia|]. split; [exact Hacc'|].
    intros n. unfold reach, st_of. cbn [Nat.add].
    rewrite (loop_step_blank_crlf bs s next phs (length phs) lnb ci p (S n) H).
    rewrite (loop_step_blank_lf bs 0 next phs (length phs) lnb ci (S (s + p)) n (at_cons _ _ _ _ H1)).
    rewrite app_length, sp_length. unfold crlf. cbn [length]. replace (s + 2 + p) with (S (S (s + p))) by lia. reflexivity.
Qed.


Lemma inner_text_starts c X : inner_text c = true -> starts_char (c ++ X) = true /\ text_line c /\ c <> [].
Proof.
  intros Hc. destruct (inner_text_spec c Hc) as (b & t & -> & Hb & Hline).
  split; [cbn; rewrite Hb; reflexivity | split; [exact Hline | discriminate]].
Qed.

(* text in the middle of a line, followed by a line end *)
Lemma text_eol_reach c x next phs raws lnb ci rl p :
  inner_text c = true -> is_eol_bytes x -> at_ bs p (c ++ x ++ next) -> starts_char next = true ->
  is_line_start rl = false -> acc phs raws ->
  exists k phs' raws', k <= length x /\ acc phs' (raws ++ raws') /\ stream_raws raws' = map inl (c ++ [10%N]) /\
    Forall raw_ne raws' /\
    forall n, reach (k + n) (st_of phs lnb ci rl) p n
                    (st_of phs' (if is_nonblank c then Some (length phs) else lnb) ci LineStart) (length (c ++ x) + p).
Proof.
  intros Hc Hx H Hn Hrl Hacc. destruct (inner_text_starts c (x ++ next) Hc) as (Hsc & Hline & Hne).
  assert (Hlen : 1 <= length c) by (destruct c; [congruence | cbn; lia]).
  destruct Hx as [-> | ->]; unfold lf, crlf in *; cbn [app] in *.
  - (* LF: one placeholder "c\n" *)
    exists 1, (PHText p (1 + (length c + p)) 0 rl :: phs), [Some (RText (c ++ [10%N]))].
    split; [unfold lf, crlf; cbn [length]; lia|]. split; [|split; [|split]].
    + apply acc_push; [exact Hacc|].
      apply (fin_gen_text _ p (1 + (length c + p)) 0 rl p (c ++ [10%N])); [rewrite Hrl; reflexivity | lia|].
      replace (1 + (length c + p)) with (length (c ++ [10%N]) + p) by (rewrite app_length; cbn [length]; lia).
      apply (at_slice bs p (c ++ [10%N]) next); [rewrite <- app_assoc; exact H | rewrite <- app_assoc; exact Hsc | exact Hn].
    + unfold stream_raws. cbn [flat_map stream_raw]. apply app_nil_r.
    + constructor; [|constructor]. apply raw_ne_line_lf, Hline.
    + intros n. unfold reach, st_of. cbn [Nat.add].
      rewrite (step_text bs c _ TLineFeed 1 1 (is_nonblank c) phs (length phs) lnb ci rl p n Hrl Hc H
                 (get_text_slice_lf bs p c next H Hline)).
      cbn [role_after length]. rewrite app_length. cbn [length].
      replace (length c + 1 + p) with (1 + (length c + p)) by lia. reflexivity.
  - (* CR LF: "c", then "\n" *)
    assert (H1 : at_ bs (S (length c + p)) (10%N :: next)).
    { apply at_app in H. apply at_cons in H. exact H. }
    assert (Hacc1 : acc (PHText p (0 + (length c + p)) 0 rl :: phs) (raws ++ [Some (RText c)])).
    { apply acc_push; [exact Hacc|].
      apply (fin_gen_text _ p (0 + (length c + p)) 0 rl p c); [rewrite Hrl; reflexivity | lia|].
      apply (at_slice bs p c _ H Hsc eq_refl). }
    destruct (lf_rest_reach next _ _ (if is_nonblank c then Some (length phs) else lnb) ci (S (length c + p)) 0 H1 Hn Hacc1)
      as [_ Hacc2].
    exists 2, (PHText (S (length c + p)) (S (S (length c + p))) 0 LineStart :: PHText p (0 + (length c + p)) 0 rl :: phs),
           [Some (RText c); Some (RText [10%N])].
    split; [unfold lf, crlf; cbn [length]; lia|]. split; [|split; [|split]].
    + rewrite <- app_assoc in Hacc2. exact Hacc2.
    + unfold stream_raws. cbn [flat_map stream_raw]. rewrite app_nil_r, map_app. reflexivity.
    + constructor; [|constructor; [exact raw_ne_lf | constructor]]. apply raw_ne_line; assumption.
    + intros n. unfold reach, st_of. cbn [Nat.add].
      rewrite (step_text bs c _ TCrlf 0 1 (is_nonblank c) phs (length phs) lnb ci rl p (S n) Hrl Hc H
                 (get_text_slice_crlf bs p c next H Hline)).
      cbn [role_after]. 
      rewrite (loop_step_blank_lf bs 0 next _ (S (length phs)) _ ci (1 + (length c + p)) n H1).
      cbn [length]. rewrite app_length. cbn [length].
      replace (length c + 2 + p) with (S (0 + (1 + (length c + p)))) by lia. reflexivity.
Qed.


Lemma forallb_skipn {X} (f : X -> bool) k l : forallb f l = true -> forallb f (skipn k l) = true.
Proof.
  revert l. induction k as [|k IH]; intros l H; [exact H|]. destruct l as [|x l]; [reflexivity|].
  cbn [forallb] in H. apply andb_prop in H as [_ H]. apply IH, H.
Qed.

(* what is known of a non-blank line after a line break *)
Lemma cont_line_facts l : ml_line l = true -> is_blank_line l = false -> line_start_ok l = true ->
  exists b t, l = sp (leading_spaces l) ++ b :: t /\ N.eqb b 32 = false /\ is_byte_pattern_continuation b = true /\
              text_line (b :: t) /\ text_line l /\ (forall X, starts_char (l ++ X) = true) /\
              length l = leading_spaces l + length (b :: t).
Proof.
  intros Hml Hnb Hok. unfold ml_line in Hml. apply andb_prop in Hml as [Hline Hsc].
  destruct (nonblank_content l Hnb) as (b & t & Ec & H32).
  exists b, t. pose proof (leading_spaces_split l) as El. rewrite Ec in El.
  assert (Htl : text_line (b :: t)) by (unfold text_line; rewrite <- Ec; apply forallb_skipn, Hline).
  split; [exact El|]. split; [exact H32|]. split; [|split; [exact Htl | split; [exact Hline | split]]].
  - unfold line_start_ok in Hok. rewrite Ec in Hok. apply negb_true_iff in Hok.
    apply orb_false_elim in Hok as [Hok H42]. apply orb_false_elim in Hok as [H46 H91].
    unfold text_line in Htl. cbn [forallb] in Htl. apply andb_prop in Htl as [Hb _].
    apply wf_text_byte_spec in Hb as (_ & H125 & _ & _).
    unfold is_byte_pattern_continuation. rewrite H46, H125, H91, H42. reflexivity.
  - intros X. destruct l as [|y l']; [discriminate Hnb|]. cbn in *. exact Hsc.
  - rewrite El at 1. rewrite app_length, sp_length. reflexivity.
Qed.

(* a non-blank line after a line break, followed by a line end *)
Lemma ls_text_eol_reach l x next phs raws lnb ci p :
  ml_line l = true -> is_blank_line l = false -> line_start_ok l = true ->
  is_eol_bytes x -> at_ bs p (sp B ++ l ++ x ++ next) -> starts_char next = true -> acc phs raws ->
  exists k phs' raws', k <= length x /\ acc phs' (raws ++ raws') /\ stream_raws raws' = map inl (l ++ [10%N]) /\
    Forall raw_ne raws' /\
    forall n, reach (k + n) (st_of phs lnb ci LineStart) p n
                    (st_of phs' (Some (length phs)) (ci_min ci (B + leading_spaces l)) LineStart)
                    (length (sp B ++ l ++ x) + p).
Proof.
  intros Hml Hnb Hok Hx H Hn Hacc.
  destruct (cont_line_facts l Hml Hnb Hok) as (b & t & El & H32 & Hcont & Htl & Hline & Hsc & Hlen).
  set (own := leading_spaces l) in *. set (q := B + own + p).
  assert (Hl1 : 1 <= length l) by (rewrite Hlen; cbn [length]; lia).
  assert (Hp : at_ bs p (sp (B + own) ++ (b :: t) ++ x ++ next)).
  { assert (E : sp B ++ l ++ x ++ next = sp (B + own) ++ (b :: t) ++ x ++ next).
    { rewrite El at 1. rewrite <- sp_add, <- !app_assoc. reflexivity. }
    rewrite <- E. exact H. }
  assert (Hq : at_ bs q ((b :: t) ++ x ++ next)) by (apply at_app in Hp; rewrite sp_length in Hp; exact Hp).
  assert (HB' : at_ bs (B + p) (l ++ x ++ next)) by (apply at_app in H; rewrite sp_length in H; exact H).
  assert (Hqe : length (b :: t) + q = length l + (B + p)) by (unfold q; lia).
  destruct Hx as [-> | ->]; unfold lf, crlf in *; cbn [app] in Hp, Hq, HB' |- *.
  - exists 1, (PHText p (1 + (length (b :: t) + q)) (B + own) LineStart :: phs), [Some (RText (l ++ [10%N]))].
    split; [unfold lf, crlf; cbn [length]; lia|]. split; [|split; [|split]].
    + apply acc_push; [exact Hacc|].
      apply (fin_gen_text _ p (1 + (length (b :: t) + q)) (B + own) LineStart (B + p) (l ++ [10%N])).
      * cbn [is_line_start]. rewrite Nat.min_r by lia. lia.
      * lia.
      * rewrite Hqe. replace (1 + (length l + (B + p))) with (length (l ++ [10%N]) + (B + p))
          by (rewrite app_length; cbn [length]; lia).
        apply (at_slice bs (B + p) (l ++ [10%N]) next); [rewrite <- app_assoc; exact HB' | rewrite <- app_assoc; apply Hsc | exact Hn].
    + unfold stream_raws. cbn [flat_map stream_raw]. apply app_nil_r.
    + constructor; [|constructor]. apply raw_ne_line_lf, Hline.
    + intros n. unfold reach, st_of. cbn [Nat.add].
      rewrite (step_ls_text own b t _ TLineFeed 1 1 phs (length phs) lnb ci p n H32 Hcont Hp).
      * cbn [role_after length]. rewrite !app_length, sp_length. cbn [length].
        replace (B + (length l + 1) + p) with (1 + (S (length t) + q)) by (cbn [length] in Hqe; lia). reflexivity.
      * replace true with (is_nonblank (b :: t)) by (cbn [is_nonblank existsb]; unfold c_sp; rewrite H32; reflexivity).
        apply (get_text_slice_lf bs q (b :: t) next Hq Htl).
  - assert (H1 : at_ bs (S (length (b :: t) + q)) (10%N :: next)).
    { exact (at_cons _ _ _ _ (at_app bs q (b :: t) _ Hq)). }
    assert (Hacc1 : acc (PHText p (0 + (length (b :: t) + q)) (B + own) LineStart :: phs) (raws ++ [Some (RText l)])).
    { apply acc_push; [exact Hacc|].
      apply (fin_gen_text _ p (0 + (length (b :: t) + q)) (B + own) LineStart (B + p) l).
      - cbn [is_line_start]. rewrite Nat.min_r by lia. lia.
      - lia.
      - rewrite Hqe. cbn [Nat.add]. apply (at_slice bs (B + p) l _ HB' (Hsc _) eq_refl). }
    destruct (lf_rest_reach next _ _ (Some (length phs)) (ci_min ci (B + own)) (S (length (b :: t) + q)) 0 H1 Hn Hacc1)
      as [_ Hacc2].
    eexists 2, _, [Some (RText l); Some (RText [10%N])].
    split; [unfold lf, crlf; cbn [length]; lia|]. split; [|split; [|split]].
    + rewrite <- app_assoc in Hacc2. exact Hacc2.
    + unfold stream_raws. cbn [flat_map stream_raw]. rewrite app_nil_r, map_app. reflexivity.
    + constructor; [|constructor; [exact raw_ne_lf | constructor]]. apply raw_ne_line; [exact Hline|]. intros ->. cbn in Hl1. lia.
    + intros n. unfold reach, st_of. cbn [Nat.add].
      rewrite (step_ls_text own b t _ TCrlf 0 1 phs (length phs) lnb ci p (S n) H32 Hcont Hp).
      * cbn [role_after].
        rewrite (loop_step_blank_lf bs 0 next _ (S (length phs)) _ _ (1 + (length (b :: t) + q)) n H1).
        cbn [length]. rewrite !app_length, sp_length. cbn [length].
        replace (B + (length l + 2) + p) with (S (0 + (1 + (S (length t) + q)))) by (cbn [length] in Hqe; lia). reflexivity.
      * replace true with (is_nonblank (b :: t)) by (cbn [is_nonblank existsb]; unfold c_sp; rewrite H32; reflexivity).
        apply (get_text_slice_crlf bs q (b :: t) next Hq Htl).
Qed.


(* text in the middle of a line, followed by a placeable *)
Lemma text_place_reach c rest phs raws lnb ci rl p n :
  inner_text c = true -> at_ bs p (c ++ 123%N :: rest) -> is_line_start rl = false -> acc phs raws ->
  reach (S n) (st_of phs lnb ci rl) p n
        (st_of (PHText p (length c + p) 0 rl :: phs) (if is_nonblank c then Some (length phs) else lnb) ci Continuation)
        (length c + p) /\
  acc (PHText p (length c + p) 0 rl :: phs) (raws ++ [Some (RText c)]) /\ raw_ne (Some (RText c)).
Proof.
  intros Hc H Hrl Hacc. destruct (inner_text_starts c (123%N :: rest) Hc) as (Hsc & Hline & Hne).
  assert (Hlen : 1 <= length c) by (destruct c; [congruence | cbn; lia]).
  split; [|split].
  - unfold reach, st_of.
    rewrite (step_text bs c _ TPlaceableStart 0 0 (is_nonblank c) phs (length phs) lnb ci rl p n Hrl Hc H
               (get_text_slice_placeable bs p c rest H Hline)). reflexivity.
  - apply acc_push; [exact Hacc|].
    apply (fin_gen_text _ p (length c + p) 0 rl p c); [rewrite Hrl; reflexivity | lia|].
    apply (at_slice bs p c _ H Hsc eq_refl).
  - apply raw_ne_line; assumption.
Qed.

(* a non-blank line after a line break, followed by a placeable *)
Lemma ls_text_place_reach l rest phs raws lnb ci p n :
  ml_line l = true -> is_blank_line l = false -> line_start_ok l = true ->
  at_ bs p (sp B ++ l ++ 123%N :: rest) -> acc phs raws ->
  reach (S n) (st_of phs lnb ci LineStart) p n
        (st_of (PHText p (length l + (B + p)) (B + leading_spaces l) LineStart :: phs) (Some (length phs))
               (ci_min ci (B + leading_spaces l)) Continuation)
        (length l + (B + p)) /\
  acc (PHText p (length l + (B + p)) (B + leading_spaces l) LineStart :: phs) (raws ++ [Some (RText l)]) /\
  raw_ne (Some (RText l)).
Proof.
  intros Hml Hnb Hok H Hacc.
  destruct (cont_line_facts l Hml Hnb Hok) as (b & t & El & H32 & Hcont & Htl & Hline & Hsc & Hlen).
  set (own := leading_spaces l) in *. set (q := B + own + p).
  assert (Hl1 : 1 <= length l) by (rewrite Hlen; cbn [length]; lia).
  assert (Hp : at_ bs p (sp (B + own) ++ (b :: t) ++ 123%N :: rest)).
  { assert (E : sp B ++ l ++ 123%N :: rest = sp (B + own) ++ (b :: t) ++ 123%N :: rest).
    { rewrite El at 1. rewrite <- sp_add, <- !app_assoc. reflexivity. }
    rewrite <- E. exact H. }
  assert (Hq : at_ bs q ((b :: t) ++ 123%N :: rest)) by (apply at_app in Hp; rewrite sp_length in Hp; exact Hp).
  assert (HB' : at_ bs (B + p) (l ++ 123%N :: rest)) by (apply at_app in H; rewrite sp_length in H; exact H).
  assert (Hqe : length (b :: t) + q = length l + (B + p)) by (unfold q; lia).
  unfold q in *. clear q.
  split; [|split].
  - unfold reach, st_of.
    rewrite (step_ls_text own b t _ TPlaceableStart 0 0 phs (length phs) lnb ci p n H32 Hcont Hp).
    + cbn [role_after Nat.add]. rewrite Hqe. reflexivity.
    + replace true with (is_nonblank (b :: t)) by (cbn [is_nonblank existsb]; unfold c_sp; rewrite H32; reflexivity).
      apply (get_text_slice_placeable bs _ (b :: t) rest Hq Htl).
  - apply acc_push; [exact Hacc|].
    apply (fin_gen_text _ p (length l + (B + p)) (B + own) LineStart (B + p) l).
    + cbn [is_line_start]. rewrite Nat.min_r by lia. lia.
    + lia.
    + apply (at_slice bs (B + p) l _ HB' (Hsc _) eq_refl).
  - apply raw_ne_line; [exact Hline|]. intros ->. cbn in Hl1. lia.
Qed.

(* a line after a line break that starts with a placeable: B spaces and `own` more *)
Lemma ls_indent_reach own rest phs raws lnb ci p n :
  at_ bs p (sp B ++ sp own ++ 123%N :: rest) -> acc phs raws ->
  reach (S n) (st_of phs lnb ci LineStart) p n
        (st_of (PHText p (B + own + p) (B + own) LineStart :: phs) lnb (ci_min ci (B + own)) Continuation) (B + own + p) /\
  acc (PHText p (B + own + p) (B + own) LineStart :: phs)
      (raws ++ [match own with 0 => None | _ => Some (RText (sp own)) end]).
Proof.
  intros H Hacc.
  assert (Hp : at_ bs p (sp (B + own) ++ 123%N :: rest)) by (rewrite <- sp_add, <- app_assoc; exact H).
  split.
  - unfold reach, st_of. rewrite (step_ls_indent (B + own) rest phs (length phs) lnb ci p n ltac:(lia) Hp). reflexivity.
  - apply acc_push; [exact Hacc|]. destruct own as [|own].
    + apply fin_gen_none. cbn [is_line_start]. rewrite Nat.min_r by lia. lia.
    + apply (fin_gen_text _ p (B + S own + p) (B + S own) LineStart (B + p) (sp (S own))).
      * cbn [is_line_start]. rewrite Nat.min_r by lia. lia.
      * lia.
      * apply at_app in H. rewrite sp_length in H.
        replace (B + S own + p) with (length (sp (S own)) + (B + p)) by (rewrite sp_length; lia).
        apply (at_slice bs (B + p) (sp (S own)) _ H); reflexivity.
Qed.

(* a placeable *)
Lemma placeable_reach e b1 b2 X rest phs raws lnb ci rl p n :
  is_line_start rl = false -> eok e = true -> etext e X -> all_blank b1 -> all_blank b2 ->
  at_ bs p (123%N :: b1 ++ X ++ b2 ++ 125%N :: rest) -> 3 * length (b1 ++ X ++ b2 ++ 125%N :: rest) + 8 <= n -> acc phs raws ->
  exists e', join_expr e' = join_expr e /\ egood e' /\
    reach (S n) (st_of phs lnb ci rl) p n
          (st_of (PHPlaceable e' :: phs) (Some (length phs)) ci Continuation)
          (length (123%N :: b1 ++ X ++ b2 ++ [125%N]) + p) /\
    acc (PHPlaceable e' :: phs) (raws ++ [Some (RPlace e')]).
Proof.
  intros Hrl He HX Hb1 Hb2 H Hn Hacc.
  destruct (Hplace e X b1 b2 rest (S p) n He HX Hb1 Hb2 (at_cons _ _ _ _ H) Hn) as (e' & Egp & Ej & Hg).
  exists e'. split; [exact Ej|]. split; [exact Hg|]. split.
  - unfold reach, st_of. cbn [pattern_loop]. rewrite bind_get_ptr.
    rewrite (at_ltb _ _ _ _ H). cbn [negb].
    step (take_byte_if_yes bs p 123 _ H). cbv iota. cbn [role elements n_elements common_indent]. rewrite Hrl.
    step Egp. f_equal. cbn [length]. rewrite !app_length. cbn [length]. lia.
  - apply acc_push; [exact Hacc | apply fin_gen_place].
Qed.


(* ---- reaching the end of the pattern ---- *)
Definition completes (n : nat) (st : pstate) (p pfin : nat) (S : list (N + expression)) : Prop :=
  exists els', (st' <- pattern_loop bs n st ;; finish_pattern bs st') p = Ok (Some (Pattern els')) pfin /\
               stream els' = S /\ Forall text_ok els'.

Lemma completes_reach n st p n' st' p' pfin S :
  reach n st p n' st' p' -> completes n' st' p' pfin S -> completes n st p pfin S.
Proof.
  intros Hr (els' & E & Hs & Hne). exists els'. split; [|split; assumption].
  rewrite (bind_congr _ _ _ _ _ Hr). exact E.
Qed.

Definition stream_last (r : raw) (w' : bytes) : list (N + expression) :=
  match r with RText _ => map inl w' | RPlace e => [inr (join_expr e)] end.

(* the loop has ended; the last placeholder that counts is a placeable, or a text whose trimmed form w' is known *)
Lemma final_from_acc_g n st p pfin extra phs raws0 last w' ne' lnbF ci role' :
  pattern_loop bs n st p = Ok (PState (extra ++ phs) ne' (Some lnbF) ci role') pfin -> ci_end_ok ci phs ->
  acc phs (raws0 ++ [Some last]) -> length phs = S lnbF -> Forall raw_ne raws0 ->
  match last with RText w => trim_end w = w' /\ trim_end w' = w' /\ w' <> [] /\ lf_last w' | RPlace e => egood e end ->
  completes n st p pfin (stream_raws raws0 ++ stream_last last w').
Proof.
  intros E Hcie Hacc Hlen Hne Hlast.
  assert (Hl0 : length raws0 = lnbF).
  { pose proof (acc_length _ _ Hacc) as HL. rewrite app_length in HL. cbn [length] in HL. lia. }
  set (x := match last with RText _ => TextElement w' | RPlace e => PlaceableElement e end).
  assert (Hfin : finish_raws lnbF 0 (raws0 ++ [Some last]) = finish_raws lnbF 0 raws0 ++ [x]).
  { rewrite finish_raws_app. f_equal. rewrite Nat.add_0_r, Hl0. cbn [finish_raws finish_out]. rewrite Nat.eqb_refl.
    unfold x. destruct last as [w|e]; [destruct Hlast as [-> _]|]; reflexivity. }
  destruct (finish_raws_untrimmed lnbF raws0 0 ltac:(lia)) as [Hs0 Hne0].
  exists (finish_raws lnbF 0 raws0 ++ [x]). split; [|split].
  - step E. rewrite (finish_acc extra phs _ ne' lnbF ci role' pfin Hacc Hcie Hlen), Hfin.
    assert (Hk : tail_kept (finish_raws lnbF 0 raws0 ++ [x])).
    { apply tail_kept_intro; [destruct (finish_raws lnbF 0 raws0); discriminate|].
      rewrite rev_app_distr. cbn [rev app]. unfold x. destruct last as [w|e]; [|exact Logic.I].
      destruct Hlast as (_ & H2 & H3 & _). auto. }
    unfold tail_kept in Hk. rewrite Hk. reflexivity.
  - rewrite stream_app, Hs0. f_equal. unfold x, stream, stream_last. destruct last; cbn [flat_map stream_el]; apply app_nil_r.
  - apply Forall_app. split; [apply Hne0, Hne|]. constructor; [|constructor].
    unfold x. destruct last as [w|e]; [|exact Hlast]. destruct Hlast as (_ & _ & H3 & H4). split; assumption.
Qed.

Lemma final_from_acc n st p pfin extra phs raws0 last w' ne' lnbF role' :
  pattern_loop bs n st p = Ok (PState (extra ++ phs) ne' (Some lnbF) (Some B) role') pfin ->
  acc phs (raws0 ++ [Some last]) -> length phs = S lnbF -> Forall raw_ne raws0 ->
  match last with RText w => trim_end w = w' /\ trim_end w' = w' /\ w' <> [] /\ lf_last w' | RPlace e => egood e end ->
  completes n st p pfin (stream_raws raws0 ++ stream_last last w').
Proof. intros E. apply (final_from_acc_g n st p pfin extra phs raws0 last w' ne' lnbF (Some B) role' E). left. reflexivity. Qed.


Lemma ends_nonspace_nonblank c : text_line c -> c <> [] -> ends_nonspace c -> is_nonblank c = true.
Proof. intros. apply nonblank_last; assumption. Qed.

(* the last text of the pattern, in the middle of a line *)
Lemma text_final_g c T used cc nx phs raws lnb ci rl p n :
  inner_text c = true -> ends_nonspace c -> after_value T used cc nx -> at_ bs p (c ++ T) ->
  is_line_start rl = false -> acc phs raws -> Forall raw_ne raws -> ci_end_ok ci phs -> 2 * cc + 4 <= n ->
  completes n (st_of phs lnb ci rl) p (used + (length c + p)) (stream_raws raws ++ map inl c).
Proof.
  intros Hc Hlast HT H Hrl Hacc Hne Hcie Hn.
  destruct (inner_text_starts c T Hc) as (Hsc & Hline & Hcne).
  destruct (after_value_line_tail T used cc nx HT) as (term & eo & po & R & Hlt).
  destruct (get_text_slice_line bs p c T term eo po R H Hline Hlt) as [Hts _].
  rewrite (ends_nonspace_nonblank c Hline Hcne Hlast) in Hts.
  destruct n as [|n]; [lia|].
  destruct (after_line bs T used cc nx term eo po R (PHText p (eo + (length c + p)) 0 rl :: phs) (S (length phs))
                       (Some (length phs)) ci (length c + p) n HT Hlt (at_app _ _ _ _ H) ltac:(lia))
    as (extra & ne' & role' & E).
  destruct (last_text_slice bs c T used cc nx term eo po R p Hc Hlast HT Hlt H) as [v' [Es Et]].
  apply (final_from_acc_g (S n) _ p _ extra (PHText p (eo + (length c + p)) 0 rl :: phs) raws (RText v') c ne' (length phs) ci role').
  - unfold st_of. rewrite (step_text bs c T term eo po true phs (length phs) lnb ci rl p n Hrl Hc H Hts). exact E.
  - destruct Hcie as [-> | [-> Hall]]; [left; reflexivity | right; split; [reflexivity|]]. constructor; [exact Hrl | exact Hall].
  - apply acc_push; [exact Hacc|].
    apply (fin_gen_text _ p (eo + (length c + p)) 0 rl p v'); [rewrite Hrl; reflexivity | | exact Es].
    destruct c; [congruence | cbn [length]; lia].
  - reflexivity.
  - exact Hne.
  - split; [exact Et | split; [apply trim_end_text; assumption | split; [exact Hcne|]]].
    apply no_lf_lf_last, text_line_no_lf, Hline.
Qed.

Lemma text_final c T used cc nx phs raws lnb rl p n :
  inner_text c = true -> ends_nonspace c -> after_value T used cc nx -> at_ bs p (c ++ T) ->
  is_line_start rl = false -> acc phs raws -> Forall raw_ne raws -> 2 * cc + 4 <= n ->
  completes n (st_of phs lnb (Some B) rl) p (used + (length c + p)) (stream_raws raws ++ map inl c).
Proof.
  intros Hc Hlast HT H Hrl Hacc Hne Hn.
  apply (text_final_g c T used cc nx phs raws lnb (Some B) rl p n Hc Hlast HT H Hrl Hacc Hne (or_introl eq_refl) Hn).
Qed.

Lemma ml_line_inner l : ml_line l = true -> l <> [] -> inner_text l = true.
Proof.
  unfold ml_line. intros H Hne. apply andb_prop in H as [H1 H2]. destruct l as [|b t]; [congruence|].
  cbn [inner_text]. cbn in H2. rewrite H1, H2. reflexivity.
Qed.

(* the last text of the pattern on a line of its own *)
Lemma ls_text_final l T used cc nx phs raws lnb ci p n :
  ml_line l = true -> is_blank_line l = false -> line_start_ok l = true -> ends_nonspace l ->
  after_value T used cc nx -> at_ bs p (sp B ++ l ++ T) ->
  ci_min ci (B + leading_spaces l) = Some B ->
  acc phs raws -> Forall raw_ne raws -> 2 * cc + 4 <= n ->
  completes n (st_of phs lnb ci LineStart) p (used + (length (sp B ++ l) + p)) (stream_raws raws ++ map inl l).
Proof.
  intros Hml Hnb Hok Hlast HT H Hci Hacc Hne Hn.
  destruct (cont_line_facts l Hml Hnb Hok) as (b & t & El & H32 & Hcont & Htl & Hline & Hsc & Hlen).
  set (own := leading_spaces l) in *.
  assert (Hl1 : l <> []) by (destruct l; [discriminate Hnb | discriminate]).
  assert (Hp : at_ bs p (sp (B + own) ++ (b :: t) ++ T)).
  { assert (E : sp B ++ l ++ T = sp (B + own) ++ (b :: t) ++ T).
    { rewrite El at 1. rewrite <- sp_add, <- !app_assoc. reflexivity. }
    rewrite <- E. exact H. }
  assert (Hq : at_ bs (B + own + p) ((b :: t) ++ T)) by (apply at_app in Hp; rewrite sp_length in Hp; exact Hp).
  assert (HB' : at_ bs (B + p) (l ++ T)) by (apply at_app in H; rewrite sp_length in H; exact H).
  assert (Hqe : length (b :: t) + (B + own + p) = length l + (B + p)) by lia.
  destruct (after_value_line_tail T used cc nx HT) as (term & eo & po & R & Hlt).
  destruct (get_text_slice_line bs (B + own + p) (b :: t) T term eo po R Hq Htl Hlt) as [Hts _].
  replace (is_nonblank (b :: t)) with true in Hts by (cbn [is_nonblank existsb]; unfold c_sp; rewrite H32; reflexivity).
  destruct n as [|n]; [lia|].
  destruct (after_line bs T used cc nx term eo po R
                       (PHText p (eo + (length (b :: t) + (B + own + p))) (B + own) LineStart :: phs) (S (length phs))
                       (Some (length phs)) (Some B) (length (b :: t) + (B + own + p)) n HT Hlt
                       (at_app bs _ (b :: t) _ Hq) ltac:(lia))
    as (extra & ne' & role' & E).
  destruct (last_text_slice bs l T used cc nx term eo po R (B + p) (ml_line_inner l Hml Hl1) Hlast HT Hlt HB') as [v' [Es Et]].
  assert (Hpos : used + (length (sp B ++ l) + p) = used + (length (b :: t) + (B + own + p))).
  { rewrite app_length, sp_length. lia. }
  rewrite Hpos.
  apply (final_from_acc (S n) _ p _ extra (PHText p (eo + (length (b :: t) + (B + own + p))) (B + own) LineStart :: phs)
                        raws (RText v') l ne' (length phs) role').
  - unfold st_of. rewrite (step_ls_text own b t T term eo po phs (length phs) lnb ci p n H32 Hcont Hp Hts).
    rewrite Hci. exact E.
  - apply acc_push; [exact Hacc|].
    apply (fin_gen_text _ p (eo + (length (b :: t) + (B + own + p))) (B + own) LineStart (B + p) v').
    + cbn [is_line_start]. rewrite Nat.min_r by lia. lia.
    + cbn [length]. lia.
    + rewrite Hqe. exact Es.
  - reflexivity.
  - exact Hne.
  - split; [exact Et | split; [apply trim_end_text; assumption | split; [exact Hl1|]]].
    apply no_lf_lf_last, text_line_no_lf. assumption.
Qed.

(* the pattern ends with a placeable *)
Lemma nil_final_g T used cc nx phs raws0 e lnb ci rl p n :
  after_value T used cc nx -> at_ bs p T -> is_line_start rl = false ->
  acc phs (raws0 ++ [Some (RPlace e)]) -> Forall raw_ne raws0 -> egood e -> ci_end_ok ci phs -> lnb = Some (length phs - 1) -> 2 * cc + 4 <= n ->
  completes n (st_of phs lnb ci rl) p (used + p) (stream_raws (raws0 ++ [Some (RPlace e)])).
Proof.
  intros HT H Hrl Hacc Hne Hge Hcie Hlnb Hn.
  destruct (after_placeable bs T used cc nx phs (length phs) lnb ci rl p n HT Hrl H Hn) as (extra & ne' & role' & E).
  assert (Hlen : 1 <= length phs).
  { pose proof (acc_length _ _ Hacc) as HL. rewrite app_length in HL. cbn [length] in HL. lia. }
  rewrite stream_raws_app.
  replace (stream_raws [Some (RPlace e)]) with (stream_last (RPlace e) []) by reflexivity.
  apply (final_from_acc_g n _ p _ extra phs raws0 (RPlace e) [] ne' (length phs - 1) ci role').
  - unfold st_of. rewrite E, Hlnb. reflexivity.
  - exact Hcie.
  - exact Hacc.
  - lia.
  - exact Hne.
  - exact Hge.
Qed.

Lemma nil_final T used cc nx phs raws0 e lnb rl p n :
  after_value T used cc nx -> at_ bs p T -> is_line_start rl = false ->
  acc phs (raws0 ++ [Some (RPlace e)]) -> Forall raw_ne raws0 -> egood e -> lnb = Some (length phs - 1) -> 2 * cc + 4 <= n ->
  completes n (st_of phs lnb (Some B) rl) p (used + p) (stream_raws (raws0 ++ [Some (RPlace e)])).
Proof.
  intros HT H Hrl Hacc Hne Hge Hlnb Hn.
  apply (nil_final_g T used cc nx phs raws0 e lnb (Some B) rl p n HT H Hrl Hacc Hne Hge (or_introl eq_refl) Hlnb Hn).
Qed.


(* ---- the lines of a text element after its first line break ---- *)
Fixpoint jl (ls : list bytes) : bytes :=
  match ls with [] => [] | [l] => l | l :: r => l ++ 10%N :: jl r end.

Lemma eol_prefix_unique x y (a b : bytes) :
  is_eol_bytes x -> is_eol_bytes y -> x ++ a = y ++ b -> x = y /\ a = b.
Proof.
  intros [-> | ->] [-> | ->] H; unfold lf, crlf in *; cbn [app] in H; try discriminate H.
  - injection H as ->. auto.
  - injection H as ->. auto.
Qed.

Definition lead_ok (X : bytes) : Prop := starts_char X = true.

(* `after`: what comes after the text element.  Either a placeable follows (the text "continues") and the rest of
   the pattern is taken care of by K, or the text is the last element and T follows *)
Section Lines.
Variable cont : bool.
Variable Rest : bytes.
Variable pfin : nat.
Variable Srest : list (N + expression).
Variable HitR : Prop.
Variables (used cc : nat) (nx : bytes).
Hypothesis Hend :
  (cont = true /\ (exists rest', Rest = 123%N :: rest') /\
   forall phs' raws' lnb' ci' p' n',
     acc phs' raws' -> Forall raw_ne raws' -> ci_ge ci' -> (ci' = Some B \/ HitR) -> 1 <= length phs' ->
     at_ bs p' Rest -> 3 * length Rest + 8 <= n' ->
     completes n' (st_of phs' lnb' ci' Continuation) p' pfin (stream_raws raws' ++ Srest)) \/
  (cont = false /\ after_value Rest used cc nx /\ Srest = [] /\ (HitR -> False)).

Lemma rest_starts_char : starts_char Rest = true.
Proof.
  destruct Hend as [(_ & (r' & ->) & _) | (_ & HT & _)]; [reflexivity|].
  destruct HT as [|x c BL next Hx HBL Hstop]; [reflexivity|].
  destruct Hx as [-> | ->]; reflexivity.
Qed.

Lemma sp_starts s X : starts_char X = true -> starts_char (sp s ++ X) = true.
Proof. destruct s; [exact (fun H => H) | reflexivity]. Qed.

Lemma cont_layout_starts ls TL : cont_layout B cont ls TL -> starts_char (TL ++ Rest) = true.
Proof.
  intros [| l r x s TLr _ Hx _ | l r x TLr _ Hx _]; [apply rest_starts_char | |];
    destruct Hx as [-> | ->]; reflexivity.
Qed.

Lemma cont_layout_cons l r TL : cont_layout B cont (l :: r) TL ->
  exists x body, TL = x ++ body /\ is_eol_bytes x /\ starts_char (body ++ Rest) = true.
Proof.
  intros H. inversion H as [| l' r' x s TLr _ Hx HCr | l' r' x TLr _ Hx HCr]; subst.
  - exists x, (sp s ++ TLr). split; [reflexivity | split; [exact Hx|]].
    rewrite <- app_assoc. apply sp_starts, (cont_layout_starts r TLr HCr).
  - exists x, (sp B ++ l ++ TLr). split; [reflexivity | split; [exact Hx|]].
    destruct B; [lia | reflexivity].
Qed.

Lemma completes_k k n st p n' st' p' S :
  k <= n -> (forall m, reach (k + m) st p m st' p') -> n' = n - k -> completes n' st' p' pfin S -> completes n st p pfin S.
Proof.
  intros Hk Hr -> Hc. replace n with (k + (n - k)) by lia. apply (completes_reach _ _ _ _ _ _ _ _ (Hr (n - k)) Hc).
Qed.

Lemma completes_stream n st p S S' : S = S' -> completes n st p pfin S' -> completes n st p pfin S.
Proof. intros ->. exact (fun H => H). Qed.

Lemma lines_complete ls TL : cont_layout B cont ls TL -> forall x body, TL = x ++ body -> is_eol_bytes x ->
  forall phs raws lnb ci p n,
  cont_lines_ok cont ls = true ->
  (cont = false -> ends_nonspace (last ls []) /\ is_blank_line (last ls []) = false) ->
  (cont = false -> pfin = used + (length body + p)) ->
  acc phs raws -> Forall raw_ne raws -> ci_ge ci ->
  (ci = Some B \/ existsb (Nat.eqb 0) (own_indents_lines cont ls) = true \/ HitR) ->
  at_ bs p (body ++ Rest) -> 3 * length (body ++ Rest) + 8 <= n ->
  completes n (st_of phs lnb ci LineStart) p pfin (stream_raws raws ++ map inl (jl ls) ++ Srest).
Proof.
  induction 1 as [| l r x0 s TLr Hbl Hx0 HCr IH | l r x0 TLr Hbl Hx0 HCr IH];
    intros x body ETL Hx phs raws lnb ci p n Hok Hlast Hpfin Hacc Hne Hci Hhit H Hn.
  - (* no line: impossible, TL = x ++ body is not empty *)
    destruct Hx as [-> | ->]; discriminate ETL.
  - (* a blank line that does not lead a placeable: it is followed by another line *)
    destruct (eol_prefix_unique _ _ _ _ Hx0 Hx ETL) as [<- <-]. clear ETL.
    apply andb_prop in Hbl as [Hblank Hnl].
    destruct r as [|l2 r2].
    { cbn [negb andb] in Hnl. destruct cont; [discriminate Hnl|].
      destruct (Hlast eq_refl) as [_ Hnb]. cbn [last] in Hnb. congruence. }
    assert (Hl : l = []).
    { cbn [cont_lines_ok] in Hok. apply andb_prop in Hok as [Hl _]. unfold cont_line_ok in Hl.
      apply andb_prop in Hl as [_ Hl]. rewrite Hblank in Hl. cbn [orb] in Hl. destruct l; [reflexivity | discriminate Hl]. }
    subst l.
    destruct (cont_layout_cons l2 r2 TLr HCr) as (x2 & body2 & -> & Hx2 & Hsc2).
    assert (H' : at_ bs p (sp s ++ x2 ++ body2 ++ Rest)) by (rewrite <- !app_assoc in H; exact H).
    destruct (blank_eol_reach s x2 (body2 ++ Rest) phs raws lnb ci p Hx2 H' Hsc2 Hacc) as (k & phs' & Hk & Hacc' & Hreach).
    assert (Hlenx : 1 <= length x2) by (destruct Hx2 as [-> | ->]; cbn; nlia).
    rewrite !app_length, sp_length in Hn.
    apply (completes_k k n _ p (n - k) _ _ _ ltac:(nlia) Hreach eq_refl).
    apply (completes_stream _ _ _ _ (stream_raws (raws ++ [Some (RText [10%N])]) ++ map inl (jl (l2 :: r2)) ++ Srest));
      [rewrite stream_raws_app, <- app_assoc; reflexivity|].
    apply (IH x2 body2 eq_refl Hx2 phs' _ lnb ci).
    + cbn [cont_lines_ok] in Hok. apply andb_prop in Hok as [_ Hok]. exact Hok.
    + intros Hc. apply (Hlast Hc).
    + intros Hc. rewrite (Hpfin Hc). rewrite !app_length, sp_length. nlia.
    + exact Hacc'.
    + apply Forall_app. split; [exact Hne | constructor; [first [exact raw_ne_lf | exact Logic.I] | constructor]].
    + exact Hci.
    + exact Hhit.
    + replace (length (sp s ++ x2) + p) with (length x2 + (s + p)) by (rewrite app_length, sp_length; nlia).
      apply at_app in H'. rewrite sp_length in H'. apply at_app in H'. exact H'.
    + rewrite app_length. nlia.
  - (* a line that is printed *)
    destruct (eol_prefix_unique _ _ _ _ Hx0 Hx ETL) as [<- <-]. clear ETL.
    assert (HB1 : length (sp B) = B) by apply sp_length.
    destruct r as [|l2 r2].
    + (* the last line of the text element *)
      inversion HCr; subst. rewrite app_nil_r in *.
      cbn [cont_lines_ok] in Hok. unfold cont_line_ok in Hok. apply andb_prop in Hok as [Hml Hshape].
      cbn [jl own_indents_lines last] in *.
      assert (H' : at_ bs p (sp B ++ l ++ Rest)) by (rewrite <- !app_assoc in H; exact H).
      rewrite !app_length, sp_length in Hn.
      destruct Hend as [(Hcont & (rest' & ERest) & K) | (Hcont & HT & HSrest & HnoR)].
      * (* a placeable follows *)
        rewrite Hcont in *. destruct n as [|n]; [nlia|].
        destruct (is_blank_line l) eqn:Eblank.
        -- (* the line is its indentation only *)
           pose proof (blank_all_spaces l Eblank) as El.
           assert (H'' : at_ bs p (sp B ++ sp (length l) ++ 123%N :: rest')) by (rewrite <- El, <- ERest; exact H').
           destruct (ls_indent_reach (length l) rest' phs raws lnb ci p n H'' Hacc) as [Hr Hacc'].
           apply (completes_reach _ _ _ _ _ _ _ _ Hr).
           apply (completes_stream _ _ _ _
                    (stream_raws (raws ++ [match length l with 0 => None | S _ => Some (RText (sp (length l))) end]) ++ Srest)).
           { rewrite stream_raws_app, <- app_assoc. f_equal. f_equal. unfold stream_raws. cbn [flat_map]. rewrite app_nil_r.
             destruct (length l) as [|k0] eqn:E0; [apply length_zero_iff_nil in E0; subst l; reflexivity|].
             cbn [stream_raw]. rewrite <- El. reflexivity. }
           apply K.
           ++ exact Hacc'.
           ++ apply Forall_app. split; [exact Hne|]. constructor; [|constructor]. apply raw_ne_sp.
           ++ apply ci_min_ge; [exact Hci | nlia].
           ++ destruct Hhit as [-> | [Hex | HR]].
              ** left. apply ci_min_keep. nlia.
              ** left. cbn [existsb] in Hex. rewrite orb_false_r in Hex. apply Nat.eqb_eq in Hex. rewrite <- Hex, Nat.add_0_r.
                 apply ci_min_hit, Hci.
              ** right. exact HR.
           ++ cbn [length]. nlia.
           ++ rewrite ERest. apply at_app in H''. rewrite sp_length in H''. apply at_app in H''. rewrite sp_length in H''.
              replace (B + length l + p) with (length l + (B + p)) by nlia. exact H''.
           ++ nlia.
        -- (* text, then the placeable *)
           assert (H'' : at_ bs p (sp B ++ l ++ 123%N :: rest')) by (rewrite <- ERest; exact H').
           destruct (ls_text_place_reach l rest' phs raws lnb ci p n Hml Eblank Hshape H'' Hacc) as (Hr & Hacc' & Hrne).
           apply (completes_reach _ _ _ _ _ _ _ _ Hr).
           apply (completes_stream _ _ _ _ (stream_raws (raws ++ [Some (RText l)]) ++ Srest));
             [rewrite stream_raws_app, <- app_assoc; unfold stream_raws; cbn [flat_map stream_raw]; rewrite app_nil_r; reflexivity|].
           apply K.
           ++ exact Hacc'.
           ++ apply Forall_app. split; [exact Hne | constructor; [exact Hrne | constructor]].
           ++ apply ci_min_ge; [exact Hci | nlia].
           ++ destruct Hhit as [-> | [Hex | HR]].
              ** left. apply ci_min_keep. nlia.
              ** left. cbn [existsb] in Hex. rewrite orb_false_r in Hex. apply Nat.eqb_eq in Hex. rewrite <- Hex, Nat.add_0_r.
                 apply ci_min_hit, Hci.
              ** right. exact HR.
           ++ cbn [length]. nlia.
           ++ rewrite ERest. apply at_app in H''. rewrite sp_length in H''. apply at_app in H''. exact H''.
           ++ nlia.
      * (* the last line of the pattern *)
        rewrite Hcont in *. destruct (Hlast eq_refl) as [Hlastl Hnb].
        rewrite Hnb in Hshape. rewrite HSrest, app_nil_r.
        rewrite (Hpfin eq_refl). pose proof (after_value_cc _ _ _ _ HT) as Hcc.
        apply (ls_text_final l Rest used cc nx phs raws lnb ci p n Hml Hnb Hshape Hlastl HT H'); try assumption; [|nlia].
        destruct Hhit as [-> | [Hex | HR]].
        -- apply ci_min_keep. nlia.
        -- rewrite Hnb in Hex. cbn [existsb] in Hex. rewrite orb_false_r in Hex. apply Nat.eqb_eq in Hex.
           rewrite <- Hex, Nat.add_0_r. apply ci_min_hit, Hci.
        -- contradiction.
    + (* more lines follow: this one is not blank *)
      cbn [negb andb] in Hbl. rewrite andb_true_r in Hbl.
      cbn [cont_lines_ok] in Hok. apply andb_prop in Hok as [Hl Hok]. unfold cont_line_ok in Hl.
      apply andb_prop in Hl as [Hml Hshape]. rewrite Hbl in Hshape.
      destruct (cont_layout_cons l2 r2 TLr HCr) as (x2 & body2 & -> & Hx2 & Hsc2).
      assert (H' : at_ bs p (sp B ++ l ++ x2 ++ body2 ++ Rest)) by (rewrite <- !app_assoc in H; exact H).
      destruct (ls_text_eol_reach l x2 (body2 ++ Rest) phs raws lnb ci p Hml Hbl Hshape Hx2 H' Hsc2 Hacc)
        as (k & phs' & raws' & Hk & Hacc' & Hstr & Hrne & Hreach).
      assert (Hlenx : 1 <= length x2) by (destruct Hx2 as [-> | ->]; cbn; nlia).
      rewrite !app_length, sp_length in Hn.
      apply (completes_k k n _ p (n - k) _ _ _ ltac:(nlia) Hreach eq_refl).
      apply (completes_stream _ _ _ _ (stream_raws (raws ++ raws') ++ map inl (jl (l2 :: r2)) ++ Srest)).
      { rewrite stream_raws_app, Hstr, <- app_assoc. f_equal. rewrite app_assoc. f_equal.
        change (jl (l :: l2 :: r2)) with (l ++ 10%N :: jl (l2 :: r2)). rewrite !map_app. cbn [map]. rewrite <- app_assoc. reflexivity. }
      apply (IH x2 body2 eq_refl Hx2 phs' _ (Some (length phs)) (ci_min ci (B + leading_spaces l))).
      * exact Hok.
      * intros Hc. apply (Hlast Hc).
      * intros Hc. rewrite (Hpfin Hc). rewrite !app_length, sp_length. nlia.
      * exact Hacc'.
      * apply Forall_app. split; assumption.
      * apply ci_min_ge; [exact Hci | nlia].
      * change (own_indents_lines cont (l :: l2 :: r2))
          with ((if is_blank_line l then [] else [leading_spaces l]) ++ own_indents_lines cont (l2 :: r2)) in Hhit.
        rewrite Hbl in Hhit. cbn [app existsb] in Hhit.
        destruct Hhit as [-> | [Hex | HR]].
        -- left. apply ci_min_keep. nlia.
        -- apply orb_prop in Hex as [Hex | Hex].
           ++ left. apply Nat.eqb_eq in Hex. rewrite <- Hex, Nat.add_0_r. apply ci_min_hit, Hci.
           ++ right. left. exact Hex.
        -- right. right. exact HR.
      * replace (length (sp B ++ l ++ x2) + p) with (length x2 + (length l + (B + p))) by (rewrite !app_length, sp_length; nlia).
        apply at_app in H'. rewrite sp_length in H'. apply at_app in H'. apply at_app in H'. exact H'.
      * rewrite app_length. nlia.
Qed.

End Lines.


(* ---- the loop over the elements of a pattern ---- *)
Lemma split_lines_join v : forall cur l0 rest, split_lines v cur = l0 :: rest ->
  rev cur ++ v = l0 ++ match rest with [] => [] | _ => 10%N :: jl rest end.
Proof.
  induction v as [|b v IH]; intros cur l0 rest H; cbn [split_lines] in H.
  - injection H as <- <-. reflexivity.
  - destruct (N.eqb b 10) eqn:E.
    + apply N.eqb_eq in E. subst b. injection H as <- <-.
      destruct (lines_of_cons v) as (m0 & mrest & Em). unfold lines_of in Em.
      pose proof (IH [] m0 mrest Em) as IHv. cbn [rev app] in IHv. rewrite Em. f_equal. f_equal.
      rewrite IHv. destruct mrest; [rewrite app_nil_r; reflexivity | reflexivity].
    + specialize (IH (b :: cur) l0 rest H). cbn [rev] in IH. rewrite <- app_assoc in IH. exact IH.
Qed.

Lemma lines_of_join v l0 rest : lines_of v = l0 :: rest ->
  v = l0 ++ match rest with [] => [] | _ => 10%N :: jl rest end.
Proof. intros H. apply (split_lines_join v [] l0 rest H). Qed.

Fixpoint ends_ok (els : list pattern_element) : Prop :=
  match els with
  | [] => True
  | [TextElement v] => ends_nonspace (last (lines_of v) []) /\ is_blank_line (last (lines_of v) []) = false
  | _ :: r => ends_ok r
  end.

Lemma ml_elements_after_text r : ml_elements r true = true ->
  r = [] \/ exists e r', r = PlaceableElement e :: r' /\ eok e = true /\ ml_elements r' false = true.
Proof.
  destruct r as [|[v | e] r']; cbn [ml_elements]; intros H; try discriminate H; [left; reflexivity|].
  right. apply andb_prop in H as [Hi Hr]. exists e, r'. auto.
Qed.

Lemma line_layout_placeable_inv_ml e r L : ml_line_layout B (PlaceableElement e :: r) L ->
  exists b1 b2 X L2, L = 123%N :: b1 ++ X ++ b2 ++ 125%N :: L2 /\ all_blank b1 /\ all_blank b2 /\ etext e X /\
                     ml_line_layout B r L2.
Proof. intros H. inversion H; subst. eauto 10. Qed.

Lemma completes_k' k n st p n' st' p' pfin S :
  k <= n -> (forall m, reach (k + m) st p m st' p') -> n' = n - k -> completes n' st' p' pfin S -> completes n st p pfin S.
Proof.
  intros Hk Hr -> Hc. replace n with (k + (n - k)) by nlia. apply (completes_reach _ _ _ _ _ _ _ _ (Hr (n - k)) Hc).
Qed.

Lemma ml_loop els L : ml_line_layout B els L ->
  forall prev T used cc nx phs raws lnb ci rl p n,
  ml_elements els prev = true -> ends_ok els -> after_value T used cc nx -> is_line_start rl = false ->
  acc phs raws -> Forall raw_ne raws -> ci_ge ci ->
  (ci = Some B \/ existsb (Nat.eqb 0) (own_indents els) = true) ->
  (els = [] -> exists raws0 e, raws = raws0 ++ [Some (RPlace e)] /\ lnb = Some (length phs - 1)) ->
  at_ bs p (L ++ T) -> 3 * length (L ++ T) + 8 <= n ->
  completes n (st_of phs lnb ci rl) p (used + (length L + p)) (stream_raws raws ++ stream els).
Proof.
  induction 1 as [| v l0 rest r TL Lr Elines HTL HLr IH | e b1 b2 X r Lr Hb1 Hb2 HX HLr IH];
    intros prev T used cc nx phs raws lnb ci rl p n Hs Hends HT Hrl Hacc Hne Hci Hhit Hnil H Hn;
    pose proof (after_value_cc _ _ _ _ HT) as Hcc.
  - (* the pattern ended with a placeable *)
    destruct (Hnil eq_refl) as (raws0 & e & -> & Hlnb).
    assert (Hcib : ci = Some B) by (destruct Hhit as [Hh | Hh]; [exact Hh | discriminate Hh]). subst ci.
    cbn [app length Nat.add] in *. unfold stream. cbn [flat_map]. rewrite app_nil_r.
    apply Forall_app in Hne as [Hne0 Hne1]. pose proof (Forall_inv Hne1) as Hge. cbn [raw_ne] in Hge.
    apply (nil_final T used cc nx phs raws0 e lnb rl p n HT H Hrl Hacc Hne0 Hge Hlnb). nlia.
  - (* a text element *)
    cbn [ml_elements] in Hs. apply andb_prop in Hs as [Hs Hr]. apply andb_prop in Hs as [_ Hv].
    unfold ml_text in Hv. rewrite Elines in Hv. apply andb_prop in Hv as [Hv Hrest]. apply andb_prop in Hv as [Hvne Hl0].
    assert (Hvne' : v <> []) by (destruct v; [discriminate Hvne | discriminate]).
    pose proof (lines_of_join v l0 rest Elines) as Ev.
    set (cont := continues_after r) in *.
    set (Rest := Lr ++ T).
    set (pfin := used + (length (l0 ++ TL ++ Lr) + p)).
    assert (HRest : at_ bs (length (l0 ++ TL) + p) Rest).
    { unfold Rest. rewrite app_length. replace (length l0 + length TL + p) with (length TL + (length l0 + p)) by nlia.
      rewrite <- !app_assoc in H. apply at_app in H. apply at_app in H. exact H. }
    (* what follows the text *)
    assert (Hend :
      (cont = true /\ (exists rest', Rest = 123%N :: rest') /\
       forall phs' raws' lnb' ci' p' n',
         acc phs' raws' -> Forall raw_ne raws' -> ci_ge ci' ->
         (ci' = Some B \/ existsb (Nat.eqb 0) (own_indents r) = true) -> 1 <= length phs' ->
         at_ bs p' Rest -> 3 * length Rest + 8 <= n' ->
         completes n' (st_of phs' lnb' ci' Continuation) p' pfin (stream_raws raws' ++ stream r)) \/
      (cont = false /\ after_value Rest used cc nx /\ stream r = [] /\ (existsb (Nat.eqb 0) (own_indents r) = true -> False))).
    { destruct (ml_elements_after_text r Hr) as [-> | (i & r' & -> & Hi & Hr')].
      - right. inversion HLr; subst. unfold Rest. cbn [app]. repeat split; try assumption. discriminate.
      - left. split; [reflexivity|]. split.
        + destruct (line_layout_placeable_inv_ml i r' Lr HLr) as (c1 & c2 & X2 & L2 & -> & _). unfold Rest. eexists. reflexivity.
        + intros phs' raws' lnb' ci' p' n' Hacc' Hne' Hci' Hhit' Hlen' Hat' Hn'.
          assert (Hp' : p' = length (l0 ++ TL) + p).
          { pose proof (at_length _ _ _ Hat'). pose proof (at_length _ _ _ HRest). nlia. }
          subst p'.
          assert (Epf : pfin = used + (length Lr + (length (l0 ++ TL) + p))) by (unfold pfin; rewrite !app_length; nlia).
          rewrite Epf.
          apply (IH true T used cc nx phs' raws' lnb' ci' Continuation _ n' Hr Hends HT eq_refl Hacc' Hne' Hci' Hhit'
                    ltac:(discriminate) Hat' Hn'). }
    assert (Epfin : pfin = used + (length (l0 ++ TL ++ Lr) + p)) by reflexivity.
    clearbody pfin.
    assert (Hown : own_indents (TextElement v :: r) = own_indents_lines cont rest ++ own_indents r).
    { cbn [own_indents]. rewrite Elines. reflexivity. }
    rewrite Hown in Hhit. clear Hown.
    assert (Hstream : stream (TextElement v :: r) = map inl v ++ stream r) by reflexivity.
    rewrite Hstream. clear Hstream.
    assert (HL : at_ bs p (l0 ++ TL ++ Rest)).
    { unfold Rest. rewrite <- !app_assoc in H. exact H. }
    assert (HnL : 3 * (length l0 + length TL + length Rest) + 8 <= n).
    { unfold Rest. rewrite !app_length in Hn. rewrite !app_length. nlia. }
    assert (HccR : cc <= length Rest) by (unfold Rest; rewrite app_length; nlia).
    destruct rest as [|l1 rest'].
    + (* the text is one line *)
      inversion HTL; subst TL. cbn [app length] in *. rewrite app_nil_r in Ev. subst l0.
      assert (Hin : inner_text v = true) by (apply ml_line_inner; assumption).
      assert (Hlenv : 1 <= length v) by (destruct v; [congruence | cbn [length]; nlia]).
      rewrite Nat.add_0_r in HnL.
      destruct Hend as [(Hcont & (rest'' & ERest) & K) | (Hcont & HTR & HSr & HnoR)].
      * destruct n as [|n]; [nlia|]. rewrite ERest in HL.
        destruct (text_place_reach v rest'' phs raws lnb ci rl p n Hin HL Hrl Hacc) as (Hreach & Hacc' & Hrne).
        apply (completes_reach _ _ _ _ _ _ _ _ Hreach).
        apply (completes_stream pfin _ _ _ _ (stream_raws (raws ++ [Some (RText v)]) ++ stream r));
          [rewrite stream_raws_app, <- app_assoc; unfold stream_raws; cbn [flat_map stream_raw]; rewrite app_nil_r; reflexivity|].
        apply K.
        -- exact Hacc'.
        -- apply Forall_app. split; [exact Hne | constructor; [exact Hrne | constructor]].
        -- exact Hci.
        -- cbn [own_indents_lines app] in Hhit. exact Hhit.
        -- cbn [length]. nlia.
        -- rewrite app_nil_r in HRest. exact HRest.
        -- nlia.
      * assert (Er : r = []) by (destruct r; [reflexivity | discriminate Hcont]). subst r.
        inversion HLr; subst Lr. rewrite HSr, app_nil_r.
        assert (Hcib : ci = Some B).
        { destruct Hhit as [Hh | Hh]; [exact Hh|]. cbn [own_indents_lines own_indents app existsb] in Hh. discriminate Hh. }
        subst ci. cbn [ends_ok] in Hends. rewrite Elines in Hends. cbn [last] in Hends. destruct Hends as [Hlastv _].
        rewrite Epfin. rewrite !app_nil_r.
        apply (text_final v T used cc nx phs raws lnb rl p n Hin Hlastv HT HL Hrl Hacc Hne).
        unfold Rest in HnL. cbn [app] in HnL. nlia.
    + (* line breaks inside the text *)
      destruct (cont_layout_cons cont Rest pfin (stream r) _ used cc nx Hend l1 rest' TL HTL) as (x & body & ETL & Hx & Hscb).
      subst TL.
      assert (Hlenx : 1 <= length x) by (destruct Hx as [-> | ->]; cbn; nlia).
      assert (Hvs : map (@inl N expression) v = map inl l0 ++ [inl 10%N] ++ map inl (jl (l1 :: rest'))).
      { rewrite Ev, map_app. reflexivity. }
      rewrite Hvs. clear Hvs.
      (* the first line and its line end *)
      assert (Hfirst : exists k phs' raws' lnb',
                 k <= length x /\ acc phs' (raws ++ raws') /\ stream_raws raws' = map inl l0 ++ [inl 10%N] /\
                 Forall raw_ne raws' /\
                 forall m, reach (k + m) (st_of phs lnb ci rl) p m (st_of phs' lnb' ci LineStart) (length (l0 ++ x) + p)).
      { rewrite <- !app_assoc in HL.
        destruct l0 as [|y0 l0'].
        - cbn [app] in HL. destruct (eol_reach x (body ++ Rest) phs raws lnb ci rl p Hx HL Hscb Hrl Hacc)
            as (k & phs' & Hk & Hacc' & Hreach).
          exists k, phs', [Some (RText [10%N])], lnb. split; [exact Hk|]. split; [exact Hacc'|].
          split; [reflexivity|]. split; [constructor; [first [exact raw_ne_lf | exact Logic.I] | constructor]|]. exact Hreach.
        - assert (Hin : inner_text (y0 :: l0') = true) by (apply ml_line_inner; [exact Hl0 | discriminate]).
          destruct (text_eol_reach (y0 :: l0') x (body ++ Rest) phs raws lnb ci rl p Hin Hx HL Hscb Hrl Hacc)
            as (k & phs' & raws' & Hk & Hacc' & Hstr & Hrne & Hreach).
          exists k, phs', raws', (if is_nonblank (y0 :: l0') then Some (length phs) else lnb).
          split; [exact Hk|]. split; [exact Hacc'|]. split; [rewrite Hstr, map_app; reflexivity|]. split; assumption. }
      destruct Hfirst as (k & phs' & raws' & lnb' & Hk & Hacc' & Hstr & Hrne & Hreach).
      rewrite !app_length in HnL.
      apply (completes_k' k n _ p (n - k) _ _ pfin _ ltac:(nlia) Hreach eq_refl).
      apply (completes_stream pfin _ _ _ _ (stream_raws (raws ++ raws') ++ map inl (jl (l1 :: rest')) ++ stream r));
        [rewrite stream_raws_app, Hstr, <- !app_assoc; reflexivity|].
      apply (lines_complete cont Rest pfin (stream r) _ used cc nx Hend (l1 :: rest') (x ++ body) HTL x body eq_refl Hx
                            phs' (raws ++ raws') lnb' ci).
      * exact Hrest.
      * intros Hc. assert (Er : r = []) by (destruct r; [reflexivity | discriminate Hc]). subst r.
        cbn [ends_ok] in Hends. rewrite Elines in Hends. exact Hends.
      * intros Hc. assert (Er : r = []) by (destruct r; [reflexivity | discriminate Hc]). subst r.
        inversion HLr; subst Lr. rewrite Epfin. rewrite !app_length. cbn [length]. nlia.
      * exact Hacc'.
      * apply Forall_app. split; assumption.
      * exact Hci.
      * destruct Hhit as [Hh | Hh]; [left; exact Hh|]. rewrite existsb_app in Hh. apply orb_prop in Hh as [Hh | Hh]; auto.
      * replace (length (l0 ++ x) + p) with (length x + (length l0 + p)) by (rewrite app_length; nlia).
        rewrite <- !app_assoc in HL. apply at_app in HL. apply at_app in HL. exact HL.
      * rewrite app_length. nlia.
  - (* a placeable *)
    cbn [ml_elements] in Hs. apply andb_prop in Hs as [Hi Hr].
    destruct n as [|n]; [nlia|].
    assert (H' : at_ bs p (123%N :: b1 ++ X ++ b2 ++ 125%N :: Lr ++ T)).
    { cbn [app] in H. rewrite <- !app_assoc in H. cbn [app] in H. exact H. }
    assert (HlenL : length (123%N :: b1 ++ X ++ b2 ++ 125%N :: Lr) =
                    length (123%N :: b1 ++ X ++ b2 ++ [125%N]) + length Lr).
    { cbn [length]. rewrite !app_length. cbn [length]. nlia. }
    rewrite app_length, HlenL in Hn.
    destruct (placeable_reach e b1 b2 X (Lr ++ T) phs raws lnb ci rl p n Hrl Hi HX Hb1 Hb2 H'
                ltac:(cbn [length] in Hn; rewrite !app_length in Hn |- *; cbn [length] in Hn |- *; rewrite !app_length; nlia) Hacc)
      as (e' & Ej & Hg & Hreach & Hacc').
    apply (completes_reach _ _ _ _ _ _ _ _ Hreach).
    assert (H2 : at_ bs (length (123%N :: b1 ++ X ++ b2 ++ [125%N]) + p) (Lr ++ T)).
    { replace (123%N :: b1 ++ X ++ b2 ++ 125%N :: Lr ++ T)
        with ((123%N :: b1 ++ X ++ b2 ++ [125%N]) ++ Lr ++ T) in H'
        by (cbn [app]; rewrite <- !app_assoc; reflexivity).
      apply (at_app _ _ _ _ H'). }
    apply (completes_stream _ _ _ _ _ (stream_raws (raws ++ [Some (RPlace e')]) ++ stream r));
      [rewrite stream_raws_app, <- app_assoc; unfold stream, stream_raws; cbn [flat_map stream_raw stream_el app]; rewrite Ej; reflexivity|].
    replace (used + (length (123%N :: b1 ++ X ++ b2 ++ 125%N :: Lr) + p))
      with (used + (length Lr + (length (123%N :: b1 ++ X ++ b2 ++ [125%N]) + p))) by (rewrite HlenL; nlia).
    assert (Hends' : ends_ok r) by (destruct r; [exact Logic.I | exact Hends]).
    assert (Hne' : Forall raw_ne (raws ++ [Some (RPlace e')])).
    { apply Forall_app. split; [exact Hne | constructor; [exact Hg | constructor]]. }
    assert (Hnil' : r = [] -> exists raws0 e0, raws ++ [Some (RPlace e')] = raws0 ++ [Some (RPlace e0)] /\
                                 Some (length phs) = Some (length (PHPlaceable e' :: phs) - 1)).
    { intros _. exists raws, e'. split; [reflexivity|]. cbn [length]. f_equal. nlia. }
    assert (Hn' : 3 * length (Lr ++ T) + 8 <= n) by (rewrite app_length; cbn [length] in Hn; nlia).
    apply (IH false T used cc nx (PHPlaceable e' :: phs) (raws ++ [Some (RPlace e')]) (Some (length phs)) ci
              Continuation _ n Hr Hends' HT eq_refl Hacc' Hne' Hci Hhit Hnil' H2 Hn').
Qed.


(* ---- a block value: the first line stands at the start of a line ---- *)
Lemma ml_first_ok_nolf els : ml_first_ok els = true -> ml_first_nolf els = true /\ first_sp els = false.
Proof. rewrite ml_first_ok_split. intros H. apply andb_prop in H as [H1 H2]. apply negb_true_iff in H2. auto. Qed.

Lemma first_ok_line_ok els : ml_first_ok els = true -> first_byte_ok_for_block (Pattern els) = true -> first_line_ok els = true.
Proof.
  intros Hf Hok. destruct els as [|[v|e] r]; try reflexivity. cbn [first_line_ok].
  destruct (lines_of v) as [|l0 rest] eqn:El; [reflexivity|]. pose proof (lines_of_join v l0 rest El) as Ev.
  destruct v as [|b t].
  - destruct l0; [|discriminate Ev]. destruct rest; [reflexivity | discriminate Ev].
  - cbn [ml_first_ok] in Hf. apply andb_prop in Hf as [H32 H10]. apply negb_true_iff in H32, H10.
    destruct l0 as [|y l0'].
    { cbn [app] in Ev. destruct rest; [discriminate Ev|]. injection Ev as -> _. rewrite N.eqb_refl in H10. discriminate. }
    cbn [app] in Ev. injection Ev as <- _. cbn [is_blank_line forallb]. rewrite N.eqb_sym, H32. cbn [andb].
    unfold line_start_ok. cbn [leading_spaces]. rewrite H32. cbn [skipn]. exact Hok.
Qed.

Lemma ml_loop_block els L : ml_line_layout B els L ->
  forall T used cc nx p n,
  els <> [] -> ml_elements els false = true -> ends_ok els -> ml_first_nolf els = true -> first_line_ok els = true ->
  (first_sp els = false \/ existsb (Nat.eqb 0) (own_indents els) = true) ->
  after_value T used cc nx ->
  at_ bs p (sp B ++ L ++ T) -> 3 * length (sp B ++ L ++ T) + 9 <= n ->
  completes n (st_of [] None None LineStart) p (used + (length (sp B ++ L) + p)) (stream els).
Proof.
  intros HL T used cc nx p n Hne Hs Hends Hnolf Hlead Hhit0 HT H Hn. pose proof (after_value_cc _ _ _ _ HT) as Hcc.
  destruct HL as [| v l0 rest r TL Lr Elines HTL HLr | e b1 b2 X r Lr Hb1 Hb2 HX HLr]; [congruence| |].
  - (* the first element is a text: its first line is a line like the others; it may be indented beyond B *)
    cbn [ml_elements] in Hs. apply andb_prop in Hs as [Hs Hr]. apply andb_prop in Hs as [_ Hv].
    unfold ml_text in Hv. rewrite Elines in Hv. apply andb_prop in Hv as [Hv Hrest]. apply andb_prop in Hv as [Hvne Hl0].
    pose proof (lines_of_join v l0 rest Elines) as Ev.
    cbn [first_line_ok] in Hlead. rewrite Elines in Hlead.
    (* if the first line is not indented, the common indentation is found at once; else later *)
    assert (Hk0 : leading_spaces l0 = 0 \/ existsb (Nat.eqb 0) (own_indents (TextElement v :: r)) = true).
    { destruct Hhit0 as [Hsp | Hh]; [left | right; exact Hh].
      destruct v as [|b t]; [discriminate Hvne|]. cbn [first_sp] in Hsp. cbn [ml_first_nolf] in Hnolf. apply negb_true_iff in Hnolf.
      destruct l0 as [|y l0']; [|cbn [app] in Ev; injection Ev as -> _; cbn [leading_spaces]; rewrite Hsp; reflexivity].
      reflexivity. }
    set (cont := continues_after r) in *.
    set (Rest := Lr ++ T).
    set (pfin := used + (length (sp B ++ l0 ++ TL ++ Lr) + p)).
    assert (Epfin : pfin = used + (length (sp B ++ l0 ++ TL ++ Lr) + p)) by reflexivity.
    assert (HRest : at_ bs (length (sp B ++ l0 ++ TL) + p) Rest).
    { unfold Rest. rewrite !app_length.
      replace (length (sp B) + (length l0 + length TL) + p) with (length TL + (length l0 + (length (sp B) + p))) by nlia.
      rewrite <- !app_assoc in H. apply at_app in H. apply at_app in H. apply at_app in H. exact H. }
    assert (Hend :
      (cont = true /\ (exists rest', Rest = 123%N :: rest') /\
       forall phs' raws' lnb' ci' p' n',
         acc phs' raws' -> Forall raw_ne raws' -> ci_ge ci' ->
         (ci' = Some B \/ existsb (Nat.eqb 0) (own_indents r) = true) -> 1 <= length phs' ->
         at_ bs p' Rest -> 3 * length Rest + 8 <= n' ->
         completes n' (st_of phs' lnb' ci' Continuation) p' pfin (stream_raws raws' ++ stream r)) \/
      (cont = false /\ after_value Rest used cc nx /\ stream r = [] /\ (existsb (Nat.eqb 0) (own_indents r) = true -> False))).
    { destruct (ml_elements_after_text r Hr) as [-> | (i & r' & -> & Hi & Hr')].
      - right. inversion HLr; subst. unfold Rest. cbn [app]. repeat split; try assumption. discriminate.
      - left. split; [reflexivity|]. split.
        + destruct (line_layout_placeable_inv_ml i r' Lr HLr) as (c1 & c2 & X2 & L2 & -> & _). unfold Rest. eexists. reflexivity.
        + intros phs' raws' lnb' ci' p' n' Hacc' Hne' Hci' Hhit' Hlen' Hat' Hn'.
          assert (Hp' : p' = length (sp B ++ l0 ++ TL) + p).
          { pose proof (at_length _ _ _ Hat'). pose proof (at_length _ _ _ HRest). nlia. }
          subst p'.
          assert (Epf : pfin = used + (length Lr + (length (sp B ++ l0 ++ TL) + p))) by (unfold pfin; rewrite !app_length; nlia).
          rewrite Epf.
          apply (ml_loop _ _ HLr true T used cc nx phs' raws' lnb' ci' Continuation _ n' Hr Hends HT eq_refl Hacc' Hne' Hci' Hhit'
                    ltac:(discriminate) Hat' Hn'). }
    clearbody pfin.
    replace (used + (length (sp B ++ (l0 ++ TL ++ Lr)) + p)) with pfin by (rewrite Epfin; reflexivity).
    assert (Hstream : stream (TextElement v :: r) = map inl v ++ stream r) by reflexivity.
    rewrite Hstream. clear Hstream.
    assert (HL : at_ bs p (sp B ++ l0 ++ TL ++ Rest)).
    { unfold Rest. rewrite <- !app_assoc in H. exact H. }
    assert (HnL : 3 * (B + length l0 + length TL + length Rest) + 9 <= n).
    { unfold Rest. rewrite !app_length, sp_length in Hn. rewrite !app_length. nlia. }
    assert (HccR : cc <= length Rest) by (unfold Rest; rewrite app_length; nlia).
    assert (Hacc0 : acc [] []) by constructor.
    assert (Hci0 : ci_min None (B + leading_spaces l0) = Some (B + leading_spaces l0)) by reflexivity.
    assert (Hge0 : ci_ge (Some (B + leading_spaces l0))) by (cbn [ci_ge]; nlia).
    destruct rest as [|l1 rest'].
    + inversion HTL; subst TL. cbn [app length] in *. rewrite app_nil_r in Ev. subst l0.
      assert (Hown : own_indents (TextElement v :: r) = own_indents r).
      { cbn [own_indents]. rewrite Elines. reflexivity. }
      rewrite Hown in Hk0.
      destruct Hend as [(Hcont & (rest'' & ERest) & K) | (Hcont & HTR & HSr & HnoR)].
      * destruct n as [|n]; [nlia|]. rewrite ERest in HL.
        destruct (is_blank_line v) eqn:Eblank.
        -- (* the text is the indentation of the placeable *)
           pose proof (blank_all_spaces v Eblank) as El.
           assert (H'' : at_ bs p (sp B ++ sp (length v) ++ 123%N :: rest'')) by (rewrite <- El; exact HL).
           destruct (ls_indent_reach (length v) rest'' [] [] None None p n H'' Hacc0) as [Hreach Hacc'].
           apply (completes_reach _ _ _ _ _ _ _ _ Hreach).
           assert (Hlenv : 1 <= length v) by (destruct v; [discriminate Hvne | cbn [length]; nlia]).
           apply (completes_stream pfin _ _ _ _
                    (stream_raws ([] ++ [match length v with 0 => None | S _ => Some (RText (sp (length v))) end]) ++ stream r)).
           { unfold stream_raws. cbn [app flat_map]. rewrite app_nil_r. destruct (length v) as [|k0] eqn:E0; [nlia|].
             cbn [stream_raw]. rewrite <- El. reflexivity. }
           apply K.
           ++ exact Hacc'.
           ++ constructor; [apply raw_ne_sp | constructor].
           ++ cbn [ci_min ci_ge]. nlia.
           ++ right. destruct Hk0 as [Hk0 | Hk0]; [|exact Hk0]. exfalso. rewrite El in Hk0.
              destruct (length v); [nlia|]. cbn [sp repeat leading_spaces] in Hk0. rewrite N.eqb_refl in Hk0. discriminate Hk0.
           ++ cbn [length]. nlia.
           ++ apply at_app in H''. rewrite sp_length in H''. apply at_app in H''. rewrite sp_length in H''.
              rewrite ERest.
              replace (B + length v + p) with (length v + (B + p)) by nlia. exact H''.
           ++ nlia.
        -- destruct (ls_text_place_reach v rest'' [] [] None None p n Hl0 Eblank Hlead HL Hacc0) as (Hreach & Hacc' & Hrne).
           apply (completes_reach _ _ _ _ _ _ _ _ Hreach).
           apply (completes_stream pfin _ _ _ _ (stream_raws ([] ++ [Some (RText v)]) ++ stream r));
             [unfold stream_raws; cbn [app flat_map stream_raw]; rewrite app_nil_r; reflexivity|].
           apply K.
           ++ exact Hacc'.
           ++ constructor; [exact Hrne | constructor].
           ++ rewrite Hci0. exact Hge0.
           ++ destruct Hk0 as [Hk0 | Hk0]; [left; rewrite Hci0, Hk0, Nat.add_0_r; reflexivity | right; exact Hk0].
           ++ cbn [length]. nlia.
           ++ rewrite app_nil_r in HRest.
              replace (length v + (B + p)) with (length (sp B ++ v) + p) by (rewrite app_length, sp_length; nlia). exact HRest.
           ++ nlia.
      * assert (Er : r = []) by (destruct r; [reflexivity | discriminate Hcont]). subst r.
        inversion HLr; subst Lr. rewrite HSr, app_nil_r.
        cbn [ends_ok] in Hends. rewrite Elines in Hends. cbn [last] in Hends. destruct Hends as [Hlastv Hnbv].
        assert (Hls0 : leading_spaces v = 0) by (destruct Hk0 as [Hk0 | Hk0]; [exact Hk0 | discriminate Hk0]).
        assert (Hnb0 : is_blank_line v = false).
        { destruct (is_blank_line v) eqn:Eb; [|reflexivity]. exfalso. pose proof (blank_all_spaces v Eb) as El. rewrite El in Hls0.
          destruct v as [|b0 t0]; [discriminate Hvne|]. cbn [length sp repeat leading_spaces] in Hls0. rewrite N.eqb_refl in Hls0. discriminate Hls0. }
        rewrite Hnb0 in Hlead.
        rewrite Epfin. rewrite !app_nil_r.
        assert (Hc := ls_text_final v T used cc nx [] [] None None p n Hl0 Hnb0 Hlead Hlastv HT).
        unfold Rest in HL, HnL. cbn [app] in HL, HnL.
        specialize (Hc HL ltac:(rewrite Hci0, Hls0, Nat.add_0_r; reflexivity) Hacc0 (Forall_nil _) ltac:(nlia)). exact Hc.
    + (* several lines: the first is not blank *)
      assert (Hnb0 : is_blank_line l0 = false) by (destruct (is_blank_line l0); [discriminate Hlead | reflexivity]).
      rewrite Hnb0 in Hlead.
      destruct (cont_layout_cons cont Rest pfin (stream r) _ used cc nx Hend l1 rest' TL HTL) as (x & body & ETL & Hx & Hscb).
      subst TL.
      assert (Hlenx : 1 <= length x) by (destruct Hx as [-> | ->]; cbn; nlia).
      assert (Hvs : map (@inl N expression) v = map inl l0 ++ [inl 10%N] ++ map inl (jl (l1 :: rest'))).
      { rewrite Ev, map_app. reflexivity. }
      rewrite Hvs. clear Hvs.
      rewrite <- !app_assoc in HL.
      destruct (ls_text_eol_reach l0 x (body ++ Rest) [] [] None None p Hl0 Hnb0 Hlead Hx HL Hscb Hacc0)
        as (k & phs' & raws' & Hk & Hacc' & Hstr & Hrne & Hreach).
      rewrite !app_length in HnL.
      apply (completes_k' k n _ p (n - k) _ _ pfin _ ltac:(nlia) Hreach eq_refl).
      apply (completes_stream pfin _ _ _ _ (stream_raws ([] ++ raws') ++ map inl (jl (l1 :: rest')) ++ stream r));
        [cbn [app]; rewrite Hstr, map_app, <- !app_assoc; reflexivity|].
      rewrite Hci0.
      apply (lines_complete cont Rest pfin (stream r) _ used cc nx Hend (l1 :: rest') (x ++ body) HTL x body eq_refl Hx
                            phs' ([] ++ raws') (Some (length (@nil placeholder))) (Some (B + leading_spaces l0))).
      * exact Hrest.
      * intros Hc. assert (Er : r = []) by (destruct r; [reflexivity | discriminate Hc]). subst r.
        cbn [ends_ok] in Hends. rewrite Elines in Hends. exact Hends.
      * intros Hc. assert (Er : r = []) by (destruct r; [reflexivity | discriminate Hc]). subst r.
        inversion HLr; subst Lr. rewrite Epfin. rewrite !app_length, sp_length. cbn [length]. nlia.
      * exact Hacc'.
      * exact Hrne.
      * exact Hge0.
      * destruct Hk0 as [Hk0 | Hk0]; [left; rewrite Hk0, Nat.add_0_r; reflexivity|].
        cbn [own_indents] in Hk0. rewrite Elines in Hk0. cbn [tl] in Hk0. fold cont in Hk0.
        rewrite existsb_app in Hk0. apply orb_prop in Hk0 as [Hk0 | Hk0]; [right; left; exact Hk0 | right; right; exact Hk0].
      * replace (length (sp B ++ l0 ++ x) + p) with (length x + (length l0 + (length (sp B) + p))) by (rewrite !app_length; nlia).
        apply at_app in HL. apply at_app in HL. apply at_app in HL. exact HL.
      * rewrite app_length. nlia.
  - (* the first element is a placeable: the indentation finishes to nothing *)
    destruct n as [|n]; [nlia|].
    assert (H' : at_ bs p (sp B ++ sp 0 ++ 123%N :: (b1 ++ X ++ b2 ++ 125%N :: Lr) ++ T)) by exact H.
    destruct (ls_indent_reach 0 _ [] [] None None p n H' acc_nil) as [Hreach Hacc'].
    apply (completes_reach _ _ _ _ _ _ _ _ Hreach).
    assert (HL' : ml_line_layout B (PlaceableElement e :: r) (123%N :: b1 ++ X ++ b2 ++ 125%N :: Lr))
      by (constructor; assumption).
    rewrite Nat.add_0_r in *.
    replace (used + (length (sp B ++ 123%N :: b1 ++ X ++ b2 ++ 125%N :: Lr) + p))
      with (used + (length (123%N :: b1 ++ X ++ b2 ++ 125%N :: Lr) + (B + p)))
      by (rewrite (app_length (sp B)), sp_length; nlia).
    apply (ml_loop _ _ HL' false T used cc nx _ ([] ++ [None]) None (ci_min None B) Continuation (B + p) n Hs Hends HT eq_refl Hacc').
    + constructor; [first [exact raw_ne_lf | exact Logic.I] | constructor].
    + cbn. nlia.
    + left. reflexivity.
    + discriminate.
    + apply at_app in H. rewrite sp_length in H. exact H.
    + rewrite (app_length (sp B)), sp_length in Hn. nlia.
Qed.

(* ---- a value without a line break, on the line of the "=": no text placeholder at a line start, so the
        common indent stays undetermined ---- *)
Lemma ol_loop els L : ml_line_layout B els L -> has_lf els = false ->
  forall prev T used cc nx phs raws lnb rl p n,
  ml_elements els prev = true -> ends_ok els -> after_value T used cc nx -> is_line_start rl = false ->
  acc phs raws -> Forall raw_ne raws -> Forall ph_nls phs ->
  (els = [] -> exists raws0 e, raws = raws0 ++ [Some (RPlace e)] /\ lnb = Some (length phs - 1)) ->
  at_ bs p (L ++ T) -> 3 * length (L ++ T) + 8 <= n ->
  completes n (st_of phs lnb None rl) p (used + (length L + p)) (stream_raws raws ++ stream els).
Proof.
  induction 1 as [| v l0 rest r TL Lr Elines HTL HLr IH | e b1 b2 X r Lr Hb1 Hb2 HX HLr IH];
    intros Hno prev T used cc nx phs raws lnb rl p n Hs Hends HT Hrl Hacc Hne Hnls Hnil H Hn;
    pose proof (after_value_cc _ _ _ _ HT) as Hcc.
  - destruct (Hnil eq_refl) as (raws0 & e & -> & Hlnb).
    cbn [app length Nat.add] in *. unfold stream. cbn [flat_map]. rewrite app_nil_r.
    apply Forall_app in Hne as [Hne0 Hne1]. pose proof (Forall_inv Hne1) as Hge. cbn [raw_ne] in Hge.
    apply (nil_final_g T used cc nx phs raws0 e lnb None rl p n HT H Hrl Hacc Hne0 Hge); [right; split; [reflexivity | exact Hnls] | exact Hlnb | nlia].
  - cbn [has_lf existsb] in Hno. apply orb_false_elim in Hno as [Hno1 Hno2].
    assert (El : lines_of v = [v]) by (unfold lines_of; rewrite (no_lf_lines_of v [] Hno1); reflexivity).
    rewrite El in Elines. injection Elines as <- <-. inversion HTL; subst TL. cbn [app] in *.
    cbn [ml_elements] in Hs. apply andb_prop in Hs as [Hs Hr]. apply andb_prop in Hs as [_ Hv].
    unfold ml_text in Hv. rewrite El in Hv. apply andb_prop in Hv as [Hv _]. apply andb_prop in Hv as [Hvne Hml].
    assert (Hvne' : v <> []) by (destruct v; [discriminate Hvne | discriminate]).
    assert (Hin : inner_text v = true) by (apply ml_line_inner; assumption).
    assert (Hstream : stream (TextElement v :: r) = map inl v ++ stream r) by reflexivity.
    rewrite Hstream. clear Hstream.
    destruct (ml_elements_after_text r Hr) as [-> | (e & r' & -> & He & Hr')].
    + inversion HLr; subst Lr. rewrite !app_nil_r in *. cbn [ends_ok] in Hends. rewrite El in Hends. cbn [last] in Hends.
      destruct Hends as [Hlastv _]. unfold stream. cbn [flat_map]. rewrite ?app_nil_r. rewrite app_length in Hn.
      apply (text_final_g v T used cc nx phs raws lnb None rl p n Hin Hlastv HT H Hrl Hacc Hne); [right; split; [reflexivity | exact Hnls] | nlia].
    + destruct (line_layout_placeable_inv_ml e r' Lr HLr) as (c1 & c2 & X2 & L2 & -> & _).
      destruct n as [|n]; [nlia|]. rewrite <- app_assoc in H.
      destruct (text_place_reach v _ phs raws lnb None rl p n Hin H Hrl Hacc) as (Hreach & Hacc' & Hrne).
      apply (completes_reach _ _ _ _ _ _ _ _ Hreach).
      apply (completes_stream _ _ _ _ _ (stream_raws (raws ++ [Some (RText v)]) ++ stream (PlaceableElement e :: r')));
        [rewrite stream_raws_app, <- app_assoc; unfold stream_raws; cbn [flat_map stream_raw]; rewrite app_nil_r; reflexivity|].
      replace (used + (length (v ++ 123%N :: c1 ++ X2 ++ c2 ++ 125%N :: L2) + p))
        with (used + (length (123%N :: c1 ++ X2 ++ c2 ++ 125%N :: L2) + (length v + p))) by (rewrite app_length; nlia).
      apply (IH Hno2 true T used cc nx _ _ _ Continuation _ n Hr Hends HT eq_refl Hacc').
      * apply Forall_app. split; [exact Hne | constructor; [exact Hrne | constructor]].
      * constructor; [exact Hrl | exact Hnls].
      * discriminate.
      * apply (at_app _ _ _ _ H).
      * assert (Hlenv : 1 <= length v) by (destruct v; [congruence | cbn [length]; nlia]).
        remember (123%N :: c1 ++ X2 ++ c2 ++ 125%N :: L2) as W. repeat rewrite app_length in Hn. repeat rewrite app_length. nlia.
  - cbn [has_lf existsb orb] in Hno.
    cbn [ml_elements] in Hs. apply andb_prop in Hs as [Hi Hr].
    destruct n as [|n]; [nlia|].
    assert (H' : at_ bs p (123%N :: b1 ++ X ++ b2 ++ 125%N :: Lr ++ T)).
    { cbn [app] in H. rewrite <- !app_assoc in H. cbn [app] in H. exact H. }
    assert (HlenL : length (123%N :: b1 ++ X ++ b2 ++ 125%N :: Lr) =
                    length (123%N :: b1 ++ X ++ b2 ++ [125%N]) + length Lr).
    { cbn [length]. rewrite !app_length. cbn [length]. nlia. }
    rewrite app_length, HlenL in Hn.
    destruct (placeable_reach e b1 b2 X (Lr ++ T) phs raws lnb None rl p n Hrl Hi HX Hb1 Hb2 H'
                ltac:(cbn [length] in Hn; rewrite !app_length in Hn |- *; cbn [length] in Hn |- *; rewrite !app_length; nlia) Hacc)
      as (e' & Ej & Hg & Hreach & Hacc').
    apply (completes_reach _ _ _ _ _ _ _ _ Hreach).
    assert (H2 : at_ bs (length (123%N :: b1 ++ X ++ b2 ++ [125%N]) + p) (Lr ++ T)).
    { replace (123%N :: b1 ++ X ++ b2 ++ 125%N :: Lr ++ T)
        with ((123%N :: b1 ++ X ++ b2 ++ [125%N]) ++ Lr ++ T) in H'
        by (cbn [app]; rewrite <- !app_assoc; reflexivity).
      apply (at_app _ _ _ _ H'). }
    apply (completes_stream _ _ _ _ _ (stream_raws (raws ++ [Some (RPlace e')]) ++ stream r));
      [rewrite stream_raws_app, <- app_assoc; unfold stream, stream_raws; cbn [flat_map stream_raw stream_el app]; rewrite Ej; reflexivity|].
    replace (used + (length (123%N :: b1 ++ X ++ b2 ++ 125%N :: Lr) + p))
      with (used + (length Lr + (length (123%N :: b1 ++ X ++ b2 ++ [125%N]) + p))) by (rewrite HlenL; nlia).
    assert (Hends' : ends_ok r) by (destruct r; [exact Logic.I | exact Hends]).
    apply (IH Hno false T used cc nx (PHPlaceable e' :: phs) (raws ++ [Some (RPlace e')]) (Some (length phs))
              Continuation _ n Hr Hends' HT eq_refl Hacc').
    + apply Forall_app. split; [exact Hne | constructor; [exact Hg | constructor]].
    + constructor; [exact Logic.I | exact Hnls].
    + intros _. exists raws, e'. split; [reflexivity|]. cbn [length]. f_equal. nlia.
    + exact H2.
    + rewrite app_length. cbn [length] in Hn. nlia.
Qed.

End MLLoop.

(* ---------------------------------------------------------------------------------------------- *)
(* 3b. get_pattern on a layout of a multi-line value                                                *)

(* what the parser's elements have to do with the printed ones: they join to them (EntryLoop.jrel) *)

Lemma ml_pattern_parts els : ml_pattern (Pattern els) = true ->
  els <> [] /\ ml_elements els false = true /\ ml_first_ok els = true /\ ml_last_ok els = true /\
  (has_lf els = false \/ existsb (Nat.eqb 0) (own_indents els) = true).
Proof.
  unfold ml_pattern. intros H. apply andb_prop in H as [H H5]. apply andb_prop in H as [H H4].
  apply andb_prop in H as [H H3]. apply andb_prop in H as [H1 H2].
  split; [destruct els; [discriminate H1 | discriminate]|]. repeat split; try assumption.
  apply orb_prop in H5 as [H5 | H5]; [left; apply negb_true_iff, H5 | right; exact H5].
Qed.

(* ---- patterns without a line break are the one-line patterns of RoundTrip.v ---- *)
Lemma lines_of_no_lf v : existsb (N.eqb 10) v = false -> lines_of v = [v].
Proof. intros H. unfold lines_of. rewrite (no_lf_lines_of v [] H). reflexivity. Qed.

Lemma ml_text_no_lf c v : ml_text c v = true -> existsb (N.eqb 10) v = false -> inner_text v = true.
Proof.
  unfold ml_text. intros H Hno. rewrite (lines_of_no_lf v Hno) in H. apply andb_prop in H as [H _].
  apply andb_prop in H as [Hne Hl]. apply ml_line_inner; [exact Hl|]. destruct v; [discriminate Hne | discriminate].
Qed.

(* ---- the end of the last line ---- *)
Lemma split_lines_ne v cur : split_lines v cur <> [].
Proof. revert cur. induction v as [|b v IH]; intros cur; cbn [split_lines]; [discriminate|]. destruct (N.eqb b 10); [discriminate | apply IH]. Qed.

Lemma split_lines_last v : forall cur, exists pre,
  rev cur ++ v = pre ++ last (split_lines v cur) [] /\ (pre = [] \/ exists pre', pre = pre' ++ [10%N]).
Proof.
  induction v as [|b v IH]; intros cur; cbn [split_lines].
  - exists []. cbn [last app]. split; [apply app_nil_r | left; reflexivity].
  - destruct (N.eqb b 10) eqn:E.
    + apply N.eqb_eq in E. subst b. destruct (IH []) as (pre & Hv & Hpre). cbn [rev app] in Hv.
      exists (rev cur ++ 10%N :: pre). split.
      * assert (Hl : last (rev cur :: split_lines v []) [] = last (split_lines v []) []).
        { pose proof (split_lines_ne v []). cbn [last]. destruct (split_lines v []); [congruence | reflexivity]. }
        rewrite <- app_assoc. cbn [app]. do 2 f_equal. etransitivity; [exact Hv|]. f_equal. symmetry. exact Hl.
      * right. destruct Hpre as [-> | (pre' & ->)]; [exists (rev cur); reflexivity|].
        exists (rev cur ++ 10%N :: pre'). rewrite <- app_assoc. reflexivity.
    + destruct (IH (b :: cur)) as (pre & Hv & Hpre). cbn [rev] in Hv. rewrite <- app_assoc in Hv. cbn [app] in Hv.
      exists pre. split; assumption.
Qed.

Lemma last_line_of v : v <> [] -> N.eqb (last v 0%N) 10 = false ->
  last (lines_of v) [] <> [] /\ last (last (lines_of v) []) 0%N = last v 0%N.
Proof.
  intros Hne H10. destruct (split_lines_last v []) as (pre & Hv & Hpre). cbn [rev app] in Hv. fold (lines_of v) in Hv.
  assert (Hll : last (lines_of v) [] <> []).
  { intros E. rewrite E, app_nil_r in Hv. subst pre. destruct Hpre as [-> | (pre' & ->)]; [congruence|].
    rewrite last_last in H10. discriminate H10. }
  split; [exact Hll|]. rewrite Hv at 2. symmetry. apply last_app_ne, Hll.
Qed.

Lemma ends_ok_of_last els : forall prev, ml_elements els prev = true -> ml_last_ok els = true -> ends_ok els.
Proof.
  induction els as [|el r IH]; intros prev Hs Hl; [exact Logic.I|].
  destruct r as [|el2 r2].
  - destruct el as [v|e]; [|exact Logic.I]. cbn [ml_last_ok rev app] in Hl. cbn [ends_ok].
    apply andb_prop in Hl as [H32 H10]. apply negb_true_iff in H32, H10.
    cbn [ml_elements] in Hs. apply andb_prop in Hs as [Hs _]. apply andb_prop in Hs as [_ Hv].
    assert (Hne : v <> []).
    { unfold ml_text in Hv. destruct (lines_of v); [discriminate Hv|]. apply andb_prop in Hv as [Hv _].
      apply andb_prop in Hv as [Hv _]. destruct v; [discriminate Hv | discriminate]. }
    destruct (last_line_of v Hne H10) as [Hll Hlast].
    split; [unfold ends_nonspace; rewrite Hlast; exact H32|].
    unfold is_blank_line. apply not_true_is_false. intros Hall.
    rewrite forallb_forall in Hall. specialize (Hall _ (last_in _ 0%N Hll)). rewrite Hlast in Hall.
    rewrite N.eqb_sym in Hall. congruence.
  - assert (Hl' : ml_last_ok (el2 :: r2) = true).
    { unfold ml_last_ok in *. cbn [rev] in Hl |- *. destruct (rev r2 ++ [el2]) eqn:E; [destruct (rev r2); discriminate|].
      cbn [app] in Hl. exact Hl. }
    assert (Hs' : exists prev', ml_elements (el2 :: r2) prev' = true).
    { destruct el as [v | e]; cbn [ml_elements] in Hs.
      - apply andb_prop in Hs as [_ Hr]. eauto.
      - apply andb_prop in Hs as [_ Hr]. eauto. }
    destruct Hs' as [prev' Hs']. pose proof (IH prev' Hs' Hl') as Hr'. destruct el; exact Hr'.
Qed.

(* ---- the fragment's elements are in normal form; their placeables are simple ---- *)
Lemma ml_text_ne c v : ml_text c v = true -> v <> [].
Proof.
  unfold ml_text. destruct (lines_of v); [discriminate|]. intros H. apply andb_prop in H as [H _].
  apply andb_prop in H as [H _]. destruct v; [discriminate H | discriminate].
Qed.

Lemma ml_elements_normal els : forall prev, ml_elements els prev = true -> normal_els els prev.
Proof.
  induction els as [|el r IH]; intros prev Hs; [exact Logic.I|].
  destruct el as [v | e]; cbn [ml_elements] in Hs; cbn [normal_els].
  - apply andb_prop in Hs as [Hs Hr]. apply andb_prop in Hs as [Hp Hv].
    split; [apply negb_true_iff, Hp | split; [apply (ml_text_ne _ v Hv) | apply (IH true Hr)]].
  - apply andb_prop in Hs as [_ Hr]. apply (IH false Hr).
Qed.

Lemma ml_elements_placeables els : forall prev, ml_elements els prev = true ->
  forall e, In (PlaceableElement e) els -> eok e = true.
Proof.
  induction els as [|el r IH]; intros prev Hs e Hin; [destruct Hin|].
  destruct el as [v | e0]; cbn [ml_elements] in Hs.
  - apply andb_prop in Hs as [_ Hr]. destruct Hin as [E | Hin]; [discriminate E | apply (IH true Hr e Hin)].
  - apply andb_prop in Hs as [Hi Hr]. destruct Hin as [E | Hin]; [injection E as <-; exact Hi | apply (IH false Hr e Hin)].
Qed.

Lemma placeable_in_stream x a : In (inr x) (stream a) <-> exists e, In (PlaceableElement e) a /\ join_expr e = x.
Proof.
  induction a as [|el r IH]; [split; [intros [] | intros (e & [] & _)]|]. unfold stream in *. cbn [flat_map]. rewrite in_app_iff, IH.
  split.
  - intros [Hin | (e & He & Ex)]; [|exists e; split; [right; exact He | exact Ex]].
    destruct el as [v|e']; cbn [stream_el] in Hin.
    + apply in_map_iff in Hin as (b & E & _). discriminate E.
    + destruct Hin as [E | []]. injection E as <-. exists e'. split; [left; reflexivity | reflexivity].
  - intros (e & [-> | He] & Ex); [left; cbn [stream_el]; left; rewrite Ex; reflexivity | right; exists e; auto].
Qed.

Lemma join_els_map_id l : (forall e, In (PlaceableElement e) l -> join_expr e = e) -> join_els_map l = l.
Proof.
  induction l as [|el r IH]; intros H; [reflexivity|]. cbn [join_els_map]. rewrite IH by (intros e He; apply H; right; exact He).
  destruct el as [v|e]; [reflexivity|]. cbn [join_element]. rewrite (H e (or_introl eq_refl)). reflexivity.
Qed.

(* the expressions of the class are in joined form *)
Hypothesis Hjoin_e : forall e, eok e = true -> join_expr e = e.

Lemma ml_elements_join_map els prev : ml_elements els prev = true -> join_els_map els = els.
Proof. intros Hs. apply join_els_map_id. intros e He. apply Hjoin_e, (ml_elements_placeables els prev Hs e He). Qed.

Lemma stream_jrel els' els : ml_elements els false = true -> stream els' = stream els -> Forall text_ok els' ->
  jrel els' els.
Proof.
  intros Hs Hst Hok. pose proof (Forall_impl _ text_ok_nonempty Hok) as Hne. unfold jrel.
  rewrite (join_of_stream els' els false (ml_elements_normal els false Hs) Hne Hst), (ml_elements_join_map els false Hs).
  reflexivity.
Qed.

(* the parser's elements join to the printed ones (they are the same sequence of text bytes and placeables),
   and each is (part of) one line *)
Definition srel (els' els : list pattern_element) : Prop :=
  jrel els' els /\ Forall text_ok els' /\ stream els' = stream els.

(* ---- the first bytes of a layout ---- *)
Lemma ml_line_layout_head B els L prev T : ml_line_layout B els L -> els <> [] -> ml_elements els prev = true ->
  ml_first_ok els = true ->
  head_not is_space (L ++ T) /\ no_eol_head (L ++ T) /\ no_blank_line_head (L ++ T).
Proof.
  intros HL Hne Hs Hf. destruct HL as [| v l0 rest r TL L El HTL HL | i b1 b2 r L Hb1 Hb2 HL]; [congruence| |].
  - cbn [ml_elements] in Hs. apply andb_prop in Hs as [Hs _]. apply andb_prop in Hs as [_ Hv].
    pose proof (lines_of_join v l0 rest El) as Ev.
    unfold ml_text in Hv. rewrite El in Hv. apply andb_prop in Hv as [Hv _]. apply andb_prop in Hv as [Hvne Hl0].
    destruct v as [|b t]; [discriminate Hvne|]. cbn [ml_first_ok] in Hf. apply andb_prop in Hf as [H32 H10].
    apply negb_true_iff in H32, H10.
    destruct l0 as [|b0 t0].
    { cbn [app] in Ev. destruct rest; [discriminate Ev|]. injection Ev as -> _. discriminate H10. }
    cbn [app] in Ev. injection Ev as <- _.
    unfold ml_line in Hl0. apply andb_prop in Hl0 as [Hl0 _]. cbn [forallb] in Hl0. apply andb_prop in Hl0 as [Hb _].
    apply wf_text_byte_spec in Hb as (_ & _ & H13 & _). cbn [app].
    split; [exact H32 | split; [apply no_eol_head_byte | apply no_blank_line_head_byte]; assumption].
  - cbn [app]. split; [reflexivity | split; reflexivity].
Qed.

(* the first line of a block value is not a blank line *)
Lemma ml_block_head B els L T : ml_line_layout B els L -> els <> [] -> ml_elements els false = true ->
  ml_first_nolf els = true -> first_line_ok els = true -> ml_last_ok els = true -> no_blank_line_head (sp B ++ L ++ T).
Proof.
  intros HL Hne Hs Hnolf Hlead Hlast. destruct HL as [| v l0 rest r TL L El HTL HL | i b1 b2 r L Hb1 Hb2 HL]; [congruence| |].
  - cbn [ml_elements] in Hs. apply andb_prop in Hs as [Hs Hr]. apply andb_prop in Hs as [_ Hv].
    unfold ml_text in Hv. rewrite El in Hv. apply andb_prop in Hv as [Hv Hrest]. apply andb_prop in Hv as [Hvne Hl0].
    cbn [first_line_ok] in Hlead. rewrite El in Hlead.
    destruct (is_blank_line l0) eqn:Eb.
    + destruct rest; [|discriminate Hlead]. inversion HTL; subst TL.
      pose proof (lines_of_join v l0 [] El) as Ev. cbn [jl] in Ev. rewrite app_nil_r in Ev. subst l0.
      destruct (ml_elements_after_text r Hr) as [-> | (e & r' & -> & He & Hr')].
      * (* a pattern that is a blank text only: its last byte is a space *)
        exfalso. cbn [ml_last_ok rev app] in Hlast. apply andb_prop in Hlast as [H32 _]. apply negb_true_iff in H32.
        assert (Hvne' : v <> []) by (destruct v; [discriminate Hvne | discriminate]).
        unfold is_blank_line in Eb. rewrite forallb_forall in Eb. specialize (Eb _ (last_in v 0%N Hvne')).
        rewrite N.eqb_sym in Eb. congruence.
      * inversion HL; subst.
        rewrite (blank_all_spaces v Eb). cbn [app]. rewrite <- !app_assoc.
        rewrite (app_assoc (sp B)), sp_add. cbn [app].
        apply no_blank_line_head_sp; reflexivity.
    + destruct (cont_line_facts l0 Hl0 Eb Hlead) as (b & t & El0 & H32 & _ & Htl & _).
      unfold text_line in Htl. cbn [forallb] in Htl. apply andb_prop in Htl as [Hb _].
      apply wf_text_byte_spec in Hb as (_ & _ & H13 & H10).
      rewrite El0. rewrite <- !app_assoc. rewrite (app_assoc (sp B)), sp_add. cbn [app].
      apply no_blank_line_head_sp; [exact H32 | apply no_eol_head_byte; assumption].
  - cbn [app]. apply no_blank_line_head_sp; reflexivity.
Qed.

(* get_placeable on the layouts of the class, on every input *)
Hypothesis Hplace_all : forall bs e X b1 b2 rest p n, eok e = true -> etext e X -> all_blank b1 -> all_blank b2 ->
  at_ bs p (b1 ++ X ++ b2 ++ 125%N :: rest) -> 3 * length (b1 ++ X ++ b2 ++ 125%N :: rest) + 8 <= n ->
  exists e', get_placeable bs n p = Ok e' (S (length (b1 ++ X ++ b2) + p)) /\ join_expr e' = join_expr e /\ egood e'.

Lemma get_pattern_ml bs els V T used c nx p n :
  ml_pattern (Pattern els) = true -> ml_value_layout els V -> after_value T used c nx -> at_ bs p (V ++ T) ->
  3 * length (V ++ T) + 12 <= n ->
  exists els', get_pattern bs n p = Ok (Some (Pattern els')) (used + (length V + p)) /\ srel els' els.
Proof.
  intros Hp HV HT H Hn. destruct (ml_pattern_parts els Hp) as (Hne & Hs & Hf & Hl & Hhit).
  pose proof (ends_ok_of_last els false Hs Hl) as Hends.
  destruct n as [|n]; [nlia|]. rewrite get_pattern_S.
  destruct HV as [k B L HB HL | k x c' BL B L Hok Hx HBL HB HL].
  - destruct (ml_line_layout_head B els L false T HL Hne Hs Hf) as (Hh1 & Hh2 & Hh3).
    rewrite <- app_assoc in H.
    pose proof (at_app _ _ _ _ H) as H1. rewrite sp_length in H1.
    assert (Hloop : completes bs n (st_of [] None None InitialLineStart) (k + p) (used + (length L + (k + p))) (stream els)).
    { destruct Hhit as [Hno | Hhit].
      - apply (ol_loop bs B HB (Hplace_all bs) els L HL Hno false T used c nx [] [] None InitialLineStart (k + p) n
                 Hs Hends HT eq_refl (acc_nil bs B) (Forall_nil _) (Forall_nil _) ltac:(intros E; congruence) H1).
        rewrite !app_length, sp_length in Hn. rewrite app_length. nlia.
      - apply (ml_loop bs B HB (Hplace_all bs) els L HL false T used c nx [] [] None None InitialLineStart (k + p) n
                 Hs Hends HT eq_refl (acc_nil bs B) (Forall_nil _) Logic.I (or_intror Hhit) ltac:(intros E; congruence) H1).
        rewrite !app_length, sp_length in Hn. rewrite app_length. nlia. }
    destruct Hloop as (els' & E & Hst & Hnee).
    exists els'. split; [|split; [apply (stream_jrel els' els Hs Hst Hnee) | split; [exact Hnee | exact Hst]]].
    step (skip_blank_inline_sp bs p k (L ++ T) H Hh1).
    step (skip_eol_none bs (k + p) (L ++ T) H1 Hh2). rewrite bind_ret.
    change (PState [] 0 None None InitialLineStart) with (st_of [] None None InitialLineStart).
    rewrite E. f_equal. rewrite app_length, sp_length. nlia.
  - destruct (ml_line_layout_head B els L false T HL Hne Hs Hf) as (Hh1 & Hh2 & Hh3).
    rewrite <- !app_assoc in H.
    assert (Hhx : head_not is_space (x ++ BL ++ sp B ++ L ++ T)) by (destruct Hx as [-> | ->]; reflexivity).
    pose proof (at_app _ _ _ _ H) as H1. rewrite sp_length in H1.
    pose proof (at_app _ _ _ _ H1) as H2.
    assert (Hnb : no_blank_line_head (sp B ++ L ++ T)) by (apply no_blank_line_head_sp; assumption).
    pose proof (at_app _ _ _ _ H2) as H3.
    set (p0 := length BL + (length x + (k + p))) in *.
    destruct (ml_loop_block bs B HB (Hplace_all bs) els L HL T used c nx p0 n Hne Hs Hends
                (proj1 (ml_first_ok_nolf els Hf)) (first_ok_line_ok els Hf Hok) (or_introl (proj2 (ml_first_ok_nolf els Hf))) HT H3
                ltac:(rewrite !app_length, !sp_length in Hn; rewrite !app_length, sp_length; nlia)) as (els' & E & Hst & Hnee).
    exists els'. split; [|split; [apply (stream_jrel els' els Hs Hst Hnee) | split; [exact Hnee | exact Hst]]].
    step (skip_blank_inline_sp bs p k _ H Hhx).
    step (skip_eol_eol bs (k + p) x _ H1 Hx).
    rewrite bind_assoc.
    step (skip_blank_block_lines bs _ c' BL _ H2 HBL Hnb). rewrite bind_ret.
    change (PState [] 0 None None LineStart) with (st_of [] None None LineStart).
    unfold p0 in E. rewrite E. f_equal. unfold p0. rewrite !app_length, !sp_length. nlia.
Qed.

(* a value layout without the spaces in front of it *)
Lemma ml_value_layout_strip els V : ml_pattern (Pattern els) = true -> ml_value_layout els V ->
  exists k V0, V = sp k ++ V0 /\ ml_value_layout els (sp 0 ++ V0) /\ forall T, head_not is_space (V0 ++ T).
Proof.
  intros Hp HV. destruct (ml_pattern_parts els Hp) as (Hne & Hs & Hf & _).
  destruct HV as [k B L HB HL | k x c' BL B L Hok Hx HBL HB HL].
  - exists k, L. split; [reflexivity|]. split; [apply (mvl_inline els 0 B L HB HL)|].
    intros T. apply (ml_line_layout_head B els L false T HL Hne Hs Hf).
  - exists k, (x ++ BL ++ sp B ++ L). split; [reflexivity|]. split; [apply (mvl_block els 0 x c' BL B L); assumption|].
    intros T. destruct Hx as [-> | ->]; reflexivity.
Qed.

(* ---- the values of messages, terms and attributes (wl_pattern): the inline layout only if some continuation
   line is not indented ---- *)

Lemma wl_pattern_parts els : wl_pattern (Pattern els) = true ->
  els <> [] /\ ml_elements els false = true /\ ml_first_nolf els = true /\ ml_last_ok els = true /\
  ((ml_first_ok els = true /\
    (has_lf els = false \/ existsb (Nat.eqb 0) (own_indents els) = true \/ first_byte_ok_for_block (Pattern els) = true)) \/
   (first_sp els = true /\ first_line_ok els = true /\ existsb (Nat.eqb 0) (own_indents els) = true)).
Proof.
  unfold wl_pattern. intros H. apply andb_prop in H as [H H5]. apply andb_prop in H as [H H4].
  apply andb_prop in H as [H H3]. apply andb_prop in H as [H1 H2].
  split; [destruct els; [discriminate H1 | discriminate]|]. repeat (split; [assumption|]).
  destruct (first_sp els) eqn:Esp.
  - right. apply andb_prop in H5 as [H5 H6]. auto.
  - left. split; [rewrite ml_first_ok_split, H3, Esp; reflexivity|].
    apply orb_prop in H5 as [H5 | H5]; [apply orb_prop in H5 as [H5 | H5]; [left; apply negb_true_iff, H5 | right; left; exact H5] | right; right; exact H5].
Qed.

Lemma ml_wl_pattern p : ml_pattern p = true -> wl_pattern p = true.
Proof.
  destruct p as [els]. unfold ml_pattern, wl_pattern. intros H. apply andb_prop in H as [H H5]. apply andb_prop in H as [H H4].
  apply andb_prop in H as [H H3]. rewrite H, H4. rewrite ml_first_ok_split in H3. apply andb_prop in H3 as [H3 H3'].
  apply negb_true_iff in H3'. rewrite H3, H3', H5. reflexivity.
Qed.

Inductive wl_value_layout (els : list pattern_element) : bytes -> Prop :=
| wvl_inline k B L : ml_first_ok els = true -> (has_lf els = false \/ existsb (Nat.eqb 0) (own_indents els) = true) ->
    1 <= B -> ml_line_layout B els L -> wl_value_layout els (sp k ++ L)
| wvl_block k x c BL B L :
    first_byte_ok_for_block (Pattern els) = true ->
    is_eol_bytes x -> blank_lines_of c BL -> 1 <= B -> ml_line_layout B els L ->
    wl_value_layout els (sp k ++ x ++ BL ++ sp B ++ L).

Lemma ml_wl_layout els V : ml_pattern (Pattern els) = true -> ml_value_layout els V -> wl_value_layout els V.
Proof.
  intros Hp HV. destruct (ml_pattern_parts els Hp) as (_ & _ & Hf & _ & Hhit).
  destruct HV as [k B L HB HL | k x c' BL B L Hok Hx HBL HB HL]; [apply (wvl_inline els k B L) | apply (wvl_block els k x c' BL B L)]; assumption.
Qed.

Lemma get_pattern_wl bs els V T used c nx p n :
  wl_pattern (Pattern els) = true -> wl_value_layout els V -> after_value T used c nx -> at_ bs p (V ++ T) ->
  3 * length (V ++ T) + 12 <= n ->
  exists els', get_pattern bs n p = Ok (Some (Pattern els')) (used + (length V + p)) /\ srel els' els.
Proof.
  intros Hp HV HT H Hn. destruct (wl_pattern_parts els Hp) as (Hne & Hs & Hnolf & Hl & Hcase).
  pose proof (ends_ok_of_last els false Hs Hl) as Hends.
  destruct n as [|n]; [nlia|]. rewrite get_pattern_S.
  destruct HV as [k B L Hf Hhit HB HL | k x c' BL B L Hok Hx HBL HB HL].
  - destruct (ml_line_layout_head B els L false T HL Hne Hs Hf) as (Hh1 & Hh2 & Hh3).
    rewrite <- app_assoc in H.
    pose proof (at_app _ _ _ _ H) as H1. rewrite sp_length in H1.
    assert (Hloop : completes bs n (st_of [] None None InitialLineStart) (k + p) (used + (length L + (k + p))) (stream els)).
    { destruct Hhit as [Hno | Hhit].
      - apply (ol_loop bs B HB (Hplace_all bs) els L HL Hno false T used c nx [] [] None InitialLineStart (k + p) n
                 Hs Hends HT eq_refl (acc_nil bs B) (Forall_nil _) (Forall_nil _) ltac:(intros E; congruence) H1).
        rewrite !app_length, sp_length in Hn. rewrite app_length. nlia.
      - apply (ml_loop bs B HB (Hplace_all bs) els L HL false T used c nx [] [] None None InitialLineStart (k + p) n
                 Hs Hends HT eq_refl (acc_nil bs B) (Forall_nil _) Logic.I (or_intror Hhit) ltac:(intros E; congruence) H1).
        rewrite !app_length, sp_length in Hn. rewrite app_length. nlia. }
    destruct Hloop as (els' & E & Hst & Hnee).
    exists els'. split; [|split; [apply (stream_jrel els' els Hs Hst Hnee) | split; [exact Hnee | exact Hst]]].
    step (skip_blank_inline_sp bs p k (L ++ T) H Hh1).
    step (skip_eol_none bs (k + p) (L ++ T) H1 Hh2). rewrite bind_ret.
    change (PState [] 0 None None InitialLineStart) with (st_of [] None None InitialLineStart).
    rewrite E. f_equal. rewrite app_length, sp_length. nlia.
  - assert (Hlead : first_line_ok els = true /\ (first_sp els = false \/ existsb (Nat.eqb 0) (own_indents els) = true)).
    { destruct Hcase as [[Hf _] | (_ & Hlead & Hhit)]; [|split; [exact Hlead | right; exact Hhit]].
      split; [apply (first_ok_line_ok els Hf Hok) | left; apply (ml_first_ok_nolf els Hf)]. }
    destruct Hlead as [Hlead Hhit0].
    rewrite <- !app_assoc in H.
    assert (Hhx : head_not is_space (x ++ BL ++ sp B ++ L ++ T)) by (destruct Hx as [-> | ->]; reflexivity).
    pose proof (at_app _ _ _ _ H) as H1. rewrite sp_length in H1.
    pose proof (at_app _ _ _ _ H1) as H2.
    assert (Hnb : no_blank_line_head (sp B ++ L ++ T)) by (apply (ml_block_head B els L T HL Hne Hs Hnolf Hlead Hl)).
    pose proof (at_app _ _ _ _ H2) as H3.
    set (p0 := length BL + (length x + (k + p))) in *.
    destruct (ml_loop_block bs B HB (Hplace_all bs) els L HL T used c nx p0 n Hne Hs Hends
                Hnolf Hlead Hhit0 HT H3
                ltac:(rewrite !app_length, !sp_length in Hn; rewrite !app_length, sp_length; nlia)) as (els' & E & Hst & Hnee).
    exists els'. split; [|split; [apply (stream_jrel els' els Hs Hst Hnee) | split; [exact Hnee | exact Hst]]].
    step (skip_blank_inline_sp bs p k _ H Hhx).
    step (skip_eol_eol bs (k + p) x _ H1 Hx).
    rewrite bind_assoc.
    step (skip_blank_block_lines bs _ c' BL _ H2 HBL Hnb). rewrite bind_ret.
    change (PState [] 0 None None LineStart) with (st_of [] None None LineStart).
    unfold p0 in E. rewrite E. f_equal. unfold p0. rewrite !app_length, !sp_length. nlia.
Qed.

Lemma wl_value_layout_strip els V : wl_pattern (Pattern els) = true -> wl_value_layout els V ->
  exists k V0, V = sp k ++ V0 /\ wl_value_layout els (sp 0 ++ V0) /\ forall T, head_not is_space (V0 ++ T).
Proof.
  intros Hp HV. destruct (wl_pattern_parts els Hp) as (Hne & Hs & Hnolf & _).
  destruct HV as [k B L Hf Hhit HB HL | k x c' BL B L Hok Hx HBL HB HL].
  - exists k, L. split; [reflexivity|]. split; [apply (wvl_inline els 0 B L Hf Hhit HB HL)|].
    intros T. apply (ml_line_layout_head B els L false T HL Hne Hs Hf).
  - exists k, (x ++ BL ++ sp B ++ L). split; [reflexivity|]. split; [apply (wvl_block els 0 x c' BL B L); assumption|].
    intros T. destruct Hx as [-> | ->]; reflexivity.
Qed.


(* ---------------------------------------------------------------------------------------------- *)
(* 4. parse (render cs t) on the fragment                                                           *)

Definition ml_pok (els : list pattern_element) : bool := wl_pattern (Pattern els).

Lemma ml_pattern_g p : g_pattern ml_pok p = wl_pattern p.
Proof. destruct p; reflexivity. Qed.
Lemma ml_attributes_g attrs : forallb (g_attribute ml_pok) attrs = forallb ml_attribute attrs.
Proof.
  induction attrs as [|a r IH]; [reflexivity|]. cbn [forallb]. rewrite IH. reflexivity.
Qed.
Lemma ml_plain_entry_g e : g_plain_entry ml_pok e = ml_plain_entry e.
Proof.
  destruct e as [id [p|] attrs [c|]|id p attrs [c|]| | | |]; cbn [g_plain_entry ml_plain_entry];
    rewrite ?ml_pattern_g, ?ml_attributes_g; reflexivity.
Qed.
Lemma ml_resource_g t : g_resource ml_pok t = ml_resource t.
Proof.
  induction t as [|e r IH]; [reflexivity|]. unfold g_resource, ml_resource in *. cbn [forallb]. rewrite IH.
  unfold g_entry, ml_entry. rewrite ml_plain_entry_g. reflexivity.
Qed.

(* ---------------------------------------------------------------------------------------------- *)
(* 5. The fragment lies inside wf_resource                                                          *)

Lemma split_lines_cur b : forall cur,
  split_lines b cur = (rev cur ++ hd [] (split_lines b [])) :: tl (split_lines b []).
Proof.
  induction b as [|x b IH]; intros cur; cbn [split_lines].
  - cbn [rev hd tl]. rewrite app_nil_r. reflexivity.
  - destruct (N.eqb x 10).
    + cbn [rev hd tl]. rewrite app_nil_r. reflexivity.
    + rewrite (IH (x :: cur)), (IH [x]). cbn [rev hd tl app]. rewrite <- app_assoc. reflexivity.
Qed.

Lemma removelast_cons2 {X} (a : X) l : l <> [] -> removelast (a :: l) = a :: removelast l.
Proof. destruct l; [congruence | reflexivity]. Qed.
Lemma last_cons2 {X} (a : X) l d : l <> [] -> last (a :: l) d = last l d.
Proof. destruct l; [congruence | reflexivity]. Qed.

Lemma split_lines_app a b : forall cur,
  split_lines (a ++ b) cur =
  removelast (split_lines a cur) ++ (last (split_lines a cur) [] ++ hd [] (lines_of b)) :: tl (lines_of b).
Proof.
  induction a as [|x a IH]; intros cur; cbn [app split_lines].
  - cbn [removelast last app]. apply split_lines_cur.
  - destruct (N.eqb x 10).
    + rewrite (removelast_cons2 _ _ (split_lines_ne a [])), (last_cons2 _ _ _ (split_lines_ne a [])).
      cbn [app]. rewrite (IH []). reflexivity.
    + apply IH.
Qed.

Lemma lines_of_app a b :
  lines_of (a ++ b) = removelast (lines_of a) ++ (last (lines_of a) [] ++ hd [] (lines_of b)) :: tl (lines_of b).
Proof. apply split_lines_app. Qed.

Lemma lines_of_byte b s : N.eqb b 10 = false ->
  lines_of (b :: s) = (b :: hd [] (lines_of s)) :: tl (lines_of s).
Proof.
  intros Hb. change (b :: s) with ([b] ++ s). rewrite lines_of_app.
  unfold lines_of at 1 2. cbn [split_lines]. rewrite Hb. reflexivity.
Qed.

Definition sk (els : list pattern_element) : bytes := skeleton (Pattern els).
Definition pline (l : bytes) : bool :=
  (is_blank_line l || line_start_ok l) && (negb (is_blank_line l) || Nat.eqb (length l) 0).
Definition nonblank_lines (ls : list bytes) : list bytes := filter (fun l => negb (is_blank_line l)) ls.

Lemma leading_spaces_app_blank l X : is_blank_line l = true -> leading_spaces (l ++ X) = length l + leading_spaces X.
Proof.
  induction l as [|b l IH]; intros H; [reflexivity|]. cbn [is_blank_line forallb] in H. apply andb_prop in H as [Hb Hl].
  apply N.eqb_eq in Hb. subst b. cbn [app leading_spaces length]. change (N.eqb 32 32) with true. cbv iota.
  rewrite (IH Hl). reflexivity.
Qed.

Lemma leading_spaces_app_nonblank l X : is_blank_line l = false ->
  leading_spaces (l ++ X) = leading_spaces l /\ leading_spaces l <= length l /\
  exists b t, skipn (leading_spaces l) l = b :: t.
Proof.
  induction l as [|b l IH]; intros H; [discriminate H|]. cbn [is_blank_line forallb] in H. cbn [app leading_spaces length].
  destruct (N.eqb b 32) eqn:Eb.
  - rewrite N.eqb_sym, Eb in H. cbn [andb] in H. destruct (IH H) as (I1 & I2 & b' & t & I3).
    rewrite I1. split; [reflexivity|]. split; [lia|]. exists b', t. exact I3.
  - split; [reflexivity|]. split; [lia|]. exists b, l. reflexivity.
Qed.

(* a line that does not lead a placeable *)
Lemma cont_line_plain l : cont_line_ok false l = true ->
  pline l = true /\ ml_line l = true /\
  map leading_spaces (nonblank_lines [l]) = (if is_blank_line l then [] else [leading_spaces l]).
Proof.
  unfold cont_line_ok. intros H. apply andb_prop in H as [Hml H]. unfold pline, nonblank_lines. cbn [filter].
  destruct (is_blank_line l) eqn:Eb; cbn [negb orb andb map].
  - cbn [orb] in H. destruct l; [repeat split; try reflexivity; exact Hml | discriminate H].
  - rewrite H. repeat split; try reflexivity. exact Hml.
Qed.

(* a line that leads a placeable *)
Lemma cont_line_led l h : cont_line_ok true l = true ->
  pline (l ++ 123%N :: h) = true /\ ml_line l = true /\
  map leading_spaces (nonblank_lines [l ++ 123%N :: h]) = [if is_blank_line l then length l else leading_spaces l].
Proof.
  unfold cont_line_ok. intros H. apply andb_prop in H as [Hml H]. unfold pline, nonblank_lines. cbn [filter].
  assert (Hnb : is_blank_line (l ++ 123%N :: h) = false).
  { unfold is_blank_line. rewrite forallb_app. cbn [forallb]. change (N.eqb 32 123) with false.
    cbn [andb]. apply andb_false_r. }
  rewrite Hnb. cbn [negb orb andb map]. rewrite andb_true_r.
  destruct (is_blank_line l) eqn:Eb.
  - pose proof (leading_spaces_app_blank l (123%N :: h) Eb) as Hls. cbn [leading_spaces] in Hls.
    change (N.eqb 123 32) with false in Hls. cbv iota in Hls. rewrite Nat.add_0_r in Hls.
    split; [|split; [exact Hml | rewrite Hls; reflexivity]].
    unfold line_start_ok. rewrite Hls. rewrite skipn_app_len. reflexivity.
  - destruct (leading_spaces_app_nonblank l (123%N :: h) Eb) as (Hls & Hle & b & t & Hsk).
    split; [|split; [exact Hml | rewrite Hls; reflexivity]].
    unfold line_start_ok in *. rewrite Hls, skipn_app, Hsk.
    rewrite Hsk in H. cbn [app]. exact H.
Qed.

Lemma nonblank_lines_app a b : nonblank_lines (a ++ b) = nonblank_lines a ++ nonblank_lines b.
Proof. apply filter_app. Qed.

(* the lines of a text element after its first one, inside the skeleton; h: what follows on the last line *)
Lemma cont_lines_skeleton cont h vr : vr <> [] -> cont_lines_ok cont vr = true ->
  (cont = false -> h = []) -> (cont = true -> exists h', h = 123%N :: h') ->
  forallb pline (removelast vr ++ [last vr [] ++ h]) = true /\
  map leading_spaces (nonblank_lines (removelast vr ++ [last vr [] ++ h])) = own_indents_lines cont vr /\
  Forall (fun l => ml_line l = true) vr.
Proof.
  intros Hne Hok Hh0 Hh1. induction vr as [|l r IH]; [congruence|]. destruct r as [|l2 r'].
  - cbn [removelast last app cont_lines_ok own_indents_lines] in *. destruct cont.
    + destruct (Hh1 eq_refl) as [h' ->]. destruct (cont_line_led l h' Hok) as (P1 & P2 & P3).
      cbn [forallb]. rewrite P1, P3. split; [reflexivity | split; [|constructor; [exact P2 | constructor]]].
      destruct (is_blank_line l); reflexivity.
    + rewrite (Hh0 eq_refl), app_nil_r. destruct (cont_line_plain l Hok) as (P1 & P2 & P3).
      cbn [forallb]. rewrite P1. split; [reflexivity | split; [|constructor; [exact P2 | constructor]]].
      etransitivity; [exact P3|]. destruct (is_blank_line l); reflexivity.
  - change (cont_lines_ok cont (l :: l2 :: r')) with (cont_line_ok false l && cont_lines_ok cont (l2 :: r')) in Hok.
    apply andb_prop in Hok as [Hl Hr].
    destruct (IH ltac:(discriminate) Hr) as (I1 & I2 & I3).
    destruct (cont_line_plain l Hl) as (P1 & P2 & P3).
    rewrite (removelast_cons2 l (l2 :: r') ltac:(discriminate)), (last_cons2 l (l2 :: r') [] ltac:(discriminate)).
    change ((l :: removelast (l2 :: r')) ++ [last (l2 :: r') [] ++ h])
      with ([l] ++ (removelast (l2 :: r') ++ [last (l2 :: r') [] ++ h])).
    rewrite forallb_app, nonblank_lines_app, map_app, I1, I2, P3. cbn [forallb]. rewrite P1.
    split; [reflexivity | split; [|constructor; assumption]].
    change (own_indents_lines cont (l :: l2 :: r'))
      with ((if is_blank_line l then [] else [leading_spaces l]) ++ own_indents_lines cont (l2 :: r')).
    reflexivity.
Qed.

Lemma sk_cons el r : sk (el :: r) = match el with TextElement v => v | PlaceableElement _ => [123%N] end ++ sk r.
Proof. reflexivity. Qed.

Lemma skeleton_rest els : forall prev, ml_elements els prev = true ->
  forallb pline (tl (lines_of (sk els))) = true /\
  map leading_spaces (nonblank_lines (tl (lines_of (sk els)))) = own_indents els.
Proof.
  induction els as [|el r IH]; intros prev Hs; [split; reflexivity|].
  rewrite sk_cons.
  destruct el as [v | e]; cbn [ml_elements] in Hs.
  - apply andb_prop in Hs as [Hs Hr]. apply andb_prop in Hs as [_ Hv].
    destruct (IH true Hr) as [I1 I2].
    unfold ml_text in Hv. destruct (lines_of v) as [|l0 vr] eqn:El; [discriminate Hv|].
    apply andb_prop in Hv as [Hv Hrest]. rewrite lines_of_app, El.
    cbn [own_indents]. rewrite El. cbn [tl].
    destruct vr as [|l1 vr'].
    + cbn [removelast last app tl own_indents_lines]. split; assumption.
    + rewrite (removelast_cons2 l0 (l1 :: vr') ltac:(discriminate)), (last_cons2 l0 (l1 :: vr') [] ltac:(discriminate)).
      cbn [app tl].
      set (h := hd [] (lines_of (sk r))).
      assert (Hh : (continues_after r = false -> h = []) /\ (continues_after r = true -> exists h', h = 123%N :: h')).
      { destruct (ml_elements_after_text r Hr) as [-> | (i & r' & -> & _)].
        - split; [reflexivity | discriminate].
        - split; [discriminate|]. intros _. unfold h. rewrite sk_cons. cbn [app].
          rewrite (lines_of_byte 123 _ eq_refl). cbn [hd]. eauto. }
      destruct Hh as [Hh0 Hh1].
      change (match r with [] => false | _ :: _ => true end) with (continues_after r) in *.
      destruct (cont_lines_skeleton (continues_after r) h (l1 :: vr') ltac:(discriminate) Hrest Hh0 Hh1) as (C1 & C2 & _).
      change (removelast (l1 :: vr') ++ (last (l1 :: vr') [] ++ h) :: tl (lines_of (sk r)))
        with (removelast (l1 :: vr') ++ [last (l1 :: vr') [] ++ h] ++ tl (lines_of (sk r))).
      rewrite app_assoc. split.
      * rewrite forallb_app. apply andb_true_intro. split; [exact C1 | exact I1].
      * rewrite nonblank_lines_app, map_app. f_equal; [exact C2 | exact I2].
  - apply andb_prop in Hs as [_ Hr]. destruct (IH false Hr) as [I1 I2].
    cbn [app]. rewrite (lines_of_byte 123 _ eq_refl). cbn [tl own_indents]. split; assumption.
Qed.

(* ---- the bytes of a text element ---- *)
Lemma split_lines_bytes v : forall cur,
  Forall (fun l => forallb wf_text_byte l = true) (split_lines v cur) ->
  forallb (fun b => wf_text_byte b || N.eqb b 10) v = true.
Proof.
  induction v as [|b v IH]; intros cur H; [reflexivity|]. cbn [split_lines] in H. cbn [forallb].
  destruct (N.eqb b 10) eqn:E.
  - rewrite orb_true_r. cbn [andb]. inversion H; subst. apply (IH [] H3).
  - rewrite (IH (b :: cur) H), andb_true_r, orb_false_r.
    rewrite split_lines_cur in H. inversion H as [|x l Hx _]; subst. cbn [rev] in Hx.
    rewrite !forallb_app in Hx. apply andb_prop in Hx as [Hx _]. apply andb_prop in Hx as [_ Hx].
    cbn [forallb] in Hx. rewrite andb_true_r in Hx. exact Hx.
Qed.

Lemma cont_lines_ok_ml_line cont ls : cont_lines_ok cont ls = true -> Forall (fun l => ml_line l = true) ls.
Proof.
  induction ls as [|l r IH]; intros H; [constructor|]. destruct r as [|l2 r'].
  - cbn [cont_lines_ok] in H. unfold cont_line_ok in H. apply andb_prop in H as [H _]. constructor; [exact H | constructor].
  - change (cont_lines_ok cont (l :: l2 :: r')) with (cont_line_ok false l && cont_lines_ok cont (l2 :: r')) in H.
    apply andb_prop in H as [Hl Hr]. unfold cont_line_ok in Hl. apply andb_prop in Hl as [Hl _].
    constructor; [exact Hl | apply IH, Hr].
Qed.

Lemma ml_text_bytes c v : ml_text c v = true -> forallb (fun b => wf_text_byte b || N.eqb b 10) v = true.
Proof.
  unfold ml_text. destruct (lines_of v) as [|l0 rest] eqn:El; [discriminate|]. intros H.
  apply andb_prop in H as [H Hrest]. apply andb_prop in H as [_ Hl0].
  apply (split_lines_bytes v []). fold (lines_of v). rewrite El.
  assert (Hall : Forall (fun l => ml_line l = true) (l0 :: rest))
    by (constructor; [exact Hl0 | apply (cont_lines_ok_ml_line c rest Hrest)]).
  apply (Forall_impl _ (fun l Hl => proj1 (andb_prop _ _ Hl)) Hall).
Qed.

(* the expressions of the class are well-formed *)
Hypothesis Hwf_e : forall e, eok e = true -> wf_expr e = true /\ lines_ok_expr e = true.

Lemma ml_elements_wf els : forall prev, ml_elements els prev = true ->
  wf_els els prev = true /\ lines_ok_els els = true.
Proof.
  induction els as [|el r IH]; intros prev Hs; [split; reflexivity|].
  destruct el as [v | e]; cbn [ml_elements] in Hs.
  - apply andb_prop in Hs as [Hs Hr]. apply andb_prop in Hs as [Hp Hv].
    destruct (IH true Hr) as [IH1 IH2].
    cbn [wf_els lines_ok_els]. rewrite Hp, IH1, (ml_text_bytes _ v Hv). split; [|exact IH2].
    pose proof (ml_text_ne _ v Hv) as Hne. destruct v; [congruence | reflexivity].
  - apply andb_prop in Hs as [Hi Hr]. destruct (IH false Hr) as [IH1 IH2].
    destruct (Hwf_e e Hi) as [W1 W2].
    cbn [wf_els lines_ok_els]. rewrite W1, W2, IH1, IH2. split; reflexivity.
Qed.

(* ---- the first and the last byte of the skeleton ---- *)
Lemma sk_first els : els <> [] -> ml_elements els false = true -> ml_first_ok els = true ->
  exists b t, sk els = b :: t /\ N.eqb b 32 = false /\ N.eqb b 10 = false.
Proof.
  intros Hne Hs Hf. destruct els as [|el r]; [congruence|]. rewrite sk_cons.
  destruct el as [v | e]; cbn [ml_elements] in Hs.
  - apply andb_prop in Hs as [Hs _]. apply andb_prop in Hs as [_ Hv]. pose proof (ml_text_ne _ v Hv) as Hvne.
    destruct v as [|b t]; [congruence|]. cbn [ml_first_ok] in Hf. apply andb_prop in Hf as [H32 H10].
    apply negb_true_iff in H32, H10. exists b. eexists. split; [reflexivity | split; assumption].
  - exists 123%N. eexists. split; [reflexivity | split; reflexivity].
Qed.

Lemma sk_last els : forall prev, els <> [] -> ml_elements els prev = true -> ml_last_ok els = true ->
  sk els <> [] /\ N.eqb (last (sk els) 0%N) 32 = false /\ N.eqb (last (sk els) 0%N) 10 = false.
Proof.
  induction els as [|el r IH]; intros prev Hne Hs Hl; [congruence|].
  rewrite sk_cons.
  set (piece := match el with TextElement v => v | PlaceableElement _ => [123%N] end).
  assert (Hpiece : piece <> [] /\
                   (r = [] -> N.eqb (last piece 0%N) 32 = false /\ N.eqb (last piece 0%N) 10 = false)).
  { unfold piece. destruct el as [v | e]; cbn [ml_elements] in Hs.
    - apply andb_prop in Hs as [Hs _]. apply andb_prop in Hs as [_ Hv]. split; [apply (ml_text_ne _ v Hv)|].
      intros ->. cbn [ml_last_ok rev app] in Hl. apply andb_prop in Hl as [H32 H10].
      apply negb_true_iff in H32, H10. split; assumption.
    - split; [discriminate | intros _; split; reflexivity]. }
  destruct Hpiece as [Hp1 Hp2].
  destruct r as [|el2 r2].
  - change (sk []) with (@nil N). rewrite app_nil_r. split; [exact Hp1 | apply Hp2; reflexivity].
  - assert (Hs' : exists prev', ml_elements (el2 :: r2) prev' = true).
    { destruct el as [v | e]; cbn [ml_elements] in Hs.
      - apply andb_prop in Hs as [_ Hs]. exists true. exact Hs.
      - apply andb_prop in Hs as [_ Hs]. exists false. exact Hs. }
    destruct Hs' as [prev' Hs'].
    assert (Hl' : ml_last_ok (el2 :: r2) = true).
    { unfold ml_last_ok in *. cbn [rev] in Hl |- *. destruct (rev r2 ++ [el2]) eqn:E; [destruct (rev r2); discriminate|].
      cbn [app] in Hl. exact Hl. }
    destruct (IH prev' ltac:(discriminate) Hs' Hl') as (I1 & I2 & I3).
    split; [intros E; apply app_eq_nil in E as [E _]; exact (Hp1 E)|].
    rewrite (last_app_ne _ _ 0%N I1). split; assumption.
Qed.

(* ---- the first line of the skeleton ---- *)
Lemma sk_head_text v r l0 rest : lines_of v = l0 :: rest ->
  hd [] (lines_of (sk (TextElement v :: r))) = match rest with [] => l0 ++ hd [] (lines_of (sk r)) | _ => l0 end.
Proof.
  intros El. rewrite sk_cons, lines_of_app, El. destruct rest as [|l1 rest'].
  - cbn [removelast last app hd]. reflexivity.
  - rewrite (removelast_cons2 l0 (l1 :: rest') ltac:(discriminate)). reflexivity.
Qed.

Lemma is_blank_app_false l X : is_blank_line l = false -> is_blank_line (l ++ X) = false.
Proof. unfold is_blank_line. rewrite forallb_app. intros ->. reflexivity. Qed.

Lemma line_start_ok_app l X : is_blank_line l = false -> line_start_ok (l ++ X) = line_start_ok l.
Proof.
  intros Hnb. destruct (leading_spaces_app_nonblank l X Hnb) as (Hls & Hle & b & t & Hsk).
  unfold line_start_ok. rewrite Hls, skipn_app, Hsk. reflexivity.
Qed.

(* a first text that starts with a space: the first line of the skeleton is not blank, is indented and starts like
   a continuation line *)
Lemma first_line_sk els : ml_elements els false = true -> ml_last_ok els = true ->
  first_sp els = true -> first_line_ok els = true ->
  is_blank_line (hd [] (lines_of (sk els))) = false /\ line_start_ok (hd [] (lines_of (sk els))) = true /\
  leading_spaces (hd [] (lines_of (sk els))) <> 0.
Proof.
  intros Hs Hl Hsp Hlead. destruct els as [|[[|b t]|e] r]; try discriminate Hsp.
  cbn [first_sp] in Hsp. apply N.eqb_eq in Hsp. subst b.
  cbn [ml_elements] in Hs. apply andb_prop in Hs as [Hs Hr]. apply andb_prop in Hs as [_ Hv].
  cbn [first_line_ok] in Hlead.
  destruct (lines_of (32%N :: t)) as [|l0 rest] eqn:El; [exfalso; apply (split_lines_ne _ _ El)|].
  assert (El0 : exists t0, l0 = 32%N :: t0).
  { rewrite (lines_of_byte 32 t eq_refl) in El. injection El as <- _. eauto. }
  destruct El0 as [t0 ->].
  rewrite (sk_head_text _ r _ rest El).
  destruct (is_blank_line (32%N :: t0)) eqn:Eb.
  - (* the text is the indentation of a placeable *)
    destruct rest; [|discriminate Hlead].
    pose proof (lines_of_join _ _ _ El) as Ev. rewrite app_nil_r in Ev.
    destruct (ml_elements_after_text r Hr) as [-> | (e & r' & -> & He & Hr')].
    + exfalso. cbn [ml_last_ok rev app] in Hl. apply andb_prop in Hl as [H32 _]. apply negb_true_iff in H32.
      rewrite Ev in H32. unfold is_blank_line in Eb. rewrite forallb_forall in Eb.
      specialize (Eb _ (last_in (32%N :: t0) 0%N ltac:(discriminate))). rewrite N.eqb_sym in Eb. congruence.
    + rewrite sk_cons. change ([123%N] ++ sk r') with (123%N :: sk r'). rewrite (lines_of_byte 123 _ eq_refl). cbn [hd].
      set (h := hd [] (lines_of (sk r'))).
      pose proof (leading_spaces_app_blank (32%N :: t0) (123%N :: h) Eb) as Hls. cbn [leading_spaces] in Hls.
      change (N.eqb 123 32) with false in Hls. cbv iota in Hls. rewrite Nat.add_0_r in Hls.
      split; [|split].
      * unfold is_blank_line. rewrite forallb_app. cbn [forallb]. change (N.eqb 32 123) with false. cbn [andb]. apply andb_false_r.
      * unfold line_start_ok. unfold bytes in *. rewrite Hls. rewrite skipn_app_len. reflexivity.
      * unfold bytes in *. rewrite Hls. cbn [length]. discriminate.
  - assert (Hgoal : forall X, is_blank_line ((32%N :: t0) ++ X) = false /\ line_start_ok ((32%N :: t0) ++ X) = true /\
                              leading_spaces ((32%N :: t0) ++ X) <> 0).
    { intros X. split; [apply is_blank_app_false, Eb|]. split; [rewrite (line_start_ok_app _ X Eb); exact Hlead|].
      cbn [app leading_spaces]. rewrite N.eqb_refl. discriminate. }
    destruct rest; [apply Hgoal | rewrite <- (app_nil_r (32%N :: t0)); apply Hgoal].
Qed.

Lemma first_line_sk_conv els : first_sp els = true ->
  is_blank_line (hd [] (lines_of (sk els))) = false -> line_start_ok (hd [] (lines_of (sk els))) = true ->
  first_line_ok els = true.
Proof.
  intros Hsp Hnb Hok. destruct els as [|[[|b t]|e] r]; try discriminate Hsp. cbn [first_line_ok].
  destruct (lines_of (b :: t)) as [|l0 rest] eqn:El; [reflexivity|].
  rewrite (sk_head_text _ r _ rest El) in Hnb, Hok.
  destruct (is_blank_line l0) eqn:Eb.
  - destruct rest; [reflexivity|]. congruence.
  - destruct rest; [rewrite (line_start_ok_app l0 _ Eb) in Hok; exact Hok | exact Hok].
Qed.

Lemma first_sp_block_ok els : first_sp els = true -> first_byte_ok_for_block (Pattern els) = true.
Proof.
  destruct els as [|[[|b t]|e] r]; try discriminate. cbn [first_sp]. intros H. apply N.eqb_eq in H. subst b. reflexivity.
Qed.

(* the first byte and the indentation of the first line *)
Lemma first_indent_sp els : els <> [] -> ml_elements els false = true -> ml_first_nolf els = true ->
  (Nat.eqb (first_indent (Pattern els)) 0 = negb (first_sp els)).
Proof.
  intros Hne Hs Hnolf. unfold first_indent. fold (sk els).
  destruct els as [|[[|b t]|e] r]; [congruence| | |].
  - cbn [ml_elements] in Hs. apply andb_prop in Hs as [Hs _]. apply andb_prop in Hs as [_ Hv].
    pose proof (ml_text_ne _ _ Hv) as Hvne. congruence.
  - cbn [ml_first_nolf] in Hnolf. apply negb_true_iff in Hnolf. cbn [first_sp].
    rewrite sk_cons. cbn [app]. rewrite (lines_of_byte b _ Hnolf). cbn [hd leading_spaces].
    destruct (N.eqb b 32); reflexivity.
  - rewrite sk_cons. cbn [app]. rewrite (lines_of_byte 123 _ eq_refl). reflexivity.
Qed.

Lemma min_list_zero l : In 0 l -> min_list l = Some 0.
Proof.
  induction l as [|x r IH]; intros H; [destruct H|]. cbn [min_list]. destruct H as [-> | H].
  - destruct (min_list r); reflexivity.
  - rewrite (IH H), Nat.min_0_r. reflexivity.
Qed.

Lemma own_indents_no_lf els : has_lf els = false -> own_indents els = [].
Proof.
  induction els as [|el r IH]; intros H; [reflexivity|]. cbn [has_lf existsb] in H. apply orb_false_elim in H as [H1 H2].
  destruct el as [v|e]; cbn [own_indents]; [|apply IH, H2]. rewrite (lines_of_no_lf v H1). cbn [tl own_indents_lines app].
  apply IH, H2.
Qed.

(* ---- lines of a text with a line feed ---- *)
Lemma first_lf v : existsb (N.eqb 10) v = true -> exists a b, v = a ++ 10%N :: b /\ existsb (N.eqb 10) a = false.
Proof.
  induction v as [|x v IH]; intros H; [discriminate H|]. cbn [existsb] in H. destruct (N.eqb 10 x) eqn:E.
  - apply N.eqb_eq in E. subst x. exists [], v. split; reflexivity.
  - cbn [orb] in H. destruct (IH H) as (a & b & -> & Ha). exists (x :: a), b. split; [reflexivity|].
    cbn [existsb]. rewrite E, Ha. reflexivity.
Qed.

Lemma split_lines_lf a b : existsb (N.eqb 10) a = false -> forall cur,
  split_lines (a ++ 10%N :: b) cur = (rev cur ++ a) :: split_lines b [].
Proof.
  induction a as [|x a IH]; intros Ha cur.
  - cbn [app split_lines]. rewrite N.eqb_refl, app_nil_r. reflexivity.
  - cbn [existsb] in Ha. apply orb_false_elim in Ha as [Hx Ha]. cbn [app split_lines]. rewrite N.eqb_sym, Hx.
    rewrite (IH Ha (x :: cur)). cbn [rev]. rewrite <- app_assoc. reflexivity.
Qed.

Lemma lines_of_lf a b : existsb (N.eqb 10) a = false -> lines_of (a ++ 10%N :: b) = a :: lines_of b.
Proof. intros Ha. unfold lines_of. rewrite (split_lines_lf a b Ha []). reflexivity. Qed.

Lemma last_in_list' {X} (l : list X) d : l <> [] -> In (last l d) l.
Proof.
  induction l as [|a l IH]; [congruence|]. intros _. destruct l as [|b l]; [left; reflexivity|].
  right. apply IH. discriminate.
Qed.

Lemma min_list_in l m : min_list l = Some m -> In m l.
Proof.
  revert m. induction l as [|x r IH]; intros m H; [discriminate H|]. cbn [min_list] in H.
  destruct (min_list r) as [m'|] eqn:E.
  - injection H as <-. destruct (Nat.min_spec x m') as [[_ ->] | [_ ->]]; [left; reflexivity | right; apply IH; reflexivity].
  - injection H as <-. left; reflexivity.
Qed.

Lemma min_list_none l : min_list l = None -> l = [].
Proof. destruct l as [|x r]; [reflexivity|]. cbn [min_list]. destruct (min_list r); discriminate. Qed.

Lemma lines_single s l : lines_of s = [l] -> existsb (N.eqb 10) s = false.
Proof.
  intros H. destruct (existsb (N.eqb 10) s) eqn:E; [|reflexivity]. exfalso.
  destruct (first_lf s E) as (a & b & -> & Ha). rewrite (lines_of_lf a b Ha) in H. injection H as _ H.
  apply (split_lines_ne b [] H).
Qed.

Lemma has_lf_sk els : existsb (N.eqb 10) (sk els) = false -> has_lf els = false.
Proof.
  induction els as [|el r IH]; intros H; [reflexivity|]. rewrite sk_cons, existsb_app in H. apply orb_false_elim in H as [H1 H2].
  cbn [has_lf existsb]. fold (has_lf r). rewrite (IH H2), orb_false_r. destruct el as [v|e]; [exact H1 | reflexivity].
Qed.

(* the indentation that Render.v looks at (rest_indent, on the skeleton) is the one of the class (own_indents) *)
Lemma rest_indent_own els : ml_elements els false = true ->
  rest_indent (Pattern els) = min_list (own_indents els).
Proof.
  intros Hs. destruct (skeleton_rest els false Hs) as [_ R2]. unfold rest_indent. fold (sk els).
  unfold nonblank_lines in R2. unfold bytes in *. rewrite R2. reflexivity.
Qed.

(* a value that Render.v may print inline has a continuation line at indentation 0, or a single line *)
Lemma needs_block_hit els : els <> [] -> ml_elements els false = true -> ml_last_ok els = true ->
  needs_block (Pattern els) = false ->
  has_lf els = false \/ existsb (Nat.eqb 0) (own_indents els) = true.
Proof.
  intros Hne Hs Hl Hnb. unfold needs_block in Hnb. apply orb_false_elim in Hnb as [_ Hnb]. rewrite (rest_indent_own els Hs) in Hnb.
  destruct (min_list (own_indents els)) as [m|] eqn:Em.
  - right. apply negb_false_iff, Nat.eqb_eq in Hnb. subst m. apply existsb_exists. exists 0.
    split; [apply min_list_in, Em | reflexivity].
  - left. apply has_lf_sk.
    destruct (sk_last els false Hne Hs Hl) as (Hsk1 & Hsk2 & Hsk3).
    destruct (last_line_of (sk els) Hsk1 Hsk3) as [Hll Hlast].
    destruct (skeleton_rest els false Hs) as [_ R2].
    destruct (lines_of (sk els)) as [|l0 rest] eqn:El; [exfalso; apply Hll; reflexivity|].
    destruct rest as [|l1 rest']; [apply (lines_single _ _ El)|]. exfalso.
    pose proof (min_list_none _ Em) as Enone. rewrite <- R2 in Enone. cbn [tl] in Enone.
    assert (Hnbl : is_blank_line (last (l0 :: l1 :: rest') []) = false).
    { unfold is_blank_line. apply not_true_is_false. intros Hall.
      rewrite forallb_forall in Hall. specialize (Hall _ (last_in _ 0%N Hll)). rewrite Hlast in Hall.
      rewrite N.eqb_sym in Hall. congruence. }
    assert (Hin : In (last (l0 :: l1 :: rest') []) (l1 :: rest')).
    { rewrite (last_cons2 l0 (l1 :: rest') [] ltac:(discriminate)). apply last_in_list'. discriminate. }
    assert (Hin2 : In (last (l0 :: l1 :: rest') []) (nonblank_lines (l1 :: rest'))).
    { apply filter_In. split; [exact Hin | rewrite Hnbl; reflexivity]. }
    apply (in_map leading_spaces) in Hin2. unfold bytes in *. rewrite Enone in Hin2. destruct Hin2.
Qed.

Lemma render_value_wl_layout ind els cs : wl_pattern (Pattern els) = true -> 1 <= ind ->
  exists V cs', render_value ind (Pattern els) cs = (V, cs') /\ wl_value_layout els V.
Proof.
  intros Hp Hind. destruct (wl_pattern_parts els Hp) as (Hne & Hv & Hnolf & Hl & Hcase).
  unfold render_value, render_value_with. unfold rbind at 1. destruct (choose 3 cs) as [block cs1].
  destruct ((Nat.eqb block 2 || needs_block (Pattern els)) && first_byte_ok_for_block (Pattern els)) eqn:Eb.
  - apply andb_prop in Eb as [_ Hok].
    destruct (blank_inline_opt_spec cs1) as [k [cs2 E2]]. rewrite (rbind_eq _ _ _ _ _ E2).
    destruct (eol_spec' cs2) as [x [cs3 [E3 Hx]]]. rewrite (rbind_eq _ _ _ _ _ E3).
    unfold rbind at 1. destruct (choose 2 cs3) as [blanks cs4].
    assert (Hb : exists c BL cs5,
               (if Nat.eqb blanks 1 then x0 <~ eol ;; rret (sp 2 ++ x0) else rret []) cs4 = (BL, cs5) /\
               blank_lines_of c BL).
    { destruct (Nat.eqb blanks 1).
      - destruct (eol_spec' cs4) as [y [cs5 [E5 Hy]]]. rewrite (rbind_eq _ _ _ _ _ E5).
        exists 1, (sp 2 ++ y), cs5. split; [reflexivity|].
        replace (sp 2 ++ y) with (sp 2 ++ y ++ []) by (rewrite app_nil_r; reflexivity).
        constructor; [exact Hy | constructor].
      - exists 0, [], cs4. split; [reflexivity | constructor]. }
    destruct Hb as [c [BL [cs5 [E5 HBL]]]]. rewrite (rbind_eq _ _ _ _ _ E5).
    unfold rbind at 1. destruct (choose 3 cs5) as [extra cs6].
    rewrite render_pattern_inline_els.
    destruct (render_els_ml_layout (ind + extra) els false cs6 Hv) as [L [cs7 [E7 HL]]]. rewrite (rbind_eq _ _ _ _ _ E7).
    eexists. exists cs7. split; [reflexivity|].
    unfold cat. cbn [concat]. rewrite app_nil_r.
    apply (wvl_block els k x c BL (ind + extra) L); try assumption. nlia.
  - assert (Hhit : ml_first_ok els = true /\ (has_lf els = false \/ existsb (Nat.eqb 0) (own_indents els) = true)).
    { destruct Hcase as [[Hf Hc] | (Hsp & _ & _)].
      - split; [exact Hf|]. destruct Hc as [H | [H | Hok]]; [left; exact H | right; exact H|].
        rewrite Hok, andb_true_r in Eb. apply orb_false_elim in Eb as [_ Hnb].
        apply (needs_block_hit els Hne Hv Hl Hnb).
      - exfalso. rewrite (first_sp_block_ok els Hsp), andb_true_r in Eb. apply orb_false_elim in Eb as [_ Hnb].
        unfold needs_block in Hnb. apply orb_false_elim in Hnb as [Hnb _]. apply negb_false_iff in Hnb.
        rewrite (first_indent_sp els Hne Hv Hnolf), Hsp in Hnb. discriminate Hnb. }
    destruct Hhit as [Hf1 Hhit].
    destruct (blank_inline_opt_spec cs1) as [k [cs2 E2]]. rewrite (rbind_eq _ _ _ _ _ E2).
    unfold rbind at 1. destruct (choose 3 cs2) as [extra cs3].
    rewrite render_pattern_inline_els.
    destruct (render_els_ml_layout (ind + extra) els false cs3 Hv) as [L [cs4 [E4 HL]]]. rewrite (rbind_eq _ _ _ _ _ E4).
    eexists. exists cs4. split; [reflexivity|]. apply (wvl_inline els k (ind + extra) L Hf1 Hhit); [nlia | exact HL].
Qed.

Theorem wl_pattern_wf els : wl_pattern (Pattern els) = true -> wf_value (Pattern els) = true.
Proof.
  intros Hp. destruct (wl_pattern_parts els Hp) as (Hne & Hs & Hnolf & Hl & Hcase).
  destruct (ml_elements_wf els false Hs) as [W1 W2].
  unfold wf_value. rewrite wf_pattern_els, lines_ok_pattern_els, W1, W2.
  replace (match els with [] => true | _ :: _ => false end) with false by (destruct els; [congruence | reflexivity]).
  cbn [negb andb]. rewrite andb_true_r.
  unfold wf_pattern_lines_top. fold (sk els).
  destruct (sk_last els false Hne Hs Hl) as (Hsk1 & Hsk2 & Hsk3).
  destruct (skeleton_rest els false Hs) as [R1 R2].
  destruct (last_line_of (sk els) Hsk1 Hsk3) as [Hll Hlast].
  (* the first line *)
  assert (Hfirst : is_blank_line (hd [] (lines_of (sk els))) = false /\
                   (if Nat.eqb (leading_spaces (hd [] (lines_of (sk els)))) 0
                    then match min_list (own_indents els) with
                         | Some m => Nat.eqb m 0 || first_byte_ok_for_block (Pattern els)
                         | None => true
                         end
                    else line_start_ok (hd [] (lines_of (sk els))) &&
                         match min_list (own_indents els) with Some m => Nat.eqb m 0 | None => false end) = true).
  { destruct Hcase as [[Hf Hhit] | (Hsp & Hlead & Hhit)].
    - destruct (sk_first els Hne Hs Hf) as (b & t & Esk & Hb32 & Hb10).
      rewrite Esk, (lines_of_byte b t Hb10). cbn [hd is_blank_line forallb leading_spaces]. rewrite N.eqb_sym, Hb32. cbn [andb Nat.eqb].
      split; [reflexivity|].
      destruct Hhit as [Hno | [Hhit | Hok]].
      + rewrite (own_indents_no_lf els Hno). reflexivity.
      + rewrite (min_list_zero (own_indents els)); [reflexivity|].
        apply existsb_exists in Hhit as (x & Hin & Hx). apply Nat.eqb_eq in Hx. subst x. exact Hin.
      + rewrite Hok. destruct (min_list (own_indents els)); [apply orb_true_r | reflexivity].
    - destruct (first_line_sk els Hs Hl Hsp Hlead) as (F1 & F2 & F3). split; [exact F1|].
      apply Nat.eqb_neq in F3. rewrite F3, F2. cbn [andb].
      rewrite (min_list_zero (own_indents els)); [reflexivity|].
      apply existsb_exists in Hhit as (x & Hin & Hx). apply Nat.eqb_eq in Hx. subst x. exact Hin. }
  destruct Hfirst as [Hb1 Hb2].
  destruct (lines_of (sk els)) as [|l0 rest] eqn:El; [exfalso; apply Hll; reflexivity|].
  cbn [tl] in R1, R2. cbn [hd] in Hb1, Hb2.
  unfold bytes in *. remember (last (l0 :: rest) []) as ll eqn:Ell.
  assert (Hb3 : is_blank_line ll = false).
  { unfold is_blank_line. apply not_true_is_false. intros Hall.
    rewrite forallb_forall in Hall. specialize (Hall _ (last_in _ 0%N Hll)). rewrite Hlast in Hall.
    rewrite N.eqb_sym in Hall. congruence. }
  assert (Hb4 : leading_spaces (rev ll) = 0).
  { rewrite (rev_last _ Hll). cbn [leading_spaces]. rewrite Hlast, Hsk2. reflexivity. }
  rewrite Hb1, Hb3, Hb4. cbn [negb andb Nat.eqb].
  assert (F1 : forallb (fun l => is_blank_line l || line_start_ok l) rest = true).
  { rewrite forallb_forall in *. intros l Hin. specialize (R1 l Hin). unfold pline in R1. apply andb_prop in R1 as [R1 _]. exact R1. }
  assert (F2 : forallb (fun l => negb (is_blank_line l) || Nat.eqb (length l) 0) rest = true).
  { rewrite forallb_forall in *. intros l Hin. specialize (R1 l Hin). unfold pline in R1. apply andb_prop in R1 as [_ R1]. exact R1. }
  unfold bytes in *. rewrite F1, F2. cbn [andb]. unfold nonblank_lines in R2. unfold bytes in *. rewrite R2.
  exact Hb2.
Qed.

Theorem ml_pattern_wf els : ml_pattern (Pattern els) = true -> wf_value (Pattern els) = true.
Proof. intros Hp. apply wl_pattern_wf, ml_wl_pattern, Hp. Qed.

Theorem ml_resource_wf t : ml_resource t = true -> wf_resource t = true.
Proof.
  intros Ht. apply (g_resource_wf ml_pok); [|rewrite ml_resource_g; exact Ht].
  intros els Hp. apply wl_pattern_wf, Hp.
Qed.

(* C02 on the fragment: the printed text parses, without errors, to a tree that joins to the printed one;
   first with all that is known of the parser's tree *)
Theorem parse_render_ml_split cs t : ml_resource t = true -> last_comment_ok t = true ->
  exists t', parse (render cs t) = Done (t', []) /\ Forall2 (rel_entry srel) t' t.
Proof.
  intros Ht Hlast. apply (g_parse_render_rel ml_pok wl_value_layout srel cs t).
  - intros ind els cs0 Hp Hind. apply (render_value_wl_layout ind els cs0 Hp Hind).
  - intros bs els V T used c nx p n Hp. apply (get_pattern_wl bs els V T used c nx p n Hp).
  - intros els V Hp. apply (wl_value_layout_strip els V Hp).
  - rewrite ml_resource_g. exact Ht.
  - exact Hlast.
Qed.

Theorem parse_render_ml cs t : ml_resource t = true -> last_comment_ok t = true ->
  exists t', parse (render cs t) = Done (t', []) /\ map join_entry t' = t.
Proof.
  intros Ht Hlast. destruct (parse_render_ml_split cs t Ht Hlast) as (t' & E & Hrel). exists t'. split; [exact E|].
  apply jrel_entries. apply (rel_entries_mono srel jrel t' t); [intros x y [H _]; exact H | exact Hrel].
Qed.


(* ---- the patterns of the fragment are in joined form ---- *)
Lemma ml_elements_join els prev : ml_elements els prev = true -> join_elements els = els.
Proof.
  intros Hs. pose proof (ml_elements_normal els prev Hs) as Hn.
  assert (Hne : Forall text_nonempty els).
  { clear Hs. revert prev Hn. induction els as [|el r IH]; intros prev Hn; [constructor|].
    destruct el as [v|e]; cbn [normal_els] in Hn.
    - destruct Hn as (_ & Hv & Hr). constructor; [destruct v; [congruence | exact Logic.I] | apply (IH true Hr)].
    - constructor; [exact Logic.I | apply (IH false Hn)]. }
  pose proof (join_unstream els Hne) as Hj. rewrite (unstream_normal els prev Hn), (ml_elements_join_map els prev Hs) in Hj.
  exact Hj.
Qed.

Lemma ml_pattern_join p : ml_pattern p = true -> join_pattern p = p.
Proof.
  destruct p as [els]. intros Hp. destruct (ml_pattern_parts els Hp) as (_ & Hs & _).
  rewrite join_pattern_els, (ml_elements_join_map els false Hs), (ml_elements_join els false Hs). reflexivity.
Qed.

Lemma wl_pattern_join p : wl_pattern p = true -> join_pattern p = p.
Proof.
  destruct p as [els]. intros Hp. destruct (wl_pattern_parts els Hp) as (_ & Hs & _).
  rewrite join_pattern_els, (ml_elements_join_map els false Hs), (ml_elements_join els false Hs). reflexivity.
Qed.

End Frag.

(* Syntax/TreeNorm.v — what "the same tree" means in properties C02 and C04.  Definitions only.

   join_xxx   : adjacent text elements of every pattern, at every depth, are joined into one
                (the parser splits pattern text at line breaks; the grammar / the serializer do not care)
   norm_xxx   : join_xxx, and a comment line that consists of fluent whitespace only counts as empty
   drop_junk_unless : serialising without junk drops the Junk entries                              *)
From FluentV Require Export Base.Bytes Syntax.Ast Syntax.Render.

Fixpoint join_inline (i : inline) : inline :=
  match i with
  | FunctionReference id a => FunctionReference id (join_args a)
  | TermReference id at_ a =>
      TermReference id at_ (match a with Some a' => Some (join_args a') | None => None end)
  | Placeable e => Placeable (join_expr e)
  | StringLiteral _ | NumberLiteral _ | MessageReference _ _ | VariableReference _ => i
  end
with join_expr (e : expression) : expression :=
  match e with
  | Select s vs =>
      Select (join_inline s)
             ((fix go (l : list variant) : list variant :=
                 match l with [] => [] | v :: r => join_variant v :: go r end) vs)
  | Inline i => Inline (join_inline i)
  end
with join_variant (v : variant) : variant :=
  match v with Variant k p d => Variant k (join_pattern p) d end
with join_pattern (p : pattern) : pattern :=
  match p with
  | Pattern els =>
      Pattern (join_elements
                 ((fix go (l : list pattern_element) : list pattern_element :=
                     match l with [] => [] | x :: r => join_element x :: go r end) els))
  end
with join_element (x : pattern_element) : pattern_element :=
  match x with
  | TextElement v => TextElement v
  | PlaceableElement e => PlaceableElement (join_expr e)
  end
with join_args (a : call_args) : call_args :=
  match a with
  | CallArguments pos named =>
      CallArguments
        ((fix go (l : list inline) : list inline :=
            match l with [] => [] | x :: r => join_inline x :: go r end) pos)
        ((fix go (l : list named_arg) : list named_arg :=
            match l with [] => [] | x :: r => join_named x :: go r end) named)
  end
with join_named (n : named_arg) : named_arg :=
  match n with NamedArgument name v => NamedArgument name (join_inline v) end.

Definition join_attribute (a : attribute) : attribute :=
  Attribute (attr_id a) (join_pattern (attr_value a)).

Definition join_entry (e : entry) : entry :=
  match e with
  | Message id v attrs c => Message id (option_map join_pattern v) (map join_attribute attrs) c
  | Term id v attrs c => Term id (join_pattern v) (map join_attribute attrs) c
  | CommentEntry _ | GroupComment _ | ResourceComment _ | Junk _ => e
  end.

Definition join_resource (t : resource) : resource := map join_entry t.

(* line.trim_matches(' ' | '\r' | '\n').is_empty() *)
Definition ws_only (l : bytes) : bool := forallb (fun b => N.eqb b 32 || N.eqb b 13 || N.eqb b 10) l.
Definition norm_comment (c : comment) : comment :=
  Comment (map (fun l => if ws_only l then [] else l) (content c)).

Definition norm_entry (e : entry) : entry :=
  match join_entry e with
  | Message id v attrs c => Message id v attrs (option_map norm_comment c)
  | Term id v attrs c => Term id v attrs (option_map norm_comment c)
  | CommentEntry c => CommentEntry (norm_comment c)
  | GroupComment c => GroupComment (norm_comment c)
  | ResourceComment c => ResourceComment (norm_comment c)
  | Junk content => Junk content
  end.

Definition norm (t : resource) : resource := map norm_entry t.

Definition entry_is_junk (e : entry) : bool := match e with Junk _ => true | _ => false end.
Definition drop_junk_unless (with_junk : bool) (t : resource) : resource :=
  if with_junk then t else filter (fun e => negb (entry_is_junk e)) t.

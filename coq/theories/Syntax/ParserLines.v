(* Syntax/ParserLines.v — the LINE rules of the grammar (Render.wf_pattern_lines_top) for parser outputs.

   Part A (pure): a pattern described as a list of pieces `pd` (a text piece at a line start or not, with its own
   indentation, its body without line feed, and whether it ends the line; a placeable) that satisfies the conditions
   `pds_ok` (what the pattern loop guarantees) has a skeleton that satisfies the line rules.

   Part B: the pattern loop of the parser, on a source in which every CR is followed by LF (no_lone_cr bs; LF and CR LF
   line ends, mixed at will), produces such a description, and finish_pattern keeps it.  At a CR LF line end the parser
   ends the text in front of the CR, leaves the CR out and reads the LF in the next round as a text element of its own
   (piece PdEol); the invariant `inv` has the flag `pend` for the state in between.  A lone CR is not covered: it is a
   text character (Render.v leaves it out of the grammar).  parse_lines_crlf is the result; parse_lines is the special
   case of a source without any CR. *)
From FluentV Require Import Base.Bytes Base.Outcome Base.Utf8 Syntax.Ast Syntax.ParserModel Syntax.Render Syntax.TreeNorm.
From FluentV Require Import Syntax.ParseLemmas Syntax.RoundTrip Syntax.RoundTripML.
From Coq Require Import Lia List.
Import ListNotations.
Arguments N.eqb : simpl never.

(* ---- small facts about lines (re-proved here, free of section hypotheses) ---- *)
Lemma ls_blank l X : is_blank_line l = true -> leading_spaces (l ++ X) = length l + leading_spaces X.
Proof.
  induction l as [|b l IH]; intros H; [reflexivity|]. cbn [is_blank_line forallb] in H. apply andb_prop in H as [Hb Hl].
  apply N.eqb_eq in Hb. subst b. cbn [app leading_spaces length]. rewrite N.eqb_refl, (IH Hl). reflexivity.
Qed.

Lemma sp_blank k : is_blank_line (sp k) = true.
Proof. induction k as [|k IH]; [reflexivity|]. cbn [sp repeat is_blank_line forallb]. rewrite N.eqb_refl. exact IH. Qed.

Lemma ls_sp_cons k c w : N.eqb c 32 = false -> leading_spaces (sp k ++ c :: w) = k.
Proof.
  intros Hc. rewrite (ls_blank (sp k) _ (sp_blank k)), sp_length. cbn [leading_spaces]. rewrite Hc. lia.
Qed.

Lemma blank_sp_cons k c w : N.eqb c 32 = false -> is_blank_line (sp k ++ c :: w) = false.
Proof.
  intros Hc. unfold is_blank_line. rewrite forallb_app. cbn [forallb]. rewrite N.eqb_sym, Hc. cbn [andb]. apply andb_false_r.
Qed.

Lemma skipn_sp_cons k (X : bytes) : skipn k (sp k ++ X) = X.
Proof. induction k as [|k IH]; [reflexivity | exact IH]. Qed.

Lemma lso_sp_cons k c w : N.eqb c 32 = false -> line_start_ok (sp k ++ c :: w) = negb (N.eqb c 46 || N.eqb c 91 || N.eqb c 42).
Proof. intros Hc. unfold line_start_ok. rewrite (ls_sp_cons k c w Hc), skipn_sp_cons. reflexivity. Qed.

(* ---- pieces ---- *)
Inductive pd :=
| PdText (ls : bool) (own : nat) (body : bytes) (lf : bool)
| PdPlace (ls : bool)
| PdEol.                (* the line feed of a CR LF line end: an element of its own after the text of the line *)

Definition pd_bytes (d : pd) : bytes :=
  match d with
  | PdText _ own body lf => sp own ++ body ++ (if lf then [10%N] else [])
  | PdPlace _ => [123%N]
  | PdEol => [10%N]
  end.
Definition sk_of (ds : list pd) : bytes := concat (map pd_bytes ds).

Definition no_lf (v : bytes) : Prop := existsb (N.eqb 10) v = false.
Definition head_ok (c : N) : Prop := N.eqb c 32 = false /\ N.eqb c 10 = false /\ (N.eqb c 46 || N.eqb c 91 || N.eqb c 42) = false.

Fixpoint pds_ok (ls : bool) (ds : list pd) : Prop :=
  match ds with
  | [] => True
  | PdText l own body lf :: r =>
      l = ls /\ no_lf body /\
      (if ls then
         match body with
         | c :: _ => head_ok c
         | [] => (lf = true /\ own = 0) \/ lf = false
         end
       else own = 0 /\ (body = [] -> lf = true)) /\
      (lf = false -> match r with [] => True | PdPlace _ :: _ => True | PdEol :: _ => body <> [] | _ => False end) /\
      pds_ok lf r
  | PdPlace l :: r => l = ls /\ pds_ok false r
  | PdEol :: r => ls = false /\ pds_ok true r
  end.

(* the lines of the skeleton, from the pieces *)
Fixpoint plines (cur : bytes) (ds : list pd) : list bytes :=
  match ds with
  | [] => [cur]
  | PdText _ own body lf :: r => if lf then (cur ++ sp own ++ body) :: plines [] r else plines (cur ++ sp own ++ body) r
  | PdPlace _ :: r => plines (cur ++ [123%N]) r
  | PdEol :: r => cur :: plines [] r
  end.

Lemma no_lf_app a b : no_lf a -> no_lf b -> no_lf (a ++ b).
Proof. unfold no_lf. intros Ha Hb. rewrite existsb_app, Ha, Hb. reflexivity. Qed.
Lemma no_lf_sp k : no_lf (sp k).
Proof. induction k as [|k IH]; [reflexivity | exact IH]. Qed.

Lemma plines_lines ds : forall ls cur, pds_ok ls ds -> no_lf cur -> lines_of (cur ++ sk_of ds) = plines cur ds.
Proof.
  induction ds as [|d r IH]; intros ls cur Hok Hcur.
  - unfold sk_of. cbn [map concat plines]. rewrite app_nil_r. apply lines_of_no_lf, Hcur.
  - destruct d as [l own body lf | l |]; cbn [pds_ok] in Hok.
    + destruct Hok as (_ & Hb & _ & _ & Hr). unfold sk_of. cbn [map concat pd_bytes plines]. fold (sk_of r).
      assert (Hline : no_lf (cur ++ sp own ++ body)) by (apply no_lf_app; [exact Hcur | apply no_lf_app; [apply no_lf_sp | exact Hb]]).
      destruct lf.
      * replace (cur ++ (sp own ++ body ++ [10%N]) ++ sk_of r) with ((cur ++ sp own ++ body) ++ 10%N :: sk_of r)
          by (rewrite <- !app_assoc; reflexivity).
        rewrite (lines_of_lf _ _ Hline). f_equal. apply (IH true [] Hr eq_refl).
      * replace (cur ++ (sp own ++ body ++ []) ++ sk_of r) with ((cur ++ sp own ++ body) ++ sk_of r)
          by (rewrite app_nil_r, <- !app_assoc; reflexivity).
        apply (IH false _ Hr Hline).
    + destruct Hok as [_ Hr]. unfold sk_of. cbn [map concat pd_bytes plines]. fold (sk_of r).
      rewrite app_assoc. apply (IH false _ Hr). apply no_lf_app; [exact Hcur | reflexivity].
    + destruct Hok as [_ Hr]. unfold sk_of. cbn [map concat pd_bytes plines app]. fold (sk_of r).
      rewrite (lines_of_lf _ _ Hcur). f_equal. apply (IH true [] Hr eq_refl).
Qed.

(* ---- a line that started well: sp k ++ c :: w with a good first byte c; it stays so when it grows ---- *)
Definition gp (cur : bytes) : Prop := exists k c w, cur = sp k ++ c :: w /\ head_ok c.
Lemma gp_app cur X : gp cur -> gp (cur ++ X).
Proof. intros (k & c & w & -> & Hc). exists k, c, (w ++ X). split; [rewrite <- app_assoc; reflexivity | exact Hc]. Qed.
Lemma gp_facts cur : gp cur -> is_blank_line cur = false /\ line_start_ok cur = true.
Proof.
  intros (k & c & w & -> & (H32 & _ & Hd)). split; [apply blank_sp_cons, H32|]. rewrite (lso_sp_cons k c w H32), Hd. reflexivity.
Qed.
Lemma gp_ls cur : gp cur -> forall X, leading_spaces (cur ++ X) = leading_spaces cur.
Proof.
  intros (k & c & w & -> & (H32 & _)) X. rewrite <- app_assoc. cbn [app]. rewrite !(ls_sp_cons k c _ H32). reflexivity.
Qed.

(* what the line rules ask of a line after the first *)
Definition pline_ok (l : bytes) : bool :=
  (is_blank_line l || line_start_ok l) && (negb (is_blank_line l) || Nat.eqb (length l) 0).
Lemma gp_pline cur : gp cur -> pline_ok cur = true.
Proof. intros H. destruct (gp_facts cur H) as [H1 H2]. unfold pline_ok. rewrite H1, H2. reflexivity. Qed.

Definition last_ok (ds : list pd) : Prop :=
  match last ds (PdPlace false) with
  | PdText _ _ body lf => lf = false /\ body <> [] /\ N.eqb (last body 0%N) 32 = false
  | PdPlace _ => True
  | PdEol => False
  end.

Lemma last_ok_tl d r : r <> [] -> last_ok (d :: r) -> last_ok r.
Proof. destruct r; [congruence|]. intros _ H. exact H. Qed.

(* an indentation piece is not the last piece: a placeable follows it *)
Lemma indent_next l own r : pds_ok false r -> last_ok (PdText l own [] false :: r) ->
  (match r with [] => True | PdPlace _ :: _ => True | PdEol :: _ => @nil N <> [] | _ => False end) -> exists r', r = PdPlace false :: r'.
Proof.
  intros Hr Hl Hn. destruct r as [|[l2 o2 b2 f2 | l2 |] r']; [|destruct Hn| |].
  - unfold last_ok in Hl. cbn [last] in Hl. destruct Hl as (_ & H & _). congruence.
  - cbn [pds_ok] in Hr. destruct Hr as [-> _]. eauto.
  - congruence.
Qed.

(* the state of the walk: at a line start with nothing on the line yet, inside a line that started well, or after
   the indentation of a placeable that comes next *)
Definition cur_ok (ls : bool) (cur : bytes) (ds : list pd) : Prop :=
  (ls = true /\ cur = []) \/ (ls = false /\ gp cur) \/
  (ls = false /\ is_blank_line cur = true /\ exists l' r', ds = PdPlace l' :: r').

Lemma head_gp own c body : head_ok c -> gp (sp own ++ c :: body).
Proof. intros H. exists own, c, body. split; [reflexivity | exact H]. Qed.

Lemma blank_brace_gp cur X : is_blank_line cur = true -> gp (cur ++ 123%N :: X).
Proof. intros H. rewrite (blank_all_spaces cur H). exists (length cur), 123%N, X. split; [reflexivity | repeat split; reflexivity]. Qed.

Lemma plines_ok ds : forall ls cur, pds_ok ls ds -> cur_ok ls cur ds ->
  (ds = [] -> ls = false) -> (ds <> [] -> last_ok ds) ->
  forallb pline_ok (plines cur ds) = true.
Proof.
  induction ds as [|d r IH]; intros ls cur Hok Hcur Hne Hlast.
  - cbn [plines forallb]. rewrite (Hne eq_refl) in Hcur.
    destruct Hcur as [[H _] | [[_ H] | (_ & _ & l' & r' & H)]]; [discriminate H | | discriminate H].
    rewrite (gp_pline cur H). reflexivity.
  - assert (Hl' : r <> [] -> last_ok r) by (intros Hr0; apply (last_ok_tl d r Hr0 (Hlast ltac:(discriminate)))).
    destruct d as [l own body lf | l |]; cbn [pds_ok] in Hok; cbn [plines].
    + destruct Hok as (_ & Hb & Hcase & Hnext & Hr).
      destruct Hcur as [[-> ->] | [[-> Hgp] | (_ & _ & l' & r' & H)]]; [| |discriminate H].
      * (* at a line start *)
        cbn [app]. destruct body as [|c body'].
        -- destruct Hcase as [[-> ->] | ->].
           ++ (* a blank line *) cbn [sp repeat app forallb]. change (pline_ok []) with true. cbn [andb].
              destruct r as [|d2 r2]; [reflexivity|]. apply (IH true [] Hr); [left; auto | discriminate | exact Hl'].
           ++ (* the indentation of a placeable *)
              destruct (indent_next l own r Hr (Hlast ltac:(discriminate)) (Hnext eq_refl)) as [r' ->].
              rewrite app_nil_r. apply (IH false (sp own) Hr); [|discriminate | exact Hl'].
              right; right. split; [reflexivity|]. split; [apply sp_blank | eauto].
        -- pose proof (head_gp own c body' Hcase) as Hg. destruct lf.
           ++ cbn [forallb]. rewrite (gp_pline _ Hg). cbn [andb].
              destruct r as [|d2 r2]; [reflexivity|]. apply (IH true [] Hr); [left; auto | discriminate | exact Hl'].
           ++ apply (IH false _ Hr); [right; left; auto | intros ->; reflexivity | exact Hl'].
      * (* inside a line *)
        pose proof (gp_app cur (sp own ++ body) Hgp) as Hg. destruct lf.
        -- cbn [forallb]. rewrite (gp_pline _ Hg). cbn [andb].
           destruct r as [|d2 r2]; [reflexivity|]. apply (IH true [] Hr); [left; auto | discriminate | exact Hl'].
        -- apply (IH false _ Hr); [right; left; auto | intros ->; reflexivity | exact Hl'].
    + destruct Hok as [_ Hr]. apply (IH false _ Hr); [|intros ->; reflexivity | exact Hl']. right; left. split; [reflexivity|].
      destruct Hcur as [[_ ->] | [[_ Hgp] | (_ & Hbl & _)]].
      * exists 0, 123%N, []. split; [reflexivity | repeat split; reflexivity].
      * apply gp_app, Hgp.
      * apply blank_brace_gp, Hbl.
    + (* the line feed of a CR LF line end closes the line *)
      destruct Hok as [-> Hr]. destruct Hcur as [[H _] | [[_ Hgp] | (_ & _ & l' & r' & H)]]; [discriminate H | | discriminate H].
      cbn [forallb]. rewrite (gp_pline cur Hgp). cbn [andb].
      destruct r as [|d2 r2]; [reflexivity|]. apply (IH true [] Hr); [left; auto | discriminate | exact Hl'].
Qed.

(* the first line of an inline value is not bound by the rules of the later lines *)
Lemma plines_tl_ok ds : forall cur, pds_ok false ds -> (ds <> [] -> last_ok ds) -> forallb pline_ok (tl (plines cur ds)) = true.
Proof.
  induction ds as [|d r IH]; intros cur Hok Hlast; [reflexivity|].
  assert (Hl' : r <> [] -> last_ok r) by (intros Hr0; apply (last_ok_tl d r Hr0 (Hlast ltac:(discriminate)))).
  destruct d as [l own body lf | l |]; cbn [pds_ok] in Hok; cbn [plines].
  - destruct Hok as (_ & _ & _ & _ & Hr). destruct lf; [|apply (IH _ Hr Hl')]. cbn [tl].
    destruct r as [|d2 r2]; [reflexivity|]. apply (plines_ok _ true [] Hr); [left; auto | discriminate | exact Hl'].
  - destruct Hok as [_ Hr]. apply (IH _ Hr Hl').
  - destruct Hok as [_ Hr]. cbn [tl]. destruct r as [|d2 r2]; [reflexivity|]. apply (plines_ok _ true [] Hr); [left; auto | discriminate | exact Hl'].
Qed.

(* ---- indentation ---- *)
Fixpoint counted (ds : list pd) : list nat :=
  match ds with
  | [] => []
  | PdText true own (_ :: _) _ :: r => own :: counted r
  | PdText true own [] false :: r => own :: counted r
  | PdPlace true :: r => 0 :: counted r
  | _ :: r => counted r
  end.

Definition nb (ls : list bytes) : list bytes := filter (fun l => negb (is_blank_line l)) ls.

Lemma nb_gp cur r : gp cur -> map leading_spaces (nb (cur :: r)) = leading_spaces cur :: map leading_spaces (nb r).
Proof. intros H. unfold nb. cbn [filter]. rewrite (proj1 (gp_facts cur H)). reflexivity. Qed.

Lemma gp_ls_brace cur : gp cur -> leading_spaces (cur ++ [123%N]) = leading_spaces cur.
Proof. intros H. apply gp_ls, H. Qed.

Lemma counted_lines ds : forall ls cur, pds_ok ls ds -> cur_ok ls cur ds -> (ds <> [] -> last_ok ds) ->
  map leading_spaces (nb (plines cur ds)) = (if ls then [] else [leading_spaces (cur ++ [123%N])]) ++ counted ds.
Proof.
  induction ds as [|d r IH]; intros ls cur Hok Hcur Hlast.
  - cbn [plines counted]. rewrite app_nil_r.
    destruct Hcur as [[-> ->] | [[-> H] | (_ & _ & l' & r' & H)]]; [reflexivity | | discriminate H].
    rewrite (nb_gp cur [] H), (gp_ls_brace cur H). reflexivity.
  - assert (Hl' : r <> [] -> last_ok r) by (intros Hr0; apply (last_ok_tl d r Hr0 (Hlast ltac:(discriminate)))).
    destruct d as [l own body lf | l |]; cbn [pds_ok] in Hok; cbn [plines].
    + destruct Hok as (El & Hb & Hcase & Hnext & Hr). subst l.
      destruct Hcur as [[-> ->] | [[-> Hgp] | (_ & _ & l' & r' & H)]]; [| |discriminate H].
      * cbn [app]. destruct body as [|c body'].
        -- destruct Hcase as [[-> ->] | ->].
           ++ cbn [sp repeat app counted]. unfold nb. cbn [filter is_blank_line forallb negb]. fold (nb (plines [] r)).
              apply (IH true [] Hr); [left; auto | exact Hl'].
           ++ destruct (indent_next true own r Hr (Hlast ltac:(discriminate)) (Hnext eq_refl)) as [r' ->].
              rewrite app_nil_r. cbn [counted].
              rewrite (IH false (sp own) Hr); [|right; right; split; [reflexivity | split; [apply sp_blank | eauto]] | exact Hl'].
              cbn [app]. f_equal. apply (ls_sp_cons own 123%N [] eq_refl).
        -- pose proof (head_gp own c body' Hcase) as Hg. cbn [counted].
           assert (Hls : leading_spaces (sp own ++ c :: body') = own) by (apply ls_sp_cons, Hcase).
           destruct lf.
           ++ rewrite (nb_gp _ _ Hg), Hls. cbn [app]. f_equal. apply (IH true [] Hr); [left; auto | exact Hl'].
           ++ rewrite (IH false _ Hr); [|right; left; auto | exact Hl']. cbn [app]. f_equal. rewrite (gp_ls_brace _ Hg). exact Hls.
      * pose proof (gp_app cur (sp own ++ body) Hgp) as Hg. cbn [counted].
        assert (Hls : leading_spaces (cur ++ sp own ++ body) = leading_spaces (cur ++ [123%N])) by (rewrite !(gp_ls cur Hgp); reflexivity).
        destruct lf.
        -- rewrite (nb_gp _ _ Hg), Hls. cbn [app]. f_equal. apply (IH true [] Hr); [left; auto | exact Hl'].
        -- rewrite (IH false _ Hr); [|right; left; auto | exact Hl']. cbn [app]. f_equal. rewrite (gp_ls_brace _ Hg). exact Hls.
    + destruct Hok as [El Hr]. subst l.
      assert (Hg : gp (cur ++ [123%N])).
      { destruct Hcur as [[_ ->] | [[_ Hgp] | (_ & Hbl & _)]].
        - exists 0, 123%N, []. split; [reflexivity | repeat split; reflexivity].
        - apply gp_app, Hgp.
        - apply blank_brace_gp, Hbl. }
      rewrite (IH false _ Hr); [|right; left; auto | exact Hl']. rewrite (gp_ls_brace _ Hg).
      destruct Hcur as [[-> ->] | [[-> Hgp] | (-> & Hbl & _)]]; cbn [counted app]; reflexivity.
    + destruct Hok as [-> Hr]. destruct Hcur as [[H _] | [[_ Hgp] | (_ & _ & l' & r' & H)]]; [discriminate H | | discriminate H].
      rewrite (nb_gp cur _ Hgp), (gp_ls_brace cur Hgp). cbn [counted app]. f_equal. apply (IH true [] Hr); [left; auto | exact Hl'].
Qed.

Lemma counted_tl ds : forall cur, pds_ok false ds -> (ds <> [] -> last_ok ds) -> map leading_spaces (nb (tl (plines cur ds))) = counted ds.
Proof.
  induction ds as [|d r IH]; intros cur Hok Hlast; [reflexivity|].
  assert (Hl' : r <> [] -> last_ok r) by (intros Hr0; apply (last_ok_tl d r Hr0 (Hlast ltac:(discriminate)))).
  destruct d as [l own body lf | l |]; cbn [pds_ok] in Hok; cbn [plines].
  - destruct Hok as (-> & _ & _ & _ & Hr). cbn [counted]. destruct lf; [|apply (IH _ Hr Hl')]. cbn [tl].
    rewrite (counted_lines r true [] Hr); [reflexivity | left; auto | exact Hl'].
  - destruct Hok as [-> Hr]. cbn [counted]. apply (IH _ Hr Hl').
  - destruct Hok as [_ Hr]. cbn [counted tl]. rewrite (counted_lines r true [] Hr); [reflexivity | left; auto | exact Hl'].
Qed.

(* ---- the first and the last line ---- *)
Lemma plines_ne cur ds : plines cur ds <> [].
Proof. revert cur. induction ds as [|d r IH]; intros cur; [discriminate|]. destruct d as [l own body [|] | l |]; cbn [plines]; [discriminate | apply IH | apply IH | discriminate]. Qed.

Lemma hd_prefix ds : forall cur, exists X, hd [] (plines cur ds) = cur ++ X.
Proof.
  induction ds as [|d r IH]; intros cur; [exists []; cbn; rewrite app_nil_r; reflexivity|].
  destruct d as [l own body [|] | l |]; cbn [plines hd].
  - exists (sp own ++ body). reflexivity.
  - destruct (IH (cur ++ sp own ++ body)) as [X E]. exists ((sp own ++ body) ++ X). rewrite E, <- app_assoc. reflexivity.
  - destruct (IH (cur ++ [123%N])) as [X E]. exists ([123%N] ++ X). rewrite E, <- app_assoc. reflexivity.
  - exists []. rewrite app_nil_r. reflexivity.
Qed.

Lemma hd_gp ds cur : gp cur -> gp (hd [] (plines cur ds)).
Proof. intros H. destruct (hd_prefix ds cur) as [X ->]. apply gp_app, H. Qed.

Definition first_ok (block : bool) (ds : list pd) : Prop :=
  match ds with
  | PdText _ _ (c :: _) _ :: _ => N.eqb c 32 = false /\ N.eqb c 10 = false
  | PdText _ _ [] lf :: _ => block = true /\ lf = false
  | PdEol :: _ => False
  | _ => True
  end.

Lemma last_line ds : forall cur, ds <> [] -> last_ok ds ->
  exists X b, last (plines cur ds) [] = X ++ [b] /\ N.eqb b 32 = false.
Proof.
  induction ds as [|d r IH]; intros cur Hne Hl; [congruence|].
  destruct r as [|d2 r2].
  - unfold last_ok in Hl. cbn [last] in Hl. destruct d as [l own body lf | l |]; cbn [plines]; [| |destruct Hl].
    + destruct Hl as (-> & Hb & Hlast). cbn [last]. exists (cur ++ sp own ++ removelast body), (last body 0%N). split; [|exact Hlast].
      rewrite <- !app_assoc. f_equal. f_equal. apply app_removelast_last, Hb.
    + cbn [last]. exists cur, 123%N. split; reflexivity.
  - assert (Hl' : last_ok (d2 :: r2)) by exact Hl.
    assert (Hlast : forall x l, l <> [] -> last (x :: l) ([] : bytes) = last l []) by (intros x [|y l] H; [congruence | reflexivity]).
    assert (HneR : d2 :: r2 <> []) by discriminate. remember (d2 :: r2) as R eqn:ER. clear ER.
    destruct d as [l own body [|] | l |]; cbn [plines].
    + rewrite (Hlast _ _ (plines_ne _ _)). apply (IH [] HneR Hl').
    + apply (IH _ HneR Hl').
    + apply (IH _ HneR Hl').
    + rewrite (Hlast _ _ (plines_ne _ _)). apply (IH [] HneR Hl').
Qed.

(* ---- the line rules on a skeleton ---- *)
Definition wf_lines_sk (S : bytes) (fbok : bool) : bool :=
  let ls := lines_of S in
  match ls with
  | [] => false
  | l0 :: rest =>
      negb (is_blank_line l0) &&
      (let last := List.last ls [] in negb (is_blank_line last) && Nat.eqb (leading_spaces (rev last)) 0) &&
      forallb (fun l => is_blank_line l || line_start_ok l) rest &&
      forallb (fun l => negb (is_blank_line l) || Nat.eqb (length l) 0) rest &&
      (if Nat.eqb (leading_spaces l0) 0 then
         match min_list (map leading_spaces (filter (fun l => negb (is_blank_line l)) rest)) with
         | Some m => Nat.eqb m 0 || fbok
         | None => true
         end
       else
         line_start_ok l0 &&
         match min_list (map leading_spaces (filter (fun l => negb (is_blank_line l)) rest)) with
         | Some m => Nat.eqb m 0
         | None => false
         end)
  end.

Lemma wf_lines_sk_eq p : wf_pattern_lines_top p = wf_lines_sk (skeleton p) (first_byte_ok_for_block p).
Proof. reflexivity. Qed.

Definition dot_free (S : bytes) : bool := match S with c :: _ => negb (N.eqb c 46 || N.eqb c 91 || N.eqb c 42) | [] => true end.

Lemma pline_split rest : forallb pline_ok rest = true ->
  forallb (fun l => is_blank_line l || line_start_ok l) rest = true /\
  forallb (fun l => negb (is_blank_line l) || Nat.eqb (length l) 0) rest = true.
Proof.
  rewrite !forallb_forall. intros H. split; intros l Hl; specialize (H l Hl); unfold pline_ok in H; apply andb_prop in H as [H1 H2]; assumption.
Qed.

Theorem pds_wf block ds :
  pds_ok block ds -> ds <> [] -> first_ok block ds -> last_ok ds ->
  (counted ds = [] \/ In 0 (counted ds)) ->
  wf_lines_sk (sk_of ds) (dot_free (sk_of ds)) = true.
Proof.
  intros Hok Hne Hfirst Hlast Hind. unfold wf_lines_sk.
  replace (lines_of (sk_of ds)) with (plines [] ds) by (symmetry; apply (plines_lines ds block [] Hok eq_refl)). cbv zeta.
  destruct (plines [] ds) as [|l0 rest] eqn:El; [exfalso; apply (plines_ne [] ds El)|].
  (* the last line *)
  destruct (last_line ds [] Hne Hlast) as (X & b & Elast & Hb). rewrite El in Elast. rewrite Elast.
  assert (L1 : is_blank_line (X ++ [b]) = false).
  { unfold is_blank_line. rewrite forallb_app. cbn [forallb]. rewrite N.eqb_sym, Hb. cbn [andb]. apply andb_false_r. }
  assert (L2 : leading_spaces (rev (X ++ [b])) = 0) by (rewrite rev_app_distr; cbn [rev app leading_spaces]; rewrite Hb; reflexivity).
  rewrite L1, L2. cbn [negb Nat.eqb andb]. rewrite andb_true_r.
  destruct block.
  - (* block form: every line, the first included, starts at a line start *)
    assert (Hall : forallb pline_ok (l0 :: rest) = true).
    { rewrite <- El. apply (plines_ok ds true [] Hok); [left; auto | intros ->; congruence | intros _; exact Hlast]. }
    cbn [forallb] in Hall. apply andb_prop in Hall as [H0 Hrest]. destruct (pline_split rest Hrest) as [C3 C4]. rewrite C3, C4.
    pose proof (counted_lines ds true [] Hok ltac:(left; auto) (fun _ => Hlast)) as Hc. rewrite El in Hc. cbn [app] in Hc.
    (* the first line is not blank *)
    assert (Hg : gp l0).
    { replace l0 with (hd [] (plines [] ds)) by (rewrite El; reflexivity).
      destruct ds as [|d r]; [congruence|]. destruct d as [l own body lf | l |]; cbn [pds_ok first_ok] in Hok, Hfirst; cbn [plines]; [| |destruct Hfirst].
      - destruct Hok as (_ & _ & Hcase & Hnext & Hr). destruct body as [|c body'].
        + destruct Hfirst as [_ ->]. destruct (indent_next l own r Hr Hlast (Hnext eq_refl)) as [r' ->].
          cbn [app plines]. rewrite app_nil_r. apply hd_gp. apply blank_brace_gp, sp_blank.
        + cbn [app]. destruct lf; [cbn [hd]; apply head_gp, Hcase | apply hd_gp, head_gp, Hcase].
      - cbn [app]. apply hd_gp. exists 0, 123%N, []. split; [reflexivity | repeat split; reflexivity]. }
    destruct (gp_facts l0 Hg) as [G1 G2]. rewrite G1, G2. cbn [negb andb].
    rewrite (nb_gp l0 rest Hg) in Hc. unfold nb in Hc.
    destruct (Nat.eqb (leading_spaces l0) 0) eqn:E0.
    + apply Nat.eqb_eq in E0. destruct (counted ds) as [|k0 restc] eqn:Ec; [discriminate Hc|]. injection Hc as Hk0 Hrestc.
      rewrite Hrestc. destruct (min_list restc) as [m|] eqn:Em; [|reflexivity].
      (* all other lines are indented: the first byte may start a block line *)
      assert (Hdf : dot_free (sk_of ds) = true).
      { destruct Hg as (k & c & w & E & (H32 & _ & Hd)). rewrite E, (ls_sp_cons k c w H32) in E0. subst k. cbn [sp repeat app] in E.
        destruct (hd_prefix ds []) as [Y EY]. rewrite El in EY. cbn [hd app] in EY.
        (* the skeleton starts with the first line *)
        assert (Esk : exists Z, sk_of ds = hd [] (plines [] ds) ++ Z).
        { clear - Hok. revert Hok. generalize true. intros ls0 Hok.
          assert (H : forall ds ls cur, pds_ok ls ds -> exists Z, cur ++ sk_of ds = hd [] (plines cur ds) ++ Z).
          { clear. induction ds as [|d r IH]; intros ls cur Hok; [exists []; unfold sk_of; cbn; reflexivity|].
            destruct d as [l own body lf | l |]; cbn [pds_ok] in Hok; unfold sk_of; cbn [map concat pd_bytes plines]; fold (sk_of r).
            - destruct Hok as (_ & _ & _ & _ & Hr). destruct lf.
              + cbn [hd]. exists (10%N :: sk_of r). rewrite <- !app_assoc. reflexivity.
              + destruct (IH false (cur ++ sp own ++ body) Hr) as [Z EZ]. exists Z. rewrite <- EZ, app_nil_r, <- !app_assoc. reflexivity.
            - destruct Hok as [_ Hr]. destruct (IH false (cur ++ [123%N]) Hr) as [Z EZ]. exists Z. rewrite <- EZ, <- app_assoc. reflexivity.
            - cbn [hd]. exists (10%N :: sk_of r). reflexivity. }
          destruct (H ds ls0 [] Hok) as [Z EZ]. exists Z. exact EZ. }
        destruct Esk as [Z EZ]. rewrite El in EZ. cbn [hd] in EZ. rewrite EZ, E. cbn [app dot_free]. rewrite Hd. reflexivity. }
      rewrite Hdf. apply orb_true_r.
    + apply Nat.eqb_neq in E0. destruct (counted ds) as [|k0 restc] eqn:Ec; [discriminate Hc|]. injection Hc as Hk0 Hrestc.
      rewrite Hrestc. destruct Hind as [Hnil | Hin]; [discriminate Hnil|].
      destruct Hin as [H0' | Hin]; [congruence|]. rewrite (min_list_zero restc Hin). reflexivity.
  - (* inline form *)
    assert (Hrest : forallb pline_ok rest = true).
    { replace rest with (tl (plines [] ds)) by (rewrite El; reflexivity). apply (plines_tl_ok ds [] Hok (fun _ => Hlast)). }
    destruct (pline_split rest Hrest) as [C3 C4]. rewrite C3, C4.
    pose proof (counted_tl ds [] Hok (fun _ => Hlast)) as Hc. rewrite El in Hc. cbn [tl] in Hc. unfold nb in Hc.
    (* the first line starts with a byte that is not a space *)
    assert (Hl0 : exists c w, l0 = c :: w /\ N.eqb c 32 = false).
    { destruct ds as [|d r]; [congruence|]. destruct d as [l own body lf | l |]; cbn [pds_ok first_ok] in Hok, Hfirst; [| |destruct Hfirst].
      - destruct Hok as (_ & _ & [Hown _] & _). subst own. destruct body as [|c body']; [destruct Hfirst as [H _]; discriminate H|].
        cbn [plines sp repeat app] in El. destruct lf.
        + injection El as <- _. exists c, body'. split; [reflexivity | apply Hfirst].
        + destruct (hd_prefix r (c :: body')) as [Y EY]. rewrite El in EY. cbn [hd] in EY. exists c, (body' ++ Y). split; [exact EY | apply Hfirst].
      - cbn [plines app] in El. destruct (hd_prefix r [123%N]) as [Y EY]. rewrite El in EY. cbn [hd] in EY. exists 123%N, Y. split; [exact EY | reflexivity]. }
    destruct Hl0 as (c & w & -> & Hc32).
    assert (B0 : is_blank_line (c :: w) = false) by (cbn [is_blank_line forallb]; rewrite N.eqb_sym, Hc32; reflexivity).
    assert (I0 : leading_spaces (c :: w) = 0) by (cbn [leading_spaces]; rewrite Hc32; reflexivity).
    rewrite B0, I0. cbn [negb andb Nat.eqb]. rewrite Hc.
    destruct Hind as [-> | Hin]; [reflexivity | rewrite (min_list_zero _ Hin); reflexivity].
Qed.

(* ============================================================================================== *)
(* Part B: the pattern loop on a source without a lone CR produces such a description              *)
From FluentV Require Import Syntax.ParserAccounting Syntax.ParserShape Syntax.SerializerProofs.
Arguments N.add : simpl never. Arguments N.sub : simpl never. Arguments N.ltb : simpl never. Arguments N.leb : simpl never.

Ltac skipb := eapply spec_bind; [apply spec_any | intros; exact Logic.I | let sa := fresh "sa" in let sq := fresh "sq" in intros sa sq _].
Tactic Notation "skipn" ident(a) ident(q) := eapply spec_bind; [apply spec_any | intros; exact Logic.I | intros a q _].
Ltac useb H := eapply spec_bind; [apply H | intros; exact Logic.I | ].

Lemma firstn_add {A} (a b : nat) (l : list A) : firstn (a + b) l = firstn a l ++ firstn b (skipn a l).
Proof.
  revert l. induction a as [|a IH]; intros l; [reflexivity|]. destruct l as [|x l]; [cbn; rewrite firstn_nil; reflexivity|].
  cbn [Nat.add firstn skipn app]. rewrite IH. reflexivity.
Qed.
Lemma skipn_add {A} (x y : nat) (l : list A) : skipn x (skipn y l) = skipn (x + y) l.
Proof.
  revert l. induction y as [|y IH]; intros l; [rewrite Nat.add_0_r; reflexivity|].
  destruct l as [|a l]; [rewrite !skipn_nil; reflexivity|]. rewrite Nat.add_succ_r. cbn [skipn]. apply IH.
Qed.

(* every CR is the first byte of a CR LF line end *)
Fixpoint no_lone_cr (l : bytes) : bool :=
  match l with
  | [] => true
  | b :: r => (negb (N.eqb b 13) || match r with c :: _ => N.eqb c 10 | [] => false end) && no_lone_cr r
  end.

Lemma no_lone_cr_at l : no_lone_cr l = true -> forall i, nth_error l i = Some 13%N -> nth_error l (S i) = Some 10%N.
Proof.
  induction l as [|b r IH]; intros H i Hi; [destruct i; discriminate Hi|]. cbn [no_lone_cr] in H. apply andb_prop in H as [H1 H2].
  destruct i as [|i]; [|cbn [nth_error] in *; apply (IH H2 i Hi)].
  cbn [nth_error] in Hi. injection Hi as ->. cbn [N.eqb Pos.eqb negb orb] in H1. destruct r as [|c r']; [discriminate H1|].
  apply N.eqb_eq in H1. subst c. reflexivity.
Qed.

Lemma nocr_no_lone l : forallb (fun b => negb (N.eqb b 13)) l = true -> no_lone_cr l = true.
Proof.
  induction l as [|b r IH]; intros H; [reflexivity|]. cbn [forallb] in H. apply andb_prop in H as [H1 H2].
  cbn [no_lone_cr]. rewrite H1, (IH H2). reflexivity.
Qed.

Definition nocr_l (v : bytes) : Prop := forall b, In b v -> N.eqb b 13 = false.

Section Knot.
Variable bs : bytes.
Hypothesis Hnlc : no_lone_cr bs = true.

Lemma nlc_at i : nth_error bs i = Some 13%N -> nth_error bs (S i) = Some 10%N.
Proof. apply (no_lone_cr_at bs Hnlc). Qed.

Lemma rest_cr p i : nth_error (rest bs p) i = Some 13%N -> nth_error (rest bs p) (S i) = Some 10%N.
Proof. unfold rest. rewrite !nth_error_skipn_add. replace (p + S i) with (S (p + i)) by lia. apply nlc_at. Qed.

(* the bytes [s, e) of the source *)
Definition seg (s e : nat) (v : bytes) : Prop := s <= e /\ e <= length bs /\ firstn (e - s) (skipn s bs) = v.

Lemma seg_length s e v : seg s e v -> length v = e - s.
Proof. intros (H1 & H2 & <-). rewrite firstn_length, skipn_length. lia. Qed.

Lemma seg_slice s e v : seg s e v -> forall w, slice bs s e = Done w -> w = v.
Proof.
  intros (_ & _ & <-) w H. unfold slice in H.
  destruct (Nat.leb s e && Nat.leb e (length bs) && is_char_boundary bs s && is_char_boundary bs e); [|discriminate H].
  injection H as <-. reflexivity.
Qed.

Lemma seg_app s m e a b : seg s m a -> seg m e b -> seg s e (a ++ b).
Proof.
  intros (H1 & H2 & <-) (H3 & H4 & <-). split; [lia | split; [exact H4|]].
  replace (e - s) with ((m - s) + (e - m)) by lia. rewrite firstn_add. f_equal. f_equal. rewrite skipn_add. f_equal. lia.
Qed.

(* ---- the text slice ---- *)
Lemma firstn_S_nth {A} (l : list A) : forall i b, nth_error l i = Some b -> firstn (S i) l = firstn i l ++ [b].
Proof.
  induction l as [|x l IH]; intros i b H; [destruct i; discriminate H|]. destruct i as [|i]; [cbn in H; injection H as ->; reflexivity|].
  cbn [nth_error] in H. cbn [firstn app]. f_equal. apply (IH i b H).
Qed.

Lemma scan_while_le f (l : bytes) : scan_while f l <= length l.
Proof. induction l as [|b r IH]; [reflexivity|]. cbn [scan_while length]. destruct (f b); lia. Qed.

Lemma scan_while_all f (l : bytes) : forallb f (firstn (scan_while f l) l) = true.
Proof. induction l as [|b r IH]; [reflexivity|]. cbn [scan_while]. destruct (f b) eqn:E; [cbn [firstn forallb]; rewrite E, IH; reflexivity | reflexivity]. Qed.

Lemma scan_while_stop' f (l : bytes) b : nth_error l (scan_while f l) = Some b -> f b = false.
Proof.
  induction l as [|x r IH]; [discriminate|]. cbn [scan_while]. destruct (f x) eqn:E; [cbn [nth_error]; exact IH|].
  cbn [nth_error]. intros H. injection H as <-. exact E.
Qed.

Lemma spaces_sp (l : bytes) : forallb is_space l = true -> l = sp (length l).
Proof.
  induction l as [|b l IH]; intros H; [reflexivity|]. cbn [forallb] in H. apply andb_prop in H as [Hb Hl].
  unfold is_space, c_sp in Hb. apply N.eqb_eq in Hb. subst b. cbn [length sp repeat]. f_equal. apply IH, Hl.
Qed.

Lemma memchr3_some_nth l : forall k, memchr3 l = Some k -> exists b, nth_error l k = Some b /\ (N.eqb b c_lf || N.eqb b 123 || N.eqb b 125) = true.
Proof.
  induction l as [|x r IH]; intros k H; [discriminate H|]. cbn [memchr3] in H.
  destruct (N.eqb x c_lf || N.eqb x 123 || N.eqb x 125) eqn:E; [injection H as <-; exists x; split; [reflexivity | exact E]|].
  destruct (memchr3 r) as [j|] eqn:Er; [|discriminate H]. cbn in H. injection H as <-. destruct (IH j eq_refl) as (b & Hb & Hs). exists b. split; assumption.
Qed.

Lemma no_lf_of_nth (v : bytes) : (forall i b, nth_error v i = Some b -> b <> 10%N) -> no_lf v.
Proof.
  intros H. unfold no_lf. destruct (existsb (N.eqb 10) v) eqn:E; [|reflexivity]. exfalso.
  apply existsb_exists in E as (b & Hin & Hb). apply N.eqb_eq in Hb. subst b. apply In_nth_error in Hin as [i Hi]. exact (H i _ Hi eq_refl).
Qed.

Lemma nth_firstn_lt {A} (l : list A) k i b : nth_error (firstn k l) i = Some b -> i < k /\ nth_error l i = Some b.
Proof.
  revert l i. induction k as [|k IH]; intros l i H; [destruct i; discriminate H|]. destruct l as [|x l]; [destruct i; discriminate H|].
  destruct i as [|i]; [split; [lia | exact H]|]. cbn in H. destruct (IH l i H) as [H1 H2]. split; [lia | exact H2].
Qed.

Definition slice_post (p : nat) (ts : nat * nat * bool * termination) (q : nat) : Prop :=
  let '(start, end_, nb, term) := ts in
  start = p /\ q = (match term with TCrlf => S end_ | _ => end_ end) /\
  exists text, no_lf text /\ nocr_l text /\ nb = is_nonblank text /\
    match term with
    | TLineFeed => seg p end_ (text ++ [10%N])
    | TPlaceableStart => seg p end_ text /\ byte_at bs end_ = Some 123%N
    | TEof => seg p end_ text /\ length bs <= end_
    | TCrlf => seg p end_ text /\ byte_at bs end_ = Some 13%N /\ byte_at bs (S end_) = Some 10%N
    end.

Lemma text_nocr (r : bytes) k :
  (forall i c, i < k -> nth_error r i = Some c -> N.eqb c 10 = false) ->
  (forall i, nth_error r i = Some 13%N -> nth_error r (S i) = Some 10%N) ->
  (forall i, S i = k -> nth_error r i <> Some 13%N) ->
  nocr_l (firstn k r).
Proof.
  intros Hns Hcr Hlast b Hin. destruct (N.eqb b 13) eqn:E; [|reflexivity]. exfalso. apply N.eqb_eq in E. subst b.
  apply In_nth_error in Hin as [i Hi]. destruct (nth_firstn_lt _ _ _ _ Hi) as [Hlt Hi'].
  pose proof (Hcr i Hi') as Hn. destruct (Nat.eq_dec (S i) k) as [Ek | Ek]; [exact (Hlast i Ek Hi')|].
  specialize (Hns (S i) 10%N ltac:(lia) Hn). discriminate Hns.
Qed.

Lemma st_text_slice p : p <= length bs -> spec (get_text_slice bs) p (slice_post p) ET.
Proof.
  intros Hp. unfold spec, get_text_slice. replace (Nat.ltb (length_ bs) p) with false by (symmetry; apply Nat.ltb_ge; exact Hp).
  assert (Hlen : length (rest bs p) = length bs - p) by (unfold rest; apply skipn_length).
  pose proof (rest_cr p) as Hcr.
  destruct (memchr3 (rest bs p)) as [k|] eqn:Em.
  - destruct (memchr3_some_nth _ k Em) as (b & Hb & Hspec). rewrite Hb.
    assert (Hk : k < length (rest bs p)) by (apply nth_error_Some; congruence).
    assert (Hns : forall i c, i < k -> nth_error (rest bs p) i = Some c -> N.eqb c 10 = false).
    { intros i c Hi Hc. apply N.eqb_neq. apply (special_false c (memchr3_before _ k Em i c Hi Hc)). }
    assert (Htext : forall j, j <= k -> no_lf (firstn j (rest bs p))).
    { intros j Hj. apply no_lf_of_nth. intros i c Hc. destruct (nth_firstn_lt _ _ _ _ Hc) as [Hi Hc'].
      apply (special_false c (memchr3_before _ k Em i c ltac:(lia) Hc')). }
    assert (Hseg : forall j, j <= k -> seg p (j + p) (firstn j (rest bs p))).
    { intros j Hj. split; [lia | split; [lia|]]. replace (j + p - p) with j by lia. reflexivity. }
    destruct (N.eqb b 125) eqn:E125; [exact Logic.I|].
    destruct (N.eqb b c_lf) eqn:Elf.
    + apply N.eqb_eq in Elf. subst b.
      assert (Hseg2 : seg p (S k + p) (firstn k (rest bs p) ++ [10%N])).
      { split; [lia | split; [lia|]]. replace (S k + p - p) with (S k) by lia. apply (firstn_S_nth _ k _ Hb). }
      assert (Hres : (forall i, S i = k -> nth_error (rest bs p) i <> Some 13%N) ->
                     slice_post p (p, S k + p, is_nonblank (firstn k (rest bs p)), TLineFeed) (S k + p)).
      { intros Hl. cbn. split; [reflexivity | split; [reflexivity|]]. exists (firstn k (rest bs p)).
        split; [apply Htext; lia | split; [apply (text_nocr _ k Hns Hcr Hl) | split; [reflexivity | exact Hseg2]]]. }
      destruct k as [|k']; [apply Hres; intros i Hi; discriminate Hi|].
      destruct (nth_error (rest bs p) k') as [c|] eqn:Ec; [|apply Hres; intros i Hi; injection Hi as ->; rewrite Ec; discriminate].
      destruct (N.eqb c c_cr) eqn:Ecr; [|apply Hres; intros i Hi; injection Hi as ->; rewrite Ec; intros E; injection E as ->; discriminate Ecr].
      apply N.eqb_eq in Ecr. subst c.
      assert (Hres2 : slice_post p (p, k' + p, is_nonblank (firstn k' (rest bs p)), TCrlf) (S (k' + p))).
      { assert (Hb13 : byte_at bs (k' + p) = Some 13%N) by (unfold byte_at; unfold rest in Ec; rewrite nth_error_skipn_add in Ec; rewrite Nat.add_comm; exact Ec).
        assert (Hb10 : byte_at bs (S (k' + p)) = Some 10%N).
        { unfold byte_at. unfold rest in Hb. rewrite nth_error_skipn_add in Hb. replace (S (k' + p)) with (p + S k') by lia. exact Hb. }
        unfold slice_post. split; [reflexivity | split; [reflexivity|]]. exists (firstn k' (rest bs p)).
        split; [apply Htext; lia|]. split.
        - apply (text_nocr _ k'); [intros i c Hi Hc; apply (Hns i c ltac:(lia) Hc) | exact Hcr|].
          intros i Hi E. subst k'. rewrite (Hcr i E) in Ec. discriminate Ec.
        - split; [reflexivity|]. split; [apply Hseg; lia|]. split; assumption. }
      cbv zeta. replace (S k' + p - 1) with (k' + p) by lia. exact Hres2.
    + assert (E123 : b = 123%N).
      { cbn [orb] in Hspec. rewrite orb_false_r in Hspec. apply N.eqb_eq, Hspec. }
      subst b. cbn. split; [reflexivity | split; [reflexivity|]]. exists (firstn k (rest bs p)).
      split; [apply Htext; lia|]. split.
      { apply (text_nocr _ k Hns Hcr). intros i Hi E. subst k. rewrite (Hcr i E) in Hb. discriminate Hb. }
      split; [reflexivity | split; [apply Hseg; lia|]].
      unfold byte_at. unfold rest in Hb. rewrite nth_error_skipn_add in Hb. rewrite Nat.add_comm. exact Hb.
  - cbn. split; [reflexivity | split; [reflexivity|]]. exists (rest bs p). split; [|split; [|split; [reflexivity | split; [|lia]]]].
    + apply no_lf_of_nth. intros i c Hc. apply (special_false c (memchr3_none _ Em i c Hc)).
    + rewrite <- (firstn_all (rest bs p)). apply text_nocr; [|exact Hcr|].
      * intros i c _ Hc. apply N.eqb_neq. apply (special_false c (memchr3_none _ Em i c Hc)).
      * intros i Hi E. pose proof (Hcr i E) as Hn. assert (S i < length (rest bs p)) by (apply nth_error_Some; congruence). lia.
    + split; [lia | split; [lia|]]. replace (length (rest bs p) + p - p) with (length (rest bs p)) by lia. apply firstn_all.
Qed.


(* ---- appending a piece ---- *)
Fixpoint end_ls (ls : bool) (ds : list pd) : bool :=
  match ds with [] => ls | PdText _ _ _ lf :: r => end_ls lf r | PdPlace _ :: r => end_ls false r | PdEol :: r => end_ls true r end.
Definition needs_place (ds : list pd) : Prop :=
  match last ds (PdPlace false) with PdText _ _ _ false => True | _ => False end.
Definition has_body (ds : list pd) : Prop :=
  match last ds (PdPlace false) with PdText _ _ (_ :: _) _ => True | _ => False end.

Lemma pds_ok_snoc ds : forall ls d, pds_ok ls ds -> pds_ok (end_ls ls ds) [d] ->
  (needs_place ds -> (exists l, d = PdPlace l) \/ (d = PdEol /\ has_body ds)) -> pds_ok ls (ds ++ [d]).
Proof.
  induction ds as [|x r IH]; intros ls d Hok Hd Hnp; [exact Hd|].
  assert (Hnp' : r <> [] -> needs_place r -> (exists l, d = PdPlace l) \/ (d = PdEol /\ has_body r)).
  { intros Hr H. unfold needs_place, has_body in *. destruct r; [congruence | exact (Hnp H)]. }
  destruct x as [l own body lf | l |]; cbn [pds_ok end_ls app] in *.
  - destruct Hok as (El & Hb & Hcase & Hnext & Hr). split; [exact El|]. split; [exact Hb|]. split; [exact Hcase|]. split.
    + intros Hlf. specialize (Hnext Hlf). destruct r as [|y r']; [|destruct y; exact Hnext].
      cbn [app]. subst lf. destruct (Hnp Logic.I) as [[l' ->] | [-> Hbd]]; [exact Logic.I|].
      unfold has_body in Hbd. cbn [last] in Hbd. destruct body; [destruct Hbd | discriminate].
    + destruct r as [|y r']; [exact Hd|]. apply (IH lf d Hr Hd). intros H. apply (Hnp' ltac:(discriminate) H).
  - destruct Hok as [El Hr]. split; [exact El|]. destruct r as [|y r']; [exact Hd|]. apply (IH false d Hr Hd). intros H. apply (Hnp' ltac:(discriminate) H).
  - destruct Hok as [El Hr]. split; [exact El|]. destruct r as [|y r']; [exact Hd|]. apply (IH true d Hr Hd). intros H. apply (Hnp' ltac:(discriminate) H).
Qed.

Lemma end_ls_snoc ds : forall ls d, end_ls ls (ds ++ [d]) = match d with PdText _ _ _ lf => lf | PdPlace _ => false | PdEol => true end.
Proof. induction ds as [|x r IH]; intros ls d; [destruct d; reflexivity|]. destruct x; cbn [app end_ls]; apply IH. Qed.

Lemma counted_app a b : counted (a ++ b) = counted a ++ counted b.
Proof.
  induction a as [|x r IH]; [reflexivity|]. destruct x as [[|] own [|c body] [|] | [|] |]; cbn [app counted]; rewrite IH; reflexivity.
Qed.

Lemma first_ok_snoc block ds d : ds <> [] -> first_ok block ds -> first_ok block (ds ++ [d]).
Proof. destruct ds as [|x r]; [congruence|]. intros _ H. exact H. Qed.

(* ---- the description of the placeholders of the loop: independent of the common indentation ---- *)
Inductive qd := QText (ls : bool) (ind : nat) (body : bytes) (lf : bool) | QPlace (ls : bool) | QEol.
Definition to_pd (c : nat) (q : qd) : pd :=
  match q with QText ls i body lf => PdText ls (i - c) body lf | QPlace ls => PdPlace ls | QEol => PdEol end.
Definition lfb (lf : bool) : bytes := if lf then [10%N] else [].

(* the knot's conclusion for an expression: its patterns, joined, satisfy the line rules *)
Definition LE (e : expression) : Prop := lines_ok_expr (join_expr e) = true.

Definition ph_q (ph : placeholder) (q : qd) : Prop :=
  match ph, q with
  | PHPlaceable e, QPlace _ => LE e
  | PHText s e ind role, QText ls qi body lf =>
      ls = is_line_start role /\ seg s e (sp qi ++ body ++ lfb lf) /\ (ls = true -> ind = qi) /\ (ls = false -> qi = 0) /\ nocr_l body
  | PHText s e ind role, QEol => role = LineStart /\ seg s e [10%N] /\ ind = 0
  | _, _ => False
  end.

Definition q_nonblank (q : qd) : bool := match q with QText _ _ body _ => is_nonblank body | QPlace _ => true | QEol => false end.
Definition ci_rel (ci : option nat) (l : list nat) : Prop :=
  match ci with None => l = [] | Some m => In m l /\ Forall (fun i => m <= i) l end.
Definition lnb_rel (lnb : option nat) (qs : list qd) : Prop :=
  match lnb with
  | None => Forall (fun q => q_nonblank q = false) qs
  | Some i => exists q, nth_error qs i = Some q /\ q_nonblank q = true /\ Forall (fun q => q_nonblank q = false) (skipn (S i) qs)
  end.

Definition pds0 (qs : list qd) : list pd := map (to_pd 0) qs.
Definition q_body (qs : list qd) : Prop := match last qs (QPlace false) with QText _ _ (_ :: _) _ => True | _ => False end.

(* pend: the loop stands on the LF of a CR LF line end whose line is not closed in the description yet *)
Record inv (block pend : bool) (st : pstate) (qs : list qd) (p : nat) : Prop := mk_inv {
  i_rel : Forall2 ph_q (rev (elements st)) qs;
  i_ok : pds_ok block (pds0 qs);
  i_role : is_line_start (role st) = end_ls block (pds0 qs) || pend;
  i_init : qs = [] -> role st = (if block then LineStart else InitialLineStart);
  i_n : n_elements st = length qs;
  i_ci : ci_rel (common_indent st) (counted (pds0 qs));
  i_lnb : lnb_rel (last_non_blank st) qs;
  i_first : first_ok block (pds0 qs);
  i_pos : needs_place (pds0 qs) ->
          byte_at bs p = Some 123%N \/ (length bs <= p /\ q_body qs) \/ (pend = true /\ q_body qs);
  i_start : qs = [] ->
            if block then no_blank_line_head (rest bs p)
            else forall b, byte_at bs p = Some b -> N.eqb b 32 = false /\ N.eqb b 10 = false /\ N.eqb b 13 = false;
  i_pend : pend = true -> byte_at bs p = Some 10%N /\ end_ls block (pds0 qs) = false /\ qs <> []
}.


(* ---- the prologue of a line ---- *)
Lemma seg_head s e c w : seg s e (c :: w) -> byte_at bs s = Some c.
Proof.
  intros (H1 & H2 & H3). unfold byte_at. rewrite (skipn_uncons bs s) in H3. destruct (nth_error bs s) as [x|].
  - destruct (e - s); [discriminate H3|]. cbn [firstn] in H3. injection H3 as -> _. reflexivity.
  - rewrite firstn_nil in H3. discriminate H3.
Qed.

Lemma seg_nil s : s <= length bs -> seg s s [].
Proof. intros H. split; [lia | split; [exact H|]]. rewrite Nat.sub_diag. reflexivity. Qed.

Definition pro_post (r : position) (p : nat) (o : option nat) (q : nat) : Prop :=
  match o with
  | None => is_line_start r = true -> byte_at bs p <> Some 10%N
  | Some k =>
      q = k + p /\ k + p < length bs /\
      if is_line_start r
      then k = scan_while is_space (rest bs p) /\ seg p (k + p) (sp k) /\
           exists b, byte_at bs (k + p) = Some b /\ N.eqb b 32 = false /\ is_byte_pattern_continuation b = true /\ (k = 0 -> b = 10%N \/ b = 13%N)
      else k = 0
  end.

Lemma st_prologue r p : p < length bs -> spec (prologue bs r p) p (pro_post r p) ET.
Proof.
  intros Hp. unfold prologue, pro_post. destruct (is_line_start r); [|apply spec_ret; split; [reflexivity | split; [lia | reflexivity]]].
  eapply spec_bind; [apply sp_skip_blank_inline | intros ? ? []|]. intros k q [-> Ek].
  eapply spec_bind; [apply sp_current_byte | intros ? ? []|]. intros cb q [-> ->].
  assert (H10 : byte_at bs p = Some 10%N -> k = 0).
  { intros E. subst k. unfold rest. unfold byte_at in E. rewrite (skipn_uncons bs p), E. reflexivity. }
  destruct (byte_at bs (k + p)) as [b|] eqn:Eb; [|apply spec_ret; intros _ E; rewrite (H10 E) in Eb; cbn [Nat.add] in Eb; congruence].
  assert (Hlt : k + p < length bs) by (apply nth_error_Some; unfold byte_at in Eb; congruence).
  assert (Hseg : seg p (k + p) (sp k)).
  { split; [lia | split; [lia|]]. replace (k + p - p) with k by lia. subst k. fold (rest bs p).
    rewrite (spaces_sp _ (scan_while_all is_space (rest bs p))). f_equal. rewrite firstn_length. apply Nat.min_l, scan_while_le. }
  assert (Hb32 : N.eqb b 32 = false).
  { subst k. apply (scan_while_stop' is_space (rest bs p) b). unfold rest. rewrite nth_error_skipn_add, Nat.add_comm. exact Eb. }
  destruct (Nat.eqb k 0) eqn:Ek0.
  - apply Nat.eqb_eq in Ek0.
    eapply spec_bind; [apply spec_self | intros; exact Logic.I|]. intros eol q Heol.
    unfold is_eol in Heol. rewrite Eb in Heol. injection Heol as <- <-.
    destruct (N.eqb b c_lf) eqn:Elf.
    + apply spec_ret. split; [reflexivity | split; [exact Hlt | split; [exact Ek | split; [exact Hseg|]]]]. apply N.eqb_eq in Elf. subst b.
      exists 10%N. split; [exact Eb|]. split; [reflexivity|]. split; [reflexivity|]. intros _. left. reflexivity.
    + destruct (N.eqb b c_cr) eqn:Ecr.
      2:{ apply spec_ret. intros _ E. rewrite Ek0 in Eb. cbn [Nat.add] in Eb. rewrite E in Eb. injection Eb as <-. discriminate Elf. }
      apply N.eqb_eq in Ecr. subst b. unfold is_byte_at. unfold byte_at in Eb. unfold byte_at. rewrite (nlc_at _ Eb). cbn [N.eqb c_lf Pos.eqb negb].
      apply spec_ret. split; [reflexivity | split; [exact Hlt | split; [exact Ek | split; [exact Hseg|]]]].
      exists c_cr. split; [exact Eb|]. split; [reflexivity|]. split; [reflexivity|]. intros _. right. reflexivity.
  - destruct (is_byte_pattern_continuation b) eqn:Ec; cbn [negb].
    + apply spec_ret. split; [reflexivity | split; [exact Hlt | split; [exact Ek | split; [exact Hseg|]]]].
      exists b. split; [exact Eb | split; [exact Hb32 | split; [exact Ec|]]]. intros ->. discriminate Ek0.
    + eapply spec_bind; [apply spec_any | intros; exact Logic.I|]. intros. apply spec_ret. intros _ E. rewrite (H10 E) in Ek0. discriminate Ek0.
Qed.


(* ---- pushing a placeholder ---- *)
Lemma pds0_snoc qs q : pds0 (qs ++ [q]) = pds0 qs ++ [to_pd 0 q].
Proof. unfold pds0. rewrite map_app. reflexivity. Qed.

Lemma needs_place_snoc_place ds l : needs_place (ds ++ [PdPlace l]) -> False.
Proof. unfold needs_place. rewrite last_last. exact (fun H => H). Qed.

Lemma lnb_rel_snoc_blank lnb qs q : lnb_rel lnb qs -> q_nonblank q = false -> (forall i, lnb = Some i -> i < length qs) ->
  lnb_rel lnb (qs ++ [q]).
Proof.
  intros H Hq Hlt. destruct lnb as [i|]; cbn [lnb_rel] in *.
  - destruct H as (q0 & Hn & Hnb & Hall). exists q0. split; [rewrite nth_error_app1; [exact Hn | apply (Hlt i eq_refl)]|]. split; [exact Hnb|].
    rewrite skipn_app. apply Forall_app. split; [exact Hall|]. replace (S i - length qs) with 0 by (specialize (Hlt i eq_refl); lia).
    constructor; [exact Hq | constructor].
  - apply Forall_app. split; [exact H | constructor; [exact Hq | constructor]].
Qed.

Lemma lnb_rel_snoc_nonblank qs q : q_nonblank q = true -> lnb_rel (Some (length qs)) (qs ++ [q]).
Proof.
  intros Hq. exists q. split; [rewrite nth_error_app2, Nat.sub_diag by lia; reflexivity|]. split; [exact Hq|].
  rewrite skipn_all2; [constructor | rewrite app_length; cbn [length]; lia].
Qed.

Lemma lnb_lt block pend st qs p : inv block pend st qs p -> forall i, last_non_blank st = Some i -> i < length qs.
Proof.
  intros H i Hi. pose proof (i_lnb _ _ _ _ _ H) as Hl. rewrite Hi in Hl. destruct Hl as (q & Hn & _). apply nth_error_Some. congruence.
Qed.

Lemma q_body_has qs : q_body qs -> has_body (pds0 qs).
Proof.
  unfold q_body, has_body, pds0. destruct qs as [|q0 qs' _] using rev_ind; [intros []|]. rewrite map_app. cbn [map]. rewrite !last_last.
  destruct q0 as [l qi [|c b] lf | l |]; cbn [to_pd]; intros H; exact H.
Qed.

Lemma seg_byte p b : byte_at bs p = Some b -> seg p (S p) [b].
Proof.
  intros H. unfold byte_at in H. assert (Hlt : p < length bs) by (apply nth_error_Some; congruence).
  split; [lia | split; [lia|]]. replace (S p - p) with 1 by lia. rewrite (skipn_uncons bs p), H. reflexivity.
Qed.

Lemma inv_push_place block st qs p e q' : inv block false st qs p -> LE e ->
  inv block false (PState (PHPlaceable e :: elements st) (S (n_elements st)) (Some (n_elements st))
                    (if is_line_start (role st) then Some 0 else common_indent st) Continuation)
      (qs ++ [QPlace (is_line_start (role st))]) q'.
Proof.
  intros H He. set (ls := is_line_start (role st)).
  assert (Hrole : ls = end_ls block (pds0 qs)) by (unfold ls; rewrite (i_role _ _ _ _ _ H), orb_false_r; reflexivity).
  constructor; cbn [elements role n_elements common_indent last_non_blank].
  - cbn [rev]. apply Forall2_app; [apply (i_rel _ _ _ _ _ H) | constructor; [exact He | constructor]].
  - rewrite pds0_snoc. apply pds_ok_snoc; [apply (i_ok _ _ _ _ _ H) | | intros _; left; eexists; reflexivity].
    cbn [to_pd pds_ok]. split; [exact Hrole | exact Logic.I].
  - rewrite pds0_snoc, end_ls_snoc. reflexivity.
  - intros E. destruct qs; discriminate E.
  - rewrite app_length, (i_n _ _ _ _ _ H). cbn [length]. lia.
  - rewrite pds0_snoc, counted_app. cbn [to_pd counted]. pose proof (i_ci _ _ _ _ _ H) as Hc. fold ls. destruct ls.
    + cbn [ci_rel]. split; [apply in_or_app; right; left; reflexivity | apply Forall_forall; intros; lia].
    + rewrite app_nil_r. exact Hc.
  - rewrite (i_n _ _ _ _ _ H). apply lnb_rel_snoc_nonblank. reflexivity.
  - rewrite pds0_snoc. destruct qs as [|q0 qs']; [exact Logic.I|]. apply first_ok_snoc; [discriminate | apply (i_first _ _ _ _ _ H)].
  - rewrite pds0_snoc. intros Hn. destruct (needs_place_snoc_place _ _ Hn).
  - intros E. destruct qs; discriminate E.
  - discriminate.
Qed.


Lemma inv_push_text block st qs p s e ind qi body lf ci' role' pend' q' :
  inv block false st qs p ->
  seg s e (sp qi ++ body ++ lfb lf) -> (is_line_start (role st) = true -> ind = qi) -> (is_line_start (role st) = false -> qi = 0) ->
  nocr_l body ->
  pds_ok (is_line_start (role st)) [PdText (is_line_start (role st)) qi body lf] ->
  (qs = [] -> first_ok block [PdText (is_line_start (role st)) qi body lf]) ->
  (lf = false -> byte_at bs q' = Some 123%N \/ (length bs <= q' /\ body <> []) \/ (pend' = true /\ body <> [])) ->
  (needs_place (pds0 qs) -> False) ->
  ci_rel ci' (counted (pds0 qs) ++ counted [PdText (is_line_start (role st)) qi body lf]) ->
  is_line_start role' = lf || pend' ->
  (pend' = true -> byte_at bs q' = Some 10%N /\ lf = false) ->
  inv block pend' (PState (PHText s e ind (role st) :: elements st) (S (n_elements st))
                    (if is_nonblank body then Some (n_elements st) else last_non_blank st) ci' role')
      (qs ++ [QText (is_line_start (role st)) qi body lf]) q'.
Proof.
  intros H Hseg Hi1 Hi2 Hcr Hself Hfirst Hpos Hnp Hci Hrole Hpend. set (ls := is_line_start (role st)) in *.
  assert (Hrole0 : ls = end_ls block (pds0 qs)) by (unfold ls; rewrite (i_role _ _ _ _ _ H), orb_false_r; reflexivity).
  constructor; cbn [elements role n_elements common_indent last_non_blank].
  - cbn [rev]. apply Forall2_app; [apply (i_rel _ _ _ _ _ H)|]. constructor; [|constructor]. cbn [ph_q].
    split; [reflexivity | split; [exact Hseg | split; [assumption | split; assumption]]].
  - rewrite pds0_snoc. cbn [to_pd]. rewrite Nat.sub_0_r. apply pds_ok_snoc; [apply (i_ok _ _ _ _ _ H) | | intros Hn; destruct (Hnp Hn)].
    rewrite <- Hrole0. exact Hself.
  - rewrite pds0_snoc, end_ls_snoc. cbn [to_pd]. exact Hrole.
  - intros E. destruct qs; discriminate E.
  - rewrite app_length, (i_n _ _ _ _ _ H). cbn [length]. lia.
  - rewrite pds0_snoc, counted_app. cbn [to_pd]. rewrite Nat.sub_0_r. exact Hci.
  - destruct (is_nonblank body) eqn:Enb.
    + rewrite (i_n _ _ _ _ _ H). apply lnb_rel_snoc_nonblank. exact Enb.
    + apply lnb_rel_snoc_blank; [apply (i_lnb _ _ _ _ _ H) | exact Enb | apply (lnb_lt block false st qs p H)].
  - rewrite pds0_snoc. cbn [to_pd]. rewrite Nat.sub_0_r. destruct qs as [|q0 qs']; [apply Hfirst; reflexivity|].
    apply first_ok_snoc; [discriminate | apply (i_first _ _ _ _ _ H)].
  - rewrite pds0_snoc. cbn [to_pd]. unfold needs_place, q_body. rewrite !last_last. destruct lf; [intros []|]. intros _.
    assert (Hb : body <> [] -> match body with [] => False | _ :: _ => True end) by (destruct body; [congruence | intros _; exact Logic.I]).
    destruct (Hpos eq_refl) as [H1 | [[H1 H2] | [H1 H2]]]; [left; exact H1 | right; left; split; [exact H1 | apply Hb, H2] | right; right; split; [exact H1 | apply Hb, H2]].
  - intros E. destruct qs; discriminate E.
  - intros E. destruct (Hpend E) as [Hb Hlf]. split; [exact Hb|]. split; [rewrite pds0_snoc, end_ls_snoc; cbn [to_pd]; exact Hlf|].
    intros E2. destruct qs; discriminate E2.
Qed.

(* the LF of a CR LF line end: the parser keeps it as an element of its own *)
Lemma inv_push_eol block st qs p : inv block true st qs p ->
  inv block false (PState (PHText p (S p) 0 (role st) :: elements st) (S (n_elements st)) (last_non_blank st) (common_indent st) LineStart)
      (qs ++ [QEol]) (S p).
Proof.
  intros H. destruct (i_pend _ _ _ _ _ H eq_refl) as (Hb10 & Hend & Hne).
  assert (Hr : role st = LineStart).
  { pose proof (i_role _ _ _ _ _ H) as Hr. rewrite orb_true_r in Hr. destruct (role st); [discriminate Hr | reflexivity | discriminate Hr]. }
  constructor; cbn [elements role n_elements common_indent last_non_blank].
  - cbn [rev]. apply Forall2_app; [apply (i_rel _ _ _ _ _ H)|]. constructor; [|constructor]. cbn [ph_q].
    split; [exact Hr | split; [apply seg_byte, Hb10 | reflexivity]].
  - rewrite pds0_snoc. cbn [to_pd]. apply pds_ok_snoc; [apply (i_ok _ _ _ _ _ H) | cbn [pds_ok]; split; [exact Hend | exact Logic.I]|].
    intros Hn. right. split; [reflexivity|]. apply q_body_has.
    destruct (i_pos _ _ _ _ _ H Hn) as [E | [[E _] | [_ E]]]; [rewrite Hb10 in E; discriminate E | | exact E].
    exfalso. unfold byte_at in Hb10. assert (p < length bs) by (apply nth_error_Some; congruence). lia.
  - rewrite pds0_snoc, end_ls_snoc. reflexivity.
  - intros E. destruct qs; discriminate E.
  - rewrite app_length, (i_n _ _ _ _ _ H). cbn [length]. lia.
  - rewrite pds0_snoc, counted_app. cbn [to_pd counted]. rewrite app_nil_r. apply (i_ci _ _ _ _ _ H).
  - apply lnb_rel_snoc_blank; [apply (i_lnb _ _ _ _ _ H) | reflexivity | apply (lnb_lt block true st qs p H)].
  - rewrite pds0_snoc. apply first_ok_snoc; [|apply (i_first _ _ _ _ _ H)]. unfold pds0. destruct qs; [congruence | discriminate].
  - rewrite pds0_snoc. cbn [to_pd]. unfold needs_place. rewrite last_last. intros [].
  - intros E. destruct qs; discriminate E.
  - discriminate.
Qed.

(* a CR LF line end with nothing in front of it on its line: nothing is pushed *)
Lemma inv_move block st qs p (pend' : bool) p' :
  inv block false st qs p -> (needs_place (pds0 qs) -> False) -> qs <> [] ->
  (if pend' then byte_at bs p' = Some 10%N /\ end_ls block (pds0 qs) = false else is_line_start (role st) = true) ->
  inv block pend' (PState (elements st) (n_elements st) (last_non_blank st) (common_indent st) LineStart) qs p'.
Proof.
  intros H Hnp Hne Hp. constructor; cbn [elements role n_elements common_indent last_non_blank].
  - apply (i_rel _ _ _ _ _ H).
  - apply (i_ok _ _ _ _ _ H).
  - destruct pend'; [rewrite orb_true_r; reflexivity|]. rewrite orb_false_r. rewrite (i_role _ _ _ _ _ H), orb_false_r in Hp. rewrite Hp. reflexivity.
  - intros E. destruct (Hne E).
  - apply (i_n _ _ _ _ _ H).
  - apply (i_ci _ _ _ _ _ H).
  - apply (i_lnb _ _ _ _ _ H).
  - apply (i_first _ _ _ _ _ H).
  - intros Hn. destruct (Hnp Hn).
  - intros E. destruct (Hne E).
  - intros ->. destruct Hp as [H1 H2]. split; [exact H1 | split; [exact H2 | exact Hne]].
Qed.


(* ---- what the loop hands to finish_pattern ---- *)
Record fin (block : bool) (st : pstate) (qs : list qd) : Prop := mk_fin {
  f_rel : Forall2 ph_q (rev (elements st)) qs;
  f_ok : pds_ok block (pds0 qs);
  f_ci : ci_rel (common_indent st) (counted (pds0 qs));
  f_lnb : lnb_rel (last_non_blank st) qs;
  f_first : first_ok block (pds0 qs);
  f_noind : match last qs (QPlace false) with QText true _ [] false => False | _ => True end
}.
Lemma inv_fin block pend st qs p : inv block pend st qs p -> (needs_place (pds0 qs) -> length bs <= p) -> fin block st qs.
Proof.
  intros H Hend. constructor; [apply (i_rel _ _ _ _ _ H) | apply (i_ok _ _ _ _ _ H) | apply (i_ci _ _ _ _ _ H) | apply (i_lnb _ _ _ _ _ H) | apply (i_first _ _ _ _ _ H)|].
  destruct (last qs (QPlace false)) as [[|] qi [|c body] [|] | l |] eqn:El; try exact Logic.I.
  assert (Hnp : needs_place (pds0 qs)).
  { unfold needs_place, pds0. destruct qs as [|q0 qs'] using rev_ind; [discriminate El|]. rewrite last_last in El. subst. rewrite map_app. cbn [map]. rewrite last_last. exact Logic.I. }
  destruct (i_pos _ _ _ _ _ H Hnp) as [E | [[_ E] | [_ E]]].
  - specialize (Hend Hnp). unfold byte_at in E. assert (Hlt : p < length bs) by (apply nth_error_Some; rewrite E; discriminate). lia.
  - unfold q_body in E. rewrite El in E. exact E.
  - unfold q_body in E. rewrite El in E. exact E.
Qed.

(* ---- the conclusions of the knot ---- *)
Definition LI (i : inline) : Prop := lines_ok_inline (join_inline i) = true.
Definition LV (v : variant) : Prop := match v with Variant _ p _ => lines_ok_pattern (join_pattern p) = true end.
Definition LP (r : option pattern) (_ : nat) : Prop := match r with Some p => lines_ok_pattern (join_pattern p) = true | None => True end.
Definition LA (ca : call_args) : Prop := match ca with CallArguments pos _ => Forall LI pos end.
Definition LAo (r : option call_args) (_ : nat) : Prop := match r with Some ca => LA ca | None => True end.

Lemma lines_pos_eq pos :
  (fix go (l : list inline) : bool := match l with [] => true | x :: r => lines_ok_inline x && go r end) pos = forallb lines_ok_inline pos.
Proof. induction pos as [|v r IH]; [reflexivity|]. cbn [forallb]. rewrite <- IH. reflexivity. Qed.

Lemma LA_pos pos : Forall LI pos -> forallb lines_ok_inline (map join_inline pos) = true.
Proof. intros H. apply forallb_forall. intros i' Hi'. apply in_map_iff in Hi' as (i & <- & Hi). rewrite Forall_forall in H. apply (H i Hi). Qed.

Lemma li_fn id ca : LA ca -> LI (FunctionReference id ca).
Proof. destruct ca as [pos named]. intros H. unfold LI. cbn [join_inline join_args lines_ok_inline]. rewrite lines_pos_eq. apply (LA_pos pos H). Qed.
Lemma li_term id att oca : match oca with Some ca => LA ca | None => True end -> LI (TermReference id att oca).
Proof.
  destruct oca as [[pos named]|]; intros H; unfold LI; cbn [join_inline join_args lines_ok_inline]; [|reflexivity].
  rewrite lines_pos_eq. apply (LA_pos pos H).
Qed.

Lemma lines_variants_eq vs :
  (fix go (l : list variant) : bool := match l with [] => true | Variant _ value _ :: r => lines_ok_pattern value && go r end) vs =
  forallb (fun v => match v with Variant _ value _ => lines_ok_pattern value end) vs.
Proof. induction vs as [|[k p d] r IH]; [reflexivity|]. cbn [forallb]. rewrite <- IH. reflexivity. Qed.

Lemma le_select s vs : LI s -> Forall LV vs -> LE (Select s vs).
Proof.
  intros Hs Hvs. unfold LE. change (join_expr (Select s vs)) with (Select (join_inline s) (map join_variant vs)).
  cbn [lines_ok_expr]. rewrite lines_variants_eq. unfold LI in Hs. rewrite Hs. cbn [andb].
  apply forallb_forall. intros v' Hv'. apply in_map_iff in Hv' as (v & <- & Hv). rewrite Forall_forall in Hvs. specialize (Hvs v Hv).
  destruct v as [k p d]. exact Hvs.
Qed.

(* finish_pattern: proved below; here as the statement the knot needs *)
Definition finish_goal : Prop := forall block st qs p, fin block st qs -> spec (finish_pattern bs st) p LP ET.

Definition knot_ln (n : nat) : Prop :=
  (forall p, spec (get_pattern bs n) p LP ET) /\
  (forall block pend st qs p, inv block pend st qs p -> spec (pattern_loop bs n st) p (fun st' _ => exists qs', fin block st' qs') ET) /\
  (forall p, spec (get_placeable bs n) p (fun e _ => LE e) ET) /\
  (forall p, spec (get_expression bs n) p (fun e _ => LE e) ET) /\
  (forall p, spec (get_variants bs n) p (fun vs _ => Forall LV vs) ET) /\
  (forall acc (hd : bool) p, Forall LV acc -> spec (variants_loop bs n acc hd) p (fun vs _ => Forall LV vs) ET) /\
  (forall ol p, spec (get_inline_expression bs n ol) p (fun i _ => LI i) ET) /\
  (forall p, spec (get_call_arguments bs n) p LAo ET) /\
  (forall pos named names p, Forall LI pos -> spec (args_loop bs n pos named names) p (fun ca _ => LA ca) ET).


(* ---- the start of a pattern ---- *)
Lemma blank_block_stop k : forall l, length l < k -> no_blank_line_head (skipn (snd (blank_block k l)) l).
Proof.
  induction k as [|k IH]; intros l Hl; [lia|]. cbn [blank_block].
  destruct (eol_len (skipn (scan_while is_space l) l)) as [|e] eqn:Ee; [cbn [snd skipn]; exact Ee|].
  assert (Hlen : length (skipn (S e) (skipn (scan_while is_space l) l)) < k).
  { assert (Hpos : 1 <= length (skipn (scan_while is_space l) l)) by (destruct (skipn (scan_while is_space l) l); [discriminate Ee | cbn [length]; lia]).
    rewrite skipn_length in Hpos. rewrite !skipn_length. lia. }
  specialize (IH _ Hlen). destruct (blank_block k (skipn (S e) (skipn (scan_while is_space l) l))) as [c m]. cbn [snd] in *.
  replace (scan_while is_space l + S e + m) with (m + (S e + scan_while is_space l)) by lia.
  rewrite <- !skipn_add. exact IH.
Qed.

Lemma st_skip_blank_block q0 : spec (skip_blank_block bs) q0 (fun _ q => no_blank_line_head (rest bs q)) ET.
Proof.
  unfold spec, skip_blank_block. pose proof (blank_block_stop (S (length_ bs - q0)) (rest bs q0)) as Hst.
  destruct (blank_block (S (length_ bs - q0)) (rest bs q0)) as [c m]. cbn [snd] in Hst. unfold rest in *. rewrite skipn_add in Hst.
  apply Hst. rewrite skipn_length. unfold length_. lia.
Qed.

Lemma inv_init (block : bool) r q : r = (if block then LineStart else InitialLineStart) ->
  (if block then no_blank_line_head (rest bs q)
   else forall b, byte_at bs q = Some b -> N.eqb b 32 = false /\ N.eqb b 10 = false /\ N.eqb b 13 = false) ->
  inv block false (PState [] 0 None None r) [] q.
Proof.
  intros -> Hs. constructor; cbn [elements role n_elements common_indent last_non_blank pds0 map rev].
  - constructor.
  - exact Logic.I.
  - destruct block; reflexivity.
  - intros _. reflexivity.
  - reflexivity.
  - reflexivity.
  - constructor.
  - exact Logic.I.
  - intros [].
  - intros _. exact Hs.
  - discriminate.
Qed.


Lemma ci_rel_min ci l k : ci_rel ci l ->
  ci_rel (match ci with Some c => if Nat.ltb k c then Some k else Some c | None => Some k end) (l ++ [k]).
Proof.
  intros H. destruct ci as [c|]; cbn [ci_rel] in *.
  - destruct H as [Hin Hall]. destruct (Nat.ltb k c) eqn:E.
    + apply Nat.ltb_lt in E. split; [apply in_or_app; right; left; reflexivity|]. apply Forall_app. split; [|constructor; [lia | constructor]].
      apply (Forall_impl _ (fun i (Hi : c <= i) => Nat.le_trans _ _ _ (Nat.lt_le_incl _ _ E) Hi) Hall).
    + apply Nat.ltb_ge in E. split; [apply in_or_app; left; exact Hin|]. apply Forall_app. split; [exact Hall | constructor; [exact E | constructor]].
  - subst l. split; [left; reflexivity | constructor; [lia | constructor]].
Qed.

Lemma ci_rel_min' ci l k : ci_rel ci l ->
  ci_rel (Some (match ci with None => k | Some c => Nat.min c k end)) (l ++ [k]).
Proof.
  intros H. pose proof (ci_rel_min ci l k H) as H'. destruct ci as [c|]; [|exact H'].
  destruct (Nat.ltb k c) eqn:E; [apply Nat.ltb_lt in E; rewrite Nat.min_r by lia | apply Nat.ltb_ge in E; rewrite Nat.min_l by lia]; exact H'.
Qed.

Lemma seg_first_no_lf s e text w b : seg s e (text ++ w) -> no_lf text -> byte_at bs s = Some b -> text <> [] ->
  exists t, text = b :: t /\ N.eqb b 10 = false.
Proof.
  intros Hseg Hno Hb Hne. destruct text as [|c t]; [congruence|]. cbn [app] in Hseg. rewrite (seg_head _ _ _ _ Hseg) in Hb. injection Hb as <-.
  exists t. split; [reflexivity|]. unfold no_lf in Hno. cbn [existsb] in Hno. apply orb_false_elim in Hno as [H _]. rewrite N.eqb_sym. exact H.
Qed.

Lemma blank_head_not p k : k = scan_while is_space (rest bs p) -> byte_at bs (k + p) = Some 10%N -> ~ no_blank_line_head (rest bs p).
Proof.
  intros Ek Hb H. unfold no_blank_line_head in H. rewrite <- Ek in H. unfold rest in H. rewrite skipn_add in H.
  unfold byte_at in Hb. rewrite (skipn_uncons bs (k + p)), Hb in H. cbn in H. discriminate H.
Qed.

Lemma blank_head_not_cr p k : k = scan_while is_space (rest bs p) -> byte_at bs (k + p) = Some 13%N -> ~ no_blank_line_head (rest bs p).
Proof.
  intros Ek Hb H. unfold no_blank_line_head in H. rewrite <- Ek in H. unfold rest in H. rewrite skipn_add in H.
  unfold byte_at in Hb. pose proof (nlc_at _ Hb) as Hb2. rewrite (skipn_uncons bs (k + p)), Hb, (skipn_uncons bs (S (k + p))), Hb2 in H. cbn in H. discriminate H.
Qed.

Lemma scan_lf0 p : byte_at bs p = Some 10%N -> scan_while is_space (rest bs p) = 0.
Proof. intros E. unfold rest. unfold byte_at in E. rewrite (skipn_uncons bs p), E. reflexivity. Qed.

Lemma knot_ln_all : finish_goal -> forall n, knot_ln n.
Proof.
  intros Hfinish.
  induction n as [|n (IH1 & IH2 & IH3 & IH4 & IH5 & IH6 & IH7 & IH8 & IH9)]; unfold knot_ln.
  - repeat split; intros; exact Logic.I.
  - repeat match goal with |- _ /\ _ => split end.
    + (* get_pattern *)
      intros p. cbn [get_pattern]. fold_knot bs.
      eapply spec_bind; [apply sp_skip_blank_inline | intros ? ? []|]. intros k q1 [-> Ek].
      eapply spec_bind; [apply spec_self | intros; exact Logic.I|]. intros eol q2 Heol.
      unfold skip_eol in Heol. destruct (eol_len (rest bs (k + p))) as [|e] eqn:Ee.
      * injection Heol as <- <-. eapply spec_bind with (Q1 := fun r q => r = InitialLineStart /\ q = k + p) (E1 := ET);
          [apply spec_ret; auto | intros; exact Logic.I|]. intros r q [-> ->].
        eapply spec_bind; [apply (IH2 false false _ [] (k + p)) | intros; exact Logic.I|].
        -- apply inv_init; [reflexivity|]. intros b Hb. split; [|split].
           ++ subst k. apply (scan_while_stop' is_space (rest bs p) b). unfold rest. rewrite nth_error_skipn_add, Nat.add_comm. exact Hb.
           ++ unfold rest in Ee. unfold byte_at in Hb. rewrite (skipn_uncons bs (k + p)), Hb in Ee. cbn [eol_len] in Ee.
              unfold c_lf in Ee. destruct (N.eqb b 10); [discriminate Ee | reflexivity].
           ++ destruct (N.eqb b 13) eqn:E13; [|reflexivity]. exfalso. apply N.eqb_eq in E13. subst b.
              unfold rest in Ee. unfold byte_at in Hb. pose proof (nlc_at _ Hb) as Hn.
              rewrite (skipn_uncons bs (k + p)), Hb, (skipn_uncons bs (S (k + p))), Hn in Ee. cbn in Ee. discriminate Ee.
        -- intros st q [qs Hf]. apply (Hfinish false st qs q Hf).
      * injection Heol as <- <-.
        eapply spec_bind with (Q1 := fun r q => r = LineStart /\ no_blank_line_head (rest bs q)) (E1 := ET); [|intros; exact Logic.I|].
        -- eapply spec_bind with (Q1 := fun _ q => no_blank_line_head (rest bs q)) (E1 := ET);
             [apply st_skip_blank_block | intros; exact Logic.I | intros c q Hq; apply spec_ret; auto].
        -- intros r q [-> Hq]. eapply spec_bind; [apply (IH2 true false _ [] q) | intros; exact Logic.I|].
           ++ apply inv_init; [reflexivity | exact Hq].
           ++ intros st q' [qs Hf]. apply (Hfinish true st qs q' Hf).
    + (* pattern_loop *)
      intros block pend st qs p Hinv. rewrite pattern_loop_S.
      eapply spec_bind; [apply sp_get_ptr | intros ? ? []|]. intros p0 q0 [-> ->].
      destruct (Nat.ltb p (length_ bs)) eqn:Hlt; cbn [negb];
        [|apply spec_ret; exists qs; apply (inv_fin _ _ _ _ _ Hinv); intros _; apply Nat.ltb_ge in Hlt; exact Hlt].
      apply Nat.ltb_lt in Hlt. unfold length_ in Hlt.
      eapply spec_bind; [apply sp_take_byte_if | intros ? ? []|]. intros brace q1 Hbrace.
      destruct Hbrace as [(-> & -> & Hb) | (-> & -> & Hb)].
      * assert (pend = false) as ->.
        { destruct pend; [|reflexivity]. destruct (i_pend _ _ _ _ _ Hinv eq_refl) as (H10 & _). unfold is_byte_at in Hb. rewrite H10 in Hb. discriminate Hb. }
        useb (IH3 (S p)). intros e q2 He. eapply (IH2 block false). apply (inv_push_place block st qs p e q2 Hinv He).
      * assert (Hno123 : byte_at bs p <> Some 123%N).
        { unfold is_byte_at in Hb. intros E. rewrite E in Hb. discriminate Hb. }
        eapply spec_bind; [apply sp_get_ptr | intros ? ? []|]. intros ss q2 [-> ->].
        useb (st_prologue (role st) p Hlt). intros pro q3 Hpro.
        destruct pend.
        { (* on the LF of a CR LF line end: it becomes an element of its own *)
          destruct (i_pend _ _ _ _ _ Hinv eq_refl) as (H10 & Hend & Hqs).
          assert (Els : is_line_start (role st) = true) by (rewrite (i_role _ _ _ _ _ Hinv); apply orb_true_r).
          destruct pro as [k|]; [|exfalso; apply (Hpro Els H10)].
          destruct Hpro as (-> & Hkp & Hpro). rewrite Els in Hpro. destruct Hpro as (Ek & _).
          rewrite (scan_lf0 p H10) in Ek. subst k. cbn [Nat.add] in *.
          useb (st_text_slice p ltac:(lia)). intros [[[start end_] nb] term] q4 Hsl.
          cbn [slice_post] in Hsl. destruct Hsl as (-> & -> & text & Hnolf & Htcr & -> & Hterm).
          assert (Htext : text = []).
          { assert (Hseg0 : exists W, seg p end_ (text ++ W)).
            { destruct term; [eexists; exact Hterm | | |]; exists []; rewrite app_nil_r; apply Hterm. }
            destruct Hseg0 as [W HW]. destruct text as [|c0 w]; [reflexivity|]. exfalso.
            destruct (seg_first_no_lf _ _ _ _ _ HW Hnolf H10 ltac:(discriminate)) as (t & _ & Hc). discriminate Hc. }
          subst text. cbn [app] in Hterm. change (is_nonblank []) with false.
          assert (Hend0 : forall e, seg p e [] -> e = p).
          { intros e He. pose proof (seg_length _ _ _ He) as Hl. cbn [length] in Hl. destruct He as (H1 & _). lia. }
          destruct term.
          - pose proof (seg_length _ _ _ Hterm) as Hlen. cbn [length] in Hlen. destruct Hterm as (Ht1 & Ht2 & Ht3).
            assert (Eend : end_ = S p) by lia. subst end_.
            unfold text_step. cbn [fst snd]. rewrite Els.
            replace (Nat.eqb p (S p)) with false by (symmetry; apply Nat.eqb_neq; lia). cbn [negb andb orb].
            cbn [elements n_elements last_non_blank common_indent role].
            eapply (IH2 block false). apply (inv_push_eol block st qs p Hinv).
          - exfalso. destruct Hterm as (Hseg & H13 & _). rewrite (Hend0 _ Hseg), H10 in H13. discriminate H13.
          - exfalso. destruct Hterm as (Hseg & H123). rewrite (Hend0 _ Hseg) in H123. exact (Hno123 H123).
          - exfalso. destruct Hterm as (Hseg & Hl). rewrite (Hend0 _ Hseg) in Hl. lia. }
        assert (Hnp : needs_place (pds0 qs) -> False).
        { intros H. destruct (i_pos _ _ _ _ _ Hinv H) as [E | [[E _] | [E _]]]; [exact (Hno123 E) | lia | discriminate E]. }
        assert (Hrole0 : is_line_start (role st) = end_ls block (pds0 qs)) by (rewrite (i_role _ _ _ _ _ Hinv); apply orb_false_r).
        destruct pro as [k|]; [|apply spec_ret; exists qs; apply (inv_fin _ _ _ _ _ Hinv); intros Hn; destruct (Hnp Hn)].
        destruct Hpro as (-> & Hkp & Hpro).
        useb (st_text_slice (k + p) ltac:(lia)). intros [[[start end_] nb] term] q4 Hsl.
        cbn [slice_post] in Hsl. destruct Hsl as (-> & -> & text & Hnolf & Htcr & -> & Hterm).
        destruct (is_line_start (role st)) eqn:Els.
        -- (* at a line start *)
           destruct Hpro as (Ek & Hsp & b & Hbk & Hb32 & Hbc & Hb0).
           assert (Hblock : qs = [] -> block = true).
           { intros ->. pose proof (i_init _ _ _ _ _ Hinv eq_refl) as Hr. destruct block; [reflexivity|]. rewrite Hr in Els. discriminate Els. }
           destruct text as [|c0 w].
           ++ (* blank: a blank line, or the indentation of a placeable *)
              cbn [app] in Hterm. change (is_nonblank []) with false.
              destruct term.
              ** (* blank line *)
                 pose proof (seg_length _ _ _ Hterm) as Hlen. cbn [length] in Hlen. destruct Hterm as (Ht1 & Ht2 & Ht3).
                 assert (Eend : end_ = S (k + p)) by lia. subst end_.
                 assert (Hb10 : byte_at bs (k + p) = Some 10%N) by (apply (seg_head (k + p) (S (k + p)) 10%N []); repeat split; assumption).
                 unfold text_step. cbn [fst snd]. rewrite Els.
                 replace (Nat.eqb (k + p) (S (k + p))) with false by (symmetry; apply Nat.eqb_neq; lia). cbn [negb andb orb].
                 cbn [elements n_elements last_non_blank common_indent role].
                 apply (IH2 block false _ (qs ++ [QText true 0 [] true]) (S (k + p))).
                 pose proof (inv_push_text block st qs p (k + p) (S (k + p)) 0 0 [] true (common_indent st) LineStart false (S (k + p)) Hinv) as Hpush.
                 rewrite Els in Hpush. change (is_nonblank []) with false in Hpush. apply Hpush; clear Hpush.
                 --- cbn [sp repeat app lfb]. repeat split; assumption.
                 --- reflexivity.
                 --- discriminate.
                 --- intros ? [].
                 --- cbn [pds_ok]. repeat split; try reflexivity. left; auto.
                 --- intros Eqs. exfalso. pose proof (i_start _ _ _ _ _ Hinv Eqs) as Hst. rewrite (Hblock Eqs) in Hst.
                     apply (blank_head_not p k Ek Hb10 Hst).
                 --- discriminate.
                 --- exact Hnp.
                 --- cbn [counted]. rewrite app_nil_r. apply (i_ci _ _ _ _ _ Hinv).
                 --- reflexivity.
                 --- discriminate.
              ** (* white space and a CR LF line end: nothing is pushed, the LF is the blank line of the next round *)
                 destruct Hterm as (Hseg & H13 & H10'). pose proof (seg_length _ _ _ Hseg) as Hlen. cbn [length] in Hlen. destruct Hseg as (Ht1 & Ht2 & _).
                 assert (Eend : end_ = k + p) by lia. subst end_.
                 unfold text_step. cbn [fst snd]. rewrite Els, Nat.eqb_refl. cbn [negb andb].
                 cbn [elements n_elements last_non_blank common_indent role].
                 eapply (IH2 block false). apply (inv_move block st qs p false (S (k + p)) Hinv Hnp); [|exact Els].
                 intros Eqs. pose proof (i_start _ _ _ _ _ Hinv Eqs) as Hst. rewrite (Hblock Eqs) in Hst.
                 apply (blank_head_not_cr p k Ek H13 Hst).
              ** (* the indentation of a placeable *)
                 destruct Hterm as [Hseg H123]. pose proof (seg_length _ _ _ Hseg) as Hlen. cbn [length] in Hlen. destruct Hseg as (Ht1 & Ht2 & _).
                 assert (Eend : end_ = k + p) by lia. subst end_.
                 unfold text_step. cbn [fst snd]. rewrite Els, Nat.eqb_refl. cbn [negb andb].
                 cbn [elements n_elements last_non_blank common_indent role].
                 apply (IH2 block false _ (qs ++ [QText true k [] false]) (k + p)).
                 pose proof (inv_push_text block st qs p p (k + p) k k [] false
                               (Some (match common_indent st with None => k | Some c => Nat.min c k end)) Continuation false (k + p) Hinv) as Hpush.
                 rewrite Els in Hpush. change (is_nonblank []) with false in Hpush. apply Hpush; clear Hpush.
                 --- cbn [app lfb]. rewrite app_nil_r. exact Hsp.
                 --- reflexivity.
                 --- discriminate.
                 --- intros ? [].
                 --- cbn [pds_ok]. repeat split; try reflexivity. right; reflexivity.
                 --- intros Eqs. cbn [first_ok]. split; [apply (Hblock Eqs) | reflexivity].
                 --- intros _. left. exact H123.
                 --- exact Hnp.
                 --- cbn [counted]. apply ci_rel_min', (i_ci _ _ _ _ _ Hinv).
                 --- reflexivity.
                 --- discriminate.
              ** (* end of input right after the indentation: impossible, a byte is there *)
                 destruct Hterm as [Hseg Hlen']. pose proof (seg_length _ _ _ Hseg) as Hlen. cbn [length] in Hlen. destruct Hseg as (Ht1 & Ht2 & _). lia.
           ++ (* text at a line start *)
              assert (Hc0 : c0 = b /\ N.eqb b 10 = false).
              { assert (Hseg0 : exists W, seg (k + p) end_ ((c0 :: w) ++ W)).
                { destruct term; [eexists; exact Hterm | | |]; exists []; rewrite app_nil_r; apply Hterm. }
                destruct Hseg0 as [W HW]. destruct (seg_first_no_lf _ _ _ _ _ HW Hnolf Hbk ltac:(discriminate)) as (t & Et & H10).
                injection Et as -> _. auto. }
              destruct Hc0 as [-> Hb10].
              assert (Hnb : is_nonblank (b :: w) = true) by (unfold is_nonblank; cbn [existsb]; unfold c_sp; rewrite Hb32; reflexivity).
              rewrite Hnb in *.
              assert (Hhead : head_ok b).
              { split; [exact Hb32 | split; [exact Hb10|]]. unfold is_byte_pattern_continuation in Hbc. apply negb_true_iff in Hbc.
                destruct (N.eqb b 46), (N.eqb b 91), (N.eqb b 42); try reflexivity; cbn in Hbc; try discriminate Hbc; destruct (N.eqb b 125); discriminate Hbc. }
              assert (Hgen : forall lf role' (pend' : bool) q', seg (k + p) end_ ((b :: w) ++ lfb lf) -> is_line_start role' = lf || pend' ->
                        (lf = false -> byte_at bs q' = Some 123%N \/ (length bs <= q' /\ b :: w <> []) \/ (pend' = true /\ b :: w <> [])) ->
                        (pend' = true -> byte_at bs q' = Some 10%N /\ lf = false) ->
                        inv block pend' (PState (PHText p end_ k (role st) :: elements st) (S (n_elements st)) (Some (n_elements st))
                                          (match common_indent st with Some c => if Nat.ltb k c then Some k else Some c | None => Some k end) role')
                            (qs ++ [QText true k (b :: w) lf]) q').
              { intros lf role' pend' q' Hseg Hrole Hpos Hpend.
                pose proof (inv_push_text block st qs p p end_ k k (b :: w) lf
                              (match common_indent st with Some c => if Nat.ltb k c then Some k else Some c | None => Some k end) role' pend' q' Hinv) as Hpush.
                rewrite Els, Hnb in Hpush. apply Hpush; clear Hpush.
                - apply (seg_app p (k + p) end_ (sp k) _ Hsp Hseg).
                - reflexivity.
                - discriminate.
                - exact Htcr.
                - cbn [pds_ok]. split; [reflexivity|]. split; [exact Hnolf|]. split; [exact Hhead|]. split; [intros _; exact Logic.I | exact Logic.I].
                - intros _. cbn [first_ok]. split; [exact Hb32 | exact Hb10].
                - exact Hpos.
                - exact Hnp.
                - cbn [counted]. apply ci_rel_min, (i_ci _ _ _ _ _ Hinv).
                - exact Hrole.
                - exact Hpend. }
              assert (Hne : forall lf, seg (k + p) end_ ((b :: w) ++ lfb lf) -> Nat.eqb (k + p) end_ = false).
              { intros lf Hseg. apply Nat.eqb_neq. pose proof (seg_length _ _ _ Hseg) as Hl. rewrite app_length in Hl. cbn [length] in Hl. destruct Hseg as (H1 & _). lia. }
              unfold text_step. cbn [fst snd]. rewrite Els.
              destruct term.
              ** rewrite (Hne true Hterm). cbn [negb andb orb elements n_elements last_non_blank common_indent role].
                 eapply (IH2 block false). apply (Hgen true LineStart false _ Hterm eq_refl); discriminate.
              ** destruct Hterm as (Hseg & H13 & H10'). assert (Hseg' : seg (k + p) end_ ((b :: w) ++ lfb false)) by (cbn [lfb]; rewrite app_nil_r; exact Hseg).
                 rewrite (Hne false Hseg'). cbn [negb andb orb elements n_elements last_non_blank common_indent role].
                 eapply (IH2 block true). apply (Hgen false LineStart true _ Hseg' eq_refl); [intros _; right; right; split; [reflexivity | discriminate] | intros _; split; [exact H10' | reflexivity]].
              ** destruct Hterm as [Hseg H123]. assert (Hseg' : seg (k + p) end_ ((b :: w) ++ lfb false)) by (cbn [lfb]; rewrite app_nil_r; exact Hseg).
                 rewrite (Hne false Hseg'). cbn [negb andb orb elements n_elements last_non_blank common_indent role].
                 eapply (IH2 block false). apply (Hgen false Continuation false _ Hseg' eq_refl); [intros _; left; exact H123 | discriminate].
              ** destruct Hterm as [Hseg Hlen']. assert (Hseg' : seg (k + p) end_ ((b :: w) ++ lfb false)) by (cbn [lfb]; rewrite app_nil_r; exact Hseg).
                 rewrite (Hne false Hseg'). cbn [negb andb orb elements n_elements last_non_blank common_indent role].
                 eapply (IH2 block false). apply (Hgen false Continuation false _ Hseg' eq_refl); [intros _; right; left; split; [exact Hlen' | discriminate] | discriminate].
        -- (* inside a line *)
           subst k. cbn [Nat.add] in *.
           assert (Hfirstb : qs = [] -> forall c, byte_at bs p = Some c -> N.eqb c 32 = false /\ N.eqb c 10 = false /\ N.eqb c 13 = false).
           { intros Eqs. pose proof (i_start _ _ _ _ _ Hinv Eqs) as Hst. pose proof (i_init _ _ _ _ _ Hinv Eqs) as Hr.
             destruct block; [rewrite Hr in Els; discriminate Els | exact Hst]. }
           assert (Hgen : forall lf role' (pend' : bool) q', seg p end_ (text ++ lfb lf) -> is_line_start role' = lf || pend' -> (text = [] -> lf = true) ->
                     (lf = false -> byte_at bs q' = Some 123%N \/ (length bs <= q' /\ text <> []) \/ (pend' = true /\ text <> [])) ->
                     (pend' = true -> byte_at bs q' = Some 10%N /\ lf = false) ->
                     inv block pend' (PState (PHText p end_ 0 (role st) :: elements st) (S (n_elements st))
                                       (if is_nonblank text then Some (n_elements st) else last_non_blank st) (common_indent st) role')
                         (qs ++ [QText false 0 text lf]) q').
           { intros lf role' pend' q' Hseg Hrole Hempty Hpos Hpend.
             pose proof (inv_push_text block st qs p p end_ 0 0 text lf (common_indent st) role' pend' q' Hinv) as Hpush.
             rewrite Els in Hpush. apply Hpush; clear Hpush.
             - cbn [sp repeat app]. exact Hseg.
             - discriminate.
             - reflexivity.
             - exact Htcr.
             - cbn [pds_ok]. repeat split; try reflexivity; [exact Hnolf | exact Hempty].
             - intros Eqs. cbn [first_ok]. destruct text as [|c w].
               + exfalso. specialize (Hempty eq_refl). rewrite Hempty in Hseg. cbn [app lfb] in Hseg. destruct (Hfirstb Eqs 10%N (seg_head _ _ _ _ Hseg)) as (_ & H & _). discriminate H.
               + cbn [app] in Hseg. destruct (Hfirstb Eqs c (seg_head _ _ _ _ Hseg)) as (H1 & H2 & _). split; assumption.
             - exact Hpos.
             - exact Hnp.
             - destruct text; cbn [counted]; rewrite app_nil_r; apply (i_ci _ _ _ _ _ Hinv).
             - exact Hrole.
             - exact Hpend. }
           unfold text_step. cbn [fst snd]. rewrite Els. cbn [negb andb orb].
           destruct term.
           ++ assert (Hne : Nat.eqb p end_ = false).
              { apply Nat.eqb_neq. pose proof (seg_length _ _ _ Hterm) as Hl. rewrite app_length in Hl. cbn [length] in Hl. destruct Hterm as (H1 & _). lia. }
              rewrite Hne. cbn [negb elements n_elements last_non_blank common_indent role].
              eapply (IH2 block false). apply (Hgen true LineStart false _ Hterm eq_refl); [auto | discriminate | discriminate].
           ++ (* a CR LF line end inside a line *)
              destruct Hterm as (Hseg & H13 & H10'). destruct text as [|c w].
              ** (* nothing in front of it: nothing is pushed *)
                 pose proof (seg_length _ _ _ Hseg) as Hl. cbn [length] in Hl. destruct Hseg as (H1 & H2 & _).
                 assert (end_ = p) by lia. subst end_. rewrite Nat.eqb_refl. cbn [negb elements n_elements last_non_blank common_indent role].
                 eapply (IH2 block true). apply (inv_move block st qs p true (S p) Hinv Hnp); [|split; [exact H10' | rewrite <- Hrole0; reflexivity]].
                 intros Eqs. destruct (Hfirstb Eqs _ H13) as (_ & _ & H). discriminate H.
              ** assert (Hne : Nat.eqb p end_ = false).
                 { apply Nat.eqb_neq. pose proof (seg_length _ _ _ Hseg) as Hl. cbn [length] in Hl. destruct Hseg as (H1 & _). lia. }
                 rewrite Hne. cbn [negb elements n_elements last_non_blank common_indent role].
                 eapply (IH2 block true). apply (Hgen false LineStart true); [cbn [lfb]; rewrite app_nil_r; exact Hseg | reflexivity | discriminate | intros _; right; right; split; [reflexivity | discriminate] | intros _; split; [exact H10' | reflexivity]].
           ++ destruct Hterm as [Hseg H123]. destruct text as [|c w].
              ** (* an empty slice in front of a brace: the brace was not there *)
                 exfalso. pose proof (seg_length _ _ _ Hseg) as Hl. cbn [length] in Hl. destruct Hseg as (H1 & H2 & _).
                 assert (end_ = p) by lia. subst end_. exact (Hno123 H123).
              ** assert (Hne : Nat.eqb p end_ = false).
                 { apply Nat.eqb_neq. pose proof (seg_length _ _ _ Hseg) as Hl. cbn [length] in Hl. destruct Hseg as (H1 & _). lia. }
                 rewrite Hne. cbn [negb elements n_elements last_non_blank common_indent role].
                 eapply (IH2 block false). apply (Hgen false Continuation false); [cbn [lfb]; rewrite app_nil_r; exact Hseg | reflexivity | discriminate | intros _; left; exact H123 | discriminate].
           ++ destruct Hterm as [Hseg Hlen']. destruct text as [|c w].
              ** exfalso. pose proof (seg_length _ _ _ Hseg) as Hl. cbn [length] in Hl. destruct Hseg as (H1 & H2 & _). lia.
              ** assert (Hne : Nat.eqb p end_ = false).
                 { apply Nat.eqb_neq. pose proof (seg_length _ _ _ Hseg) as Hl. cbn [length] in Hl. destruct Hseg as (H1 & _). lia. }
                 rewrite Hne. cbn [negb elements n_elements last_non_blank common_indent role].
                 eapply (IH2 block false). apply (Hgen false Continuation false); [cbn [lfb]; rewrite app_nil_r; exact Hseg | reflexivity | discriminate | intros _; right; left; split; [exact Hlen' | discriminate] | discriminate].
    + (* get_placeable *)
      intros p. cbn [get_placeable]. fold_knot bs.
      skipn u1 q1. useb (IH4 q1). intros e q2 He. skipb. skipb.
      destruct e as [s vs | i]; [apply spec_ret; exact He|].
      destruct i as [? | ? | ? ? | ? ? | ? [?|] ? | ? | ?]; try (apply spec_ret; exact He). exact Logic.I.
    + (* get_expression *)
      intros p. cbn [get_expression]. fold_knot bs.
      useb (IH7 false p). intros i q Hi. skipn u1 q1. skipn p0 q2.
      destruct (negb (is_byte_at bs 45 p0) || negb (is_byte_at bs 62 (S p0))).
      * destruct i as [? | ? | ? ? | ? ? | ? [?|] ? | ? | ?]; try (apply spec_ret; exact Hi). exact Logic.I.
      * skipb. skipb. skipb. skipn eol q5. destruct (negb eol); [exact Logic.I|]. skipn u6 q6.
        useb (IH5 q6). intros vs q7 Hv. apply spec_ret. apply le_select; assumption.
    + intros p. cbn [get_variants]. fold_knot bs. apply IH6. constructor.
    + intros acc hd p Hacc. cbn [variants_loop]. fold_knot bs.
      skipn dflt q1. destruct (dflt && hd); [exact Logic.I|].
      skipn br q2. destruct (negb br).
      * destruct dflt; [exact Logic.I|]. destruct (hd || false); [|exact Logic.I]. apply spec_ret. apply Forall_rev, Hacc.
      * skipn key q3. useb (IH1 q3). intros v q4 Hv. destruct v as [v|]; [|exact Logic.I]. skipn u5 q5.
        apply IH6. constructor; [exact Hv | exact Hacc].
    + (* get_inline_expression *)
      intros ol p. cbn [get_inline_expression]. fold_knot bs.
      skipn cb q0. destruct cb as [b|]; [|destruct ol; exact Logic.I].
      destruct (N.eqb b 34).
      { skipb. skipb. skipb. skipb. skipb. skipb. skipb. apply spec_ret. reflexivity. }
      destruct (is_ascii_digit b); [skipb; apply spec_ret; reflexivity|].
      destruct (N.eqb b 45 && negb ol).
      { skipb. skipn st1 q2. destruct st1.
        - skipb. skipb. skipn att q5. useb (IH8 q5). intros args q6 Hargs. apply spec_ret. apply li_term. exact Hargs.
        - skipb. skipb. apply spec_ret. reflexivity. }
      destruct (N.eqb b 45); [skipb; apply spec_ret; reflexivity|].
      destruct (N.eqb b 36 && negb ol); [skipb; skipb; apply spec_ret; reflexivity|].
      destruct (is_ascii_alphabetic b && negb ol).
      { skipb. skipn id q2. useb (IH8 q2). intros args q3 Hargs. destruct args as [args|].
        - destruct (negb (is_callee id)); [exact Logic.I | apply spec_ret; apply li_fn; exact Hargs].
        - skipb. apply spec_ret. reflexivity. }
      destruct (N.eqb b 123 && negb ol).
      { skipn u1 q1. useb (IH3 q1). intros e q2 He. apply spec_ret. exact He. }
      destruct ol; exact Logic.I.
    + intros p. cbn [get_call_arguments]. fold_knot bs.
      skipb. skipn op q2. destruct (negb op); [apply spec_ret; exact Logic.I|].
      skipn u3 q3. useb (IH9 [] [] [] q3 ltac:(constructor)). intros ca q4 Hca. skipb. apply spec_ret. exact Hca.
    + intros pos named names p Hpos. cbn [args_loop]. fold_knot bs.
      skipn p0 q0.
      assert (Hret : LA (CallArguments (rev pos) (rev named))) by (apply Forall_rev, Hpos).
      destruct (negb (Nat.ltb p0 (length_ bs))); [apply spec_ret; exact Hret|].
      destruct (is_byte_at bs 41 p0); [apply spec_ret; exact Hret|].
      useb (IH7 false q0). intros e q He.
      eapply spec_bind with (Q1 := fun st _ => let '(a, b, c) := st in Forall LI a) (E1 := ET); [|intros; exact Logic.I|].
      * assert (Hpos' : forall q', spec (match names with [] => ret (e :: pos, named, names) | _ :: _ => error_here PositionalArgumentFollowsNamed end) q'
                             (fun st _ => let '(a, b, c) := st in Forall LI a) ET).
        { intros q'. destruct names; [apply spec_ret; constructor; assumption | exact Logic.I]. }
        destruct e as [? | ? | ? ? | id [a|] | ? ? ? | ? | ?]; try apply Hpos'.
        skipn u1 q1. skipn colon q2. destruct colon; [|apply Hpos'].
        destruct (has_name names id); [exact Logic.I|]. skipn u3 q3. skipn u4 q4. skipn v q5.
        apply spec_ret. exact Hpos.
      * intros [[a b] c] q2 Ha. skipb. skipb. skipb. apply IH9; assumption.
Qed.


(* ============================================================================================== *)
(* finish_pattern                                                                                   *)

(* ---- trim_end ---- *)
Lemma scan_while_app_stop f (l m : bytes) : scan_while f l < length l -> scan_while f (l ++ m) = scan_while f l.
Proof.
  induction l as [|x l IH]; intros H; [cbn in H; lia|]. cbn [app scan_while length] in *. destruct (f x); [|reflexivity]. f_equal. apply IH. lia.
Qed.

Lemma trim_end_snoc_ws l x : matches_fluent_ws x = true -> trim_end (l ++ [x]) = trim_end l.
Proof. intros Hx. unfold trim_end. rewrite rev_app_distr. cbn [rev app scan_while]. rewrite Hx. reflexivity. Qed.

Lemma trim_end_app a b : trim_end b <> [] -> trim_end (a ++ b) = a ++ trim_end b.
Proof.
  unfold trim_end. intros Hne. rewrite rev_app_distr.
  assert (Hlt : scan_while matches_fluent_ws (rev b) < length (rev b)).
  { pose proof (scan_while_le matches_fluent_ws (rev b)) as Hle. destruct (Nat.eq_dec (scan_while matches_fluent_ws (rev b)) (length (rev b))) as [E|]; [|lia].
    exfalso. apply Hne. rewrite E, skipn_all. reflexivity. }
  rewrite (scan_while_app_stop _ _ (rev a) Hlt), skipn_app.
  replace (scan_while matches_fluent_ws (rev b) - length (rev b)) with 0 by lia. cbn [skipn]. rewrite rev_app_distr, rev_involutive. reflexivity.
Qed.

Lemma trim_end_idem v : trim_end (trim_end v) = trim_end v.
Proof.
  destruct (trim_end v) as [|x r] eqn:E; [reflexivity|]. pose proof (trim_end_last v ltac:(rewrite E; discriminate)) as Hl. rewrite E in Hl.
  unfold trim_end. rewrite (rev_last (x :: r) ltac:(discriminate)). cbn [scan_while]. rewrite Hl. cbn [skipn].
  rewrite <- (rev_last (x :: r) ltac:(discriminate)). apply rev_involutive.
Qed.

Lemma nonblank_trim body : no_lf body -> (forall b, In b body -> N.eqb b 13 = false) -> is_nonblank body = true -> trim_end body <> [].
Proof.
  intros Hlf Hcr Hnb E. unfold is_nonblank in Hnb. apply existsb_exists in Hnb as (x & Hin & Hx).
  destruct (trim_end_prefix body) as [w Ew]. rewrite E in Ew. cbn [app] in Ew.
  (* every byte of the trimmed part is white space *)
  assert (Hw : forallb matches_fluent_ws (rev body) = true).
  { unfold trim_end in E. apply (f_equal (@rev N)) in E. rewrite rev_involutive in E. cbn [rev] in E.
    set (k := scan_while matches_fluent_ws (rev body)) in *.
    assert (Hk : length (rev body) <= k).
    { destruct (Nat.le_gt_cases (length (rev body)) k) as [H|H]; [exact H|]. exfalso.
      assert (Hl : length (skipn k (rev body)) = length (rev body) - k) by apply skipn_length. rewrite E in Hl. cbn in Hl. lia. }
    pose proof (scan_while_all matches_fluent_ws (rev body)) as Hall. fold k in Hall. rewrite firstn_all2 in Hall by exact Hk. exact Hall. }
  rewrite forallb_forall in Hw. specialize (Hw x (proj1 (in_rev _ _) Hin)). unfold matches_fluent_ws, c_sp, c_cr, c_lf in Hw.
  apply negb_true_iff in Hx. unfold c_sp in Hx. rewrite Hx, (Hcr x Hin) in Hw. cbn [orb] in Hw.
  unfold no_lf in Hlf. assert (existsb (N.eqb 10) body = true); [|congruence]. apply existsb_exists. exists x. split; [exact Hin | rewrite N.eqb_sym; exact Hw].
Qed.

(* ---- dropping the common part of the indentation ---- *)
Lemma seg_drop s e a X : seg s e (sp a ++ X) -> seg (a + s) e X.
Proof.
  intros (H1 & H2 & H3). pose proof (f_equal (@length N) H3) as Hl. rewrite firstn_length, skipn_length, app_length, sp_length in Hl.
  split; [lia | split; [exact H2|]].
  apply (f_equal (skipn a)) in H3. rewrite skipn_sp_cons in H3. rewrite <- H3.
  rewrite <- skipn_add. rewrite skipn_firstn_comm. f_equal. lia.
Qed.

Lemma sp_split a c : sp a = sp (Nat.min a c) ++ sp (a - c).
Proof. rewrite sp_add. f_equal. lia. Qed.


(* ---- the finished elements ---- *)
Definition trim_pd (d : pd) : pd :=
  match d with PdText ls own body _ => PdText ls own (trim_end body) false | PdPlace l => PdPlace l | PdEol => PdEol end.
Fixpoint pds_at (c lnb i : nat) (qs : list qd) : list pd :=
  match qs with
  | [] => []
  | q :: r => (if Nat.eqb lnb i then trim_pd (to_pd c q) else to_pd c q) :: pds_at c lnb (S i) r
  end.

Definition el_bytes (x : pattern_element) : bytes := match x with TextElement v => v | PlaceableElement _ => [123%N] end.
Definition sk_els (els : list pattern_element) : bytes := concat (map el_bytes els).
Definition el_LE (x : pattern_element) : Prop := match x with TextElement v => v <> [] | PlaceableElement e => LE e end.
Definition el_trimmed (x : pattern_element) : Prop := match x with TextElement v => trim_end v = v | PlaceableElement _ => True end.

(* the common indentation as a number: with no counted line every line-start text is a blank line *)
Definition cnum (ci : option nat) : nat := match ci with Some c => c | None => 0 end.

Definition q_fits (ci : option nat) (q : qd) : Prop :=
  match q with QText true qi _ _ => ci = None -> qi = 0 | _ => True end.

Lemma trim_pd_bytes ls own body lf : trim_end body <> [] ->
  trim_end (pd_bytes (PdText ls own body lf)) = pd_bytes (trim_pd (PdText ls own body lf)).
Proof.
  intros Hne. destruct lf; cbn [pd_bytes trim_pd]; rewrite !app_nil_r.
  - replace (sp own ++ body ++ [10%N]) with ((sp own ++ body) ++ [10%N]) by (rewrite <- app_assoc; reflexivity).
    rewrite (trim_end_snoc_ws _ 10%N eq_refl). apply (trim_end_app (sp own) body Hne).
  - apply (trim_end_app (sp own) body Hne).
Qed.

Lemma st_finish_element lnb ci i ph q p : ph_q ph q -> q_fits ci q ->
  (Nat.eqb lnb i = true -> match q with QText _ _ body _ => trim_end body <> [] | QPlace _ => True | QEol => False end) ->
  spec (finish_element bs lnb ci i ph) p
       (fun r _ => let d := if Nat.eqb lnb i then trim_pd (to_pd (cnum ci) q) else to_pd (cnum ci) q in
                   match r with
                   | Some x => el_bytes x = pd_bytes d /\ el_LE x /\ (Nat.eqb lnb i = true -> el_trimmed x)
                   | None => pd_bytes d = [] /\ Nat.eqb lnb i = false
                   end) ET.
Proof.
  intros Hq Hfit Htrim. destruct ph as [e | s e ind role]; destruct q as [ls qi body lf | l |]; cbn [ph_q] in Hq; try (exfalso; exact Hq).
  3:{ (* the LF of a CR LF line end *)
    destruct Hq as (-> & Hseg & ->). unfold finish_element. cbn [is_line_start].
    assert (Hs : (match ci with Some c0 => s + Nat.min 0 c0 | None => s + 0 end) = s) by (destruct ci; cbn [Nat.min]; lia).
    rewrite Hs. pose proof (seg_length _ _ _ Hseg) as Hlen. cbn [length] in Hlen. destruct (Nat.eqb s e) eqn:Ee; [apply Nat.eqb_eq in Ee; destruct Hseg as (H1 & _); lia|].
    eapply spec_bind; [apply sp_source_slice | intros ? ? []|]. intros v q0 [-> Hv]. apply spec_ret.
    rewrite (seg_slice _ _ _ Hseg v Hv). destruct (Nat.eqb lnb i) eqn:El; [destruct (Htrim eq_refl)|].
    cbn [to_pd pd_bytes el_bytes el_LE]. split; [reflexivity | split; [discriminate | discriminate]]. }
  - unfold finish_element. apply spec_ret. destruct (Nat.eqb lnb i); cbn [to_pd trim_pd pd_bytes el_bytes el_LE el_trimmed]; (split; [reflexivity | split; [exact Hq | intros _; exact Logic.I]]).
  - destruct Hq as (Els & Hseg & Hi1 & Hi2 & _). unfold finish_element. rewrite <- Els.
    set (c := cnum ci).
    set (s' := if ls then match ci with Some c0 => s + Nat.min ind c0 | None => s + ind end else s).
    assert (Hseg' : seg s' e (sp (qi - c) ++ body ++ lfb lf)).
    { unfold s'. destruct ls.
      - rewrite (Hi1 eq_refl). destruct ci as [c0|]; cbn [cnum] in *.
        + rewrite (sp_split qi c0), <- app_assoc in Hseg. apply seg_drop in Hseg. rewrite Nat.add_comm. exact Hseg.
        + cbn [q_fits] in Hfit. rewrite (Hfit eq_refl) in *. cbn [sp repeat app Nat.sub] in *. rewrite Nat.add_0_r. exact Hseg.
      - rewrite (Hi2 eq_refl) in *. cbn [Nat.sub sp repeat app] in *. exact Hseg. }
    fold s'. pose proof (seg_length _ _ _ Hseg') as Hlen.
    destruct (Nat.eqb s' e) eqn:Ee.
    + apply Nat.eqb_eq in Ee. apply spec_ret. subst e. rewrite Nat.sub_diag in Hlen. apply length_zero_iff_nil in Hlen.
      destruct (Nat.eqb lnb i) eqn:El; cbn [to_pd pd_bytes trim_pd]; fold c; [|split; [exact Hlen | reflexivity]].
      (* the trimmed element is not empty *)
      exfalso. specialize (Htrim eq_refl). apply app_eq_nil in Hlen as [_ Hlen]. apply app_eq_nil in Hlen as [Hb _]. subst body. apply Htrim. reflexivity.
    + apply Nat.eqb_neq in Ee. eapply spec_bind; [apply sp_source_slice | intros ? ? []|]. intros v q0 [-> Hv]. apply spec_ret.
      rewrite (seg_slice _ _ _ Hseg' v Hv).
      assert (Hne : sp (qi - c) ++ body ++ lfb lf <> []).
      { intros E. rewrite E in Hlen. cbn in Hlen. destruct Hseg' as (H1 & _). lia. }
      destruct (Nat.eqb lnb i) eqn:El; cbn [to_pd el_bytes el_LE].
      * specialize (Htrim eq_refl). change (sp (qi - c) ++ body ++ lfb lf) with (pd_bytes (PdText ls (qi - c) body lf)).
        rewrite (trim_pd_bytes ls (qi - c) body lf Htrim). split; [reflexivity|]. split.
        -- cbn [trim_pd pd_bytes]. intros E. apply app_eq_nil in E as [_ E]. apply app_eq_nil in E as [E _]. exact (Htrim E).
        -- intros _. cbn [el_trimmed]. rewrite <- (trim_pd_bytes ls (qi - c) body lf Htrim). apply trim_end_idem.
      * split; [reflexivity | split; [exact Hne | discriminate]].
Qed.

Lemma st_finish_elements lnb ci : forall phs qs i p, Forall2 ph_q phs qs -> Forall (q_fits ci) qs ->
  (forall q, nth_error qs (lnb - i) = Some q -> i <= lnb -> match q with QText _ _ body _ => trim_end body <> [] | QPlace _ => True | QEol => False end) ->
  spec (finish_elements bs lnb ci i phs) p
       (fun els _ => sk_els els = sk_of (pds_at (cnum ci) lnb i qs) /\ Forall el_LE els /\
                     (S lnb = i + length phs -> phs <> [] -> match rev els with x :: _ => el_trimmed x | [] => False end)) ET.
Proof.
  induction phs as [|ph r IH]; intros qs i p Hrel Hfit Htrim; inversion Hrel as [|? q ? qr Hq Hr]; subst; cbn [finish_elements].
  - apply spec_ret. split; [reflexivity | split; [constructor | intros _ H; congruence]].
  - inversion Hfit as [|? ? Hf Hfr]; subst.
    eapply spec_bind; [apply (st_finish_element lnb ci i ph q p Hq Hf) | intros; exact Logic.I|].
    { intros El. apply Nat.eqb_eq in El. subst lnb. apply (Htrim q); [rewrite Nat.sub_diag; reflexivity | lia]. }
    intros x q1 Hx. eapply spec_bind; [apply (IH qr (S i) q1 Hr Hfr) | intros; exact Logic.I|].
    { intros q' Hn Hle. apply (Htrim q'); [|lia]. replace (lnb - i) with (S (lnb - S i)) by lia. exact Hn. }
    intros xs q2 (Hxs1 & Hxs2 & Hxs3). apply spec_ret. cbn [pds_at]. unfold sk_of. cbn [map concat]. fold (sk_of (pds_at (cnum ci) lnb (S i) qr)).
    assert (Hlast : S lnb = i + length (ph :: r) -> match rev (match x with Some e0 => e0 :: xs | None => xs end) with x0 :: _ => el_trimmed x0 | [] => False end).
    { cbn [length]. intros Hl. destruct r as [|ph2 r2].
      - (* the last placeholder: it is the trimmed one *)
        assert (El : Nat.eqb lnb i = true) by (apply Nat.eqb_eq; cbn [length] in Hl; lia).
        inversion Hr; subst. cbn [finish_elements] in *.
        assert (xs = []) as ->.
        { cbn [pds_at] in Hxs1. unfold sk_of in Hxs1. cbn [map concat] in Hxs1. destruct xs as [|x0 xs']; [reflexivity|]. exfalso.
          unfold sk_els in Hxs1. cbn [map concat] in Hxs1. apply app_eq_nil in Hxs1 as [Hx0 _]. inversion Hxs2 as [|? ? Hle _]; subst.
          destruct x0 as [v|e0]; cbn [el_bytes el_LE] in *; [exact (Hle Hx0) | discriminate Hx0]. }
        destruct x as [x|]; [cbn [rev app]; apply Hx, El | destruct Hx as [_ Hx]; congruence].
      - specialize (Hxs3 ltac:(cbn [length] in *; lia) ltac:(discriminate)).
        destruct x as [x|]; [|exact Hxs3]. cbn [rev]. destruct (rev xs) as [|y l]; [destruct Hxs3 | exact Hxs3]. }
    destruct x as [x|].
    + destruct Hx as (Hx1 & Hx2 & _). split; [unfold sk_els; cbn [map concat]; fold (sk_els xs); rewrite Hx1, Hxs1; reflexivity|].
      split; [constructor; assumption | intros Hl _; apply Hlast, Hl].
    + destruct Hx as [Hx _]. rewrite Hx. split; [exact Hxs1 | split; [exact Hxs2 | intros Hl _; apply Hlast, Hl]].
Qed.


(* ---- the description of the finished elements satisfies the conditions of Part A ---- *)
Lemma pds_ok_shift c qs : forall ls, pds_ok ls (pds0 qs) -> pds_ok ls (map (to_pd c) qs).
Proof.
  induction qs as [|q r IH]; intros ls H; [exact Logic.I|]. destruct q as [l qi body lf | l |]; cbn [pds0 map to_pd pds_ok] in *.
  - destruct H as (El & Hb & Hcase & Hnext & Hr). split; [exact El|]. split; [exact Hb|]. split; [|split].
    + destruct ls.
      * destruct body; [|exact Hcase]. destruct Hcase as [[H1 H2] | H1]; [left; split; [exact H1 | lia] | right; exact H1].
      * destruct Hcase as [H1 H2]. split; [lia | exact H2].
    + intros Hlf. specialize (Hnext Hlf). destruct r as [|[? ? ? ?|?|] r']; cbn [map to_pd] in *; exact Hnext.
    + apply IH, Hr.
  - destruct H as [El Hr]. split; [exact El | apply IH, Hr].
  - destruct H as [El Hr]. split; [exact El | apply IH, Hr].
Qed.

Definition same_kind (d d' : pd) : Prop := match d, d' with PdPlace _, PdPlace _ => True | PdText _ _ _ _, PdText _ _ _ _ => True | _, _ => False end.

Lemma pds_ok_cut X : forall ls d Y d', pds_ok ls (X ++ d :: Y) -> same_kind d d' ->
  (forall ls', pds_ok ls' (d :: Y) -> pds_ok ls' [d']) -> pds_ok ls (X ++ [d']).
Proof.
  induction X as [|x X IH]; intros ls d Y d' H Hk Hd; [apply Hd, H|].
  destruct x as [l own body lf | l |]; cbn [app pds_ok] in *.
  - destruct H as (El & Hb & Hcase & Hnext & Hr). split; [exact El|]. split; [exact Hb|]. split; [exact Hcase|]. split.
    + intros Hlf. specialize (Hnext Hlf). destruct X as [|y X']; cbn [app] in *.
      * destruct d, d'; try destruct Hk; try exact Logic.I; exact Hnext.
      * exact Hnext.
    + apply (IH lf d Y d' Hr Hk Hd).
  - destruct H as [El Hr]. split; [exact El | apply (IH false d Y d' Hr Hk Hd)].
  - destruct H as [El Hr]. split; [exact El | apply (IH true d Y d' Hr Hk Hd)].
Qed.

Lemma ws_false c : N.eqb c 32 = false -> N.eqb c 10 = false -> N.eqb c 13 = false -> matches_fluent_ws c = false.
Proof. intros H1 H2 H3. unfold matches_fluent_ws, c_sp, c_cr, c_lf. rewrite H1, H2, H3. reflexivity. Qed.

Lemma trim_end_head c w : matches_fluent_ws c = false -> exists w', trim_end (c :: w) = c :: w'.
Proof.
  intros Hc. assert (Hne : trim_end [c] <> []).
  { unfold trim_end. cbn [rev app scan_while]. rewrite Hc. cbn. discriminate. }
  destruct (trim_end w) as [|x r] eqn:Ew.
  - (* w is white space only *)
    exists []. destruct (trim_end_prefix w) as [ww Eww]. rewrite Ew in Eww. cbn [app] in Eww.
    assert (Hall : forallb matches_fluent_ws (rev w) = true).
    { unfold trim_end in Ew. apply (f_equal (@rev N)) in Ew. rewrite rev_involutive in Ew. cbn [rev] in Ew.
      set (k := scan_while matches_fluent_ws (rev w)) in *.
      assert (Hk : length (rev w) <= k).
      { destruct (Nat.le_gt_cases (length (rev w)) k) as [H|H]; [exact H|]. exfalso.
        assert (Hl : length (skipn k (rev w)) = length (rev w) - k) by apply skipn_length. rewrite Ew in Hl. cbn in Hl. lia. }
      pose proof (scan_while_all matches_fluent_ws (rev w)) as Ha. fold k in Ha. rewrite firstn_all2 in Ha by exact Hk. exact Ha. }
    unfold trim_end. cbn [rev]. 
    assert (Hs : scan_while matches_fluent_ws (rev w ++ [c]) = length (rev w)).
    { clear - Hall Hc. induction (rev w) as [|y l IH]; [cbn; rewrite Hc; reflexivity|]. cbn [forallb] in Hall. apply andb_prop in Hall as [Hy Hl].
      cbn [app scan_while length]. rewrite Hy. f_equal. apply IH, Hl. }
    rewrite Hs, skipn_app, skipn_all, Nat.sub_diag. reflexivity.
  - change (c :: w) with ([c] ++ w). rewrite (trim_end_app [c] w ltac:(rewrite Ew; discriminate)). rewrite Ew. eexists. reflexivity.
Qed.

Lemma counted_shift c qs : counted (map (to_pd c) qs) = map (fun x => x - c) (counted (pds0 qs)).
Proof.
  induction qs as [|q r IH]; [reflexivity|]. destruct q as [[|] qi [|c0 body] [|] | [|] |]; cbn [pds0 map to_pd counted] in *; rewrite ?IH, ?Nat.sub_0_r; reflexivity.
Qed.

Lemma seg_in s e v b : seg s e v -> In b v -> In b bs.
Proof.
  intros (_ & _ & <-) H. apply In_nth_error in H as [i Hi]. destruct (nth_firstn_lt _ _ _ _ Hi) as [_ H2].
  rewrite nth_error_skipn_add in H2. apply (nth_error_In _ _ H2).
Qed.


(* ---- the skeleton of the joined pattern ---- *)
Lemma skeleton_join l : skeleton (Pattern (join_elements l)) = skeleton (Pattern l).
Proof.
  unfold skeleton. cbn [pattern_elements]. induction l as [|x r IH]; [reflexivity|]. destruct x as [a|e].
  - change (join_elements (TextElement a :: r)) with
      (match join_elements r with TextElement b :: r' => TextElement (a ++ b) :: r' | J => TextElement a :: J end).
    cbn [flat_map]. rewrite <- IH. destruct (join_elements r) as [|[b|e'] r']; cbn [flat_map]; rewrite <- ?app_assoc; reflexivity.
  - cbn [join_elements flat_map]. rewrite IH. reflexivity.
Qed.

Lemma skeleton_els els : skeleton (Pattern (map join_element els)) = sk_els els.
Proof.
  unfold skeleton, sk_els. cbn [pattern_elements]. induction els as [|x r IH]; [reflexivity|]. cbn [map flat_map concat]. rewrite IH.
  destruct x; reflexivity.
Qed.

Lemma fbok_join els : Forall el_LE els ->
  first_byte_ok_for_block (Pattern (join_elements (map join_element els))) = dot_free (sk_els els).
Proof.
  intros H. destruct els as [|x r]; [reflexivity|]. inversion H as [|? ? Hx _]; subst. unfold first_byte_ok_for_block. cbn [pattern_elements map].
  destruct x as [a|e]; cbn [join_element].
  - cbn [el_LE] in Hx. destruct a as [|c a']; [congruence|].
    change (join_elements (TextElement (c :: a') :: map join_element r)) with
      (match join_elements (map join_element r) with TextElement b :: r' => TextElement ((c :: a') ++ b) :: r' | J => TextElement (c :: a') :: J end).
    unfold sk_els. cbn [map concat el_bytes app dot_free]. destruct (join_elements (map join_element r)) as [|[b|e'] r']; reflexivity.
  - cbn [join_elements]. unfold sk_els. cbn [map concat el_bytes app dot_free]. reflexivity.
Qed.

Lemma lines_els_join l : lines_ok_els (join_elements l) = lines_ok_els l.
Proof.
  induction l as [|x r IH]; [reflexivity|]. destruct x as [a|e].
  - change (join_elements (TextElement a :: r)) with
      (match join_elements r with TextElement b :: r' => TextElement (a ++ b) :: r' | J => TextElement a :: J end).
    cbn [lines_ok_els]. rewrite <- IH. destruct (join_elements r) as [|[b|e'] r']; reflexivity.
  - cbn [join_elements lines_ok_els]. rewrite IH. reflexivity.
Qed.

Lemma lines_els_LE els : Forall el_LE els -> lines_ok_els (map join_element els) = true.
Proof.
  induction 1 as [|x r Hx _ IH]; [reflexivity|]. destruct x as [v|e]; cbn [map join_element lines_ok_els]; [exact IH|].
  cbn [el_LE] in Hx. unfold LE in Hx. rewrite Hx, IH. reflexivity.
Qed.

Lemma Forall2_firstn {A B} (R : A -> B -> Prop) k : forall l l', Forall2 R l l' -> Forall2 R (firstn k l) (firstn k l').
Proof. induction k as [|k IH]; intros l l' H; [constructor|]. destruct H; [constructor|]. cbn [firstn]. constructor; [assumption | apply IH; assumption]. Qed.

Lemma pds_at_lt c lnb : forall A i, i + length A <= lnb -> pds_at c lnb i A = map (to_pd c) A.
Proof.
  induction A as [|q r IH]; intros i H; [reflexivity|]. cbn [pds_at map length] in *.
  replace (Nat.eqb lnb i) with false by (symmetry; apply Nat.eqb_neq; lia). f_equal. apply IH. lia.
Qed.

Lemma pds_at_snoc c lnb A q : forall i, i + length A = lnb ->
  pds_at c lnb i (A ++ [q]) = map (to_pd c) A ++ [trim_pd (to_pd c q)].
Proof.
  induction A as [|x r IH]; intros i H; cbn [app pds_at map length] in *.
  - replace (Nat.eqb lnb i) with true by (symmetry; apply Nat.eqb_eq; lia). reflexivity.
  - replace (Nat.eqb lnb i) with false by (symmetry; apply Nat.eqb_neq; lia). f_equal. apply IH. lia.
Qed.

Lemma pds_ok_body ds : forall ls l own body lf, pds_ok ls ds -> In (PdText l own body lf) ds -> no_lf body.
Proof.
  induction ds as [|d r IH]; intros ls l own body lf H Hin; [destruct Hin|]. destruct d as [l0 o0 b0 f0 | l0 |]; cbn [pds_ok] in H.
  - destruct H as (_ & Hb & _ & _ & Hr). destruct Hin as [E | Hin]; [injection E as -> -> -> ->; exact Hb | apply (IH _ _ _ _ _ Hr Hin)].
  - destruct H as [_ Hr]. destruct Hin as [E | Hin]; [discriminate E | apply (IH _ _ _ _ _ Hr Hin)].
  - destruct H as [_ Hr]. destruct Hin as [E | Hin]; [discriminate E | apply (IH _ _ _ _ _ Hr Hin)].
Qed.

(* with no counted line every text at a line start is a blank line (no indentation kept) *)
Lemma fits_none qs : forall ls, pds_ok ls (pds0 qs) -> counted (pds0 qs) = [] -> Forall (q_fits None) qs.
Proof.
  induction qs as [|q r IH]; intros ls H Hc; [constructor|]. destruct q as [l qi body lf | l |]; cbn [pds0 map to_pd pds_ok] in H.
  - destruct H as (-> & _ & Hcase & _ & Hr). constructor.
    + destruct ls; cbn [q_fits]; [|exact Logic.I]. intros _. rewrite Nat.sub_0_r in *.
      destruct body as [|c0 b0]; [|cbn [pds0 map to_pd counted] in Hc; discriminate Hc].
      destruct Hcase as [[_ H0] | ->]; [exact H0 | cbn [pds0 map to_pd counted] in Hc; discriminate Hc].
    + apply (IH lf Hr). cbn [pds0 map to_pd] in Hc. destruct ls, body, lf; cbn [counted] in Hc; try discriminate Hc; exact Hc.
  - destruct H as [-> Hr]. constructor; [exact Logic.I|]. apply (IH false Hr). cbn [pds0 map to_pd] in Hc. destruct ls; cbn [counted] in Hc; [discriminate Hc | exact Hc].
  - destruct H as [-> Hr]. constructor; [exact Logic.I|]. apply (IH true Hr). exact Hc.
Qed.


Lemma firstn_app_len {A} (a b : list A) : firstn (length a) (a ++ b) = a.
Proof. rewrite firstn_app, Nat.sub_diag, firstn_O, app_nil_r. apply firstn_all. Qed.
Lemma skipn_app_len' {A} (a b : list A) : skipn (length a) (a ++ b) = b.
Proof. induction a as [|x a IH]; [reflexivity | exact IH]. Qed.
Lemma Forall2_len {A B} (R : A -> B -> Prop) l l' : Forall2 R l l' -> length l = length l'.
Proof. induction 1; [reflexivity | cbn [length]; congruence]. Qed.
Lemma pds_ok_end X : forall ls Y, pds_ok ls (X ++ Y) -> pds_ok (end_ls ls X) Y.
Proof.
  induction X as [|x X IH]; intros ls Y H; [exact H|]. destruct x as [l own body lf | l |]; cbn [app pds_ok end_ls] in *.
  - destruct H as (_ & _ & _ & _ & Hr). apply (IH lf Y Hr).
  - destruct H as [_ Hr]. apply (IH false Y Hr).
  - destruct H as [_ Hr]. apply (IH true Y Hr).
Qed.
Lemma last_app_ne' {A} (a b : list A) d : b <> [] -> last (a ++ b) d = last b d.
Proof.
  intros Hb. induction a as [|x a IH]; [reflexivity|]. cbn [app]. rewrite <- IH.
  destruct (a ++ b) eqn:E; [|reflexivity]. destruct a; [cbn in E; congruence | discriminate].
Qed.

(* trailing blank pieces are not counted *)
Lemma blank_uncounted B : forall ls, pds_ok ls (pds0 B) -> Forall (fun q => q_nonblank q = false) B ->
  match last B (QPlace false) with QText true _ [] false => False | _ => True end -> counted (pds0 B) = [].
Proof.
  induction B as [|q r IH]; intros ls H Hb Hlast; [reflexivity|]. inversion Hb as [|? ? Hq Hr]; subst.
  assert (Hlast' : match last r (QPlace false) with QText true _ [] false => False | _ => True end).
  { destruct r as [|q2 r2]; [exact Logic.I | exact Hlast]. }
  destruct q as [l qi body lf | l |]; [|discriminate Hq|].
  2:{ cbn [pds0 map to_pd pds_ok counted] in *. destruct H as [_ Hok]. apply (IH true Hok Hr Hlast'). }
  cbn [pds0 map to_pd pds_ok] in H. destruct H as (-> & _ & Hcase & Hnext & Hok).
  cbn [pds0 map to_pd]. destruct ls.
  - destruct body as [|c0 b0].
    + destruct lf; cbn [counted]; [apply (IH true Hok Hr Hlast')|].
      (* an indentation piece: a placeable would follow, or it is the last piece *)
      exfalso. destruct r as [|q2 r2]; [exact Hlast|]. specialize (Hnext eq_refl). destruct q2 as [? ? ? ?|?|]; cbn [pds0 map to_pd] in Hnext; [destruct Hnext | | exact (Hnext eq_refl)].
      inversion Hr as [|? ? Hq2 _]; subst. discriminate Hq2.
    + exfalso. destruct Hcase as [H32 _]. cbn [q_nonblank is_nonblank existsb] in Hq. unfold c_sp in Hq. rewrite H32 in Hq. discriminate Hq.
  - destruct body, lf; cbn [counted]; apply (IH _ Hok Hr Hlast').
Qed.

Theorem finish_pattern_lines : finish_goal.
Proof.
  intros block st qs p Hf. unfold finish_pattern. destruct (last_non_blank st) as [i|] eqn:Elnb; [|apply spec_ret; exact Logic.I].
  pose proof (f_lnb _ _ _ Hf) as Hl. rewrite Elnb in Hl. destruct Hl as (q & Hnth & Hnb & Hblank).
  assert (Hqe : q <> QEol) by (intros ->; discriminate Hnb).
  destruct (nth_error_split qs i Hnth) as (A & B & Eqs & HlenA).
  assert (Hqcr : match q with QText _ _ body _ => nocr_l body | _ => True end).
  { pose proof (f_rel _ _ _ Hf) as Hrel. rewrite Eqs in Hrel. apply Forall2_app_inv_r in Hrel as (l1 & l2 & _ & H2 & _).
    inversion H2 as [|ph ? ? ? Hph _]; subst. destruct q as [l0 qi body lf | l0 |]; [|exact Logic.I | exact Logic.I].
    destruct ph as [e0 | s0 e0 ind0 role0]; cbn [ph_q] in Hph; [destruct Hph|]. apply Hph. }
  assert (Hsk : skipn (S i) qs = B).
  { rewrite Eqs. replace (S i) with (length (A ++ [q])) by (rewrite app_length; cbn [length]; lia).
    replace (A ++ q :: B) with ((A ++ [q]) ++ B) by (rewrite <- app_assoc; reflexivity). apply skipn_app_len'. }
  rewrite Hsk in Hblank.
  assert (Hfn : firstn (S i) qs = A ++ [q]).
  { rewrite Eqs. replace (S i) with (length (A ++ [q])) by (rewrite app_length; cbn [length]; lia).
    replace (A ++ q :: B) with ((A ++ [q]) ++ B) by (rewrite <- app_assoc; reflexivity). apply firstn_app_len. }
  set (ci := common_indent st) in *. set (c := cnum ci).
  pose proof (f_ok _ _ _ Hf) as Hok. pose proof (f_ci _ _ _ Hf) as Hci. fold ci in Hci.
  (* the element at lnb is not blank: its trimmed body is not empty *)
  assert (Hqtrim : match q with QText _ _ body _ => trim_end body <> [] /\ no_lf body | _ => True end).
  { destruct q as [l qi body lf | l |]; [|exact Logic.I | exact Logic.I].
    assert (Hnolf : no_lf body).
    { apply (pds_ok_body (pds0 qs) block l (qi - 0) body lf Hok). rewrite Eqs. unfold pds0. rewrite map_app. apply in_or_app. right. left. reflexivity. }
    split; [|exact Hnolf]. apply (nonblank_trim body Hnolf); [exact Hqcr | exact Hnb]. }
  assert (Hfits : Forall (q_fits ci) (A ++ [q])).
  { destruct ci as [m|] eqn:Eci.
    - apply Forall_forall. intros x _. destruct x as [[|] ? ? ?|?|]; cbn [q_fits]; try exact Logic.I. discriminate.
    - cbn [ci_rel] in Hci. pose proof (fits_none qs block Hok Hci) as Hall. rewrite Eqs in Hall.
      replace (A ++ q :: B) with ((A ++ [q]) ++ B) in Hall by (rewrite <- app_assoc; reflexivity). apply Forall_app in Hall as [Hall _]. exact Hall. }
  eapply spec_bind; [apply (st_finish_elements i ci (firstn (S i) (rev (elements st))) (A ++ [q]) 0 p) | intros; exact Logic.I|].
  - rewrite <- Hfn. apply Forall2_firstn, (f_rel _ _ _ Hf).
  - exact Hfits.
  - intros q' Hn _. rewrite Nat.sub_0_r, <- HlenA, nth_error_app2, Nat.sub_diag in Hn by lia. injection Hn as <-.
    destruct q as [l qi body lf | l |]; [apply Hqtrim | exact Logic.I | congruence].
  - intros els q1 (Hskel & Hle & Hlast). apply spec_ret. cbn [Nat.add] in Hlast.
    assert (Hlenphs : length (firstn (S i) (rev (elements st))) = S i).
    { pose proof (Forall2_len _ _ _ (Forall2_firstn ph_q (S i) _ _ (f_rel _ _ _ Hf))) as Hl2. rewrite Hl2, Hfn, app_length. cbn [length]. lia. }
    specialize (Hlast ltac:(rewrite Hlenphs; reflexivity) ltac:(intros E; rewrite E in Hlenphs; discriminate Hlenphs)).
    fold c in Hskel. rewrite (pds_at_snoc c i A q 0 HlenA) in Hskel. set (P := map (to_pd c) A ++ [trim_pd (to_pd c q)]) in *.
    (* drop_empty_tail leaves the elements as they are *)
    assert (Hdrop : drop_empty_tail els = Some (Pattern els)).
    { unfold drop_empty_tail. destruct (rev els) as [|x rl] eqn:Er; [destruct Hlast|].
      assert (Ex : drop_empty_tail_rev (x :: rl) = x :: rl).
      { destruct x as [v|e0]; [|reflexivity]. cbn [drop_empty_tail_rev el_trimmed] in *. rewrite Hlast.
        assert (Hv : v <> []).
        { rewrite Forall_forall in Hle. apply (Hle (TextElement v)). apply in_rev. rewrite Er. left. reflexivity. }
        destruct v; [congruence | reflexivity]. }
      rewrite Ex, <- Er, rev_involutive. destruct els; [discriminate Er | reflexivity]. }
    rewrite Hdrop. cbn [LP].
    change (join_pattern (Pattern els)) with (Pattern (join_elements (map join_element els))).
    rewrite lines_ok_pattern_els, lines_els_join, (lines_els_LE els Hle), andb_true_r.
    rewrite wf_lines_sk_eq, skeleton_join, skeleton_els, (fbok_join els Hle), Hskel.
    (* the conditions of Part A *)
    assert (HokP : pds_ok block P).
    { unfold P. pose proof (pds_ok_shift c qs block Hok) as Hs. rewrite Eqs, map_app in Hs. cbn [map] in Hs.
      apply (pds_ok_cut _ block (to_pd c q) (map (to_pd c) B) _ Hs).
      - destruct q; try exact Logic.I. congruence.
      - intros ls' Hd. destruct q as [l qi body lf | l |]; cbn [to_pd trim_pd pds_ok] in *; [|split; [apply Hd | exact Logic.I] | congruence].
        destruct Hd as (-> & Hb & Hcase & _ & _). destruct Hqtrim as [Htr Hnolf].
        split; [reflexivity|]. split.
        + destruct (trim_end_prefix body) as [w Ew]. unfold no_lf in *. rewrite Ew, existsb_app in Hb. apply orb_false_elim in Hb as [Hb _]. exact Hb.
        + split; [|split; [intros _; exact Logic.I | exact Logic.I]].
          destruct ls'.
          * destruct body as [|c0 b0]; [exfalso; apply Htr; reflexivity|].
            destruct (trim_end_head c0 b0) as [w' Ew']; [|rewrite Ew'; exact Hcase].
            destruct Hcase as (H32 & H10 & _). apply ws_false; [exact H32 | exact H10|]. apply Hqcr. left. reflexivity.
          * destruct Hcase as [H0 _]. split; [exact H0 | intros E; destruct (Htr E)]. }
    assert (HneP : P <> []) by (unfold P; intros E; apply app_eq_nil in E as [_ E]; discriminate E).
    assert (HlastP : last_ok P).
    { unfold last_ok, P. rewrite last_last. destruct q as [l qi body lf | l |]; cbn [to_pd trim_pd]; [|exact Logic.I | congruence].
      destruct Hqtrim as [Htr _]. split; [reflexivity | split; [exact Htr|]]. pose proof (trim_end_last body Htr) as Hw.
      unfold matches_fluent_ws, c_sp in Hw. apply orb_false_elim in Hw as [Hw _]. apply orb_false_elim in Hw as [Hw _]. exact Hw. }
    assert (HfirstP : first_ok block P).
    { pose proof (f_first _ _ _ Hf) as Hfi. rewrite Eqs in Hfi. unfold P. destruct A as [|a A'].
      - cbn [app map pds0] in *. destruct q as [l qi body lf | l |]; cbn [to_pd trim_pd first_ok] in *; [|exact Logic.I | congruence].
        destruct Hqtrim as [Htr _]. destruct body as [|c0 b0]; [exfalso; apply Htr; reflexivity|].
        destruct (trim_end_head c0 b0) as [w' Ew']; [|rewrite Ew'; exact Hfi]. destruct Hfi as [H32 H10]. apply ws_false; [exact H32 | exact H10|].
        apply Hqcr. left. reflexivity.
      - cbn [app map pds0] in *. destruct a as [l qi body lf | l |]; cbn [to_pd first_ok] in *; exact Hfi. }
    assert (HcntP : counted P = [] \/ In 0 (counted P)).
    { (* the counted indentations are those of the whole list, shifted by the common indentation *)
      assert (Ecnt : counted (pds0 qs) = counted (pds0 (A ++ [q]))).
      { rewrite Eqs. replace (A ++ q :: B) with ((A ++ [q]) ++ B) by (rewrite <- app_assoc; reflexivity).
        unfold pds0. rewrite map_app, counted_app. fold (pds0 B).
        rewrite (blank_uncounted B (end_ls block (pds0 (A ++ [q])))); [apply app_nil_r | | exact Hblank |].
        - rewrite Eqs in Hok. replace (A ++ q :: B) with ((A ++ [q]) ++ B) in Hok by (rewrite <- app_assoc; reflexivity).
          unfold pds0 in Hok. rewrite map_app in Hok. apply (pds_ok_end _ _ _ Hok).
        - pose proof (f_noind _ _ _ Hf) as Hni. rewrite Eqs in Hni. destruct B as [|b0 B']; [exact Logic.I|].
          replace (A ++ q :: b0 :: B') with ((A ++ [q]) ++ b0 :: B') in Hni by (rewrite <- app_assoc; reflexivity).
          rewrite last_app_ne' in Hni by discriminate. exact Hni. }
      assert (EcP : counted P = map (fun x => x - c) (counted (pds0 (A ++ [q])))).
      { unfold P. rewrite <- counted_shift, map_app, !counted_app. f_equal. cbn [map].
        destruct q as [[|] qi body lf | [|] |]; cbn [to_pd trim_pd counted]; try reflexivity.
        destruct Hqtrim as [Htr _]. destruct body as [|c0 b0]; [exfalso; apply Htr; reflexivity|].
        destruct (trim_end (c0 :: b0)) as [|t0 t1] eqn:Et; [congruence|]. destruct lf; reflexivity. }
      rewrite EcP, <- Ecnt. unfold c. destruct ci as [m|]; cbn [ci_rel cnum] in *.
      - right. destruct Hci as [Hin _]. apply in_map_iff. exists m. split; [lia | exact Hin].
      - left. rewrite Hci. reflexivity. }
    apply (pds_wf block P HokP HneP HfirstP HlastP HcntP).
Qed.


(* ---- entries and resources ---- *)
Definition ln_attribute (a : attribute) : Prop := lines_ok_pattern (join_pattern (attr_value a)) = true.
Definition ln_entry (e : entry) : Prop :=
  match e with
  | Message _ v attrs _ => match v with Some p => lines_ok_pattern (join_pattern p) = true | None => True end /\ Forall ln_attribute attrs
  | Term _ v attrs _ => lines_ok_pattern (join_pattern v) = true /\ Forall ln_attribute attrs
  | _ => True
  end.

Lemma sn_get_pattern n p : spec (get_pattern bs n) p LP ET.
Proof. apply (proj1 (knot_ln_all finish_pattern_lines n)). Qed.

Lemma sn_get_attribute n p : spec (get_attribute bs n) p (fun a _ => ln_attribute a) ET.
Proof.
  unfold get_attribute. skipn id q1. skipn u2 q2. skipn u3 q3. useb (sn_get_pattern n q3). intros pat q4 Hp.
  destruct pat as [pat|]; [apply spec_ret; exact Hp | exact Logic.I].
Qed.

Lemma sn_get_attributes n : forall acc p, Forall ln_attribute acc ->
  spec (get_attributes bs n acc) p (fun attrs _ => Forall ln_attribute attrs) ET.
Proof.
  induction n as [|n IH]; intros acc p Hacc; [exact Logic.I|]. cbn [get_attributes].
  skipn ls q1. skipn u2 q2. skipn dot q3.
  destruct (negb dot); [skipb; apply spec_ret; apply Forall_rev, Hacc|].
  eapply spec_bind; [apply spec_try, (sn_get_attribute n q3) | intros ? ? []|].
  intros r q4 Hr. destruct r as [e | attr].
  - skipb. apply spec_ret. apply Forall_rev, Hacc.
  - apply IH. constructor; assumption.
Qed.

Lemma sn_get_message n es p : spec (get_message bs n es) p (fun e _ => ln_entry e) ET.
Proof.
  unfold get_message. skipn id q1. skipn u2 q2. skipn u3 q3. useb (sn_get_pattern n q3). intros pat q4 Hp.
  skipn u5 q5. useb (sn_get_attributes n [] q5 ltac:(constructor)). intros attrs q6 Ha.
  destruct pat as [pat|]; [apply spec_ret; split; assumption|].
  destruct attrs as [|a r]; [skipb; exact Logic.I | apply spec_ret; split; [exact Logic.I | exact Ha]].
Qed.

Lemma sn_get_term n es p : spec (get_term bs n es) p (fun e _ => ln_entry e) ET.
Proof.
  unfold get_term. skipn u0 q0. skipn id q1. skipn u2 q2. skipn u3 q3. skipn u4 q4.
  useb (sn_get_pattern n q4). intros pat q5 Hp. skipn u6 q6. useb (sn_get_attributes n [] q6 ltac:(constructor)). intros attrs q7 Ha.
  destruct pat as [pat|]; [apply spec_ret; split; assumption | skipb; exact Logic.I].
Qed.

Lemma sn_get_entry n es p : spec (get_entry bs n es) p (fun e _ => ln_entry e) ET.
Proof.
  unfold get_entry. skipn cb q0. destruct cb as [b|]; [|apply sn_get_message].
  destruct (N.eqb b 35).
  - skipn cl q1. destruct cl as [c lvl]. destruct lvl; try (apply spec_ret; exact Logic.I). exact Logic.I.
  - destruct (N.eqb b 45); [apply sn_get_term | apply sn_get_message].
Qed.

Lemma sn_parse_loop n : forall body errors lc cnt p, Forall ln_entry body ->
  spec (parse_loop bs n body errors lc cnt) p (fun r _ => Forall ln_entry (fst r)) ET.
Proof.
  induction n as [|n IH]; intros body errors lc cnt p Hbody; [exact Logic.I|]. cbn [parse_loop].
  skipn p0 q0.
  destruct (negb (Nat.ltb p0 (length_ bs))).
  { apply spec_ret. cbn [fst]. apply Forall_rev. destruct lc; [constructor; [exact Logic.I | exact Hbody] | exact Hbody]. }
  eapply spec_bind; [apply spec_try, (sn_get_entry n p0 q0) | intros ? ? []|].
  intros r q1 Hr.
  set (rb := match lc with
             | Some c =>
                 match r with
                 | inr (Message _ _ _ _ as e) | inr (Term _ _ _ _ as e) =>
                     if Nat.ltb cnt 2 then (inr (attach e c), body) else (r, CommentEntry c :: body)
                 | _ => (r, CommentEntry c :: body)
                 end
             | None => (r, body)
             end).
  assert (Hrb : match fst rb with inr e => ln_entry e | inl _ => True end /\ Forall ln_entry (snd rb)).
  { unfold rb. destruct lc as [c|]; [|split; [exact Hr | exact Hbody]].
    assert (Hb' : Forall ln_entry (CommentEntry c :: body)) by (constructor; [exact Logic.I | exact Hbody]).
    destruct r as [e | e]; [split; [exact Logic.I | exact Hb']|].
    destruct e; try (split; [exact Hr | exact Hb']); destruct (Nat.ltb cnt 2); split; try exact Hr; try exact Hb'; try exact Hbody. }
  destruct rb as [r' body'] eqn:Erb. cbn [fst snd] in Hrb. destruct Hrb as [Hr' Hb'].
  eapply spec_bind with (Q1 := fun st _ => Forall ln_entry (fst (fst st))) (E1 := ET); [|intros; exact Logic.I|].
  - destruct r' as [err | e].
    + eapply spec_bind with (Q1 := fun ej _ => ln_entry (snd ej)) (E1 := ET); [|intros; exact Logic.I|].
      * unfold recover. skipn rew q2. skipn p2 q3. skipn content0 q4. apply spec_ret. exact Logic.I.
      * intros ej q2 Hej. apply spec_ret. cbn [fst]. constructor; [exact Hej | exact Hb'].
    + destruct e; try (apply spec_ret; cbn [fst]; constructor; [exact Hr' | exact Hb']).
      apply spec_ret. cbn [fst]. exact Hb'.
  - intros [[b1 e1] l1] q2 Hst. cbn [fst] in Hst. skipn c2 q3. apply IH. exact Hst.
Qed.

Theorem parse_m_lines n : spec (parse_m bs n) 0 (fun r _ => Forall ln_entry (fst r)) ET.
Proof. unfold parse_m. skipn u q. apply sn_parse_loop. constructor. Qed.

End Knot.

(* every pattern of a parser output, joined, satisfies the line rules of the grammar, if every CR of the source is
   followed by LF (CR LF line ends; a source without CR is the special case) *)
Theorem parse_lines_crlf bs t errs : no_lone_cr bs = true -> parse bs = Done (t, errs) -> Forall ln_entry t.
Proof.
  unfold parse. intros Hn H. pose proof (parse_m_lines bs Hn (fuel_for bs)) as Hs. unfold spec in Hs.
  destruct (parse_m bs (fuel_for bs) 0) as [[t' e'] q | e q | m |]; cbn [to_outcome] in H; try discriminate H.
  injection H as -> ->. exact Hs.
Qed.

Definition nocr (bs : bytes) : bool := forallb (fun b => negb (N.eqb b 13)) bs.

Theorem parse_lines bs t errs : nocr bs = true -> parse bs = Done (t, errs) -> Forall ln_entry t.
Proof. intros Hn. apply parse_lines_crlf, nocr_no_lone, Hn. Qed.

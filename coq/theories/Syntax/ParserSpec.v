(* Syntax/ParserSpec.v — proof infrastructure for ParserTotal.v (property C01).

   * byte-class and list-scanner facts (scan_while, blank_len, eol_len, blank_block, memchr3, ...)
   * char-boundary facts in the form the parser needs them (`bnd`, `asc`, `ascb`)
   * a Hoare-style predicate `spec` over the parser monad of ParserModel.v with its rules, and
     the specifications of all the non-recursive helper functions of the parser.

   Everything lives in a Section over a fixed valid UTF-8 input `bs` and a proposition `F` that
   says whether running out of fuel is acceptable (F := True gives "no panic at any fuel",
   F := False gives "terminates within the given fuel").                                        *)
From FluentV Require Import Base.Utf8 Base.Utf8Facts Syntax.ParserModel.
From Coq Require Import Lia ZifyBool ZifyNat ZifyN.
Arguments N.add : simpl never.
Arguments N.sub : simpl never.
Arguments N.eqb : simpl never.
Arguments N.ltb : simpl never.
Arguments N.leb : simpl never.

(* ------------------------------------------------------------------------------------------ *)
(* byte classes                                                                                *)

Ltac cls :=
  unfold is_ident_char, is_ascii_hexdigit, is_ascii_alphanumeric, is_ascii_alphabetic,
         is_ascii_digit, is_ascii_uppercase, is_space, matches_fluent_ws, c_lf, c_cr, c_sp in *; arith.

Lemma alpha_ascii b : is_ascii_alphabetic b = true -> is_ascii b = true.   Proof. cls. Qed.
Lemma digit_ascii b : is_ascii_digit b = true -> is_ascii b = true.        Proof. cls. Qed.
Lemma hex_ascii b : is_ascii_hexdigit b = true -> is_ascii b = true.       Proof. cls. Qed.
Lemma ident_ascii b : is_ident_char b = true -> is_ascii b = true.         Proof. cls. Qed.
Lemma space_ascii b : is_space b = true -> is_ascii b = true.              Proof. cls. Qed.
Lemma eqb_ascii b c : N.eqb b c = true -> (c < 128)%N -> is_ascii b = true. Proof. cls. Qed.
Lemma ascii_not_cont b : is_ascii b = true -> is_cont b = false.            Proof. cls. Qed.

(* ------------------------------------------------------------------------------------------ *)
(* lists and scanners                                                                          *)

Lemma nth_error_skipn_add {A} p (l : list A) i : nth_error (skipn p l) i = nth_error l (p + i).
Proof. revert l; induction p as [|p IH]; intros [|x l]; cbn; auto. destruct i; reflexivity. Qed.

Lemma skipn_cons_nth {A} p (l : list A) x : nth_error l p = Some x -> skipn p l = x :: skipn (S p) l.
Proof.
  revert l; induction p as [|p IH]; intros [|y l]; cbn; try discriminate.
  - intros [= ->]. reflexivity.
  - intros H. apply IH in H. exact H.
Qed.

Lemma skipn_add {A} a b (l : list A) : skipn a (skipn b l) = skipn (b + a) l.
Proof. revert l; induction b as [|b IH]; intros [|x l]; cbn; auto. destruct a; reflexivity. Qed.

Lemma skipn_nil_nth {A} p (l : list A) : nth_error l p = None -> skipn p l = [].
Proof. intros H. apply nth_error_None in H. apply skipn_all2. exact H. Qed.

(* the first k bytes of l exist and are ASCII *)
Definition pre_ascii (k : nat) (l : bytes) : Prop :=
  forall i, i < k -> exists x, nth_error l i = Some x /\ is_ascii x = true.

Lemma pre_ascii_0 l : pre_ascii 0 l.
Proof. intros i Hi. lia. Qed.

Lemma pre_ascii_S k x l : is_ascii x = true -> pre_ascii k l -> pre_ascii (S k) (x :: l).
Proof. intros Hx H [|i] Hi; cbn; [eauto | apply H; lia]. Qed.

Lemma pre_ascii_add a b l : pre_ascii a l -> pre_ascii b (skipn a l) -> pre_ascii (a + b) l.
Proof.
  intros Ha Hb i Hi. destruct (Nat.lt_ge_cases i a) as [Hlt | Hge]; [apply Ha, Hlt|].
  destruct (Hb (i - a) ltac:(lia)) as (x & Hx & Hax). rewrite nth_error_skipn_add in Hx.
  replace (a + (i - a)) with i in Hx by lia. eauto.
Qed.

Lemma pre_ascii_le a b l : pre_ascii b l -> a <= b -> pre_ascii a l.
Proof. intros H Hle i Hi. apply H. lia. Qed.

Lemma pre_ascii_length k l : pre_ascii k l -> k <= length l.
Proof.
  intros H. destruct k as [|k]; [lia|]. destruct (H k ltac:(lia)) as (x & Hx & _).
  assert (k < length l) by (apply nth_error_Some; congruence). lia.
Qed.

Lemma scan_while_pre f l : (forall b, f b = true -> is_ascii b = true) -> pre_ascii (scan_while f l) l.
Proof.
  intros Hf. induction l as [|b r IH]; cbn [scan_while]; [apply pre_ascii_0|].
  destruct (f b) eqn:E; [apply pre_ascii_S; auto | apply pre_ascii_0].
Qed.

Lemma scan_while_all f l i : i < scan_while f l -> exists x, nth_error l i = Some x /\ f x = true.
Proof.
  revert i; induction l as [|b r IH]; cbn [scan_while]; intros i Hi; [lia|].
  destruct (f b) eqn:E; [|lia]. destruct i as [|i]; cbn; [eauto | apply IH; lia].
Qed.

Lemma scan_while_le f l : scan_while f l <= length l.
Proof. induction l as [|b r IH]; cbn [scan_while length]; [lia|]. destruct (f b); lia. Qed.

Lemma scan_while_stop f l :
  scan_while f l = length l \/ exists b, nth_error l (scan_while f l) = Some b /\ f b = false.
Proof.
  induction l as [|b r IH]; cbn [scan_while length]; [auto|].
  destruct (f b) eqn:E; [|right; cbn; eauto].
  destruct IH as [IH | IH]; [left; lia | right; exact IH].
Qed.

Lemma eol_len_pre l : pre_ascii (eol_len l) l.
Proof.
  destruct l as [|b r]; cbn [eol_len]; [apply pre_ascii_0|].
  destruct (N.eqb b c_lf) eqn:E1.
  { apply pre_ascii_S; [cls | apply pre_ascii_0]. }
  destruct (N.eqb b c_cr) eqn:E2; [|apply pre_ascii_0].
  destruct r as [|b2 r2]; [apply pre_ascii_0|].
  destruct (N.eqb b2 c_lf) eqn:E3; [|apply pre_ascii_0].
  apply pre_ascii_S; [cls|]. apply pre_ascii_S; [cls | apply pre_ascii_0].
Qed.

(* the last byte of an end of line is the line feed *)
Lemma eol_len_lf l : 0 < eol_len l -> nth_error l (eol_len l - 1) = Some c_lf.
Proof.
  destruct l as [|b r]; cbn [eol_len]; [lia|].
  destruct (N.eqb b c_lf) eqn:E1.
  { intros _. cbn. f_equal. cls. }
  destruct (N.eqb b c_cr) eqn:E2; [|lia].
  destruct r as [|b2 r2]; [lia|].
  destruct (N.eqb b2 c_lf) eqn:E3; [|lia].
  intros _. cbn. f_equal. cls.
Qed.

Lemma blank_len_pre l : pre_ascii (blank_len l) l.
Proof.
  remember (length l) as n eqn:Hn. revert l Hn.
  induction n as [n IH] using lt_wf_ind. intros l Hn.
  destruct l as [|b r]; cbn [blank_len]; [apply pre_ascii_0|].
  destruct (N.eqb b c_sp || N.eqb b c_lf) eqn:E1.
  { apply pre_ascii_S; [cls|]. eapply IH; [|reflexivity]. subst n. cbn. lia. }
  destruct (N.eqb b c_cr) eqn:E2; [|apply pre_ascii_0].
  destruct r as [|b2 r2]; [apply pre_ascii_0|].
  destruct (N.eqb b2 c_lf) eqn:E3; [|apply pre_ascii_0].
  apply pre_ascii_S; [cls|]. apply pre_ascii_S; [cls|]. eapply IH; [|reflexivity]. subst n. cbn. lia.
Qed.

Lemma blank_block_pre k l c m : blank_block k l = (c, m) -> pre_ascii m l.
Proof.
  revert l c m; induction k as [|k IH]; intros l c m; cbn [blank_block].
  { intros [= <- <-]. apply pre_ascii_0. }
  cbv zeta.
  pose proof (scan_while_pre is_space l space_ascii) as Hs.
  pose proof (eol_len_pre (skipn (scan_while is_space l) l)) as He.
  destruct (eol_len (skipn (scan_while is_space l) l)) as [|e] eqn:Ee.
  { intros [= <- <-]. apply pre_ascii_0. }
  destruct (blank_block k (skipn (S e) (skipn (scan_while is_space l) l))) as [c' m'] eqn:Eb.
  intros [= <- <-]. apply IH in Eb.
  apply pre_ascii_add; [apply pre_ascii_add; assumption|].
  rewrite skipn_add in Eb. exact Eb.
Qed.

Lemma memchr3_some l i : memchr3 l = Some i ->
  exists b, nth_error l i = Some b /\ (N.eqb b c_lf || N.eqb b 123 || N.eqb b 125) = true.
Proof.
  revert i; induction l as [|b r IH]; cbn [memchr3]; intros i; [discriminate|].
  destruct (N.eqb b c_lf || N.eqb b 123 || N.eqb b 125) eqn:E.
  - intros [= <-]. cbn. eauto.
  - destruct (memchr3 r) as [j|]; cbn; [|discriminate]. intros [= <-]. cbn. apply IH. reflexivity.
Qed.

Lemma rposition_lf_some l : forall i acc r, rposition_lf l i acc = Some r ->
  acc = Some r \/ (i <= r < i + length l /\ nth_error l (r - i) = Some c_lf).
Proof.
  induction l as [|b t IH]; cbn [rposition_lf length]; intros i acc r H; [auto|].
  apply IH in H. destruct H as [H | [H1 H2]].
  - destruct (N.eqb b c_lf) eqn:E; [|auto]. injection H as <-. right. split; [lia|].
    rewrite Nat.sub_diag. cbn. f_equal. cls.
  - right. split; [lia|]. replace (r - i) with (S (r - S i)) by lia. exact H2.
Qed.

(* ------------------------------------------------------------------------------------------ *)
(* results and the Hoare predicate                                                             *)

Section Spec.
Variable bs : bytes.
Variable F : Prop.

Definition sres {A} (r : res A) (Q : A -> nat -> Prop) (E : perror -> nat -> Prop) : Prop :=
  match r with Ok a q => Q a q | Err e q => E e q | Pan _ => False | Fuel => F end.
Definition spec {A} (m : M A) (p : nat) (Q : A -> nat -> Prop) (E : perror -> nat -> Prop) : Prop :=
  sres (m p) Q E.

Definition fuel_ok (k n : nat) : Prop := F \/ k <= n.

Lemma fuel_ok_le k k' n : fuel_ok k n -> k' <= k -> fuel_ok k' n.
Proof. intros [H | H] Hk; [left; exact H | right; lia]. Qed.
Lemma fuel_ok_step k k' n : fuel_ok k (S n) -> S k' <= k -> fuel_ok k' n.
Proof. intros [H | H] Hk; [left; exact H | right; lia]. Qed.
Lemma fuel_ok_0 k : fuel_ok (S k) 0 -> F.
Proof. intros [H | H]; [exact H | lia]. Qed.

Lemma spec_fuel0 {A} k (Q : A -> nat -> Prop) E p : fuel_ok (S k) 0 -> spec out_of_fuel p Q E.
Proof. apply fuel_ok_0. Qed.

Lemma spec_conseq {A} (m : M A) p (Q Q' : A -> nat -> Prop) (E E' : perror -> nat -> Prop) :
  spec m p Q' E' -> (forall a q, Q' a q -> Q a q) -> (forall e q, E' e q -> E e q) -> spec m p Q E.
Proof. unfold spec, sres. destruct (m p); auto. Qed.

Lemma spec_bind {A B} (m : M A) (f : A -> M B) p Q' Q E :
  spec m p Q' E -> (forall a q, Q' a q -> spec (f a) q Q E) -> spec (bind m f) p Q E.
Proof. unfold spec, sres, bind. destruct (m p); intros H1 H2; try assumption. exact (H2 _ _ H1). Qed.

Lemma spec_bind_w {A B} (m : M A) (f : A -> M B) p Q' E' Q E :
  spec m p Q' E' -> (forall a q, Q' a q -> spec (f a) q Q E) -> (forall e q, E' e q -> E e q) ->
  spec (bind m f) p Q E.
Proof.
  unfold spec, sres, bind. destruct (m p); intros H1 H2 H3; try assumption;
    [exact (H2 _ _ H1) | exact (H3 _ _ H1)].
Qed.

Lemma spec_bind_assoc {A B C} (m : M A) (g : A -> M B) (f : B -> M C) p Q E :
  spec (bind m (fun x => bind (g x) f)) p Q E -> spec (bind (bind m g) f) p Q E.
Proof. unfold spec, sres, bind. destruct (m p); auto. Qed.

Lemma spec_ret {A} (a : A) p (Q : A -> nat -> Prop) E : Q a p -> spec (ret a) p Q E.
Proof. exact id. Qed.
Lemma spec_error_here {A} k p (Q : A -> nat -> Prop) (E : perror -> nat -> Prop) :
  E (PError k p (S p) None) p -> spec (error_here k) p Q E.
Proof. exact id. Qed.
Lemma spec_error_range {A} k s e p (Q : A -> nat -> Prop) (E : perror -> nat -> Prop) :
  E (PError k s e None) p -> spec (error_range k s e) p Q E.
Proof. exact id. Qed.
Lemma spec_err {A} e p (Q : A -> nat -> Prop) (E : perror -> nat -> Prop) :
  E e p -> spec (fun q => Err e q) p Q E.
Proof. exact id. Qed.

(* deterministic primitives in front of a bind *)
Lemma spec_bind_ret {A B} (a : A) (f : A -> M B) p Q E : spec (f a) p Q E -> spec (bind (ret a) f) p Q E.
Proof. exact id. Qed.
Lemma spec_bind_get_ptr {B} (f : nat -> M B) p Q E : spec (f p) p Q E -> spec (bind get_ptr f) p Q E.
Proof. exact id. Qed.
Lemma spec_bind_set_ptr {B} q (f : unit -> M B) p Q E : spec (f tt) q Q E -> spec (bind (set_ptr q) f) p Q E.
Proof. exact id. Qed.
Lemma spec_bind_advance {B} k (f : unit -> M B) p Q E : spec (f tt) (k + p) Q E -> spec (bind (advance k) f) p Q E.
Proof. exact id. Qed.
Lemma spec_bind_retreat {B} k (f : unit -> M B) p Q E :
  k <= p -> spec (f tt) (p - k) Q E -> spec (bind (retreat k) f) p Q E.
Proof.
  intros Hk H. unfold spec, bind, retreat. apply Nat.leb_le in Hk. rewrite Hk. exact H.
Qed.
Lemma spec_bind_current_byte {B} (f : option N -> M B) p Q E :
  spec (f (byte_at bs p)) p Q E -> spec (bind (current_byte bs) f) p Q E.
Proof. exact id. Qed.
Lemma spec_bind_is_current_byte {B} b (f : bool -> M B) p Q E :
  spec (f (is_byte_at bs b p)) p Q E -> spec (bind (is_current_byte bs b) f) p Q E.
Proof. exact id. Qed.
Lemma spec_bind_is_identifier_start {B} (f : bool -> M B) p Q E :
  spec (f (match byte_at bs p with Some b => is_ascii_alphabetic b | None => false end)) p Q E ->
  spec (bind (is_identifier_start bs) f) p Q E.
Proof. exact id. Qed.
Lemma spec_bind_is_number_start {B} (f : bool -> M B) p Q E :
  spec (f (match byte_at bs p with Some b => is_ascii_digit b || N.eqb b 45 | None => false end)) p Q E ->
  spec (bind (is_number_start bs) f) p Q E.
Proof. exact id. Qed.
Lemma spec_bind_try {A B} (m : M A) (f : perror + A -> M B) p Q' E' Q E :
  spec m p Q' E' -> (forall a q, Q' a q -> spec (f (inr a)) q Q E) ->
  (forall e q, E' e q -> spec (f (inl e)) q Q E) -> spec (bind (try_ m) f) p Q E.
Proof.
  unfold spec, sres, bind, try_. destruct (m p); intros H1 H2 H3; try assumption;
    [exact (H2 _ _ H1) | exact (H3 _ _ H1)].
Qed.

(* ------------------------------------------------------------------------------------------ *)
(* char boundaries                                                                             *)

Notation len := (length bs).

Definition bnd (p : nat) : Prop := p <= len /\ is_char_boundary bs p = true.
(* an ASCII byte sits at position p *)
Definition ascb (p : nat) : Prop := exists b, nth_error bs p = Some b /\ is_ascii b = true.
(* all bytes in [a, b) are ASCII *)
Definition asc (a b : nat) : Prop := a <= b /\ forall i, a <= i < b -> ascb i.
(* where a scan over arbitrary bytes may stop: end of input or an ASCII byte *)
Definition stop (q : nat) : Prop := q = len \/ ascb q.

Lemma bnd_le p : bnd p -> p <= len.
Proof. intros [H _]; exact H. Qed.

Lemma bnd_0 : bnd 0.
Proof. split; [lia | reflexivity]. Qed.

Lemma bnd_len : bnd len.
Proof.
  split; [lia|]. unfold is_char_boundary. destruct (Nat.eqb len 0); [reflexivity|].
  rewrite Nat.compare_refl. reflexivity.
Qed.

Lemma ascb_lt p : ascb p -> p < len.
Proof. intros (b & Hb & _). apply nth_error_Some. congruence. Qed.

Lemma ascb_bnd p : ascb p -> bnd p.
Proof.
  intros H. pose proof (ascb_lt p H). destruct H as (b & Hb & Ha).
  split; [lia | eapply ascii_at_boundary; eassumption].
Qed.

Lemma stop_bnd q : stop q -> bnd q.
Proof. intros [-> | H]; [apply bnd_len | apply ascb_bnd, H]. Qed.

Lemma stop_le q : stop q -> q <= len.
Proof. intros H. apply bnd_le, stop_bnd, H. Qed.

Lemma bnd_noncont p b : nth_error bs p = Some b -> is_cont b = false -> bnd p.
Proof.
  intros Hb Hc. assert (Hlt : p < len) by (apply nth_error_Some; congruence).
  split; [lia|]. unfold is_char_boundary. destruct (Nat.eqb p 0); [reflexivity|].
  apply Nat.compare_lt_iff in Hlt. rewrite Hlt, Hb, Hc. reflexivity.
Qed.

Lemma asc_refl a : asc a a.
Proof. split; [lia | intros i Hi; lia]. Qed.

Lemma asc_le a b : asc a b -> a <= b.
Proof. intros [H _]; exact H. Qed.

Lemma asc_trans a b c : asc a b -> asc b c -> asc a c.
Proof.
  intros [H1 H2] [H3 H4]. split; [lia|]. intros i Hi.
  destruct (Nat.lt_ge_cases i b); [apply H2 | apply H4]; lia.
Qed.

Lemma asc_sub a b c : asc a b -> a <= c <= b -> asc a c.
Proof. intros [H1 H2] Hc. split; [lia|]. intros i Hi. apply H2. lia. Qed.

Lemma asc_step a : ascb a -> asc a (S a).
Proof. intros H. split; [lia|]. intros i Hi. replace i with a by lia. exact H. Qed.

Lemma pre_ascii_asc p k : pre_ascii k (skipn p bs) -> asc p (k + p).
Proof.
  intros H. split; [lia|]. intros i Hi. destruct (H (i - p) ltac:(lia)) as (x & Hx & Ha).
  rewrite nth_error_skipn_add in Hx. replace (p + (i - p)) with i in Hx by lia. exists x. auto.
Qed.

Lemma is_byte_at_nth b p : is_byte_at bs b p = true -> nth_error bs p = Some b.
Proof.
  unfold is_byte_at, byte_at. destruct (nth_error bs p) as [x|]; [|discriminate].
  intros H. apply N.eqb_eq in H. congruence.
Qed.

Lemma is_byte_at_ascb b p : is_byte_at bs b p = true -> (b < 128)%N -> ascb p.
Proof. intros H Hb. exists b. split; [apply is_byte_at_nth, H | cls]. Qed.

Lemma slice_ok a b : a <= b -> bnd a -> bnd b -> slice bs a b = Done (firstn (b - a) (skipn a bs)).
Proof.
  intros Hab [_ Ha] [Hb Hb']. unfold slice. rewrite Ha, Hb'.
  apply Nat.leb_le in Hab, Hb. rewrite Hab, Hb. reflexivity.
Qed.

Lemma spec_source_slice a b p (Q : bytes -> nat -> Prop) E :
  a <= b -> bnd a -> bnd b -> (forall s, Q s p) -> spec (source_slice bs a b) p Q E.
Proof.
  intros Hab Ha Hb HQ. unfold spec, source_slice, lift_outcome. rewrite slice_ok by assumption. apply HQ.
Qed.

Lemma spec_bind_source_slice {B} a b (f : bytes -> M B) p Q E :
  a <= b -> bnd a -> bnd b -> (forall s, spec (f s) p Q E) -> spec (bind (source_slice bs a b) f) p Q E.
Proof.
  intros Hab Ha Hb H. unfold spec, bind, source_slice, lift_outcome. rewrite slice_ok by assumption. apply H.
Qed.

End Spec.

(* the two facts that need validity of the input *)
Section Valid.
Variable bs : bytes.
Hypothesis Hvalid : utf8_valid bs = true.
Notation len := (length bs).
Local Notation bnd := (bnd bs).
Local Notation ascb := (ascb bs).
Local Notation asc := (asc bs).

Lemma ascb_bnd_S p : ascb p -> bnd (S p).
Proof.
  intros H. pose proof (ascb_lt bs p H). destruct H as (b & Hb & Ha).
  split; [lia | eapply ascii_followed_by_boundary; eassumption].
Qed.

Lemma asc_bnd a b : bnd a -> asc a b -> bnd b.
Proof.
  intros Ha [Hle H]. destruct (Nat.eq_dec a b) as [<- | Hne]; [exact Ha|].
  destruct b as [|b]; [lia|]. apply ascb_bnd_S, H. lia.
Qed.

End Valid.

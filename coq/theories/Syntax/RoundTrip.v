(* Syntax/RoundTrip.v — property C02 on a fragment: parse (render cs t) = Done (t, []).

   Structure
     1. the fragment `simple_resource`: stand-alone comments; messages and terms whose value and attribute
        values are one-line patterns of text and simple placeables (see Props/C02.v for the exact wording)
     2. LAYOUTS: an inductive description of every text `render` can print for a tree of the fragment
        (more generous than render: any number of spaces / blank lines, any blank inside braces), and the
        proof that `render cs t` is one of them (render_layout)
     3. the parser on a layout, bottom-up, with explicit fuel bounds: the run of blank lines after a pattern
        line (blank_region), the steps of the pattern loop over text and placeables (step_xxx), the loop over
        a line and finish_pattern (elements_loop, line_inline, line_block), get_pattern (get_pattern_value),
        attributes (get_attributes_at), messages and terms, the comment loop (comment_loop_lines,
        comment_entry_step), one entry and the blank lines after it (entry_step), the main loop with its
        pending comment (parse_loop_entries)
     4. parse_layout, parse_render_simple
     5. the fragment lies inside wf_resource; join_entry is the identity on it                          *)
From FluentV Require Import Base.Bytes Base.Outcome Base.Utf8 Base.Utf8Facts.
From FluentV Require Import Syntax.Ast Syntax.ParserModel Syntax.Render Syntax.TreeNorm Syntax.ParseLemmas.
From Coq Require Import Lia ZifyBool ZifyNat ZifyN.

Arguments N.add : simpl never.
Arguments N.sub : simpl never.
Arguments N.eqb : simpl never.
Arguments N.ltb : simpl never.
Arguments N.leb : simpl never.

(* ---------------------------------------------------------------------------------------------- *)
(* 1. The fragment                                                                                  *)

(* a stretch of pattern text inside one line: not empty; no '{' '}' CR LF; its first byte starts a character
   (true of every Rust str) *)
Definition inner_text (v : bytes) : bool :=
  match v with
  | [] => false
  | b :: _ => negb (is_cont b) && forallb wf_text_byte v
  end.

(* the elements of a one-line pattern: text and placeables with a simple inline expression (a reference
   without call arguments or a literal: ParseLemmas.simple_inline); no two text elements in a row *)
Fixpoint simple_elements (l : list pattern_element) (prev_text : bool) : bool :=
  match l with
  | [] => true
  | TextElement v :: r => negb prev_text && inner_text v && simple_elements r true
  | PlaceableElement (Inline i) :: r => simple_inline i && simple_elements r false
  | PlaceableElement (Select _ _) :: _ => false
  end.

(* no space at the start and at the end of the line *)
Definition first_ok (els : list pattern_element) : bool :=
  match els with TextElement (b :: _) :: _ => negb (N.eqb b 32) | _ => true end.
Definition last_ok (els : list pattern_element) : bool :=
  match rev els with TextElement v :: _ => negb (N.eqb (last v 0%N) 32) | _ => true end.

Definition simple_pattern (p : pattern) : bool :=
  match p with
  | Pattern els =>
      negb (match els with [] => true | _ => false end) && simple_elements els false && first_ok els && last_ok els
  end.

Definition simple_attribute (a : attribute) : bool :=
  wf_identifier (attr_id a) && simple_pattern (attr_value a).

(* a comment line: no CR LF; its first byte starts a character *)
Definition simple_comment_line (l : bytes) : bool := wf_comment_line l && starts_char l.

(* a comment: at least one line; the last line contains a byte other than a space (D7: an empty last line is
   lost at the end of the input; the serializer writes a whitespace-only line as an empty one) *)
Definition simple_comment (c : comment) : bool :=
  match content c with
  | [] => false
  | ls => forallb simple_comment_line ls && existsb (fun b => negb (N.eqb b 32)) (last ls [])
  end.

(* the same without the condition on the last line (used by the generic development EntryLoop.v, where the
   position of the comment decides whether an empty last line is lost) *)
Definition wide_comment (c : comment) : bool :=
  match content c with
  | [] => false
  | ls => forallb simple_comment_line ls
  end.

Definition plain_entry (e : entry) : bool :=
  match e with
  | CommentEntry c | GroupComment c | ResourceComment c => simple_comment c
  | Message id (Some p) attrs None =>
      wf_identifier id && simple_pattern p && forallb simple_attribute attrs
  | Message id None attrs None =>
      wf_identifier id && negb (match attrs with [] => true | _ => false end) && forallb simple_attribute attrs
  | Term id p attrs None => wf_identifier id && simple_pattern p && forallb simple_attribute attrs
  | _ => false
  end.

(* an entry with or without an attached comment *)
Definition entry_comment (e : entry) : option comment :=
  match e with Message _ _ _ c | Term _ _ _ c => c | _ => None end.
Definition strip_comment (e : entry) : entry :=
  match e with
  | Message id v a _ => Message id v a None
  | Term id v a _ => Term id v a None
  | _ => e
  end.
Definition simple_entry (e : entry) : bool :=
  plain_entry (strip_comment e) && match entry_comment e with Some c => simple_comment c | None => true end.

Definition simple_resource (t : resource) : bool := forallb simple_entry t.

(* ---------------------------------------------------------------------------------------------- *)
(* 2. Layouts                                                                                       *)

(* one line of pattern: text as it is; a placeable as "{" blank inline blank "}" *)
Inductive line_layout : list pattern_element -> bytes -> Prop :=
| ll_nil : line_layout [] []
| ll_text v r L : line_layout r L -> line_layout (TextElement v :: r) (v ++ L)
| ll_placeable i b1 b2 r L :
    all_blank b1 -> all_blank b2 -> line_layout r L ->
    line_layout (PlaceableElement (Inline i) :: r) (123%N :: b1 ++ inline_text i ++ b2 ++ 125%N :: L).

(* a value after "=": spaces and the line; or a line end, blank lines, an indentation and the line *)
Inductive value_layout (els : list pattern_element) : bytes -> Prop :=
| vl_inline k L : line_layout els L -> value_layout els (sp k ++ L)
| vl_block k x c BL ind L :
    first_byte_ok_for_block (Pattern els) = true ->
    is_eol_bytes x -> blank_lines_of c BL -> 1 <= ind -> line_layout els L ->
    value_layout els (sp k ++ x ++ BL ++ sp ind ++ L).

(* an attribute: line end, 1 or more spaces, ".id", spaces, "=", value *)
Inductive attr_layout : attribute -> bytes -> Prop :=
| atl aid els x k k1 V :
    is_eol_bytes x -> value_layout els V ->
    attr_layout (Attribute aid (Pattern els)) (x ++ sp (S k) ++ 46%N :: aid ++ sp k1 ++ 61%N :: V).

Inductive attrs_layout : list attribute -> bytes -> Prop :=
| al_nil : attrs_layout [] []
| al_cons a r L A : attr_layout a L -> attrs_layout r A -> attrs_layout (a :: r) (L ++ A).

(* a comment: per line the prefix and, unless the line is empty, a space and the line; line ends between *)
Definition sl (l : bytes) : bytes := match l with [] => [] | _ => 32%N :: l end.
Inductive comment_layout (P : bytes) : list bytes -> bytes -> Prop :=
| cl_one l : comment_layout P [l] (P ++ sl l)
| cl_more l x r C : is_eol_bytes x -> r <> [] -> comment_layout P r C -> comment_layout P (l :: r) (P ++ sl l ++ x ++ C).

Inductive plain_layout : entry -> bytes -> Prop :=
| el_comment ls C : comment_layout [35%N] ls C -> plain_layout (CommentEntry (Comment ls)) C
| el_gcomment ls C : comment_layout [35; 35]%N ls C -> plain_layout (GroupComment (Comment ls)) C
| el_rcomment ls C : comment_layout [35; 35; 35]%N ls C -> plain_layout (ResourceComment (Comment ls)) C
| el_message id els attrs k V A :
    value_layout els V -> attrs_layout attrs A ->
    plain_layout (Message id (Some (Pattern els)) attrs None) (id ++ sp k ++ 61%N :: V ++ A)
| el_message_novalue id attrs k A :
    attrs <> [] -> attrs_layout attrs A ->
    plain_layout (Message id None attrs None) (id ++ sp k ++ 61%N :: A)
| el_term id els attrs k V A :
    value_layout els V -> attrs_layout attrs A ->
    plain_layout (Term id (Pattern els) attrs None) (45%N :: id ++ sp k ++ 61%N :: V ++ A).

(* an entry: as above, or its comment, one line end, and the entry *)
Inductive entry_layout : entry -> bytes -> Prop :=
| el_plain e E : entry_comment e = None -> plain_layout e E -> entry_layout e E
| el_attached e ls C x E :
    is_message_or_term e = true -> entry_comment e = None ->
    comment_layout [35%N] ls C -> is_eol_bytes x -> plain_layout e E ->
    entry_layout (attach e (Comment ls)) (C ++ x ++ E).

(* what follows an entry: nothing, or a line end, blank lines and the remaining entries *)
Inductive entries_layout : list entry -> bytes -> Prop :=
| esl_nil : entries_layout [] []
| esl_cons e r E T : entry_layout e E -> tail_layout e r T -> entries_layout (e :: r) (E ++ T)
with tail_layout : entry -> list entry -> bytes -> Prop :=
| tl_eof e : tail_layout e [] []
| tl_more e r x c BL S :
    is_eol_bytes x -> blank_lines_of c BL -> entries_layout r S ->
    match r with e2 :: _ => min_blank_between e e2 <= c | [] => True end ->
    tail_layout e r (x ++ BL ++ S).

Inductive resource_layout : list entry -> bytes -> Prop :=
| rl c BL t S : blank_lines_of c BL -> entries_layout t S -> resource_layout t (BL ++ S).

(* ---- render prints a layout ---- *)
Lemma rbind_eq {A B} (m : R A) (f : A -> R B) cs a cs' : m cs = (a, cs') -> rbind m f cs = f a cs'.
Proof. intros H. unfold rbind. rewrite H. reflexivity. Qed.

Lemma rbind_rret {A B} (a : A) (f : A -> R B) cs : rbind (rret a) f cs = f a cs.
Proof. reflexivity. Qed.

Lemma blank_inline_opt_spec cs : exists n cs', blank_inline_opt cs = (sp n, cs').
Proof.
  unfold blank_inline_opt, rbind, rret. destruct (choose 3 cs) as [n cs']. exists n, cs'. reflexivity.
Qed.

Lemma eol_spec' cs : exists x cs', eol cs = (x, cs') /\ is_eol_bytes x.
Proof.
  pose proof (eol_spec cs) as H. destruct (eol cs) as [x cs']. exists x, cs'. split; [reflexivity | exact H].
Qed.

Lemma blank_lines_spec n : forall cs, exists BL cs', blank_lines n cs = (BL, cs') /\ blank_lines_of n BL.
Proof.
  induction n as [|n IH]; intros cs.
  - exists [], cs. split; [reflexivity | constructor].
  - cbn [blank_lines]. unfold rbind at 1. destruct (choose 3 cs) as [s cs1].
    destruct (eol_spec' cs1) as [x [cs2 [Ex Hx]]]. rewrite (rbind_eq _ _ _ _ _ Ex).
    destruct (IH cs2) as [BL [cs3 [EB HB]]]. rewrite (rbind_eq _ _ _ _ _ EB).
    exists (sp s ++ x ++ BL), cs3. split; [reflexivity | constructor; assumption].
Qed.

Lemma blank_lines_of_app c1 B1 c2 B2 :
  blank_lines_of c1 B1 -> blank_lines_of c2 B2 -> blank_lines_of (c1 + c2) (B1 ++ B2).
Proof.
  induction 1 as [|s e c r He Hr IH]; intros H2; [exact H2|].
  cbn [Nat.add]. rewrite <- !app_assoc. constructor; [exact He | apply IH, H2].
Qed.

Lemma no_lf_lines_of v cur : existsb (N.eqb 10) v = false -> split_lines v cur = [rev cur ++ v].
Proof.
  revert cur. induction v as [|b r IH]; intros cur H.
  - cbn. rewrite app_nil_r. reflexivity.
  - cbn [existsb] in H. apply orb_false_elim in H as [Hb Hr]. cbn [split_lines].
    rewrite N.eqb_sym in Hb. rewrite Hb, (IH _ Hr). cbn [rev]. rewrite <- app_assoc. reflexivity.
Qed.

Lemma inner_text_spec v : inner_text v = true ->
  exists b r, v = b :: r /\ is_cont b = false /\ text_line v.
Proof.
  destruct v as [|b r]; [discriminate|]. cbn [inner_text]. intros H. apply andb_prop in H as [H1 H2].
  exists b, r. split; [reflexivity|]. split; [apply negb_true_iff, H1 | exact H2].
Qed.

Lemma text_line_no_lf v : text_line v -> existsb (N.eqb 10) v = false.
Proof.
  unfold text_line. induction v as [|b r IH]; intros H; [reflexivity|].
  cbn [forallb] in H. apply andb_prop in H as [Hb Hr].
  apply wf_text_byte_spec in Hb as (_ & _ & _ & H10).
  cbn [existsb]. rewrite N.eqb_sym, H10. apply IH, Hr.
Qed.

Lemma render_text_line base continues v cs : text_line v -> render_text base continues v cs = (v, cs).
Proof.
  intros Hv. unfold render_text, lines_of.
  rewrite (no_lf_lines_of v [] (text_line_no_lf v Hv)). cbn [rev app render_text_lines].
  unfold rbind, rret. rewrite app_nil_r. reflexivity.
Qed.

Lemma render_inline_simple i cs : simple_inline i = true -> render_inline i cs = (inline_text i, cs).
Proof.
  destruct i as [s | v | id args | id att | id att args | id | e]; cbn [simple_inline]; intros Hi; try discriminate Hi;
    cbn [render_inline inline_text].
  - unfold rret, cat. cbn [concat app]. rewrite ?app_nil_r. reflexivity.
  - reflexivity.
  - reflexivity.
  - destruct att; [discriminate|]. destruct args; [discriminate|].
    rewrite rbind_rret. unfold rret. rewrite !app_nil_r. reflexivity.
  - reflexivity.
Qed.

(* render_pattern_inline as a function of the element list *)
Section RenderEls.
Variable base : nat.
Fixpoint render_els (l : list pattern_element) : R bytes :=
  match l with
  | [] => rret []
  | TextElement v :: r =>
      a <~ render_text base (match r with [] => false | _ => true end) v ;; b <~ render_els r ;; rret (a ++ b)
  | PlaceableElement e :: r =>
      b1 <~ blank_opt ;; s <~ render_expr base e ;; b2 <~ blank_opt ;;
      rest <~ render_els r ;;
      rret (cat [[123%N]; b1; s; b2; [125%N]; rest])
  end.
End RenderEls.

Lemma render_pattern_inline_els base els : render_pattern_inline base (Pattern els) = render_els base els.
Proof. reflexivity. Qed.

Lemma blank_opt_spec cs : exists b cs', blank_opt cs = (b, cs') /\ all_blank b.
Proof.
  pose proof (all_blank_blank_opt cs) as H. destruct (blank_opt cs) as [b cs']. exists b, cs'. split; [reflexivity | exact H].
Qed.

Lemma render_els_layout base els : forall prev cs, simple_elements els prev = true ->
  exists L cs', render_els base els cs = (L, cs') /\ line_layout els L.
Proof.
  induction els as [|el r IH]; intros prev cs Hs.
  - exists [], cs. split; [reflexivity | constructor].
  - destruct el as [v | [sel vs | i]]; cbn [simple_elements] in Hs; try discriminate Hs.
    + apply andb_prop in Hs as [Hs Hr]. apply andb_prop in Hs as [_ Hv].
      destruct (inner_text_spec v Hv) as (b & t & _ & _ & Hline).
      cbn [render_els]. rewrite (rbind_eq _ _ _ _ _ (render_text_line base _ v cs Hline)).
      destruct (IH true cs Hr) as [L [cs1 [E1 HL]]]. rewrite (rbind_eq _ _ _ _ _ E1).
      exists (v ++ L), cs1. split; [reflexivity | constructor; exact HL].
    + apply andb_prop in Hs as [Hi Hr].
      cbn [render_els render_expr].
      destruct (blank_opt_spec cs) as [b1 [cs1 [E1 Hb1]]]. rewrite (rbind_eq _ _ _ _ _ E1).
      rewrite (rbind_eq _ _ _ _ _ (render_inline_simple i cs1 Hi)).
      destruct (blank_opt_spec cs1) as [b2 [cs2 [E2 Hb2]]]. rewrite (rbind_eq _ _ _ _ _ E2).
      destruct (IH false cs2 Hr) as [L [cs3 [E3 HL]]]. rewrite (rbind_eq _ _ _ _ _ E3).
      eexists. exists cs3. split; [reflexivity|].
      unfold cat. cbn [concat app]. rewrite app_nil_r. constructor; assumption.
Qed.

Lemma render_value_layout ind els cs : simple_elements els false = true -> 1 <= ind ->
  exists V cs', render_value ind (Pattern els) cs = (V, cs') /\ value_layout els V.
Proof.
  intros Hv Hind. unfold render_value, render_value_with. unfold rbind at 1. destruct (choose 3 cs) as [block cs1].
  destruct ((Nat.eqb block 2 || needs_block (Pattern els)) && first_byte_ok_for_block (Pattern els)) eqn:Eb.
  - apply andb_prop in Eb as [_ Hok].
    destruct (blank_inline_opt_spec cs1) as [k [cs2 E2]]. rewrite (rbind_eq _ _ _ _ _ E2).
    destruct (eol_spec' cs2) as [x [cs3 [E3 Hx]]]. rewrite (rbind_eq _ _ _ _ _ E3).
    unfold rbind at 1. destruct (choose 2 cs3) as [blanks cs4].
    assert (Hb : exists c BL cs5,
               (if Nat.eqb blanks 1 then x0 <~ eol ;; rret (sp 2 ++ x0) else rret []) cs4 = (BL, cs5) /\
               blank_lines_of c BL).
    { destruct (Nat.eqb blanks 1).
      - destruct (eol_spec' cs4) as [y [cs5 [E5 Hy]]]. rewrite (rbind_eq _ _ _ _ _ E5).
        exists 1, (sp 2 ++ y), cs5. split; [reflexivity|].
        replace (sp 2 ++ y) with (sp 2 ++ y ++ []) by (rewrite app_nil_r; reflexivity).
        constructor; [exact Hy | constructor].
      - exists 0, [], cs4. split; [reflexivity | constructor]. }
    destruct Hb as [c [BL [cs5 [E5 HBL]]]]. rewrite (rbind_eq _ _ _ _ _ E5).
    unfold rbind at 1. destruct (choose 3 cs5) as [extra cs6].
    rewrite render_pattern_inline_els.
    destruct (render_els_layout (ind + extra) els false cs6 Hv) as [L [cs7 [E7 HL]]]. rewrite (rbind_eq _ _ _ _ _ E7).
    eexists. exists cs7. split; [reflexivity|].
    unfold cat. cbn [concat]. rewrite app_nil_r.
    apply (vl_block els k x c BL); try assumption. lia.
  - destruct (blank_inline_opt_spec cs1) as [k [cs2 E2]]. rewrite (rbind_eq _ _ _ _ _ E2).
    unfold rbind at 1. destruct (choose 3 cs2) as [extra cs3].
    rewrite render_pattern_inline_els.
    destruct (render_els_layout (ind + extra) els false cs3 Hv) as [L [cs4 [E4 HL]]]. rewrite (rbind_eq _ _ _ _ _ E4).
    eexists. exists cs4. split; [reflexivity | apply vl_inline, HL].
Qed.

Lemma simple_pattern_spec p : simple_pattern p = true ->
  exists els, p = Pattern els /\ simple_pattern (Pattern els) = true.
Proof. destruct p as [els]. intros H. exists els. split; [reflexivity | exact H]. Qed.

Lemma simple_pattern_parts els : simple_pattern (Pattern els) = true ->
  els <> [] /\ simple_elements els false = true /\ first_ok els = true /\ last_ok els = true.
Proof.
  cbn [simple_pattern]. intros H. apply andb_prop in H as [H H4]. apply andb_prop in H as [H H3].
  apply andb_prop in H as [H1 H2]. repeat split; try assumption. destruct els; [discriminate H1 | discriminate].
Qed.

Lemma simple_pattern_elements els : simple_pattern (Pattern els) = true -> simple_elements els false = true.
Proof. intros H. apply (simple_pattern_parts els H). Qed.

Lemma simple_attribute_spec a : simple_attribute a = true ->
  exists aid els, a = Attribute aid (Pattern els) /\ wf_identifier aid = true /\ simple_pattern (Pattern els) = true.
Proof.
  destruct a as [aid p]. unfold simple_attribute. cbn [attr_id attr_value]. intros H.
  apply andb_prop in H as [Hid Hp]. destruct (simple_pattern_spec p Hp) as [els [-> Hv]].
  exists aid, els. auto.
Qed.

Lemma render_attributes_layout attrs : forall cs, forallb simple_attribute attrs = true ->
  exists A cs', render_attributes attrs cs = (A, cs') /\ attrs_layout attrs A.
Proof.
  induction attrs as [|a r IH]; intros cs Ha.
  - exists [], cs. split; [reflexivity | constructor].
  - cbn [forallb] in Ha. apply andb_prop in Ha as [Ha Hr].
    destruct (simple_attribute_spec a Ha) as (aid & els & -> & Hid & Hv).
    cbn [render_attributes]. unfold render_attribute. cbn [attr_id attr_value].
    rewrite (rbind_eq _ _ cs
               (let '(x, cs1) := eol cs in let '(k, cs2) := choose 3 cs1 in
                let '(b1, cs3) := blank_inline_opt cs2 in let '(V, cs4) := render_value 8 (Pattern els) cs3 in
                cat [x; sp (S k); [46%N]; aid; b1; [61%N]; V])
               (let '(x, cs1) := eol cs in let '(k, cs2) := choose 3 cs1 in
                let '(b1, cs3) := blank_inline_opt cs2 in let '(V, cs4) := render_value 8 (Pattern els) cs3 in
                cs4)).
    2:{ unfold rbind. destruct (eol cs) as [x cs1]. destruct (choose 3 cs1) as [k cs2].
        destruct (blank_inline_opt cs2) as [b1 cs3]. destruct (render_value 8 (Pattern els) cs3) as [V cs4].
        reflexivity. }
    destruct (eol_spec' cs) as [x [cs1 [E1 Hx]]]. rewrite E1.
    destruct (choose 3 cs1) as [k cs2].
    destruct (blank_inline_opt_spec cs2) as [k1 [cs3 E3]]. rewrite E3.
    destruct (render_value_layout 8 els cs3 (simple_pattern_elements els Hv) ltac:(lia)) as [V [cs4 [E4 HV]]]. rewrite E4.
    destruct (IH cs4 Hr) as [A [cs5 [E5 HA]]]. rewrite (rbind_eq _ _ _ _ _ E5).
    eexists. exists cs5. split; [reflexivity|].
    constructor; [|exact HA].
    unfold cat. cbn [concat app]. rewrite app_nil_r.
    replace (x ++ sp (S k) ++ 46%N :: aid ++ sp k1 ++ 61%N :: V)
      with (x ++ sp (S k) ++ 46%N :: aid ++ sp k1 ++ 61%N :: V) by reflexivity.
    apply (atl aid els x k k1 V Hx HV).
Qed.

Lemma render_comment_lines_layout P ls : ls <> [] -> forall cs,
  exists C cs', render_comment_lines P ls cs = (C, cs') /\ comment_layout P ls C.
Proof.
  induction ls as [|l r IH]; [congruence|]. intros _ cs. destruct r as [|l2 r'].
  - exists (P ++ sl l), cs. split; [reflexivity | constructor].
  - change (render_comment_lines P (l :: l2 :: r') cs) with
      ((e <~ eol ;; rest <~ render_comment_lines P (l2 :: r') ;; rret (cat [P; sl l; e; rest])) cs).
    destruct (eol_spec' cs) as [x [cs1 [E1 Hx]]]. rewrite (rbind_eq _ _ _ _ _ E1).
    destruct (IH ltac:(discriminate) cs1) as [C [cs2 [E2 HC]]]. rewrite (rbind_eq _ _ _ _ _ E2).
    eexists. exists cs2. split; [reflexivity|].
    unfold cat. cbn [concat]. rewrite app_nil_r. constructor; [exact Hx | discriminate | exact HC].
Qed.

Lemma simple_comment_ne c : simple_comment c = true -> content c <> [].
Proof. unfold simple_comment. destruct (content c); [discriminate | discriminate]. Qed.

Lemma render_plain_layout e cs : plain_entry e = true ->
  exists E cs', render_entry e cs = (E, cs') /\ plain_layout e E.
Proof.
  intros He. destruct e as [id [p|] attrs [|]|id p attrs [|]|[ls]|[ls]|[ls]|]; try discriminate.
  - cbn [plain_entry] in He. apply andb_prop in He as [He Hattrs]. apply andb_prop in He as [_ Hp].
    destruct (simple_pattern_spec p Hp) as [els [-> Hv]].
    cbn [render_entry render_opt_comment]. rewrite rbind_rret.
    destruct (blank_inline_opt_spec cs) as [k [cs1 E1]]. rewrite (rbind_eq _ _ _ _ _ E1).
    destruct (render_value_layout 4 els cs1 (simple_pattern_elements els Hv) ltac:(lia)) as [V [cs2 [E2 HV]]].
    rewrite (rbind_eq _ _ _ _ _ E2).
    destruct (render_attributes_layout attrs cs2 Hattrs) as [A [cs3 [E3 HA]]]. rewrite (rbind_eq _ _ _ _ _ E3).
    eexists. exists cs3. split; [reflexivity|].
    unfold cat. cbn [concat app]. rewrite !app_nil_r. apply el_message; assumption.
  - cbn [plain_entry] in He. apply andb_prop in He as [He Hattrs]. apply andb_prop in He as [_ Hne].
    cbn [render_entry render_opt_comment]. rewrite rbind_rret.
    destruct (blank_inline_opt_spec cs) as [k [cs1 E1]]. rewrite (rbind_eq _ _ _ _ _ E1). rewrite rbind_rret.
    destruct (render_attributes_layout attrs cs1 Hattrs) as [A [cs3 [E3 HA]]]. rewrite (rbind_eq _ _ _ _ _ E3).
    eexists. exists cs3. split; [reflexivity|].
    unfold cat. cbn [concat app]. rewrite !app_nil_r. apply el_message_novalue; [|exact HA].
    destruct attrs; [discriminate Hne | discriminate].
  - cbn [plain_entry] in He. apply andb_prop in He as [He Hattrs]. apply andb_prop in He as [_ Hp].
    destruct (simple_pattern_spec p Hp) as [els [-> Hv]].
    cbn [render_entry render_opt_comment]. rewrite rbind_rret.
    destruct (blank_inline_opt_spec cs) as [k [cs1 E1]]. rewrite (rbind_eq _ _ _ _ _ E1).
    destruct (render_value_layout 4 els cs1 (simple_pattern_elements els Hv) ltac:(lia)) as [V [cs2 [E2 HV]]].
    rewrite (rbind_eq _ _ _ _ _ E2).
    destruct (render_attributes_layout attrs cs2 Hattrs) as [A [cs3 [E3 HA]]]. rewrite (rbind_eq _ _ _ _ _ E3).
    eexists. exists cs3. split; [reflexivity|].
    unfold cat. cbn [concat app]. rewrite !app_nil_r. apply el_term; assumption.
  - cbn [plain_entry] in He. apply simple_comment_ne in He. cbn [content] in He. cbn [render_entry content].
    destruct (render_comment_lines_layout [35%N] ls He cs) as [C [cs' [E HC]]].
    exists C, cs'. split; [exact E | constructor; exact HC].
  - cbn [plain_entry] in He. apply simple_comment_ne in He. cbn [content] in He. cbn [render_entry content].
    destruct (render_comment_lines_layout [35; 35]%N ls He cs) as [C [cs' [E HC]]].
    exists C, cs'. split; [exact E | constructor; exact HC].
  - cbn [plain_entry] in He. apply simple_comment_ne in He. cbn [content] in He. cbn [render_entry content].
    destruct (render_comment_lines_layout [35; 35; 35]%N ls He cs) as [C [cs' [E HC]]].
    exists C, cs'. split; [exact E | constructor; exact HC].
Qed.

Lemma simple_entry_cases e : simple_entry e = true ->
  (entry_comment e = None /\ plain_entry e = true) \/
  (exists e0 ls, e = attach e0 (Comment ls) /\ is_message_or_term e0 = true /\ entry_comment e0 = None /\
                 plain_entry e0 = true /\ simple_comment (Comment ls) = true).
Proof.
  unfold simple_entry. intros H. apply andb_prop in H as [Hp Hc].
  destruct e as [id v attrs [[ls]|]|id v attrs [[ls]|]|c|c|c|j]; cbn [entry_comment strip_comment] in *;
    try (left; split; [reflexivity | exact Hp]).
  - right. exists (Message id v attrs None), ls. repeat split; assumption.
  - right. exists (Term id v attrs None), ls. repeat split; assumption.
Qed.

(* the text of an entry with an attached comment: the comment, a line end, the entry *)
Lemma render_entry_attached e0 ls cs : is_message_or_term e0 = true -> entry_comment e0 = None ->
  render_entry (attach e0 (Comment ls)) cs =
  (let '(C, cs1) := render_comment_lines [35%N] ls cs in
   let '(x, cs2) := eol cs1 in
   let '(E, cs3) := render_entry e0 cs2 in ((C ++ x) ++ E, cs3)).
Proof.
  intros Hmt Hc. destruct e0 as [id v attrs cm|id v attrs cm| | | |]; try discriminate Hmt; cbn [entry_comment] in Hc; subst cm;
    cbn [attach render_entry render_opt_comment content]; unfold rbind, rret;
    destruct (render_comment_lines [35%N] ls cs) as [C cs1]; destruct (eol cs1) as [x cs2];
    destruct (blank_inline_opt cs2) as [b1 cs3].
  - destruct v as [p|].
    + destruct (render_value 4 p cs3) as [V cs4]. destruct (render_attributes attrs cs4) as [A cs5].
      unfold cat. cbn [concat app]. reflexivity.
    + destruct (render_attributes attrs cs3) as [A cs5]. unfold cat. cbn [concat app]. reflexivity.
  - destruct (render_value 4 v cs3) as [V cs4]. destruct (render_attributes attrs cs4) as [A cs5].
    unfold cat. cbn [concat app]. reflexivity.
Qed.

Lemma render_entry_layout e cs : simple_entry e = true ->
  exists E cs', render_entry e cs = (E, cs') /\ entry_layout e E.
Proof.
  intros He. destruct (simple_entry_cases e He) as [[Hc Hp] | (e0 & ls & -> & Hmt & Hc & Hp & Hcm)].
  - destruct (render_plain_layout e cs Hp) as [E [cs' [E1 HE]]]. exists E, cs'. split; [exact E1 | apply el_plain; assumption].
  - rewrite (render_entry_attached e0 ls cs Hmt Hc).
    pose proof (simple_comment_ne _ Hcm) as Hne. cbn [content] in Hne.
    destruct (render_comment_lines_layout [35%N] ls Hne cs) as [C [cs1 [E1 HC]]]. rewrite E1.
    destruct (eol_spec' cs1) as [x [cs2 [E2 Hx]]]. rewrite E2.
    destruct (render_plain_layout e0 cs2 Hp) as [E [cs3 [E3 HE]]]. rewrite E3.
    exists ((C ++ x) ++ E), cs3. split; [reflexivity|]. rewrite <- app_assoc. apply el_attached; assumption.
Qed.

Lemma render_entries_layout t : forall cs, simple_resource t = true ->
  exists S cs', render_entries t cs = (S, cs') /\ entries_layout t S.
Proof.
  induction t as [|e r IH]; intros cs Ht.
  - exists [], cs. split; [reflexivity | constructor].
  - cbn [simple_resource forallb] in Ht. apply andb_prop in Ht as [He Hr].
    destruct (render_entry_layout e cs He) as [E [cs1 [E1 HE]]].
    destruct r as [|e2 r'].
    + cbn [render_entries]. rewrite (rbind_eq _ _ _ _ _ E1).
      unfold rbind at 1. destruct (choose 3 cs1) as [fin cs2].
      destruct fin as [|[|fin]].
      * exists E, cs2. split; [reflexivity|].
        replace E with (E ++ []) by apply app_nil_r. constructor; [exact HE | constructor].
      * destruct (eol_spec' cs2) as [x [cs3 [E3 Hx]]]. rewrite (rbind_eq _ _ _ _ _ E3).
        exists (E ++ x), cs3. split; [reflexivity|]. constructor; [exact HE|].
        replace x with (x ++ [] ++ []) by (rewrite !app_nil_r; reflexivity).
        apply (tl_more e [] x 0 [] []); [exact Hx | constructor | constructor | exact Logic.I].
      * destruct (eol_spec' cs2) as [x [cs3 [E3 Hx]]]. rewrite (rbind_eq _ _ _ _ _ E3).
        destruct (blank_lines_spec 1 cs3) as [BL [cs4 [E4 HBL]]]. rewrite (rbind_eq _ _ _ _ _ E4).
        exists (E ++ x ++ BL), cs4. split; [reflexivity|]. constructor; [exact HE|].
        replace (x ++ BL) with (x ++ BL ++ []) by (rewrite !app_nil_r; reflexivity).
        apply (tl_more e [] x 1 BL []); [exact Hx | exact HBL | constructor | exact Logic.I].
    + change (render_entries (e :: e2 :: r') cs) with
        ((s <~ render_entry e ;; x <~ eol ;; extra <~ choose 3 ;;
          b <~ blank_lines (min_blank_between e e2 + extra) ;;
          rest <~ render_entries (e2 :: r') ;; rret (cat [s; x; b; rest])) cs).
      rewrite (rbind_eq _ _ _ _ _ E1).
      destruct (eol_spec' cs1) as [x [cs2 [E2 Hx]]]. rewrite (rbind_eq _ _ _ _ _ E2).
      unfold rbind at 1. destruct (choose 3 cs2) as [extra cs3].
      destruct (blank_lines_spec (min_blank_between e e2 + extra) cs3) as [BL [cs4 [E4 HBL]]].
      rewrite (rbind_eq _ _ _ _ _ E4).
      destruct (IH cs4 Hr) as [S [cs5 [E5 HS]]]. rewrite (rbind_eq _ _ _ _ _ E5).
      eexists. exists cs5. split; [reflexivity|].
      unfold cat. cbn [concat]. rewrite app_nil_r. constructor; [exact HE|].
      apply (tl_more e (e2 :: r') x (min_blank_between e e2 + extra) BL S); [exact Hx | exact HBL | exact HS | lia].
Qed.

Lemma render_layout t cs : simple_resource t = true -> resource_layout t (render cs t).
Proof.
  intros Ht. unfold render. unfold rbind at 1. destruct (choose 3 cs) as [n cs1].
  destruct (blank_lines_spec n cs1) as [BL [cs2 [E2 HBL]]]. rewrite (rbind_eq _ _ _ _ _ E2).
  destruct (render_entries_layout t cs2 Ht) as [S [cs3 [E3 HS]]]. rewrite (rbind_eq _ _ _ _ _ E3).
  cbn [fst rret]. unfold rret. cbn [fst]. econstructor; eassumption.
Qed.

(* ---------------------------------------------------------------------------------------------- *)
(* 3. The parser on a layout                                                                        *)

Section OnLayout.
Variable bs : bytes.

(* where the run of blank lines after a pattern line ends: at the end of the input, at a line that starts
   in column 0 with something that is not blank, or at an indented line starting with . } [ or * *)
Definition region_stop (next : bytes) : Prop :=
  next = [] \/
  (exists b t, next = b :: t /\ N.eqb b 32 = false /\ N.eqb b 10 = false /\ N.eqb b 13 = false /\
               N.eqb b 123 = false /\ is_cont b = false) \/
  (exists s b t, next = sp (S s) ++ b :: t /\ is_byte_pattern_continuation b = false).

Lemma not_continuation_not_space b : is_byte_pattern_continuation b = false -> N.eqb b 32 = false.
Proof.
  unfold is_byte_pattern_continuation. intros H. apply negb_false_iff in H.
  destruct (N.eqb_spec b 32) as [->|]; [discriminate H | reflexivity].
Qed.

(* one step of the pattern loop over a blank line ended by LF: it becomes a (blank) text element *)
Lemma loop_step_blank_lf s rest els ne lnb ci p n :
  at_ bs p (sp s ++ 10%N :: rest) ->
  pattern_loop bs (S n) (PState els ne lnb ci LineStart) p =
  pattern_loop bs n (PState (PHText (s + p) (S (s + p)) 0 LineStart :: els) (S ne) lnb ci LineStart) (S (s + p)).
Proof.
  intros H. cbn [pattern_loop]. rewrite bind_get_ptr.
  assert (Hlt : Nat.ltb p (length_ bs) = true).
  { destruct s; cbn [sp repeat app] in H; eapply at_ltb; exact H. }
  rewrite Hlt. cbn [negb].
  assert (H123 : take_byte_if bs 123 p = Ok false p).
  { eapply take_byte_if_no; [exact H|]. destruct s; reflexivity. }
  step H123. rewrite bind_get_ptr. cbn [role is_line_start].
  assert (Hsp : skip_blank_inline bs p = Ok s (s + p)) by (eapply skip_blank_inline_sp; [exact H | reflexivity]).
  rewrite bind_assoc. step Hsp. rewrite bind_assoc, bind_current_byte.
  pose proof (at_app _ _ _ _ H) as H1. rewrite sp_length in H1.
  rewrite (at_byte _ _ _ _ H1).
  assert (Hpro : (if Nat.eqb s 0
                  then eol <- is_eol bs ;; (if negb eol then ret None else ret (Some s))
                  else if negb (is_byte_pattern_continuation 10) then set_ptr p ;;; ret None else ret (Some s))
                 (s + p) = Ok (Some s) (s + p)).
  { destruct s as [|s]; [|reflexivity].
    cbn [Nat.eqb]. step (is_eol_eol bs (0 + p) lf rest H1 (or_introl eq_refl)). reflexivity. }
  rewrite (bind_ok _ _ _ _ _ Hpro).
  step (get_text_slice_lf bs (s + p) [] rest H1 eq_refl).
  cbn [length is_nonblank existsb Nat.add is_line_start andb orb negb elements n_elements last_non_blank common_indent role].
  replace (Nat.eqb (s + p) (S (s + p))) with false by (symmetry; apply Nat.eqb_neq; lia).
  cbn [negb]. reflexivity.
Qed.

(* ... ended by CR LF: the first step only moves onto the LF *)
Lemma loop_step_blank_crlf s rest els ne lnb ci p n :
  at_ bs p (sp s ++ 13%N :: 10%N :: rest) ->
  pattern_loop bs (S n) (PState els ne lnb ci LineStart) p =
  pattern_loop bs n (PState els ne lnb ci LineStart) (S (s + p)).
Proof.
  intros H. cbn [pattern_loop]. rewrite bind_get_ptr.
  assert (Hlt : Nat.ltb p (length_ bs) = true).
  { destruct s; cbn [sp repeat app] in H; eapply at_ltb; exact H. }
  rewrite Hlt. cbn [negb].
  assert (H123 : take_byte_if bs 123 p = Ok false p).
  { eapply take_byte_if_no; [exact H|]. destruct s; reflexivity. }
  step H123. rewrite bind_get_ptr. cbn [role is_line_start].
  assert (Hsp : skip_blank_inline bs p = Ok s (s + p)) by (eapply skip_blank_inline_sp; [exact H | reflexivity]).
  rewrite bind_assoc. step Hsp. rewrite bind_assoc, bind_current_byte.
  pose proof (at_app _ _ _ _ H) as H1. rewrite sp_length in H1.
  rewrite (at_byte _ _ _ _ H1).
  assert (Hpro : (if Nat.eqb s 0
                  then eol <- is_eol bs ;; (if negb eol then ret None else ret (Some s))
                  else if negb (is_byte_pattern_continuation 13) then set_ptr p ;;; ret None else ret (Some s))
                 (s + p) = Ok (Some s) (s + p)).
  { destruct s as [|s]; [|reflexivity].
    cbn [Nat.eqb]. step (is_eol_eol bs (0 + p) crlf rest H1 (or_intror eq_refl)). reflexivity. }
  rewrite (bind_ok _ _ _ _ _ Hpro).
  step (get_text_slice_crlf bs (s + p) [] rest H1 eq_refl).
  cbn [length is_nonblank existsb Nat.add is_line_start andb orb negb elements n_elements last_non_blank common_indent role].
  rewrite Nat.eqb_refl. cbn [negb]. reflexivity.
Qed.

Lemma loop_stop next els ne lnb ci p n :
  region_stop next -> at_ bs p next ->
  pattern_loop bs (S n) (PState els ne lnb ci LineStart) p = Ok (PState els ne lnb ci LineStart) p.
Proof.
  intros Hstop H. cbn [pattern_loop]. rewrite bind_get_ptr.
  destruct Hstop as [-> | [(b & t & -> & H32 & H10 & H13 & H123 & _) | (s & b & t & -> & Hb)]].
  - rewrite (at_ltb_nil _ _ H). reflexivity.
  - rewrite (at_ltb _ _ _ _ H). cbn [negb].
    step (take_byte_if_no bs p 123 (b :: t) H H123). rewrite bind_get_ptr. cbn [role is_line_start].
    rewrite bind_assoc. step (skip_blank_inline_none bs p (b :: t) H H32).
    rewrite bind_assoc, bind_current_byte, (at_byte _ _ _ _ H).
    cbn [Nat.eqb]. rewrite bind_assoc. step (is_eol_byte bs p b t H H10 H13). reflexivity.
  - assert (H' : at_ bs p (32%N :: sp s ++ b :: t)) by exact H.
    rewrite (at_ltb _ _ _ _ H'). cbn [negb].
    step (take_byte_if_no bs p 123 _ H' eq_refl). rewrite bind_get_ptr. cbn [role is_line_start].
    assert (Hsp : skip_blank_inline bs p = Ok (S s) (S s + p)).
    { eapply skip_blank_inline_sp; [exact H|]. apply not_continuation_not_space, Hb. }
    rewrite bind_assoc. step Hsp. rewrite bind_assoc, bind_current_byte.
    pose proof (at_app _ _ _ _ H) as H1. rewrite sp_length in H1. rewrite (at_byte _ _ _ _ H1).
    cbn [Nat.eqb]. rewrite Hb. reflexivity.
Qed.

(* the pattern loop over the blank lines that follow a pattern line: they become trailing blank elements *)
Lemma blank_region c BL : blank_lines_of c BL ->
  forall next els ne lnb ci p n,
  region_stop next -> at_ bs p (BL ++ next) -> 2 * c < n ->
  exists extra ne',
    pattern_loop bs n (PState els ne lnb ci LineStart) p =
    Ok (PState (extra ++ els) ne' lnb ci LineStart) (length BL + p).
Proof.
  induction 1 as [|s e c r He Hr IH]; intros next els ne lnb ci p n Hstop H Hn.
  - destruct n as [|n]; [lia|]. exists [], ne. apply loop_stop with (next := next); assumption.
  - rewrite <- !app_assoc in H.
    destruct He as [-> | ->].
    + destruct n as [|n]; [lia|]. cbn [lf app] in H.
      rewrite (loop_step_blank_lf s _ els ne lnb ci p n H).
      assert (H1 : at_ bs (S (s + p)) (r ++ next)).
      { apply at_app in H. rewrite sp_length in H. apply at_cons in H. exact H. }
      destruct (IH next (PHText (s + p) (S (s + p)) 0 LineStart :: els) (S ne) lnb ci _ n Hstop H1 ltac:(lia))
        as [extra [ne' E]].
      exists (extra ++ [PHText (s + p) (S (s + p)) 0 LineStart]), ne'. rewrite E. f_equal.
      * rewrite <- app_assoc. reflexivity.
      * rewrite !app_length, sp_length. cbn [length lf]. lia.
    + destruct n as [|[|n]]; [lia | lia |]. cbn [crlf app] in H.
      rewrite (loop_step_blank_crlf s _ els ne lnb ci p (S n) H).
      assert (H0 : at_ bs (S (s + p)) (sp 0 ++ 10%N :: r ++ next)).
      { apply at_app in H. rewrite sp_length in H. apply at_cons in H. exact H. }
      rewrite (loop_step_blank_lf 0 _ els ne lnb ci _ n H0).
      assert (H1 : at_ bs (S (0 + S (s + p))) (r ++ next)).
      { apply at_cons in H0. exact H0. }
      destruct (IH next (PHText (0 + S (s + p)) (S (0 + S (s + p))) 0 LineStart :: els) (S ne) lnb ci _ n Hstop H1 ltac:(lia))
        as [extra [ne' E]].
      exists (extra ++ [PHText (0 + S (s + p)) (S (0 + S (s + p))) 0 LineStart]), ne'. rewrite E. f_equal.
      * rewrite <- app_assoc. reflexivity.
      * rewrite !app_length, sp_length. cbn [length crlf]. lia.
Qed.

Lemma region_stop_starts_char next : region_stop next -> starts_char next = true.
Proof.
  intros [-> | [(b & t & -> & _ & _ & _ & _ & Hc) | (s & b & t & -> & _)]]; [reflexivity | | reflexivity].
  cbn. rewrite Hc. reflexivity.
Qed.

Lemma blank_lines_starts_char c BL next :
  blank_lines_of c BL -> starts_char next = true -> starts_char (BL ++ next) = true.
Proof.
  intros H Hn. destruct H as [|s e c r He Hr]; [exact Hn|].
  destruct s; [destruct He as [-> | ->]; reflexivity | reflexivity].
Qed.

(* ---- how a line of pattern text ends ---- *)
Inductive line_tail : bytes -> termination -> nat -> nat -> bytes -> Prop :=
| lt_eof : line_tail [] TEof 0 0 []
| lt_lf R : line_tail (10%N :: R) TLineFeed 1 1 R
| lt_crlf R : line_tail (13%N :: 10%N :: R) TCrlf 0 1 (10%N :: R).

Lemma get_text_slice_line q v T term eo po R :
  at_ bs q (v ++ T) -> text_line v -> line_tail T term eo po R ->
  get_text_slice bs q = Ok (q, eo + (length v + q), is_nonblank v, term) (po + (length v + q)) /\
  at_ bs (po + (length v + q)) R.
Proof.
  intros H Hv HT. destruct HT.
  - rewrite app_nil_r in H. split; [apply get_text_slice_eof; assumption|].
    cbn [Nat.add]. replace v with (v ++ []) in H by apply app_nil_r. apply at_app in H. exact H.
  - split; [apply (get_text_slice_lf bs q v R H Hv)|].
    apply at_app in H. apply at_cons in H. exact H.
  - split; [apply (get_text_slice_crlf bs q v _ H Hv)|].
    apply at_app in H. apply at_cons in H. exact H.
Qed.

Lemma line_tail_nil term eo po R : line_tail [] term eo po R -> term = TEof /\ eo = 0 /\ po = 0 /\ R = [].
Proof. intros H. inversion H. auto. Qed.
Lemma line_tail_lf X term eo po R :
  line_tail (10%N :: X) term eo po R -> term = TLineFeed /\ eo = 1 /\ po = 1 /\ R = X.
Proof. intros H. inversion H. auto. Qed.
Lemma line_tail_crlf X term eo po R :
  line_tail (13%N :: 10%N :: X) term eo po R -> term = TCrlf /\ eo = 0 /\ po = 1 /\ R = 10%N :: X.
Proof. intros H. inversion H. auto. Qed.

Definition role_after (term : termination) : position :=
  match term with TLineFeed | TCrlf => LineStart | TPlaceableStart | TEof => Continuation end.

(* ---- text of a line ---- *)
Definition ends_nonspace (v : bytes) : Prop := N.eqb (last v 0%N) 32 = false.

Lemma rev_last (v : bytes) : v <> [] -> rev v = last v 0%N :: rev (removelast v).
Proof.
  intros H. rewrite (app_removelast_last 0%N H) at 1. rewrite rev_app_distr. reflexivity.
Qed.

Lemma last_in (v : bytes) d : v <> [] -> In (last v d) v.
Proof.
  induction v as [|a v IH]; [congruence|]. intros _. destruct v as [|b v]; [left; reflexivity|].
  right. apply IH. discriminate.
Qed.

Lemma text_last_ws v : text_line v -> v <> [] -> ends_nonspace v -> matches_fluent_ws (last v 0%N) = false.
Proof.
  intros Hline Hne Hlast. pose proof (last_in v 0%N Hne) as Hin.
  unfold text_line in Hline. rewrite forallb_forall in Hline. apply Hline in Hin.
  apply wf_text_byte_spec in Hin as (_ & _ & H13 & H10).
  unfold matches_fluent_ws, c_sp, c_cr, c_lf. unfold ends_nonspace in Hlast. rewrite Hlast, H13, H10. reflexivity.
Qed.

Lemma trim_end_text v : text_line v -> v <> [] -> ends_nonspace v -> trim_end v = v.
Proof.
  intros Hline Hne Hlast. unfold trim_end.
  rewrite (rev_last v Hne). cbn [scan_while]. rewrite (text_last_ws v Hline Hne Hlast). cbn [skipn].
  rewrite <- (rev_last v Hne). apply rev_involutive.
Qed.

Lemma trim_end_text_lf v : text_line v -> v <> [] -> ends_nonspace v -> trim_end (v ++ [10%N]) = v.
Proof.
  intros Hline Hne Hlast. unfold trim_end. rewrite rev_app_distr. cbn [rev app scan_while].
  change (matches_fluent_ws 10) with true. cbv iota.
  rewrite (rev_last v Hne). cbn [scan_while]. rewrite (text_last_ws v Hline Hne Hlast). cbn [skipn].
  rewrite <- (rev_last v Hne). apply rev_involutive.
Qed.

Lemma nonblank_last v : text_line v -> v <> [] -> ends_nonspace v -> is_nonblank v = true.
Proof.
  intros Hline Hne Hlast. unfold is_nonblank. apply existsb_exists. exists (last v 0%N).
  pose proof (last_in v 0%N Hne) as Hin. split; [exact Hin|].
  unfold text_line in Hline. rewrite forallb_forall in Hline. apply Hline in Hin.
  apply wf_text_byte_spec in Hin as (_ & _ & H13 & _).
  unfold c_sp, c_cr. unfold ends_nonspace in Hlast. rewrite ?Hlast, ?H13. reflexivity.
Qed.

(* ---- finishing the placeholders ---- *)
Definition fin (lnbF : nat) (ci : option nat) (i : nat) (ph : placeholder) (o : option pattern_element) : Prop :=
  forall q, finish_element bs lnbF ci i ph q = Ok o q.

Inductive fin_all (lnbF : nat) (ci : option nat) : nat -> list placeholder -> list pattern_element -> Prop :=
| fa_nil i : fin_all lnbF ci i [] []
| fa_some i ph el phs els :
    fin lnbF ci i ph (Some el) -> fin_all lnbF ci (S i) phs els -> fin_all lnbF ci i (ph :: phs) (el :: els)
| fa_none i ph phs els :
    fin lnbF ci i ph None -> fin_all lnbF ci (S i) phs els -> fin_all lnbF ci i (ph :: phs) els.

Lemma finish_elements_all lnbF ci i phs els :
  fin_all lnbF ci i phs els -> forall q, finish_elements bs lnbF ci i phs q = Ok els q.
Proof.
  induction 1 as [i | i ph el phs els Hf Hr IH | i ph phs els Hf Hr IH]; intros q; cbn [finish_elements].
  - reflexivity.
  - step (Hf q). step (IH q). reflexivity.
  - step (Hf q). step (IH q). reflexivity.
Qed.

Lemma fin_placeable lnbF ci i e : fin lnbF ci i (PHPlaceable e) (Some (PlaceableElement e)).
Proof. intros q. reflexivity. Qed.

Lemma fin_text lnbF ci i start end_ ind role q0 v :
  (if is_line_start role
   then match ci with None => start + ind | Some c0 => start + Nat.min ind c0 end
   else start) = q0 ->
  q0 <> end_ -> slice bs q0 end_ = Done v ->
  fin lnbF ci i (PHText start end_ ind role) (Some (TextElement (if Nat.eqb lnbF i then trim_end v else v))).
Proof.
  intros Hq Hne Hs q. cbn [finish_element]. rewrite Hq.
  replace (Nat.eqb q0 end_) with false by (symmetry; apply Nat.eqb_neq, Hne).
  unfold source_slice. rewrite Hs. reflexivity.
Qed.

Lemma fin_text_none lnbF ci i start end_ ind role :
  (if is_line_start role
   then match ci with None => start + ind | Some c0 => start + Nat.min ind c0 end
   else start) = end_ ->
  fin lnbF ci i (PHText start end_ ind role) None.
Proof. intros Hq q. cbn [finish_element]. rewrite Hq, Nat.eqb_refl. reflexivity. Qed.

(* ---- steps of the pattern loop ---- *)
(* a placeable *)
Lemma step_placeable i b1 b2 rest phs ne lnb ci rl p n :
  is_line_start rl = false -> simple_inline i = true -> all_blank b1 -> all_blank b2 ->
  at_ bs p (123%N :: b1 ++ inline_text i ++ b2 ++ 125%N :: rest) -> length (inline_text i) + 4 <= n ->
  pattern_loop bs (S n) (PState phs ne lnb ci rl) p =
  pattern_loop bs n (PState (PHPlaceable (Inline i) :: phs) (S ne) (Some ne) ci Continuation)
               (length (123%N :: b1 ++ inline_text i ++ b2 ++ [125%N]) + p).
Proof.
  intros Hrole Hi Hb1 Hb2 H Hn. cbn [pattern_loop]. rewrite bind_get_ptr.
  rewrite (at_ltb _ _ _ _ H). cbn [negb].
  step (take_byte_if_yes bs p 123 _ H). cbv iota. cbn [role elements n_elements common_indent]. rewrite Hrole.
  step (get_placeable_simple bs i b1 b2 rest (S p) n Hi Hb1 Hb2 (at_cons _ _ _ _ H) Hn).
  f_equal. cbn [length]. rewrite !app_length. cbn [length]. lia.
Qed.

(* a text that does not start the line of a block value *)
Lemma step_text v X term eo po nb phs ne lnb ci rl p n :
  is_line_start rl = false -> inner_text v = true -> at_ bs p (v ++ X) ->
  get_text_slice bs p = Ok (p, eo + (length v + p), nb, term) (po + (length v + p)) ->
  pattern_loop bs (S n) (PState phs ne lnb ci rl) p =
  pattern_loop bs n (PState (PHText p (eo + (length v + p)) 0 rl :: phs) (S ne)
                            (if nb then Some ne else lnb) ci (role_after term))
               (po + (length v + p)).
Proof.
  intros Hrole Hv H Hts. destruct (inner_text_spec v Hv) as (b & r & Ev & Hc & Hline).
  cbn [pattern_loop]. rewrite bind_get_ptr.
  assert (Hb : at_ bs p (b :: r ++ X)) by (rewrite Ev in H; exact H).
  rewrite (at_ltb _ _ _ _ Hb). cbn [negb].
  assert (H123 : N.eqb b 123 = false).
  { unfold text_line in Hline. rewrite Ev in Hline. cbn [forallb] in Hline. apply andb_prop in Hline as [Hb' _].
    apply wf_text_byte_spec in Hb'. tauto. }
  step (take_byte_if_no bs p 123 _ Hb H123). rewrite bind_get_ptr.
  cbn [role]. rewrite Hrole. rewrite bind_ret. step Hts.
  cbn [is_line_start andb orb negb elements n_elements last_non_blank common_indent role].
  replace (Nat.eqb p (eo + (length v + p))) with false
    by (symmetry; apply Nat.eqb_neq; rewrite Ev; cbn [length]; lia).
  cbn [negb elements n_elements last_non_blank common_indent role].
  rewrite ?Hrole. cbn [negb andb orb]. cbn [elements n_elements last_non_blank common_indent role].
  destruct term; reflexivity.
Qed.

(* the first text of a block value: indented by ind >= 1 spaces, first byte not a space and a continuation byte *)
Lemma step_block_text v b r ind X term eo po p n :
  v = b :: r -> text_line v -> N.eqb b 32 = false -> is_byte_pattern_continuation b = true ->
  1 <= ind -> at_ bs p (sp ind ++ v ++ X) ->
  get_text_slice bs (ind + p) = Ok (ind + p, eo + (length v + (ind + p)), true, term) (po + (length v + (ind + p))) ->
  pattern_loop bs (S n) (PState [] 0 None None LineStart) p =
  pattern_loop bs n (PState [PHText p (eo + (length v + (ind + p))) ind LineStart] 1 (Some 0) (Some ind) (role_after term))
               (po + (length v + (ind + p))).
Proof.
  intros Ev Hline H32 Hcont Hind H Hts.
  cbn [pattern_loop]. rewrite bind_get_ptr.
  destruct ind as [|ind]; [lia|].
  assert (H0 : at_ bs p (32%N :: sp ind ++ v ++ X)) by exact H.
  rewrite (at_ltb _ _ _ _ H0). cbn [negb].
  step (take_byte_if_no bs p 123 _ H0 eq_refl). rewrite bind_get_ptr.
  cbn [role is_line_start].
  assert (Hsp : skip_blank_inline bs p = Ok (S ind) (S ind + p)).
  { eapply skip_blank_inline_sp; [exact H|]. rewrite Ev. exact H32. }
  rewrite bind_assoc. step Hsp. rewrite bind_assoc, bind_current_byte.
  pose proof (at_app _ _ _ _ H) as H1. rewrite sp_length in H1.
  assert (Hb : at_ bs (S ind + p) (b :: r ++ X)) by (rewrite Ev in H1; exact H1).
  rewrite (at_byte _ _ _ _ Hb). cbn [Nat.eqb].
  rewrite Hcont. cbn [negb]. rewrite bind_ret.
  step Hts.
  cbn [is_line_start andb orb negb elements n_elements last_non_blank common_indent role].
  replace (Nat.eqb (S ind + p) (eo + (length v + (S ind + p)))) with false
    by (symmetry; apply Nat.eqb_neq; rewrite Ev; cbn [length]; lia).
  cbn [negb elements n_elements last_non_blank common_indent role].
  destruct term; reflexivity.
Qed.

(* a block value that starts with a placeable: the indentation becomes a placeholder (that finishes to nothing) *)
Lemma step_block_indent ind rest p n :
  1 <= ind -> at_ bs p (sp ind ++ 123%N :: rest) ->
  pattern_loop bs (S n) (PState [] 0 None None LineStart) p =
  pattern_loop bs n (PState [PHText p (ind + p) ind LineStart] 1 None (Some ind) Continuation) (ind + p).
Proof.
  intros Hind H. cbn [pattern_loop]. rewrite bind_get_ptr.
  destruct ind as [|ind]; [lia|].
  assert (H0 : at_ bs p (32%N :: sp ind ++ 123%N :: rest)) by exact H.
  rewrite (at_ltb _ _ _ _ H0). cbn [negb].
  step (take_byte_if_no bs p 123 _ H0 eq_refl). rewrite bind_get_ptr.
  cbn [role is_line_start].
  assert (Hsp : skip_blank_inline bs p = Ok (S ind) (S ind + p)) by (eapply skip_blank_inline_sp; [exact H | reflexivity]).
  rewrite bind_assoc. step Hsp. rewrite bind_assoc, bind_current_byte.
  pose proof (at_app _ _ _ _ H) as H1. rewrite sp_length in H1.
  rewrite (at_byte _ _ _ _ H1). cbn [Nat.eqb].
  change (is_byte_pattern_continuation 123) with true. cbn [negb]. rewrite bind_ret.
  step (get_text_slice_placeable bs (S ind + p) [] rest H1 eq_refl).
  cbn [length is_nonblank existsb Nat.add is_line_start andb orb negb elements n_elements last_non_blank common_indent role].
  rewrite Nat.eqb_refl. cbn [negb]. reflexivity.
Qed.

(* a line end right after a placeable *)
Lemma step_eol_lf rest phs ne lnb ci rl p n :
  is_line_start rl = false -> at_ bs p (10%N :: rest) ->
  pattern_loop bs (S n) (PState phs ne lnb ci rl) p =
  pattern_loop bs n (PState (PHText p (S p) 0 rl :: phs) (S ne) lnb ci LineStart) (S p).
Proof.
  intros Hrole H. cbn [pattern_loop]. rewrite bind_get_ptr.
  rewrite (at_ltb _ _ _ _ H). cbn [negb].
  step (take_byte_if_no bs p 123 _ H eq_refl). rewrite bind_get_ptr.
  cbn [role]. rewrite Hrole. rewrite bind_ret.
  step (get_text_slice_lf bs p [] rest H eq_refl).
  cbn [length is_nonblank existsb Nat.add andb orb negb elements n_elements last_non_blank common_indent role].
  replace (Nat.eqb p (S p)) with false by (symmetry; apply Nat.eqb_neq; lia).
  rewrite ?Hrole. cbn [negb andb orb elements n_elements last_non_blank common_indent role]. reflexivity.
Qed.

Lemma step_eol_crlf rest phs ne lnb ci rl p n :
  is_line_start rl = false -> at_ bs p (13%N :: 10%N :: rest) ->
  pattern_loop bs (S n) (PState phs ne lnb ci rl) p =
  pattern_loop bs n (PState phs ne lnb ci LineStart) (S p).
Proof.
  intros Hrole H. cbn [pattern_loop]. rewrite bind_get_ptr.
  rewrite (at_ltb _ _ _ _ H). cbn [negb].
  step (take_byte_if_no bs p 123 _ H eq_refl). rewrite bind_get_ptr.
  cbn [role]. rewrite Hrole. rewrite bind_ret.
  step (get_text_slice_crlf bs p [] rest H eq_refl).
  cbn [length is_nonblank existsb Nat.add andb orb negb elements n_elements last_non_blank common_indent role].
  rewrite Nat.eqb_refl. rewrite ?Hrole. cbn [negb andb orb elements n_elements last_non_blank common_indent role]. reflexivity.
Qed.

(* ---- what follows a value ---- *)
(* nothing; or a line end, blank lines, and something at which the run of blank lines stops *)
Inductive after_value : bytes -> nat -> nat -> bytes -> Prop :=
| av_eof : after_value [] 0 0 []
| av_lines x c BL next :
    is_eol_bytes x -> blank_lines_of c BL -> region_stop next ->
    after_value (x ++ BL ++ next) (length x + length BL) c next.

Lemma after_value_next T used c next : after_value T used c next ->
  forall p, at_ bs p T -> at_ bs (used + p) next.
Proof.
  intros [|x c' BL nx Hx HBL Hn] p H; [exact H|].
  apply at_app in H. apply at_app in H.
  replace (length x + length BL + p) with (length BL + (length x + p)) by lia. exact H.
Qed.

Lemma after_value_line_tail T used c nx : after_value T used c nx -> exists term eo po R, line_tail T term eo po R.
Proof.
  intros [|x c' BL next [-> | ->] HBL Hstop].
  - do 4 eexists. constructor.
  - do 4 eexists. cbn [lf app]. constructor.
  - do 4 eexists. cbn [crlf app]. constructor.
Qed.

(* the loop after the last byte of the line's last text (ptr: po bytes into T, rl as the slice left it) *)
Lemma after_line T used c nx term eo po R phs ne lnb ci q n :
  after_value T used c nx -> line_tail T term eo po R -> at_ bs q T -> 2 * c + 3 <= n ->
  exists extra ne' role',
    pattern_loop bs n (PState phs ne lnb ci (role_after term)) (po + q) =
    Ok (PState (extra ++ phs) ne' lnb ci role') (used + q).
Proof.
  intros HT Hlt H Hn. destruct HT as [|x c BL next Hx HBL Hstop].
  - destruct (line_tail_nil _ _ _ _ Hlt) as (-> & -> & -> & ->). destruct n as [|n]; [lia|].
    exists [], ne, Continuation. cbn [pattern_loop role_after]. rewrite bind_get_ptr.
    cbn [Nat.add]. rewrite (at_ltb_nil _ _ H). reflexivity.
  - destruct Hx as [-> | ->];
      [destruct (line_tail_lf _ _ _ _ _ Hlt) as (-> & -> & -> & ->)
      |destruct (line_tail_crlf _ _ _ _ _ Hlt) as (-> & -> & -> & ->)]; cbn [role_after].
    + assert (H1 : at_ bs (1 + q) (BL ++ next)) by (apply at_cons in H; exact H).
      destruct (blank_region c BL HBL next phs ne lnb ci _ n Hstop H1 ltac:(lia)) as [extra [ne' E]].
      exists extra, ne', LineStart. rewrite E. f_equal. cbn [length lf]. lia.
    + assert (H1 : at_ bs (1 + q) ((sp 0 ++ lf ++ BL) ++ next)) by (apply at_cons in H; exact H).
      destruct (blank_region (S c) (sp 0 ++ lf ++ BL) (bl_cons 0 lf c BL (or_introl eq_refl) HBL)
                             next phs ne lnb ci _ n Hstop H1 ltac:(lia)) as [extra [ne' E]].
      exists extra, ne', LineStart. rewrite E. f_equal. cbn [length crlf lf sp repeat app]. lia.
Qed.

(* ... after a placeable that ends the line *)
Lemma after_placeable T used c nx phs ne lnb ci rl q n :
  after_value T used c nx -> is_line_start rl = false -> at_ bs q T -> 2 * c + 4 <= n ->
  exists extra ne' role',
    pattern_loop bs n (PState phs ne lnb ci rl) q = Ok (PState (extra ++ phs) ne' lnb ci role') (used + q).
Proof.
  intros HT Hrole H Hn. destruct HT as [|x c BL next Hx HBL Hstop].
  - destruct n as [|n]; [lia|]. exists [], ne, rl. cbn [pattern_loop]. rewrite bind_get_ptr.
    rewrite (at_ltb_nil _ _ H). reflexivity.
  - destruct n as [|n]; [lia|]. destruct Hx as [-> | ->].
    + cbn [lf app] in H. rewrite (step_eol_lf _ phs ne lnb ci rl q n Hrole H).
      assert (H1 : at_ bs (S q) (BL ++ next)) by (apply at_cons in H; exact H).
      destruct (blank_region c BL HBL next (PHText q (S q) 0 rl :: phs) (S ne) lnb ci _ n Hstop H1 ltac:(lia))
        as [extra [ne' E]].
      exists (extra ++ [PHText q (S q) 0 rl]), ne', LineStart. rewrite E. f_equal.
      * rewrite <- app_assoc. reflexivity.
      * cbn [length lf]. lia.
    + cbn [crlf app] in H. rewrite (step_eol_crlf _ phs ne lnb ci rl q n Hrole H).
      assert (H1 : at_ bs (S q) ((sp 0 ++ lf ++ BL) ++ next)) by (apply at_cons in H; exact H).
      destruct (blank_region (S c) (sp 0 ++ lf ++ BL) (bl_cons 0 lf c BL (or_introl eq_refl) HBL)
                             next phs ne lnb ci _ n Hstop H1 ltac:(lia)) as [extra [ne' E]].
      exists extra, ne', LineStart. rewrite E. f_equal. cbn [length crlf lf sp repeat app]. lia.
Qed.

(* the slice of the last text of the line, trimmed, is the text *)
Lemma last_text_slice v T used c nx term eo po R q :
  inner_text v = true -> ends_nonspace v -> after_value T used c nx -> line_tail T term eo po R ->
  at_ bs q (v ++ T) ->
  exists v', slice bs q (eo + (length v + q)) = Done v' /\ trim_end v' = v.
Proof.
  intros Hv Hlast HT Hlt H. destruct (inner_text_spec v Hv) as (b & r & Ev & Hc & Hline).
  assert (Hne : v <> []) by (rewrite Ev; discriminate).
  assert (Hsc : starts_char (v ++ T) = true) by (rewrite Ev; cbn; rewrite Hc; reflexivity).
  destruct HT as [|x c BL next Hx HBL Hstop].
  - destruct (line_tail_nil _ _ _ _ Hlt) as (-> & -> & -> & ->). exists v. split; [|apply trim_end_text; assumption].
    cbn [Nat.add]. rewrite app_nil_r in H, Hsc.
    replace v with (v ++ []) in H, Hsc by apply app_nil_r.
    apply (at_slice bs q v [] H Hsc eq_refl).
  - destruct Hx as [-> | ->];
      [destruct (line_tail_lf _ _ _ _ _ Hlt) as (-> & -> & -> & ->)
      |destruct (line_tail_crlf _ _ _ _ _ Hlt) as (-> & -> & -> & ->)].
    + exists (v ++ [10%N]). split; [|apply trim_end_text_lf; assumption].
      replace (1 + (length v + q)) with (length (v ++ [10%N]) + q) by (rewrite app_length; cbn [length]; lia).
      apply (at_slice bs q (v ++ [10%N]) (BL ++ next)).
      * rewrite <- app_assoc. exact H.
      * rewrite <- app_assoc. exact Hsc.
      * apply (blank_lines_starts_char c BL next HBL), region_stop_starts_char, Hstop.
    + exists v. split; [|apply trim_end_text; assumption].
      cbn [Nat.add]. apply (at_slice bs q v _ H Hsc). reflexivity.
Qed.

Fixpoint last_text_ok (els : list pattern_element) : Prop :=
  match els with
  | [] => True
  | [TextElement v] => ends_nonspace v
  | _ :: r => last_text_ok r
  end.

Lemma bind_congr {A B} (m m' : M A) (f : A -> M B) p p' : m p = m' p' -> bind m f p = bind m' f p'.
Proof. intros H. unfold bind. rewrite H. reflexivity. Qed.

(* the pattern loop over the elements of a line, from an element boundary that is not the start of a block *)
Lemma elements_loop els L : line_layout els L ->
  forall prev T used c nx lnbF ci phs ne lnb rl p n,
  simple_elements els prev = true -> last_text_ok els ->
  after_value T used c nx -> is_line_start rl = false ->
  (els = [] -> lnb = Some lnbF) -> (els <> [] -> lnbF = ne + length els - 1) ->
  at_ bs p (L ++ T) -> length L + 2 * c + 8 <= n ->
  exists phs_new extra ne' role',
    pattern_loop bs n (PState phs ne lnb ci rl) p =
      Ok (PState (extra ++ rev phs_new ++ phs) ne' (Some lnbF) ci role') (used + (length L + p)) /\
    fin_all lnbF ci ne phs_new els /\ length phs_new = length els.
Proof.
  induction 1 as [| v r L HL IH | i b1 b2 r L Hb1 Hb2 HL IH];
    intros prev T used c nx lnbF ci phs ne lnb rl p n Hs Hlast HT Hrole Hnil Hcons H Hn.
  - (* nothing left: the line ended with a placeable *)
    rewrite (Hnil eq_refl). cbn [app length Nat.add] in *.
    destruct (after_placeable T used c nx phs ne (Some lnbF) ci rl p n HT Hrole H ltac:(lia)) as (extra & ne' & role' & E).
    exists [], extra, ne', role'. split; [exact E | split; [constructor | reflexivity]].
  - (* a text *)
    cbn [simple_elements] in Hs. apply andb_prop in Hs as [Hs Hr]. apply andb_prop in Hs as [_ Hv].
    destruct (inner_text_spec v Hv) as (b & t & Ev & Hc & Hline).
    assert (Hlenv : 1 <= length v) by (rewrite Ev; cbn [length]; lia).
    assert (Hnev : v <> []) by (rewrite Ev; discriminate).
    assert (Hscv : forall X, starts_char (v ++ X) = true) by (intros X; rewrite Ev; cbn; rewrite Hc; reflexivity).
    clear Ev Hc b t.
    destruct n as [|n]; [lia|].
    rewrite <- app_assoc in H.
    destruct r as [|el2 r2].
    + (* the last element *)
      inversion HL; subst. cbn [app] in H. cbn [last_text_ok] in Hlast. cbn [length] in Hcons.
      assert (HlnbF : lnbF = ne) by (rewrite (Hcons ltac:(discriminate)); lia). subst lnbF.
      destruct (after_value_line_tail T used c nx HT) as (term & eo & po & R & Hlt).
      assert (Hnb : is_nonblank v = true) by (apply nonblank_last; [exact Hline | exact Hnev | exact Hlast]).
      destruct (get_text_slice_line p v T term eo po R H Hline Hlt) as [Hts _]. rewrite Hnb in Hts.
      rewrite (step_text v T term eo po true phs ne lnb ci rl p n Hrole Hv H Hts).
      destruct (after_line T used c nx term eo po R (PHText p (eo + (length v + p)) 0 rl :: phs) (S ne) (Some ne) ci
                           (length v + p) n HT Hlt (at_app _ _ _ _ H) ltac:(rewrite app_nil_r in Hn; lia))
        as (extra & ne' & role' & E).
      exists [PHText p (eo + (length v + p)) 0 rl], extra, ne', role'. split; [|split; [|reflexivity]].
      * rewrite E. rewrite app_nil_r. cbn [rev app]. reflexivity.
      * destruct (last_text_slice v T used c nx term eo po R p Hv Hlast HT Hlt H) as [v' [Es Et]].
        apply fa_some; [|constructor].
        pose proof (fin_text ne ci ne p (eo + (length v + p)) 0 rl p v') as Hf.
        rewrite Hrole, Nat.eqb_refl, Et in Hf. apply Hf; [reflexivity | lia | exact Es].
    + (* a placeable follows *)
      destruct el2 as [v2 | [sel vs | i2]]; cbn [simple_elements] in Hr; try discriminate Hr.
      inversion HL as [| | i2' b1 b2 r2' L2 Hb1 Hb2 HL2]; subst.
      assert (Hts : get_text_slice bs p = Ok (p, 0 + (length v + p), is_nonblank v, TPlaceableStart) (0 + (length v + p)))
        by (apply (get_text_slice_placeable bs p v _ H Hline)).
      rewrite (step_text v _ TPlaceableStart 0 0 (is_nonblank v) phs ne lnb ci rl p n Hrole Hv H Hts).
      cbn [role_after Nat.add].
      assert (Hs' : simple_elements (PlaceableElement (Inline i2) :: r2) true = true) by (cbn [simple_elements]; exact Hr).
      assert (Hnil' : PlaceableElement (Inline i2) :: r2 = [] -> (if is_nonblank v then Some ne else lnb) = Some lnbF)
        by discriminate.
      assert (Hcons' : PlaceableElement (Inline i2) :: r2 <> [] ->
                       lnbF = S ne + length (PlaceableElement (Inline i2) :: r2) - 1).
      { intros _. rewrite (Hcons ltac:(discriminate)). cbn [length]. lia. }
      assert (Hn' : length (123%N :: b1 ++ inline_text i2 ++ b2 ++ 125%N :: L2) + 2 * c + 8 <= n)
        by (rewrite app_length in Hn; lia).
      destruct (IH true T used c nx lnbF ci (PHText p (length v + p) 0 rl :: phs) (S ne)
                   (if is_nonblank v then Some ne else lnb) Continuation (length v + p) n
                   Hs' Hlast HT eq_refl Hnil' Hcons' (at_app _ _ _ _ H) Hn')
        as (pn & extra & ne' & role' & E & Hfin & Hlen).
      exists (PHText p (length v + p) 0 rl :: pn), extra, ne', role'. split; [|split].
      * rewrite E. f_equal; [|rewrite !app_length; lia]. f_equal. cbn [rev]. rewrite <- !app_assoc. reflexivity.
      * apply fa_some; [|exact Hfin].
         pose proof (fin_text lnbF ci ne p (length v + p) 0 rl p v) as Hf.
         rewrite Hrole in Hf.
         replace (Nat.eqb lnbF ne) with false in Hf
           by (symmetry; apply Nat.eqb_neq; rewrite (Hcons ltac:(discriminate)); cbn [length]; lia).
         apply Hf; [reflexivity | lia|].
         apply (at_slice bs p v _ H); [apply Hscv | reflexivity].
      * cbn [length]. rewrite Hlen. reflexivity.
  - (* a placeable *)
    cbn [simple_elements] in Hs. apply andb_prop in Hs as [Hi Hr].
    destruct n as [|n]; [lia|].
    assert (H' : at_ bs p (123%N :: b1 ++ inline_text i ++ b2 ++ 125%N :: L ++ T)).
    { cbn [app] in H. rewrite <- !app_assoc in H. cbn [app] in H. exact H. }
    assert (HlenL : length (123%N :: b1 ++ inline_text i ++ b2 ++ 125%N :: L) =
                    length (123%N :: b1 ++ inline_text i ++ b2 ++ [125%N]) + length L).
    { cbn [length]. rewrite !app_length. cbn [length]. lia. }
    rewrite (step_placeable i b1 b2 (L ++ T) phs ne lnb ci rl p n Hrole Hi Hb1 Hb2 H'
               ltac:(rewrite HlenL in Hn; cbn [length] in Hn; rewrite !app_length in Hn; lia)).
    assert (H2 : at_ bs (length (123%N :: b1 ++ inline_text i ++ b2 ++ [125%N]) + p) (L ++ T)).
    { replace (123%N :: b1 ++ inline_text i ++ b2 ++ 125%N :: L ++ T)
        with ((123%N :: b1 ++ inline_text i ++ b2 ++ [125%N]) ++ L ++ T) in H'
        by (cbn [app]; rewrite <- !app_assoc; reflexivity).
      apply (at_app _ _ _ _ H'). }
    assert (Hlast' : last_text_ok r) by (destruct r; [exact Logic.I | exact Hlast]).
    assert (Hnil' : r = [] -> Some ne = Some lnbF).
    { intros ->. rewrite (Hcons ltac:(discriminate)). cbn [length]. f_equal. lia. }
    assert (Hcons' : r <> [] -> lnbF = S ne + length r - 1).
    { intros Hne. rewrite (Hcons ltac:(discriminate)). cbn [length]. destruct r; [congruence | cbn [length]; lia]. }
    assert (Hn' : length L + 2 * c + 8 <= n) by (rewrite HlenL in Hn; cbn [length] in Hn |- *; lia).
    destruct (IH false T used c nx lnbF ci (PHPlaceable (Inline i) :: phs) (S ne) (Some ne) Continuation _ n
                 Hr Hlast' HT eq_refl Hnil' Hcons' H2 Hn')
      as (pn & extra & ne' & role' & E & Hfin & Hlen).
    exists (PHPlaceable (Inline i) :: pn), extra, ne', role'. split; [|split].
    + rewrite E. f_equal; [|rewrite HlenL; lia]. f_equal. cbn [rev]. rewrite <- !app_assoc. reflexivity.
    + apply fa_some; [apply fin_placeable | exact Hfin].
    + cbn [length]. rewrite Hlen. reflexivity.
Qed.

Lemma line_layout_placeable_inv i r L : line_layout (PlaceableElement (Inline i) :: r) L ->
  exists b1 b2 L2, L = 123%N :: b1 ++ inline_text i ++ b2 ++ 125%N :: L2 /\ all_blank b1 /\ all_blank b2 /\
                   line_layout r L2.
Proof. intros H. inversion H; subst. eauto 8. Qed.

(* pattern.rs drop_empty_tail leaves the elements of a line of the fragment alone: the last element is a
   placeable, or a text that is its own trimmed form and is not empty *)
Definition tail_kept (els : list pattern_element) : Prop := drop_empty_tail els = Some (Pattern els).

Lemma tail_kept_intro els : els <> [] ->
  match rev els with TextElement v :: _ => trim_end v = v /\ v <> [] | _ => True end -> tail_kept els.
Proof.
  intros Hne Hl. unfold tail_kept, drop_empty_tail.
  assert (Hd : drop_empty_tail_rev (rev els) = rev els).
  { destruct (rev els) as [|[v|e] r]; try reflexivity. cbn [drop_empty_tail_rev]. destruct Hl as [-> Hv].
    destruct v; [congruence | reflexivity]. }
  rewrite Hd, rev_involutive. destruct els; [congruence | reflexivity].
Qed.

Lemma finish_pattern_ok extra phs_all ne' lnbF ci role' els q :
  fin_all lnbF ci 0 phs_all els -> length phs_all = S lnbF -> tail_kept els ->
  finish_pattern bs (PState (extra ++ rev phs_all) ne' (Some lnbF) ci role') q = Ok (Some (Pattern els)) q.
Proof.
  intros Hfin Hlen Hk. unfold finish_pattern. cbn [last_non_blank elements common_indent].
  rewrite rev_app_distr, rev_involutive. rewrite <- Hlen, firstn_app_len.
  step (finish_elements_all lnbF ci 0 phs_all els Hfin q). unfold ret. rewrite Hk. reflexivity.
Qed.

Lemma last_ok_last_text_ok els prev : simple_elements els prev = true -> last_ok els = true -> last_text_ok els.
Proof.
  revert prev. induction els as [|el r IH]; intros prev Hs Hl; [exact Logic.I|].
  destruct r as [|el2 r2].
  - destruct el as [v|e]; [|exact Logic.I]. cbn [last_ok rev app] in Hl. cbn [last_text_ok].
    apply negb_true_iff in Hl. exact Hl.
  - assert (Hl' : last_ok (el2 :: r2) = true).
    { unfold last_ok in *. cbn [rev] in Hl |- *. destruct (rev r2 ++ [el2]) eqn:E; [destruct (rev r2); discriminate|].
      cbn [app] in Hl. exact Hl. }
    assert (Hs' : exists prev', simple_elements (el2 :: r2) prev' = true).
    { destruct el as [v | [sel vs | i]]; cbn [simple_elements] in Hs; try discriminate Hs.
      - apply andb_prop in Hs as [_ Hs]. exists true. exact Hs.
      - apply andb_prop in Hs as [_ Hs]. exists false. exact Hs. }
    destruct Hs' as [prev' Hs']. specialize (IH prev' Hs' Hl').
    destruct el; exact IH.
Qed.

Lemma rev_head_last (els : list pattern_element) prev : simple_elements els prev = true -> last_text_ok els ->
  match rev els with TextElement v :: _ => inner_text v = true /\ ends_nonspace v | _ => True end.
Proof.
  revert prev. induction els as [|el r IH]; intros prev Hs Hl; [exact Logic.I|].
  destruct r as [|el2 r2].
  - destruct el as [v|e]; [|exact Logic.I]. cbn [rev app]. cbn [last_text_ok] in Hl.
    cbn [simple_elements] in Hs. apply andb_prop in Hs as [Hs _]. apply andb_prop in Hs as [_ Hv]. auto.
  - assert (Hs' : exists prev', simple_elements (el2 :: r2) prev' = true).
    { destruct el as [v | [sel vs | i]]; cbn [simple_elements] in Hs; try discriminate Hs.
      - apply andb_prop in Hs as [_ Hs]. exists true. exact Hs.
      - apply andb_prop in Hs as [_ Hs]. exists false. exact Hs. }
    destruct Hs' as [prev' Hs'].
    assert (Hl' : last_text_ok (el2 :: r2)) by (destruct el; exact Hl).
    specialize (IH prev' Hs' Hl'). cbn [rev] in IH |- *.
    destruct (rev r2 ++ [el2]) as [|x xs] eqn:E; [destruct (rev r2); discriminate E|]. exact IH.
Qed.

Lemma simple_pattern_tail_kept els : simple_pattern (Pattern els) = true -> tail_kept els.
Proof.
  intros Hp. destruct (simple_pattern_parts els Hp) as (Hne & Hs & Hf & Hl).
  apply tail_kept_intro; [exact Hne|].
  pose proof (rev_head_last els false Hs (last_ok_last_text_ok els false Hs Hl)) as H.
  destruct (rev els) as [|[v|e] r]; try exact Logic.I. destruct H as [Hv Hlast].
  destruct (inner_text_spec v Hv) as (b & t & Ev & _ & Hline).
  assert (Hnev : v <> []) by (rewrite Ev; discriminate).
  split; [apply trim_end_text; assumption | exact Hnev].
Qed.

(* the first byte of a line *)
Lemma line_layout_head els L prev T : line_layout els L -> els <> [] -> simple_elements els prev = true ->
  first_ok els = true ->
  head_not is_space (L ++ T) /\ no_eol_head (L ++ T) /\ no_blank_line_head (L ++ T).
Proof.
  intros HL Hne Hs Hf. destruct HL as [| v r L HL | i b1 b2 r L Hb1 Hb2 HL]; [congruence| |].
  - cbn [simple_elements] in Hs. apply andb_prop in Hs as [Hs _]. apply andb_prop in Hs as [_ Hv].
    destruct (inner_text_spec v Hv) as (b & t & -> & Hc & Hline).
    cbn [first_ok] in Hf. apply negb_true_iff in Hf.
    unfold text_line in Hline. cbn [forallb] in Hline. apply andb_prop in Hline as [Hb _].
    apply wf_text_byte_spec in Hb as (_ & _ & H13 & H10). cbn [app].
    split; [exact Hf | split; [apply no_eol_head_byte | apply no_blank_line_head_byte]; assumption].
  - cbn [app]. split; [reflexivity | split; reflexivity].
Qed.

Lemma no_blank_line_head_sp ind l : head_not is_space l -> no_eol_head l -> no_blank_line_head (sp ind ++ l).
Proof.
  intros H1 H2. unfold no_blank_line_head.
  rewrite (scan_while_exact _ _ _ (forallb_is_space_sp ind) H1), sp_length.
  replace ind with (length (sp ind)) at 1 by apply sp_length. rewrite skipn_app_len. exact H2.
Qed.

(* the pattern loop and finish_pattern on a printed line, from the position get_pattern hands over *)
Lemma line_inline els L T used c nx p n :
  simple_pattern (Pattern els) = true -> line_layout els L -> after_value T used c nx ->
  at_ bs p (L ++ T) -> length L + 2 * c + 8 <= n ->
  (st <- pattern_loop bs n (PState [] 0 None None InitialLineStart) ;; finish_pattern bs st) p =
  Ok (Some (Pattern els)) (used + (length L + p)).
Proof.
  intros Hp HL HT H Hn. destruct (simple_pattern_parts els Hp) as (Hne & Hs & Hf & Hl).
  destruct (elements_loop els L HL false T used c nx (length els - 1) None [] 0 None InitialLineStart p n
              Hs (last_ok_last_text_ok els false Hs Hl) HT eq_refl ltac:(congruence) ltac:(intros _; reflexivity) H Hn)
    as (pn & extra & ne' & role' & E & Hfin & Hlen).
  step E. rewrite app_nil_r.
  apply finish_pattern_ok; [exact Hfin | | apply simple_pattern_tail_kept, Hp]. rewrite Hlen. destruct els; [congruence | cbn [length]; lia].
Qed.

Lemma line_block els L ind T used c nx p n :
  simple_pattern (Pattern els) = true -> first_byte_ok_for_block (Pattern els) = true -> 1 <= ind ->
  line_layout els L -> after_value T used c nx ->
  at_ bs p (sp ind ++ L ++ T) -> length L + 2 * c + 9 <= n ->
  (st <- pattern_loop bs n (PState [] 0 None None LineStart) ;; finish_pattern bs st) p =
  Ok (Some (Pattern els)) (used + (length L + (ind + p))).
Proof.
  intros Hp Hok Hind HL HT H Hn. destruct (simple_pattern_parts els Hp) as (Hne & Hs & Hf & Hl).
  pose proof (last_ok_last_text_ok els false Hs Hl) as Hlast.
  destruct n as [|n]; [lia|].
  pose proof (at_app _ _ _ _ H) as Hq. rewrite sp_length in Hq.
  destruct HL as [| v r L HL | i b1 b2 r L Hb1 Hb2 HL]; [congruence| |].
  - (* the line starts with text *)
    cbn [simple_elements] in Hs. apply andb_prop in Hs as [Hs Hr]. apply andb_prop in Hs as [_ Hv].
    destruct (inner_text_spec v Hv) as (b & t & Ev & Hc & Hline).
    assert (H32 : N.eqb b 32 = false) by (rewrite Ev in Hf; cbn [first_ok] in Hf; apply negb_true_iff, Hf).
    assert (Hcont : is_byte_pattern_continuation b = true).
    { unfold text_line in Hline. rewrite Ev in Hline. cbn [forallb] in Hline. apply andb_prop in Hline as [Hb' _].
      apply wf_text_byte_spec in Hb' as (_ & H125 & _ & _).
      rewrite Ev in Hok. cbn [first_byte_ok_for_block pattern_elements] in Hok.
      apply negb_true_iff in Hok. apply orb_false_elim in Hok as [Hok H42]. apply orb_false_elim in Hok as [H46 H91].
      unfold is_byte_pattern_continuation. rewrite H46, H125, H91, H42. reflexivity. }
    assert (Hnb : is_nonblank v = true).
    { assert (H13 : N.eqb b 13 = false).
      { unfold text_line in Hline. rewrite Ev in Hline. cbn [forallb] in Hline. apply andb_prop in Hline as [Hb' _].
        apply wf_text_byte_spec in Hb'. tauto. }
      rewrite Ev. cbn [is_nonblank existsb]. unfold c_sp, c_cr. rewrite ?H32, ?H13. reflexivity. }
    assert (Hscv : forall X, starts_char (v ++ X) = true) by (intros X; rewrite Ev; cbn; rewrite Hc; reflexivity).
    assert (Hlenv : 1 <= length v) by (rewrite Ev; cbn [length]; clear; lia).
    rewrite <- app_assoc in H, Hq.
    destruct r as [|el2 r2].
    + (* and that is all *)
      inversion HL; subst L. rewrite app_nil_r in *. cbn [app] in H, Hq. cbn [last_text_ok] in Hlast.
      destruct (after_value_line_tail T used c nx HT) as (term & eo & po & R & Hlt).
      destruct (get_text_slice_line (ind + p) v T term eo po R Hq Hline Hlt) as [Hts _]. rewrite Hnb in Hts.
      rewrite (bind_congr _ _ _ _ _ (step_block_text v b t ind T term eo po p n Ev Hline H32 Hcont Hind H Hts)).
      destruct (after_line T used c nx term eo po R [PHText p (eo + (length v + (ind + p))) ind LineStart] 1 (Some 0) (Some ind)
                           (length v + (ind + p)) n HT Hlt (at_app _ _ _ _ Hq) ltac:(clear - Hn; lia))
        as (extra & ne' & role' & E).
      step E.
      apply (finish_pattern_ok extra [PHText p (eo + (length v + (ind + p))) ind LineStart] ne' 0 (Some ind) role');
        [|reflexivity | apply simple_pattern_tail_kept, Hp].
      destruct (last_text_slice v T used c nx term eo po R (ind + p) Hv Hlast HT Hlt Hq) as [v' [Es Et]].
      apply fa_some; [|constructor].
      pose proof (fin_text 0 (Some ind) 0 p (eo + (length v + (ind + p))) ind LineStart (ind + p) v') as Hfn.
      cbn [is_line_start Nat.eqb] in Hfn. rewrite Et in Hfn.
      apply Hfn; [clear; lia | clear - Hlenv; lia | exact Es].
    + (* a placeable follows *)
      destruct el2 as [v2 | [sel vs | i2]]; cbn [simple_elements] in Hr; try discriminate Hr.
      destruct (line_layout_placeable_inv i2 r2 L HL) as (b1 & b2 & L2 & -> & Hb1 & Hb2 & HL2).
      assert (Hts : get_text_slice bs (ind + p) =
                    Ok (ind + p, 0 + (length v + (ind + p)), true, TPlaceableStart) (0 + (length v + (ind + p)))).
      { rewrite <- Hnb. apply (get_text_slice_placeable bs (ind + p) v _ Hq Hline). }
      rewrite (bind_congr _ _ _ _ _ (step_block_text v b t ind _ TPlaceableStart 0 0 p n Ev Hline H32 Hcont Hind H Hts)).
      cbn [role_after Nat.add].
      assert (Hs' : simple_elements (PlaceableElement (Inline i2) :: r2) true = true) by (cbn [simple_elements]; exact Hr).
      assert (HL' : line_layout (PlaceableElement (Inline i2) :: r2) (123%N :: b1 ++ inline_text i2 ++ b2 ++ 125%N :: L2))
        by (constructor; assumption).
      destruct (elements_loop _ _ HL' true T used c nx (length (PlaceableElement (Inline i2) :: r2)) (Some ind)
                  [PHText p (length v + (ind + p)) ind LineStart] 1 (Some 0) Continuation (length v + (ind + p)) n
                  Hs' Hlast HT eq_refl ltac:(discriminate) ltac:(clear; intros _; cbn [length]; lia)
                  (at_app _ _ _ _ Hq) ltac:(clear - Hn; rewrite app_length in Hn; lia))
        as (pn & extra & ne' & role' & E & Hfin & Hlen).
      step E.
      replace (extra ++ rev pn ++ [PHText p (length v + (ind + p)) ind LineStart])
        with (extra ++ rev (PHText p (length v + (ind + p)) ind LineStart :: pn)) by reflexivity.
      rewrite (finish_pattern_ok extra _ ne' _ (Some ind) role' (TextElement v :: PlaceableElement (Inline i2) :: r2)).
      * f_equal. rewrite !app_length. clear; lia.
      * apply fa_some; [|exact Hfin].
        pose proof (fin_text (length (PlaceableElement (Inline i2) :: r2)) (Some ind) 0 p (length v + (ind + p)) ind LineStart
                             (ind + p) v) as Hfn.
        cbn [is_line_start] in Hfn. cbn [length Nat.eqb] in Hfn.
        apply Hfn; [clear; lia | clear - Hlenv; lia|].
        apply (at_slice bs (ind + p) v _ Hq); [apply Hscv | reflexivity].
      * cbn [length]. rewrite Hlen. reflexivity.
      * apply simple_pattern_tail_kept, Hp.
  - (* the line starts with a placeable *)
    assert (H' : at_ bs p (sp ind ++ 123%N :: (b1 ++ inline_text i ++ b2 ++ 125%N :: L) ++ T)) by exact H.
    rewrite (bind_congr _ _ _ _ _ (step_block_indent ind _ p n Hind H')).
    assert (HL' : line_layout (PlaceableElement (Inline i) :: r) (123%N :: b1 ++ inline_text i ++ b2 ++ 125%N :: L))
      by (constructor; assumption).
    destruct (elements_loop _ _ HL' false T used c nx (length (PlaceableElement (Inline i) :: r)) (Some ind)
                [PHText p (ind + p) ind LineStart] 1 None Continuation (ind + p) n
                Hs Hlast HT eq_refl ltac:(discriminate) ltac:(clear; intros _; cbn [length]; lia) Hq ltac:(clear - Hn; lia))
      as (pn & extra & ne' & role' & E & Hfin & Hlen).
    step E.
    replace (extra ++ rev pn ++ [PHText p (ind + p) ind LineStart])
      with (extra ++ rev (PHText p (ind + p) ind LineStart :: pn)) by reflexivity.
    apply finish_pattern_ok.
    + apply fa_none; [|exact Hfin]. apply fin_text_none. cbn [is_line_start]. clear; lia.
    + cbn [length]. rewrite Hlen. reflexivity.
    + apply simple_pattern_tail_kept, Hp.
Qed.

Lemma get_pattern_S n :
  get_pattern bs (S n) =
  (skip_blank_inline bs ;;;
   eol <- skip_eol bs ;;
   r <- (if eol then skip_blank_block bs ;;; ret LineStart else ret InitialLineStart) ;;
   st <- pattern_loop bs n (PState [] 0 None None r) ;;
   finish_pattern bs st).
Proof. reflexivity. Qed.

(* get_pattern on a printed one-line value *)
Lemma get_pattern_value els V T used c nx p n :
  simple_pattern (Pattern els) = true -> value_layout els V -> after_value T used c nx -> at_ bs p (V ++ T) ->
  length V + 2 * c + 12 <= n ->
  get_pattern bs n p = Ok (Some (Pattern els)) (used + (length V + p)).
Proof.
  intros Hp HV HT H Hn. destruct (simple_pattern_parts els Hp) as (Hne & Hs & Hf & Hl).
  destruct n as [|n]; [lia|]. rewrite get_pattern_S.
  destruct HV as [k L HL | k x c' BL ind L Hok Hx HBL Hind HL].
  - destruct (line_layout_head els L false T HL Hne Hs Hf) as (Hh1 & Hh2 & Hh3).
    rewrite <- app_assoc in H.
    step (skip_blank_inline_sp bs p k (L ++ T) H Hh1).
    pose proof (at_app _ _ _ _ H) as H1. rewrite sp_length in H1.
    step (skip_eol_none bs (k + p) (L ++ T) H1 Hh2). rewrite bind_ret.
    rewrite (line_inline els L T used c nx (k + p) n Hp HL HT H1) by (rewrite app_length, sp_length in Hn; lia).
    f_equal. rewrite app_length, sp_length. lia.
  - destruct (line_layout_head els L false T HL Hne Hs Hf) as (Hh1 & Hh2 & Hh3).
    rewrite <- !app_assoc in H.
    assert (Hhx : head_not is_space (x ++ BL ++ sp ind ++ L ++ T)) by (destruct Hx as [-> | ->]; reflexivity).
    step (skip_blank_inline_sp bs p k _ H Hhx).
    pose proof (at_app _ _ _ _ H) as H1. rewrite sp_length in H1.
    step (skip_eol_eol bs (k + p) x _ H1 Hx).
    pose proof (at_app _ _ _ _ H1) as H2.
    assert (Hnb : no_blank_line_head (sp ind ++ L ++ T)) by (apply no_blank_line_head_sp; assumption).
    rewrite bind_assoc.
    step (skip_blank_block_lines bs _ c' BL _ H2 HBL Hnb). rewrite bind_ret.
    pose proof (at_app _ _ _ _ H2) as H3.
    set (p0 := length BL + (length x + (k + p))) in *.
    rewrite (line_block els L ind T used c nx p0 n Hp Hok Hind HL HT H3)
      by (rewrite !app_length, !sp_length in Hn; lia).
    f_equal. unfold p0. rewrite !app_length, !sp_length. lia.
Qed.

(* ---- entries ---- *)
(* the first byte of an entry, or the end of the input *)
Definition entry_start_bytes (next : bytes) : Prop :=
  next = [] \/ exists b t, next = b :: t /\ (is_ascii_alphabetic b = true \/ b = 45%N \/ b = 35%N).

Lemma entry_start_byte_facts b :
  is_ascii_alphabetic b = true \/ b = 45%N \/ b = 35%N ->
  N.eqb b 32 = false /\ N.eqb b 10 = false /\ N.eqb b 13 = false /\ N.eqb b 123 = false /\
  is_cont b = false /\ N.eqb b 46 = false.
Proof.
  intros [H | [-> | ->]]; [|repeat split; reflexivity|repeat split; reflexivity].
  unfold is_ascii_alphabetic, in_rng in H. unfold is_cont, in_rng. repeat split; lia.
Qed.

Lemma entry_start_region_stop next : entry_start_bytes next -> region_stop next.
Proof.
  intros [-> | (b & t & -> & Hb)]; [left; reflexivity|].
  right; left. exists b, t. destruct (entry_start_byte_facts b Hb) as (H1 & H2 & H3 & H4 & H5 & _).
  repeat split; assumption.
Qed.

Lemma entry_start_no_blank_line next : entry_start_bytes next -> no_blank_line_head next.
Proof.
  intros [-> | (b & t & -> & Hb)]; [apply no_blank_line_head_nil|].
  destruct (entry_start_byte_facts b Hb) as (H1 & H2 & H3 & _). apply no_blank_line_head_byte; assumption.
Qed.

Inductive entry_tail : bytes -> nat -> nat -> bytes -> Prop :=
| et_eof : entry_tail [] 0 0 []
| et_lines x c BL next :
    is_eol_bytes x -> blank_lines_of c BL -> entry_start_bytes next ->
    entry_tail (x ++ BL ++ next) (length x + length BL) c next.

Lemma entry_tail_after_value T used c next : entry_tail T used c next -> after_value T used c next.
Proof.
  intros [|x c' BL nx Hx HBL Hn]; [constructor|]. constructor; try assumption. apply entry_start_region_stop, Hn.
Qed.

Lemma entry_tail_next T used c next : entry_tail T used c next ->
  entry_start_bytes next /\ forall p, at_ bs p T -> at_ bs (used + p) next.
Proof.
  intros [|x c' BL nx Hx HBL Hn].
  - split; [left; reflexivity | intros p H; exact H].
  - split; [exact Hn|]. intros p H. apply at_app in H. apply at_app in H.
    replace (length x + length BL + p) with (length BL + (length x + p)) by lia. exact H.
Qed.

(* get_attributes when no attribute follows *)
Lemma get_attributes_none next acc p n :
  entry_start_bytes next -> at_ bs p next -> 1 <= n -> get_attributes bs n acc p = Ok (rev acc) p.
Proof.
  intros Hn H Hfuel. destruct n as [|n]; [lia|]. cbn [get_attributes]. rewrite bind_get_ptr.
  destruct Hn as [-> | (b & t & -> & Hb)].
  - step (skip_blank_inline_none bs p [] H Logic.I).
    step (take_byte_if_no bs p 46 [] H Logic.I). reflexivity.
  - destruct (entry_start_byte_facts b Hb) as (H32 & _ & _ & _ & _ & H46).
    step (skip_blank_inline_none bs p (b :: t) H H32).
    step (take_byte_if_no bs p 46 (b :: t) H H46). reflexivity.
Qed.

Lemma wf_identifier_head id : wf_identifier id = true ->
  exists b r, id = b :: r /\ is_ascii_alphabetic b = true.
Proof.
  destruct id as [|b r]; [discriminate|]. cbn [wf_identifier]. intros H. apply andb_prop in H as [Hb _].
  exists b, r. split; [reflexivity | exact Hb].
Qed.

Lemma sp_eq_head k (l : bytes) : head_not is_ident_char (sp k ++ 61%N :: l) /\ starts_char (sp k ++ 61%N :: l) = true.
Proof. destruct k; split; reflexivity. Qed.

(* ---- attributes ---- *)
(* the source from the indentation of an attribute line on: attributes, text, what follows the last
   attribute, the largest number of blank lines after a value, bytes up to what follows *)
Inductive attrs_at : list attribute -> bytes -> bytes -> nat -> nat -> Prop :=
| aa_nil next : attrs_at [] next next 0 0
| aa_cons aid els r k k1 V T used c R next cm len :
    wf_identifier aid = true -> simple_pattern (Pattern els) = true ->
    value_layout els V -> after_value T used c R -> attrs_at r R next cm len ->
    attrs_at (Attribute aid (Pattern els) :: r)
             (sp (S k) ++ 46%N :: aid ++ sp k1 ++ 61%N :: V ++ T) next (Nat.max c cm)
             (length (sp (S k) ++ 46%N :: aid ++ sp k1 ++ 61%N :: V) + used + len).

Lemma get_attribute_at aid els k1 V T used c R p n :
  wf_identifier aid = true -> simple_pattern (Pattern els) = true -> value_layout els V -> after_value T used c R ->
  at_ bs p (aid ++ sp k1 ++ 61%N :: V ++ T) -> length V + 2 * c + 12 <= n ->
  get_attribute bs n p =
  Ok (Attribute aid (Pattern els)) (used + (length (aid ++ sp k1 ++ 61%N :: V) + p)).
Proof.
  intros Hid Hv HV HT H Hn. unfold get_attribute.
  destruct (sp_eq_head k1 (V ++ T)) as [Hh1 Hh2].
  step (get_identifier_ok bs p aid _ H Hid Hh1 Hh2).
  pose proof (at_app _ _ _ _ H) as H1.
  step (skip_blank_inline_sp bs _ k1 _ H1 eq_refl).
  pose proof (at_app _ _ _ _ H1) as H2. rewrite sp_length in H2.
  step (expect_byte_yes bs _ 61 _ H2).
  pose proof (at_cons _ _ _ _ H2) as H3.
  step (get_pattern_value els V T used c R _ n Hv HV HT H3 Hn).
  unfold ret. f_equal. rewrite !app_length, sp_length. cbn [length]. lia.
Qed.

Lemma get_attributes_at attrs R next cm len : attrs_at attrs R next cm len -> entry_start_bytes next ->
  forall acc p n, at_ bs p R -> len + 2 * cm + 14 <= n ->
  get_attributes bs n acc p = Ok (rev acc ++ attrs) (len + p) /\ at_ bs (len + p) next.
Proof.
  intros HA Hnext. induction HA as [next | aid els r k k1 V T used c R next cm len Hid Hv HV HT HA IH];
    intros acc p n H Hn.
  - split; [|exact H]. rewrite app_nil_r. apply (get_attributes_none next acc p n Hnext H). lia.
  - destruct n as [|n]; [lia|]. cbn [get_attributes]. rewrite bind_get_ptr.
    step (skip_blank_inline_sp bs p (S k) _ H eq_refl).
    pose proof (at_app _ _ _ _ H) as H1. rewrite sp_length in H1.
    step (take_byte_if_yes bs _ 46 _ H1).
    pose proof (at_cons _ _ _ _ H1) as H2.
    assert (Hc : length V + 2 * c + 12 <= n).
    { rewrite (app_length (sp (S k))), sp_length in Hn. cbn [length] in Hn. rewrite !app_length in Hn. cbn [length] in Hn. lia. }
    pose proof (get_attribute_at aid els k1 V T used c R _ n Hid Hv HV HT H2 Hc) as Hga.
    cbn [negb]. step (try_ok _ _ _ _ Hga).
    assert (H3 : at_ bs (used + (length (aid ++ sp k1 ++ 61%N :: V) + S (S k + p))) R).
    { apply (after_value_next T used c R HT).
      replace (aid ++ sp k1 ++ 61%N :: V ++ T) with ((aid ++ sp k1 ++ 61%N :: V) ++ T) in H2
        by (rewrite <- !app_assoc; reflexivity).
      apply (at_app _ _ _ _ H2). }
    destruct (IH Hnext (Attribute aid (Pattern els) :: acc) _ n H3) as [E Hat].
    { rewrite (app_length (sp (S k))), sp_length in Hn. lia. }
    assert (Hpos : len + (used + (length (aid ++ sp k1 ++ 61%N :: V) + S (S k + p))) =
                   length (sp (S k) ++ 46%N :: aid ++ sp k1 ++ 61%N :: V) + used + len + p).
    { rewrite (app_length (sp (S k))), sp_length. cbn [length]. lia. }
    rewrite Hpos in E, Hat. split; [|exact Hat].
    rewrite E. cbn [rev]. rewrite <- app_assoc. reflexivity.
Qed.

Lemma not_continuation_no_blank_line s b t :
  is_byte_pattern_continuation b = false -> no_blank_line_head (sp (S s) ++ b :: t).
Proof.
  intros Hb. apply no_blank_line_head_sp.
  - apply not_continuation_not_space, Hb.
  - unfold is_byte_pattern_continuation in Hb. apply negb_false_iff in Hb.
    apply no_eol_head_byte.
    + destruct (N.eqb_spec b 10) as [->|]; [discriminate Hb | reflexivity].
    + destruct (N.eqb_spec b 13) as [->|]; [discriminate Hb | reflexivity].
Qed.

Lemma attrs_layout_length attrs A : attrs_layout attrs A -> length attrs <= length A.
Proof.
  induction 1 as [|a r L A HL HA IH]; [cbn; lia|].
  destruct HL as [aid els x k k1 V Hx HV]. cbn [length]. rewrite !app_length, sp_length. cbn [length].
  destruct Hx as [-> | ->]; cbn [length lf crlf]; lia.
Qed.

(* prefix view (what render prints) to suffix view (what the parser walks over) *)
Lemma attrs_layout_at attrs A : attrs_layout attrs A -> forallb simple_attribute attrs = true ->
  forall T used c next, entry_tail T used c next ->
  (attrs = [] /\ A = []) \/
  exists x R len, A ++ T = x ++ R /\ is_eol_bytes x /\ attrs_at attrs R next c len /\
                  (exists s b t, R = sp (S s) ++ b :: t /\ is_byte_pattern_continuation b = false) /\
                  length A + used = length x + len.
Proof.
  induction 1 as [|a r L A HL HA IH]; intros Hs T used c next HT; [left; split; reflexivity|].
  right. cbn [forallb] in Hs. apply andb_prop in Hs as [Ha Hr].
  destruct HL as [aid els x k k1 V Hx HV].
  unfold simple_attribute in Ha. cbn [attr_id attr_value simple_pattern] in Ha.
  apply andb_prop in Ha as [Hid Hv].
  destruct (IH Hr T used c next HT) as [[-> ->] | (x' & R' & len' & E' & Hx' & HA' & Hstart & Hlen)].
  - exists x, (sp (S k) ++ 46%N :: aid ++ sp k1 ++ 61%N :: V ++ T). eexists.
    split; [rewrite app_nil_r, <- !app_assoc; cbn [app]; rewrite <- !app_assoc; reflexivity|].
    split; [exact Hx|]. split.
    + rewrite <- (Nat.max_0_r c).
      apply (aa_cons aid els [] k k1 V T used c next next 0 0 Hid Hv HV (entry_tail_after_value _ _ _ _ HT)).
      constructor.
    + split; [exists k, 46%N; eexists; split; reflexivity|].
      rewrite app_nil_r, !app_length. lia.
  - exists x, (sp (S k) ++ 46%N :: aid ++ sp k1 ++ 61%N :: V ++ x' ++ [] ++ R'). eexists.
    split; [rewrite <- !app_assoc; cbn [app]; rewrite <- !app_assoc, E'; reflexivity|].
    split; [exact Hx|]. split.
    + replace c with (Nat.max 0 c) by apply Nat.max_0_l.
      apply (aa_cons aid els r k k1 V (x' ++ [] ++ R') (length x' + length (@nil N)) 0 R' next c len' Hid Hv HV); [|exact HA'].
      constructor; [exact Hx' | constructor|].
      destruct Hstart as (s & b & t & -> & Hb). right; right. exists s, b, t. split; [reflexivity | exact Hb].
    + split; [exists k, 46%N; eexists; split; reflexivity|].
      rewrite !app_length in *. cbn [length]. lia.
Qed.

(* everything an entry lemma needs to know about the attributes and what follows them *)
Lemma attrs_tail attrs A T used c next :
  attrs_layout attrs A -> forallb simple_attribute attrs = true -> entry_tail T used c next ->
  exists used' c' R cm len,
    after_value (A ++ T) used' c' R /\ attrs_at attrs R next cm len /\ no_blank_line_head R /\
    c' <= c /\ cm <= c /\ used' + len = length A + used.
Proof.
  intros HA Hs HT.
  destruct (attrs_layout_at attrs A HA Hs T used c next HT)
    as [[-> ->] | (x & R & len & E & Hx & HAt & (s & b & t & -> & Hb) & Hlen)].
  - exists used, c, next, 0, 0. cbn [app length].
    split; [apply entry_tail_after_value, HT|]. split; [constructor|].
    split; [apply entry_start_no_blank_line; destruct HT; [left; reflexivity | assumption]|]. lia.
  - exists (length x + length (@nil N)), 0, (sp (S s) ++ b :: t), c, len. rewrite E.
    split; [apply (av_lines x 0 [] _ Hx bl_nil); right; right; exists s, b, t; auto|].
    split; [exact HAt|]. split; [apply not_continuation_no_blank_line, Hb|]. cbn [length]. lia.
Qed.

(* a message without a value: the pattern is None, ptr is left at the first attribute line *)
Lemma get_pattern_none x s b t p n :
  is_eol_bytes x -> is_byte_pattern_continuation b = false ->
  at_ bs p (x ++ sp (S s) ++ b :: t) -> 2 <= n ->
  get_pattern bs n p = Ok None (length x + p).
Proof.
  intros Hx Hb H Hn. destruct n as [|[|n]]; [lia | lia |]. cbn [get_pattern].
  assert (Hhx : head_not is_space (x ++ sp (S s) ++ b :: t)) by (destruct Hx as [-> | ->]; reflexivity).
  step (skip_blank_inline_none bs p _ H Hhx).
  step (skip_eol_eol bs p x _ H Hx).
  pose proof (at_app _ _ _ _ H) as H1.
  rewrite bind_assoc.
  step (skip_blank_block_none bs _ _ H1 (not_continuation_no_blank_line s b t Hb)). rewrite bind_ret.
  assert (Hstop : region_stop (sp (S s) ++ b :: t)) by (right; right; exists s, b, t; auto).
  step (loop_stop _ [] 0 None None _ n Hstop H1). reflexivity.
Qed.

Definition nattrs (e : entry) : nat :=
  match e with Message _ _ a _ | Term _ _ a _ => length a | _ => 0 end.

Lemma get_message_simple id els attrs k V A T used c next p n entry_start :
  wf_identifier id = true -> simple_pattern (Pattern els) = true -> forallb simple_attribute attrs = true ->
  value_layout els V -> attrs_layout attrs A -> entry_tail T used c next ->
  at_ bs p ((id ++ sp k ++ 61%N :: V ++ A) ++ T) ->
  length (id ++ sp k ++ 61%N :: V ++ A) + used + 2 * c + 14 <= n ->
  get_message bs n entry_start p =
  Ok (Message id (Some (Pattern els)) attrs None)
     (used + (length (id ++ sp k ++ 61%N :: V ++ A) + p)).
Proof.
  intros Hid Hv Hattrs HV HA HT H Hn. unfold get_message.
  destruct (attrs_tail attrs A T used c next HA Hattrs HT) as (used' & c' & R & cm & len & HT' & HAt & HR & Hc' & Hcm & Hlen).
  assert (Hfuel1 : length V + 2 * c' + 12 <= n).
  { rewrite !app_length in Hn. cbn [length] in Hn. rewrite !app_length in Hn. lia. }
  assert (Hfuel2 : len + 2 * cm + 14 <= n).
  { rewrite !app_length in Hn. cbn [length] in Hn. rewrite !app_length in Hn. lia. }
  destruct (sp_eq_head k (V ++ A ++ T)) as [Hh1 Hh2].
  assert (H0 : at_ bs p (id ++ sp k ++ 61%N :: V ++ A ++ T)).
  { rewrite <- !app_assoc in H. cbn [app] in H. rewrite <- ?app_assoc in H. exact H. }
  step (get_identifier_ok bs p id _ H0 Hid Hh1 Hh2).
  pose proof (at_app _ _ _ _ H0) as H1.
  step (skip_blank_inline_sp bs _ k _ H1 eq_refl).
  pose proof (at_app _ _ _ _ H1) as H2. rewrite sp_length in H2.
  step (expect_byte_yes bs _ 61 _ H2).
  pose proof (at_cons _ _ _ _ H2) as H3.
  step (get_pattern_value els V (A ++ T) used' c' R _ n Hv HV HT' H3 Hfuel1).
  pose proof (after_value_next _ _ _ _ HT' _ (at_app _ _ _ _ H3)) as H4.
  step (skip_blank_block_none bs _ R H4 HR).
  assert (Hnext : entry_start_bytes next) by (destruct HT; [left; reflexivity | assumption]).
  destruct (get_attributes_at attrs R next cm len HAt Hnext [] _ n H4 Hfuel2) as [Ega _].
  step Ega. cbn [rev app]. unfold ret. f_equal.
  rewrite !app_length, sp_length. cbn [length]. rewrite !app_length. lia.
Qed.

Lemma get_message_novalue id attrs k A T used c next p n entry_start :
  wf_identifier id = true -> forallb simple_attribute attrs = true -> attrs <> [] ->
  attrs_layout attrs A -> entry_tail T used c next ->
  at_ bs p ((id ++ sp k ++ 61%N :: A) ++ T) ->
  length (id ++ sp k ++ 61%N :: A) + used + 2 * c + 14 <= n ->
  get_message bs n entry_start p =
  Ok (Message id None attrs None) (used + (length (id ++ sp k ++ 61%N :: A) + p)).
Proof.
  intros Hid Hattrs Hne HA HT H Hn. unfold get_message.
  destruct (attrs_layout_at attrs A HA Hattrs T used c next HT)
    as [[-> _] | (x & R & len & E & Hx & HAt & (s & b & t & -> & Hb) & Hlen)]; [congruence|].
  assert (Hfuel2 : len + 2 * c + 14 <= n).
  { rewrite !app_length in Hn. cbn [length] in Hn. lia. }
  destruct (sp_eq_head k (A ++ T)) as [Hh1 Hh2].
  assert (H0 : at_ bs p (id ++ sp k ++ 61%N :: A ++ T)).
  { rewrite <- !app_assoc in H. cbn [app] in H. rewrite <- ?app_assoc in H. exact H. }
  step (get_identifier_ok bs p id _ H0 Hid Hh1 Hh2).
  pose proof (at_app _ _ _ _ H0) as H1.
  step (skip_blank_inline_sp bs _ k _ H1 eq_refl).
  pose proof (at_app _ _ _ _ H1) as H2. rewrite sp_length in H2.
  step (expect_byte_yes bs _ 61 _ H2).
  pose proof (at_cons _ _ _ _ H2) as H3. rewrite E in H3.
  step (get_pattern_none x s b t _ n Hx Hb H3 ltac:(lia)).
  pose proof (at_app _ _ _ _ H3) as H4.
  step (skip_blank_block_none bs _ _ H4 (not_continuation_no_blank_line s b t Hb)).
  assert (Hnext : entry_start_bytes next) by (destruct HT; [left; reflexivity | assumption]).
  destruct (get_attributes_at attrs _ next c len HAt Hnext [] _ n H4 Hfuel2) as [Ega _].
  step Ega. cbn [rev app]. destruct attrs as [|a0 r0]; [congruence|].
  unfold ret. f_equal. rewrite !app_length, sp_length. cbn [length]. lia.
Qed.

Lemma value_layout_strip els V : value_layout els V ->
  exists k V0, V = sp k ++ V0 /\ value_layout els (sp 0 ++ V0) /\
               (simple_pattern (Pattern els) = true -> forall T, head_not is_space (V0 ++ T)).
Proof.
  intros [k L HL | k x c BL ind L Hok Hx HBL Hind HL].
  - exists k, L. split; [reflexivity|]. split; [apply (vl_inline els 0 L HL)|].
    intros Hp T. destruct (simple_pattern_parts els Hp) as (Hne & Hs & Hf & _).
    apply (line_layout_head els L false T HL Hne Hs Hf).
  - exists k, (x ++ BL ++ sp ind ++ L). split; [reflexivity|].
    split; [apply (vl_block els 0 x c BL ind L); assumption|].
    intros _ T. destruct Hx as [-> | ->]; reflexivity.
Qed.

Lemma get_term_simple id els attrs k V A T used c next p n entry_start :
  wf_identifier id = true -> simple_pattern (Pattern els) = true -> forallb simple_attribute attrs = true ->
  value_layout els V -> attrs_layout attrs A -> entry_tail T used c next ->
  at_ bs p ((45%N :: id ++ sp k ++ 61%N :: V ++ A) ++ T) ->
  length (45%N :: id ++ sp k ++ 61%N :: V ++ A) + used + 2 * c + 14 <= n ->
  get_term bs n entry_start p =
  Ok (Term id (Pattern els) attrs None)
     (used + (length (45%N :: id ++ sp k ++ 61%N :: V ++ A) + p)).
Proof.
  intros Hid Hv Hattrs HV HA HT H Hn. unfold get_term.
  destruct (attrs_tail attrs A T used c next HA Hattrs HT) as (used' & c' & R & cm & len & HT' & HAt & HR & Hc' & Hcm & Hlen).
  assert (Hfuel2 : len + 2 * cm + 14 <= n).
  { cbn [length] in Hn. rewrite !app_length in Hn. cbn [length] in Hn. rewrite !app_length in Hn. lia. }
  assert (HfuelV : length V + 2 * c' + 12 <= n).
  { cbn [length] in Hn. rewrite !app_length in Hn. cbn [length] in Hn. rewrite !app_length in Hn. lia. }
  assert (H0 : at_ bs p (45%N :: id ++ sp k ++ 61%N :: V ++ A ++ T)).
  { cbn [app] in H. rewrite <- !app_assoc in H. cbn [app] in H. rewrite <- ?app_assoc in H. exact H. }
  step (expect_byte_yes bs p 45 _ H0).
  pose proof (at_cons _ _ _ _ H0) as H0'.
  destruct (sp_eq_head k (V ++ A ++ T)) as [Hh1 Hh2].
  step (get_identifier_ok bs _ id _ H0' Hid Hh1 Hh2).
  pose proof (at_app _ _ _ _ H0') as H1.
  step (skip_blank_inline_sp bs _ k _ H1 eq_refl).
  pose proof (at_app _ _ _ _ H1) as H2. rewrite sp_length in H2.
  step (expect_byte_yes bs _ 61 _ H2).
  pose proof (at_cons _ _ _ _ H2) as H3.
  destruct (value_layout_strip els V HV) as (kv & V0 & -> & HV0 & Hhead).
  assert (Hfuel1 : length (sp 0 ++ V0) + 2 * c' + 12 <= n).
  { rewrite app_length in HfuelV. cbn [sp repeat app]. lia. }
  rewrite <- app_assoc in H3.
  step (skip_blank_inline_sp bs _ kv _ H3 (Hhead Hv (A ++ T))).
  pose proof (at_app _ _ _ _ H3) as H3'. rewrite sp_length in H3'.
  step (get_pattern_value els (sp 0 ++ V0) (A ++ T) used' c' R _ n Hv HV0 HT' H3' Hfuel1).
  pose proof (after_value_next _ _ _ _ HT' _ (at_app _ _ _ _ H3')) as H4.
  step (skip_blank_block_none bs _ R H4 HR).
  assert (Hnext : entry_start_bytes next) by (destruct HT; [left; reflexivity | assumption]).
  destruct (get_attributes_at attrs R next cm len HAt Hnext [] _ n H4 Hfuel2) as [Ega _].
  step Ega. cbn [rev app]. unfold ret. f_equal.
  cbn [sp repeat app length]. rewrite !app_length, !sp_length. cbn [length].
  rewrite !app_length, sp_length. lia.
Qed.

(* ---- comments ---- *)
Definition prefix_level (P : bytes) (lvl : level) : Prop :=
  (P = [35%N] /\ lvl = LRegular) \/ (P = [35; 35]%N /\ lvl = LGroup) \/ (P = [35; 35; 35]%N /\ lvl = LResource).

Definition head_not_hash (t : bytes) : Prop := head_not (fun b => N.eqb b 35) t.

Lemma get_comment_level_prefix P lvl t p :
  prefix_level P lvl -> head_not_hash t -> at_ bs p (P ++ t) ->
  get_comment_level bs p = Ok lvl (length P + p) /\ level_num lvl = length P.
Proof.
  intros HP Ht H. unfold get_comment_level.
  destruct HP as [[-> ->] | [[-> ->] | [-> ->]]]; cbn [app] in H.
  - step (take_byte_if_yes bs p 35 _ H). cbn iota.
    step (take_byte_if_no bs _ 35 t (at_cons _ _ _ _ H) Ht). split; reflexivity.
  - step (take_byte_if_yes bs p 35 _ H). cbn iota.
    step (take_byte_if_yes bs _ 35 _ (at_cons _ _ _ _ H)). cbn iota.
    step (take_byte_if_no bs _ 35 t (at_cons _ _ _ _ (at_cons _ _ _ _ H)) Ht). split; reflexivity.
  - step (take_byte_if_yes bs p 35 _ H). cbn iota.
    step (take_byte_if_yes bs _ 35 _ (at_cons _ _ _ _ H)). cbn iota.
    step (take_byte_if_yes bs _ 35 _ (at_cons _ _ _ _ (at_cons _ _ _ _ H))). split; reflexivity.
Qed.

Lemma get_comment_level_none t p :
  head_not_hash t -> at_ bs p t -> get_comment_level bs p = Ok LNone p.
Proof. intros Ht H. unfold get_comment_level. step (take_byte_if_no bs p 35 t H Ht). reflexivity. Qed.

(* what may follow a line of a comment: the end of the input or a line end *)
Definition line_end_or_eof (rest : bytes) : Prop := rest = [] \/ exists x r, rest = x ++ r /\ is_eol_bytes x.

Lemma wf_comment_line_spec l : wf_comment_line l = true ->
  Forall (fun b => N.eqb b 10 = false /\ N.eqb b 13 = false) l.
Proof.
  unfold wf_comment_line. rewrite forallb_forall, Forall_forall. intros H b Hb. specialize (H b Hb).
  apply negb_true_iff, orb_false_elim in H. exact H.
Qed.

Lemma line_len_line l rest : Forall (fun b => N.eqb b 10 = false /\ N.eqb b 13 = false) l ->
  line_end_or_eof rest -> forall p k, at_ bs p (l ++ rest) -> length l < k -> line_len bs k p = length l.
Proof.
  intros Hl Hrest. induction Hl as [|b l [H10 H13] Hl IH]; intros p k H Hk.
  - destruct k as [|k]; [lia|]. cbn [app] in H. cbn [line_len length].
    destruct Hrest as [-> | (x & r & -> & [-> | ->])].
    + rewrite (at_byte_nil _ _ H). reflexivity.
    + cbn [lf app] in H. rewrite (at_byte _ _ _ _ H). reflexivity.
    + cbn [crlf app] in H. rewrite (at_byte _ _ _ _ H). change (N.eqb 13 c_lf) with false.
      change (N.eqb 13 c_cr) with true. rewrite (at_is_byte _ _ c_lf _ (at_cons _ _ _ _ H)). reflexivity.
  - destruct k as [|k]; [lia|]. cbn [app] in H. cbn [line_len length].
    rewrite (at_byte _ _ _ _ H). unfold c_lf, c_cr. rewrite H10, H13. cbn [andb].
    rewrite (IH _ k (at_cons _ _ _ _ H)) by (cbn [length] in Hk; lia). reflexivity.
Qed.

Lemma line_end_starts_char rest : line_end_or_eof rest -> starts_char rest = true.
Proof. intros [-> | (x & r & -> & [-> | ->])]; reflexivity. Qed.

Lemma get_comment_line_ok l rest p :
  wf_comment_line l = true -> starts_char l = true -> line_end_or_eof rest -> at_ bs p (l ++ rest) ->
  get_comment_line bs p = Ok l (length l + p).
Proof.
  intros Hwf Hsc Hrest H. unfold get_comment_line.
  rewrite (line_len_line l rest (wf_comment_line_spec l Hwf) Hrest p _ H).
  - rewrite (at_slice bs p l rest H); [reflexivity | | apply line_end_starts_char, Hrest].
    apply starts_char_app; [exact Hsc | apply line_end_starts_char, Hrest].
  - pose proof (at_length _ _ _ H) as HL. rewrite app_length in HL. unfold length_. lia.
Qed.

Lemma simple_comment_line_spec l : simple_comment_line l = true ->
  wf_comment_line l = true /\ starts_char l = true.
Proof.
  unfold simple_comment_line. intros H. apply andb_prop in H. exact H.
Qed.

Lemma skip_eol_any rest p : at_ bs p rest ->
  skip_eol bs p = Ok (negb (Nat.eqb (eol_len rest) 0)) (eol_len rest + p).
Proof. intros H. unfold skip_eol. rewrite (at_rest _ _ _ H). destruct (eol_len rest); reflexivity. Qed.

(* one iteration of the comment loop over the line  P sl(l)  followed by a line end or the end of input;
   the line is not the empty last line of the input *)
Lemma comment_line_step P lvl l rest lvl0 content p n :
  prefix_level P lvl -> (lvl0 = LNone \/ lvl0 = lvl) -> simple_comment_line l = true ->
  line_end_or_eof rest -> (l = [] -> rest <> []) ->
  at_ bs p (P ++ sl l ++ rest) ->
  get_comment_loop bs (S n) lvl0 content p =
  get_comment_loop bs n lvl (l :: content) (eol_len rest + (length (P ++ sl l) + p)).
Proof.
  intros HP Hl0 Hl Hrest Hne H.
  destruct (simple_comment_line_spec l Hl) as [Hwf Hsc].
  assert (Hhash : head_not_hash (sl l ++ rest)).
  { destruct l as [|b l]; [|reflexivity]. cbn [sl app].
    destruct Hrest as [-> | (x & r & -> & [-> | ->])]; [exact Logic.I | reflexivity | reflexivity]. }
  destruct (get_comment_level_prefix P lvl _ p HP Hhash H) as [Elvl Hnum].
  cbn [get_comment_loop]. rewrite bind_get_ptr.
  assert (Hlt : Nat.ltb p (length_ bs) = true).
  { destruct HP as [[-> _] | [[-> _] | [-> _]]]; cbn [app] in H; apply (at_ltb _ _ _ _ H). }
  rewrite Hlt. cbn [negb]. step Elvl.
  assert (Hnn : level_eqb lvl LNone = false) by (destruct HP as [[_ ->] | [[_ ->] | [_ ->]]]; reflexivity).
  rewrite Hnn.
  replace (negb (level_eqb lvl0 LNone) && negb (level_eqb lvl lvl0)) with false.
  2:{ destruct Hl0 as [-> | ->]; [reflexivity|]. destruct lvl; reflexivity. }
  rewrite bind_get_ptr.
  pose proof (at_app _ _ _ _ H) as H1.
  destruct l as [|b l].
  - (* an empty line: a line end follows *)
    cbn [sl app] in H1 |- *. specialize (Hne eq_refl).
    destruct Hrest as [-> | (x & r & -> & Hx)]; [congruence|].
    assert (Hne' : Nat.eqb (length P + p) (length_ bs) = false).
    { apply Nat.eqb_neq. destruct Hx as [-> | ->]; cbn [app lf crlf] in H1; apply at_ltb in H1;
        apply Nat.ltb_lt in H1; lia. }
    rewrite Hne'. step (is_eol_eol bs _ x r H1 Hx).
    step (get_comment_line_ok [] (x ++ r) _ eq_refl eq_refl (or_intror (ex_intro _ x (ex_intro _ r (conj eq_refl Hx)))) H1).
    cbn [length Nat.add]. step (skip_eol_any (x ++ r) _ H1).
    rewrite app_nil_r. reflexivity.
  - (* a line with text: "P l" *)
    cbn [sl] in H, H1 |- *.
    assert (H1' : at_ bs (length P + p) (32%N :: (b :: l) ++ rest)) by exact H1.
    assert (Hne' : Nat.eqb (length P + p) (length_ bs) = false).
    { apply Nat.eqb_neq. apply at_ltb in H1'. apply Nat.ltb_lt in H1'. lia. }
    rewrite Hne'. step (is_eol_byte bs _ 32 _ H1' eq_refl eq_refl).
    step (try_ok _ _ _ _ (expect_byte_yes bs _ c_sp _ H1')).
    pose proof (at_cons _ _ _ _ H1') as H2.
    step (get_comment_line_ok (b :: l) rest _ Hwf Hsc Hrest H2).
    pose proof (at_app _ _ _ _ H2) as H3.
    step (skip_eol_any rest _ H3).
    f_equal. rewrite app_length. cbn [length]. lia.
Qed.

(* the comment loop stops: end of input / a line that is no comment line / a comment line of another level *)
Lemma comment_loop_stop_eof lvl content p n :
  at_ bs p [] -> get_comment_loop bs (S n) lvl content p = Ok (Comment (rev content), lvl) p.
Proof.
  intros H. cbn [get_comment_loop]. rewrite bind_get_ptr, (at_ltb_nil _ _ H). reflexivity.
Qed.

Lemma comment_loop_stop_other lvl content b t p n :
  N.eqb b 35 = false -> at_ bs (S p) (b :: t) ->
  get_comment_loop bs (S n) lvl content (S p) = Ok (Comment (rev content), lvl) p.
Proof.
  intros Hb H. cbn [get_comment_loop]. rewrite bind_get_ptr, (at_ltb _ _ _ _ H). cbn [negb].
  step (get_comment_level_none (b :: t) (S p) Hb H). cbn [level_eqb level_num Nat.eqb].
  unfold bind, retreat. cbn [Nat.leb]. unfold ret. f_equal. lia.
Qed.

Lemma comment_loop_stop_level lvl content P' lvl' t p n :
  prefix_level P' lvl' -> head_not_hash t -> lvl <> LNone -> lvl' <> lvl -> at_ bs p (P' ++ t) ->
  get_comment_loop bs (S n) lvl content p = Ok (Comment (rev content), lvl) p.
Proof.
  intros HP Ht Hnn Hne H. cbn [get_comment_loop]. rewrite bind_get_ptr.
  assert (Hlt : Nat.ltb p (length_ bs) = true).
  { destruct HP as [[-> _] | [[-> _] | [-> _]]]; cbn [app] in H; apply (at_ltb _ _ _ _ H). }
  rewrite Hlt. cbn [negb].
  destruct (get_comment_level_prefix P' lvl' t p HP Ht H) as [Elvl Hnum]. step Elvl.
  replace (level_eqb lvl' LNone) with false by (destruct HP as [[_ ->] | [[_ ->] | [_ ->]]]; reflexivity).
  replace (negb (level_eqb lvl LNone) && negb (level_eqb lvl' lvl)) with true
    by (destruct lvl, lvl'; try reflexivity; congruence).
  rewrite Hnum. unfold bind, retreat.
  replace (Nat.leb (length P') (length P' + p)) with true by (symmetry; apply Nat.leb_le; lia).
  unfold ret. f_equal. lia.
Qed.

(* the loop over all lines of a printed comment; what is left to do is the stopping step at `rest` *)
Lemma comment_loop_lines P lvl ls C : comment_layout P ls C -> prefix_level P lvl ->
  forallb simple_comment_line ls = true ->
  forall rest, (last ls [] = [] -> rest <> []) ->
  forall lvl0 content p n, (lvl0 = LNone \/ lvl0 = lvl) -> line_end_or_eof rest ->
  at_ bs p (C ++ rest) -> length ls <= n ->
  get_comment_loop bs n lvl0 content p =
  get_comment_loop bs (n - length ls) lvl (rev ls ++ content) (eol_len rest + (length C + p)).
Proof.
  intros HC HP. induction HC as [l | l x r C Hx Hr HC IH]; intros Hs rest Hlast lvl0 content p n Hl0 Hrest H Hn.
  - cbn [forallb] in Hs. apply andb_prop in Hs as [Hl _]. cbn [last] in Hlast.
    destruct n as [|n]; [cbn [length] in Hn; lia|].
    rewrite <- app_assoc in H.
    rewrite (comment_line_step P lvl l rest lvl0 content p n HP Hl0 Hl Hrest Hlast H).
    cbn [length rev app]. replace (S n - 1) with n by lia. reflexivity.
  - cbn [forallb] in Hs. apply andb_prop in Hs as [Hl Hs].
    assert (Hlast' : last r [] = [] -> rest <> []) by (destruct r; [congruence | exact Hlast]).
    destruct n as [|n]; [cbn [length] in Hn; lia|].
    assert (H' : at_ bs p (P ++ sl l ++ x ++ C ++ rest)) by (rewrite <- !app_assoc in H; exact H).
    rewrite (comment_line_step P lvl l (x ++ C ++ rest) lvl0 content p n HP Hl0 Hl
                (or_intror (ex_intro _ x (ex_intro _ (C ++ rest) (conj eq_refl Hx))))
                ltac:(intros _; destruct Hx as [-> | ->]; discriminate) H').
    rewrite (eol_len_eol x _ Hx).
    assert (H2 : at_ bs (length x + (length (P ++ sl l) + p)) (C ++ rest)).
    { pose proof (at_app _ _ _ _ (at_app _ _ _ _ (at_app _ _ _ _ H'))) as H2.
      replace (length x + (length (sl l) + (length P + p))) with (length x + (length (P ++ sl l) + p)) in H2
        by (rewrite app_length; lia).
      exact H2. }
    rewrite (IH Hs rest Hlast' lvl (l :: content) _ n (or_intror eq_refl) Hrest H2 ltac:(cbn [length] in Hn; lia)).
    cbn [length rev]. rewrite <- app_assoc. cbn [app].
    f_equal. rewrite !app_length. lia.
Qed.

Definition is_comment_entry (e : entry) : bool :=
  match e with CommentEntry _ | GroupComment _ | ResourceComment _ => true | _ => false end.
Definition nlines (e : entry) : nat :=
  match e with CommentEntry c | GroupComment c | ResourceComment c => length (content c) | _ => 0 end.

(* get_entry on a printed message or term of the fragment *)
Lemma get_entry_simple e E T used c next p n :
  plain_entry e = true -> is_comment_entry e = false -> plain_layout e E -> entry_tail T used c next ->
  at_ bs p (E ++ T) -> length E + used + 2 * c + 14 <= n ->
  get_entry bs n p p = Ok e (used + (length E + p)).
Proof.
  intros He Hnc HE HT H Hn. unfold get_entry. rewrite bind_current_byte.
  destruct HE as [ls C HC | ls C HC | ls C HC
                  | id els attrs k V A HV HA | id attrs k A Hne HA | id els attrs k V A HV HA];
    try discriminate Hnc; cbn [plain_entry] in He.
  - apply andb_prop in He as [He Hattrs]. apply andb_prop in He as [Hid Hv].
    destruct (wf_identifier_head id Hid) as (b & r & Eid & Hb).
    assert (Hb0 : at_ bs p (b :: r ++ (sp k ++ 61%N :: V ++ A) ++ T)).
    { rewrite Eid in H. rewrite <- app_assoc in H. exact H. }
    rewrite (at_byte _ _ _ _ Hb0).
    replace (N.eqb b 35) with false by (unfold is_ascii_alphabetic, in_rng in Hb; lia).
    replace (N.eqb b 45) with false by (unfold is_ascii_alphabetic, in_rng in Hb; lia).
    destruct (simple_pattern_spec _ Hv) as [els' [Eels Hv']]; injection Eels as <-.
    apply (get_message_simple id els attrs k V A T used c next p n p); assumption.
  - apply andb_prop in He as [He Hattrs]. apply andb_prop in He as [Hid _].
    destruct (wf_identifier_head id Hid) as (b & r & Eid & Hb).
    assert (Hb0 : at_ bs p (b :: r ++ (sp k ++ 61%N :: A) ++ T)).
    { rewrite Eid in H. rewrite <- app_assoc in H. exact H. }
    rewrite (at_byte _ _ _ _ Hb0).
    replace (N.eqb b 35) with false by (unfold is_ascii_alphabetic, in_rng in Hb; lia).
    replace (N.eqb b 45) with false by (unfold is_ascii_alphabetic, in_rng in Hb; lia).
    apply (get_message_novalue id attrs k A T used c next p n p); assumption.
  - apply andb_prop in He as [He Hattrs]. apply andb_prop in He as [Hid Hv].
    assert (Hb0 : at_ bs p (45%N :: (id ++ sp k ++ 61%N :: V ++ A) ++ T)) by exact H.
    rewrite (at_byte _ _ _ _ Hb0). change (N.eqb 45 35) with false. change (N.eqb 45 45) with true. cbv iota.
    apply (get_term_simple id els attrs k V A T used c next p n p); assumption.
Qed.

(* ---- a comment entry and the blank lines after it ---- *)
(* when no blank line follows a comment, the next entry must not continue it *)
Definition next_after_comment (lvl : level) (c : nat) (S' : bytes) : Prop :=
  c = 0 -> S' = [] \/ (exists b t, S' = b :: t /\ N.eqb b 35 = false) \/
           (exists P' lvl' t, S' = P' ++ t /\ prefix_level P' lvl' /\ head_not_hash t /\ lvl' <> lvl).

Lemma comment_stop_other lvl content x c BL S' b t p0 n :
  is_eol_bytes x -> blank_lines_of c BL -> BL ++ S' = b :: t -> N.eqb b 35 = false -> entry_start_bytes S' ->
  at_ bs p0 (x ++ BL ++ S') ->
  exists p1, get_comment_loop bs (S n) lvl content (length x + p0) = Ok (Comment (rev content), lvl) p1 /\
             skip_blank_block bs p1 = Ok (S c) (length x + length BL + p0).
Proof.
  intros Hx HBL Eb Hb HS' H.
  assert (Hlines : forall q, at_ bs q (10%N :: BL ++ S') ->
                             skip_blank_block bs q = Ok (S c) (S (length BL) + q)).
  { intros q Hq.
    rewrite (skip_blank_block_lines bs q (S c) (sp 0 ++ lf ++ BL) S' Hq
               (bl_cons 0 lf c BL (or_introl eq_refl) HBL) (entry_start_no_blank_line _ HS')).
    reflexivity. }
  destruct Hx as [-> | ->]; cbn [lf crlf app length] in *.
  - exists p0. split.
    + apply (comment_loop_stop_other lvl content b t p0 n Hb). rewrite <- Eb. apply (at_cons _ _ _ _ H).
    + rewrite (Hlines p0 H). f_equal.
  - exists (S p0). split.
    + apply (comment_loop_stop_other lvl content b t (S p0) n Hb). rewrite <- Eb.
      apply (at_cons _ _ _ _ (at_cons _ _ _ _ H)).
    + rewrite (Hlines (S p0) (at_cons _ _ _ _ H)). f_equal. lia.
Qed.

Lemma blank_lines_head c BL : blank_lines_of (S c) BL -> forall S', exists b t, BL ++ S' = b :: t /\ N.eqb b 35 = false.
Proof.
  intros H S'. inversion H as [|s e c' r He Hr]; subst.
  destruct s as [|s].
  - destruct He as [-> | ->]; eexists; eexists; (split; [reflexivity | reflexivity]).
  - eexists; eexists; (split; [reflexivity | reflexivity]).
Qed.

Lemma prefix_level_not_none P lvl : prefix_level P lvl -> lvl <> LNone.
Proof. intros [[_ ->] | [[_ ->] | [_ ->]]]; discriminate. Qed.

Lemma comment_entry_step P lvl ls C T used c S' p n :
  comment_layout P ls C -> prefix_level P lvl -> forallb simple_comment_line ls = true -> (last ls [] = [] -> T <> []) ->
  entry_tail T used c S' -> next_after_comment lvl c S' -> at_ bs p (C ++ T) -> length ls + 1 <= n ->
  exists p1 cnt, get_comment_loop bs n LNone [] p = Ok (Comment ls, lvl) p1 /\
                 skip_blank_block bs p1 = Ok cnt (used + (length C + p)) /\ ((1 <= c -> cnt = S c) /\ cnt <= S c).
Proof.
  intros HC HP Hs Hlast HT Hnext H Hn.
  assert (Hrest : line_end_or_eof T).
  { destruct HT as [|x c' BL nx Hx HBL Hn']; [left; reflexivity | right; exists x, (BL ++ nx); auto]. }
  rewrite (comment_loop_lines P lvl ls C HC HP Hs T Hlast LNone [] p n (or_introl eq_refl) Hrest H ltac:(lia)).
  rewrite app_nil_r.
  destruct (n - length ls) as [|m] eqn:Em; [lia|].
  pose proof (at_app _ _ _ _ H) as H0.
  destruct HT as [|x c BL S' Hx HBL HS'].
  - cbn [eol_len Nat.add]. exists (length C + p), 0. split; [|split].
    + rewrite (comment_loop_stop_eof lvl (rev ls) _ m H0), rev_involutive. reflexivity.
    + apply (skip_blank_block_none bs _ [] H0 no_blank_line_head_nil).
    + split; lia.
  - rewrite (eol_len_eol x _ Hx).
    destruct c as [|c].
    + (* no blank line *)
      inversion HBL; subst. cbn [app length] in *.
      destruct (Hnext eq_refl) as [-> | [(b & t & -> & Hb) | (P' & lvl' & t & -> & HP' & Ht & Hne)]].
      * exists (length x + (length C + p)), 0.
        pose proof (at_app _ _ _ _ H0) as H1. split; [|split].
        -- rewrite (comment_loop_stop_eof lvl (rev ls) _ m H1), rev_involutive. reflexivity.
        -- rewrite (skip_blank_block_none bs _ [] H1 no_blank_line_head_nil). f_equal. lia.
        -- split; lia.
      * destruct (comment_stop_other lvl (rev ls) x 0 [] (b :: t) b t _ m Hx bl_nil eq_refl Hb HS' H0) as [p1 [E1 E2]].
        exists p1, 1. rewrite E1, rev_involutive. split; [reflexivity | split; [|split; lia]].
        rewrite E2. f_equal; cbn [length]; lia.
      * exists (length x + (length C + p)), 0.
        pose proof (at_app _ _ _ _ H0) as H1. split; [|split].
        -- rewrite (comment_loop_stop_level lvl (rev ls) P' lvl' t _ m HP' Ht (prefix_level_not_none _ _ HP) Hne H1),
             rev_involutive. reflexivity.
        -- rewrite (skip_blank_block_none bs _ _ H1 (entry_start_no_blank_line _ HS')). f_equal. lia.
        -- split; lia.
    + destruct (blank_lines_head c BL HBL S') as (b & t & Eb & Hb).
      destruct (comment_stop_other lvl (rev ls) x (S c) BL S' b t _ m Hx HBL Eb Hb HS' H0) as [p1 [E1 E2]].
      exists p1, (S (S c)). rewrite E1, rev_involutive. split; [reflexivity | split; [|split; [reflexivity | lia]]].
      rewrite E2. f_equal; lia.
Qed.

(* finding D7: behind the last line of a comment, a line end and a bare prefix of the same level at the END of
   the input (the printed form of an empty last line without a final line end): the loop returns the comment
   WITHOUT that last line *)
Lemma comment_loop_stop_bare P lvl content p n :
  prefix_level P lvl -> at_ bs p P ->
  get_comment_loop bs (S n) lvl content p = Ok (Comment (rev content), lvl) (length P + p).
Proof.
  intros HP H.
  assert (H' : at_ bs p (P ++ [])) by (rewrite app_nil_r; exact H).
  destruct (get_comment_level_prefix P lvl [] p HP Logic.I H') as [Elvl Hnum].
  cbn [get_comment_loop]. rewrite bind_get_ptr.
  assert (Hlt : Nat.ltb p (length_ bs) = true).
  { destruct HP as [[-> _] | [[-> _] | [-> _]]]; apply (at_ltb _ _ _ _ H). }
  rewrite Hlt. cbn [negb]. step Elvl.
  assert (Hnn : level_eqb lvl LNone = false) by (destruct HP as [[_ ->] | [[_ ->] | [_ ->]]]; reflexivity).
  rewrite Hnn.
  replace (level_eqb lvl lvl) with true by (destruct lvl; reflexivity). cbn [negb andb].
  rewrite bind_get_ptr.
  pose proof (at_app _ _ _ _ H') as H1. pose proof (at_nil_length _ _ H1) as E. unfold length_. rewrite <- E, Nat.eqb_refl.
  reflexivity.
Qed.

Lemma comment_entry_step_d7 P lvl ls C x p n :
  comment_layout P ls C -> prefix_level P lvl -> forallb simple_comment_line ls = true -> is_eol_bytes x ->
  at_ bs p (C ++ x ++ P) -> length ls + 1 <= n ->
  get_comment_loop bs n LNone [] p = Ok (Comment ls, lvl) (length (C ++ x ++ P) + p).
Proof.
  intros HC HP Hs Hx H Hn.
  assert (Hrest : line_end_or_eof (x ++ P)) by (right; exists x, P; auto).
  rewrite (comment_loop_lines P lvl ls C HC HP Hs (x ++ P) ltac:(intros _; destruct Hx as [-> | ->]; discriminate)
             LNone [] p n (or_introl eq_refl) Hrest H ltac:(lia)).
  rewrite app_nil_r, (eol_len_eol x _ Hx).
  destruct (n - length ls) as [|m] eqn:Em; [lia|].
  pose proof (at_app _ _ _ _ (at_app _ _ _ _ H)) as H2.
  rewrite (comment_loop_stop_bare P lvl (rev ls) _ m HP H2), rev_involutive. f_equal. rewrite !app_length. lia.
Qed.

Lemma comment_layout_length P ls C : comment_layout P ls C -> P <> [] -> length ls <= length C.
Proof.
  intros HC HP. assert (1 <= length P) by (destruct P; [congruence | cbn; lia]).
  induction HC as [l | l x r C Hx Hr HC IH]; rewrite ?app_length; cbn [length]; lia.
Qed.

Lemma comment_layout_head P ls C : comment_layout P ls C -> exists t, C = P ++ t /\ head_not_hash t.
Proof.
  intros [l | l x r C' Hx Hr HC].
  - exists (sl l). split; [reflexivity|]. destruct l; [exact Logic.I | reflexivity].
  - exists (sl l ++ x ++ C'). split; [reflexivity|]. destruct l; [|reflexivity].
    destruct Hx as [-> | ->]; reflexivity.
Qed.

Definition follows_ok (e : entry) (c : nat) (S' : bytes) : Prop :=
  match e with
  | CommentEntry _ => next_after_comment LRegular c S'
  | GroupComment _ => next_after_comment LGroup c S'
  | ResourceComment _ => next_after_comment LResource c S'
  | _ => True
  end.

Lemma simple_comment_spec ls : simple_comment (Comment ls) = true ->
  forallb simple_comment_line ls = true /\ last ls [] <> [].
Proof.
  unfold simple_comment. cbn [content]. destruct ls as [|l r]; [discriminate|]. intros H.
  apply andb_prop in H as [H1 H2]. split; [exact H1|]. destruct (last (l :: r) []); [discriminate H2 | discriminate].
Qed.

(* one entry of the fragment and the blank lines after it *)
Lemma entry_step e E T used c S' p n :
  plain_entry e = true -> plain_layout e E -> entry_tail T used c S' -> follows_ok e c S' ->
  at_ bs p (E ++ T) -> length E + used + 2 * c + 14 <= n ->
  exists p1 cnt, get_entry bs n p p = Ok e p1 /\ skip_blank_block bs p1 = Ok cnt (used + (length E + p)) /\
                 (1 <= c -> is_comment_entry e = true -> cnt = S c) /\ cnt <= S c.
Proof.
  intros He HE HT Hf H Hn.
  destruct (is_comment_entry e) eqn:Hce.
  - assert (Hgen : forall P lvl ls C (mk : comment -> entry),
               comment_layout P ls C -> prefix_level P lvl -> E = C ->
               simple_comment (Comment ls) = true -> next_after_comment lvl c S' -> length ls + 1 <= n ->
               (forall cm, match lvl with
                           | LRegular => @ret entry (CommentEntry cm) | LGroup => ret (GroupComment cm)
                           | LResource => ret (ResourceComment cm) | LNone => panic "unreachable" end = ret (mk cm)) ->
               exists p1 cnt, get_entry bs n p p = Ok (mk (Comment ls)) p1 /\
                              skip_blank_block bs p1 = Ok cnt (used + (length E + p)) /\ (1 <= c -> true = true -> cnt = S c) /\ cnt <= S c).
    { intros P lvl ls C mk HC HP -> Hsc Hnx Hfuel Hmk.
      destruct (simple_comment_spec ls Hsc) as [Hs Hlast].
      destruct (comment_entry_step P lvl ls C T used c S' p n HC HP Hs (fun E _ => Hlast E) HT Hnx H Hfuel) as (p1 & cnt & E1 & E2 & E3 & E4).
      exists p1, cnt. split; [|split; [exact E2 | split; [intros Hc _; apply E3, Hc | exact E4]]].
      unfold get_entry. rewrite bind_current_byte.
      assert (Hb : byte_at bs p = Some 35%N).
      { destruct (comment_layout_head P ls C HC) as [t [-> _]].
        destruct HP as [[-> _] | [[-> _] | [-> _]]]; cbn [app] in H; apply (at_byte _ _ _ _ H). }
      rewrite Hb. change (N.eqb 35 35) with true. cbv iota. unfold get_comment. step E1. cbv beta iota.
      rewrite Hmk. reflexivity. }
    destruct HE as [ls C HC | ls C HC | ls C HC | | | ]; try discriminate Hce; cbn [plain_entry follows_ok nlines content] in *;
      pose proof (comment_layout_length _ ls C HC ltac:(discriminate)) as HlsC.
    + apply (Hgen [35%N] LRegular ls C CommentEntry HC); auto; [left; auto | lia].
    + apply (Hgen [35; 35]%N LGroup ls C GroupComment HC); auto; [right; left; auto | lia].
    + apply (Hgen [35; 35; 35]%N LResource ls C ResourceComment HC); auto; [right; right; auto | lia].
  - exists (used + (length E + p)), 0. split; [|split; [|split; [discriminate | lia]]].
    + apply (get_entry_simple e E T used c S' p n He Hce HE HT H). lia.
    + destruct (entry_tail_next T used c S' HT) as [Hnext Hat].
      apply (skip_blank_block_none bs _ S' (Hat _ (at_app _ _ _ _ H)) (entry_start_no_blank_line _ Hnext)).
Qed.

Lemma entry_layout_start e E : plain_entry e = true -> plain_layout e E -> forall T, entry_start_bytes (E ++ T).
Proof.
  intros He HE T.
  destruct HE as [ls C HC | ls C HC | ls C HC
                  | id els attrs k V A HV HA | id attrs k A Hne HA | id els attrs k V A HV HA]; cbn [plain_entry] in He.
  1-3: (destruct (comment_layout_head _ ls C HC) as [t [-> _]]; right; exists 35%N; eexists;
        (split; [reflexivity | right; right; reflexivity])).
  all: apply andb_prop in He as [He _]; apply andb_prop in He as [Hid _].
  - destruct (wf_identifier_head id Hid) as (b & r & -> & Hb). right. exists b. eexists. split; [reflexivity|].
    left. exact Hb.
  - destruct (wf_identifier_head id Hid) as (b & r & -> & Hb). right. exists b. eexists. split; [reflexivity|].
    left. exact Hb.
  - right. exists 45%N. eexists. split; [reflexivity|]. right; left; reflexivity.
Qed.

Lemma entry_layout_length e E : plain_layout e E -> 1 <= length E /\ nattrs e + nlines e <= length E.
Proof.
  intros HE.
  destruct HE as [ls C HC | ls C HC | ls C HC
                  | id els attrs k V A HV HA | id attrs k A Hne HA | id els attrs k V A HV HA].
  1-3: (pose proof (comment_layout_length _ ls C HC ltac:(discriminate)) as HL;
        destruct (comment_layout_head _ ls C HC) as [t [EC _]]; apply (f_equal (@length N)) in EC;
        rewrite app_length in EC; cbn [length] in EC; cbn [nattrs nlines content]; lia).
  all: pose proof (attrs_layout_length _ _ HA); cbn [nattrs nlines length]; rewrite !app_length; cbn [length];
    rewrite ?app_length; lia.
Qed.

Lemma strip_comment_none e : entry_comment e = None -> strip_comment e = e.
Proof. destruct e as [? ? ? c|? ? ? c| | | |]; cbn; intros H; try reflexivity; subst c; reflexivity. Qed.

Lemma any_layout_start e E : simple_entry e = true -> entry_layout e E -> forall T, entry_start_bytes (E ++ T).
Proof.
  intros He HE T. destruct HE as [e E Hc HE | e ls C x E Hmt Hc HC Hx HE].
  - apply (entry_layout_start e E); [|exact HE].
    unfold simple_entry in He. rewrite (strip_comment_none e Hc) in He. apply andb_prop in He as [He _]. exact He.
  - destruct (comment_layout_head _ ls C HC) as [t [-> _]]. right. exists 35%N. eexists.
    split; [reflexivity | right; right; reflexivity].
Qed.

Lemma any_layout_length e E : entry_layout e E -> 1 <= length E.
Proof.
  intros [e0 E0 Hc HE | e0 ls C x E0 Hmt Hc HC Hx HE].
  - apply (entry_layout_length e0 E0 HE).
  - destruct (entry_layout_length e0 E0 HE) as [H1 _]. rewrite !app_length. lia.
Qed.

Lemma entries_layout_start r S : simple_resource r = true -> entries_layout r S -> entry_start_bytes S.
Proof.
  intros Hr HS. destruct HS as [|e r' E T HE HT]; [left; reflexivity|].
  cbn [simple_resource forallb] in Hr. apply andb_prop in Hr as [He _].
  apply (any_layout_start e E He HE T).
Qed.

Definition level_of_entry (e : entry) : level :=
  match e with CommentEntry _ => LRegular | GroupComment _ => LGroup | ResourceComment _ => LResource | _ => LNone end.

(* the level of the comment an entry's text starts with *)
Definition head_level (e : entry) : level :=
  match e with
  | CommentEntry _ => LRegular | GroupComment _ => LGroup | ResourceComment _ => LResource
  | Message _ _ _ (Some _) | Term _ _ _ (Some _) => LRegular
  | _ => LNone
  end.

(* the first bytes of the entries that follow tell the comment loop to stop *)
Lemma plain_layout_after_comment lvl e2 E T :
  plain_entry e2 = true -> plain_layout e2 E -> line_end_or_eof T -> level_of_entry e2 <> lvl ->
  (exists b t, E ++ T = b :: t /\ N.eqb b 35 = false) \/
  (exists P' lvl' t, E ++ T = P' ++ t /\ prefix_level P' lvl' /\ head_not_hash t /\ lvl' <> lvl).
Proof.
  intros He HE HT Hlvl.
  destruct HE as [ls C HC | ls C HC | ls C HC
                  | id els attrs k V A HV HA | id attrs k A Hne HA | id els attrs k V A HV HA];
    cbn [plain_entry level_of_entry] in *.
  1-3: (right; destruct (comment_layout_head _ ls C HC) as [t [-> Ht]]; rewrite <- app_assoc).
  - exists [35%N], LRegular, (t ++ T). split; [reflexivity|]. split; [left; auto|]. split; [|exact Hlvl].
    destruct t; [|exact Ht]. destruct HT as [-> | (x & r & -> & [-> | ->])]; [exact Logic.I | reflexivity | reflexivity].
  - exists [35; 35]%N, LGroup, (t ++ T). split; [reflexivity|]. split; [right; left; auto|]. split; [|exact Hlvl].
    destruct t; [|exact Ht]. destruct HT as [-> | (x & r & -> & [-> | ->])]; [exact Logic.I | reflexivity | reflexivity].
  - exists [35; 35; 35]%N, LResource, (t ++ T). split; [reflexivity|]. split; [right; right; auto|]. split; [|exact Hlvl].
    destruct t; [|exact Ht]. destruct HT as [-> | (x & r & -> & [-> | ->])]; [exact Logic.I | reflexivity | reflexivity].
  - left. apply andb_prop in He as [He _]; apply andb_prop in He as [Hid _].
    destruct (wf_identifier_head id Hid) as (b & r0 & -> & Hb). exists b. eexists. split; [reflexivity|].
    unfold is_ascii_alphabetic, in_rng in Hb. lia.
  - left. apply andb_prop in He as [He _]; apply andb_prop in He as [Hid _].
    destruct (wf_identifier_head id Hid) as (b & r0 & -> & Hb). exists b. eexists. split; [reflexivity|].
    unfold is_ascii_alphabetic, in_rng in Hb. lia.
  - left. exists 45%N. eexists. split; reflexivity.
Qed.

Lemma tail_layout_line_end e r T : tail_layout e r T -> line_end_or_eof T.
Proof. intros [e' | e' r' x c BL S Hx HBL HS Hmin]; [left; reflexivity | right; exists x, (BL ++ S); auto]. Qed.

Lemma entries_layout_after_comment lvl r S :
  simple_resource r = true -> entries_layout r S ->
  match r with e2 :: _ => head_level e2 <> lvl | [] => True end ->
  next_after_comment lvl 0 S.
Proof.
  intros Hr HS Hlvl _. destruct HS as [|e2 r' E T HE HT]; [left; reflexivity|].
  cbn [simple_resource forallb] in Hr. apply andb_prop in Hr as [He _]. right.
  destruct HE as [e E Hc HE | e ls C x E Hmt Hc HC Hx HE].
  - unfold simple_entry in He. rewrite (strip_comment_none e Hc) in He. apply andb_prop in He as [He _].
    apply (plain_layout_after_comment lvl e E T He HE (tail_layout_line_end _ _ _ HT)).
    destruct e as [? ? ? cm|? ? ? cm| | | |]; cbn [entry_comment] in Hc; try subst cm; exact Hlvl.
  - right. destruct (comment_layout_head _ ls C HC) as [t [-> Ht]].
    exists [35%N], LRegular, (t ++ (x ++ E) ++ T). split; [rewrite <- !app_assoc; reflexivity|].
    split; [left; auto|]. split.
    + destruct t; [|exact Ht]. destruct Hx as [-> | ->]; reflexivity.
    + destruct e as [? ? ? cm|? ? ? cm| | | |]; try discriminate Hmt; exact Hlvl.
Qed.

Lemma tail_layout_entry_tail e r T : simple_resource r = true -> tail_layout e r T ->
  exists used c S, entry_tail T used c S /\ entries_layout r S /\ length T = used + length S /\
                   follows_ok e c S /\
                   match r with e2 :: _ => min_blank_between e e2 <= c | [] => True end.
Proof.
  intros Hr HT. destruct HT as [e' | e' r' x c BL S Hx HBL HS Hmin].
  - exists 0, 0, []. split; [constructor | split; [constructor | split; [reflexivity|]]].
    split; [|exact Logic.I]. destruct e'; cbn [follows_ok]; try exact Logic.I; intros _; left; reflexivity.
  - exists (length x + length BL), c, S. split; [|split; [exact HS|split; [|split; [|exact Hmin]]]].
    + constructor; try assumption. apply (entries_layout_start r' S Hr HS).
    + rewrite !app_length. lia.
    + assert (Hgen : forall lvl, level_of_entry e' = lvl -> lvl <> LNone -> next_after_comment lvl c S).
      { intros lvl El Hnn Hc. subst c.
        apply (entries_layout_after_comment lvl r' S Hr HS); [|reflexivity].
        destruct r' as [|e2 r2]; [exact Logic.I|]. intros E2.
        unfold min_blank_between in Hmin.
        destruct e' as [? ? ? ?|? ? ? ?|c1|c1|c1|?]; cbn [level_of_entry] in El; try congruence;
          destruct e2 as [? ? ? [?|]|? ? ? [?|]|c2|c2|c2|?]; cbn [head_level] in E2; try congruence;
          cbn in Hmin; lia. }
      destruct e'; cbn [follows_ok]; try exact Logic.I; apply Hgen; (reflexivity || discriminate).
Qed.

Definition pending_list (pending : option comment) : list entry :=
  match pending with Some c => [CommentEntry c] | None => [] end.
Definition pending_ok (pending : option comment) (cnt : nat) (t : list entry) : Prop :=
  match pending, t with
  | Some _, e :: _ => is_message_or_term e = true -> entry_comment e = None -> 2 <= cnt
  | _, _ => True
  end.

(* what one turn of the main loop does with a parsed entry: the pending comment is attached to it, or is
   pushed in front of it; a stand-alone '#' comment becomes the pending comment *)
Definition turn (pending : option comment) (cnt : nat) (e : entry) (body : list entry) : list entry * option comment :=
  match pending with
  | Some c0 =>
      if is_message_or_term e && Nat.ltb cnt 2 then (attach e c0 :: body, None)
      else match e with
           | CommentEntry c1 => (CommentEntry c0 :: body, Some c1)
           | _ => (e :: CommentEntry c0 :: body, None)
           end
  | None => match e with CommentEntry c1 => (body, Some c1) | _ => (e :: body, None) end
  end.

(* one turn of the main loop on a printed entry without attached comment *)
Lemma parse_loop_turn e E T used c S' p n body pending cnt :
  plain_entry e = true -> plain_layout e E -> entry_tail T used c S' -> follows_ok e c S' ->
  at_ bs p (E ++ T) -> length E + used + 2 * c + 14 <= n ->
  exists cnt',
    parse_loop bs (S n) body [] pending cnt p =
    parse_loop bs n (fst (turn pending cnt e body)) [] (snd (turn pending cnt e body)) cnt' (used + (length E + p)) /\
    (1 <= c -> is_comment_entry e = true -> cnt' = S c) /\ cnt' <= S c.
Proof.
  intros He HE HET Hfol H Hc.
  cbn [parse_loop]. rewrite bind_get_ptr.
  destruct (entry_layout_length e E HE) as [HE1 HE2].
  assert (Hlt : Nat.ltb p (length_ bs) = true).
  { destruct (entry_layout_start e E He HE T) as [E0 | (b & t & E0 & _)].
    - exfalso. apply (f_equal (@length N)) in E0. rewrite app_length in E0. cbn [length] in E0. lia.
    - rewrite E0 in H. apply (at_ltb _ _ _ _ H). }
  rewrite Hlt. cbn [negb].
  destruct (entry_step e E T used c S' p n He HE HET Hfol H Hc) as (p1 & cnt' & Hge & Hsb & Hcnt & Hle).
  rewrite (bind_ok _ _ _ _ _ (try_ok _ _ _ _ Hge)).
  exists cnt'. split; [|split; assumption].
  unfold turn. destruct pending as [c0|].
  - destruct (Nat.ltb cnt 2) eqn:Elt;
      destruct HE; cbn [is_message_or_term andb attach fst snd]; cbv beta iota; rewrite bind_ret; step Hsb; reflexivity.
  - destruct HE; cbn [fst snd]; cbv beta iota; rewrite bind_ret; step Hsb; reflexivity.
Qed.

Lemma entry_tail_blank_bound T used c S' : entry_tail T used c S' -> c <= length T /\ length T = used + length S'.
Proof.
  intros [|x c' BL nx Hx HBL Hn]; [cbn; lia|]. pose proof (blank_lines_length _ _ HBL).
  rewrite !app_length. lia.
Qed.

(* the main loop over the printed entries *)
Lemma parse_loop_entries t : forall S, entries_layout t S -> simple_resource t = true ->
  forall p body pending cnt n, at_ bs p S -> pending_ok pending cnt t -> 8 * length S + 16 <= n ->
  parse_loop bs n body [] pending cnt p = Ok (rev body ++ pending_list pending ++ t, []) (length S + p).
Proof.
  induction t as [|e r IH]; intros S HS Ht p body pending cnt n H Hpend Hn.
  - inversion HS; subst. destruct n as [|n]; [lia|]. cbn [parse_loop]. rewrite bind_get_ptr.
    rewrite (at_ltb_nil _ _ H). cbn [negb].
    destruct pending; cbn [pending_list rev app]; rewrite ?app_nil_r; reflexivity.
  - inversion HS as [|e' r' E T HE HT]; subst. clear HS.
    cbn [simple_resource forallb] in Ht. apply andb_prop in Ht as [He Hr].
    destruct (tail_layout_entry_tail e r T Hr HT) as (used & c & S' & HET & HS' & HlenT & Hfol & Hmin).
    destruct (entry_tail_blank_bound T used c S' HET) as [HcT _].
    destruct (entry_tail_next T used c S' HET) as [Hnext Hat].
    pose proof (any_layout_length e E HE) as HE1.
    destruct n as [|n]; [lia|].
    rewrite app_length in Hn.
    destruct HE as [e E Hcm HE | e0 ls C x E0 Hmt Hcm HC Hx HE0].
    + (* an entry without attached comment: one turn *)
      assert (Hp : plain_entry e = true).
      { unfold simple_entry in He. rewrite (strip_comment_none e Hcm) in He. apply andb_prop in He as [He _]. exact He. }
      destruct (parse_loop_turn e E T used c S' p n body pending cnt Hp HE HET Hfol H ltac:(lia)) as (cnt' & Eturn & Hcnt & Hle).
      rewrite Eturn.
      pose proof (Hat _ (at_app _ _ _ _ H)) as H1.
      rewrite (IH S' HS' Hr _ _ _ cnt' n H1); [| |lia].
      * f_equal; [|rewrite app_length; lia]. f_equal.
        assert (Hnoattach : forall c0, pending = Some c0 -> is_message_or_term e && Nat.ltb cnt 2 = false).
        { intros c0 ->. destruct (is_message_or_term e) eqn:Emt; [|reflexivity].
          cbn [andb]. apply Nat.ltb_ge. apply (Hpend Emt Hcm). }
        unfold turn. destruct pending as [c0|]; [rewrite (Hnoattach c0 eq_refl)|];
          destruct e; cbn [fst snd pending_list rev app]; rewrite <- ?app_assoc; reflexivity.
      * (* the new pending comment and the next entry *)
        unfold turn.
        assert (Hsnd : forall c1, e = CommentEntry c1 -> pending_ok (Some c1) cnt' r).
        { intros c1 ->. destruct r as [|e2 r2]; [exact Logic.I|]. intros Hmt2 Hc2. 
          unfold min_blank_between in Hmin. cbn [comment_level Nat.eqb] in Hmin. rewrite Hmt2 in Hmin. cbn [andb] in Hmin.
          rewrite (Hcnt Hmin eq_refl). lia. }
        destruct pending as [c0|]; [destruct (is_message_or_term e && Nat.ltb cnt 2)|];
          destruct e; cbn [snd]; try exact Logic.I; try (destruct r; exact Logic.I); apply Hsnd; reflexivity.
    + (* a message or term with its comment: the comment's turn, then the entry's turn attaches it *)
      assert (He0 : plain_entry e0 = true /\ simple_comment (Comment ls) = true).
      { destruct e0 as [id v a cm|id v a cm| | | |]; try discriminate Hmt; cbn [entry_comment] in Hcm; subst cm;
          unfold simple_entry in He; cbn [attach strip_comment entry_comment] in He; apply andb_prop in He; exact He. }
      destruct He0 as [Hp0 Hsc].
      destruct (entry_layout_length e0 E0 HE0) as [HE01 _].
      rewrite !app_length in Hn, HE1.
      (* first turn: the comment *)
      assert (HET1 : entry_tail (x ++ [] ++ (E0 ++ T)) (length x + length (@nil N)) 0 (E0 ++ T)).
      { constructor; [exact Hx | constructor | apply (entry_layout_start e0 E0 Hp0 HE0 T)]. }
      assert (Hfol1 : follows_ok (CommentEntry (Comment ls)) 0 (E0 ++ T)).
      { cbn [follows_ok]. intros _. right.
        destruct (plain_layout_after_comment LRegular e0 E0 T Hp0 HE0 (tail_layout_line_end _ _ _ HT)) as [Hl | Hr'].
        - destruct e0; try discriminate Hmt; discriminate.
        - left. exact Hl.
        - right. exact Hr'. }
      assert (H' : at_ bs p (C ++ x ++ [] ++ E0 ++ T)) by (rewrite <- !app_assoc in H; exact H).
      assert (Hpc : plain_entry (CommentEntry (Comment ls)) = true) by exact Hsc.
      destruct (parse_loop_turn (CommentEntry (Comment ls)) C (x ++ [] ++ (E0 ++ T)) _ 0 (E0 ++ T) p n body pending cnt
                  Hpc (el_comment ls C HC) HET1 Hfol1 H' ltac:(cbn [length]; lia)) as (cnt1 & Eturn1 & _ & Hle1).
      rewrite Eturn1.
      assert (Et1 : turn pending cnt (CommentEntry (Comment ls)) body = (pending_list pending ++ body, Some (Comment ls))).
      { unfold turn. destruct pending; reflexivity. }
      rewrite Et1. cbn [fst snd].
      (* second turn: the entry *)
      destruct n as [|n]; [lia|].
      assert (H2 : at_ bs (length x + length (@nil N) + (length C + p)) (E0 ++ T)).
      { apply at_app in H'. apply at_app in H'. cbn [app length] in *.
        replace (length x + 0 + (length C + p)) with (length x + (length C + p)) by lia. exact H'. }
      assert (Hfol0 : follows_ok e0 c S') by (destruct e0; try discriminate Hmt; exact Logic.I).
      destruct (parse_loop_turn e0 E0 T used c S' _ n (pending_list pending ++ body) (Some (Comment ls)) cnt1
                  Hp0 HE0 HET Hfol0 H2 ltac:(lia)) as (cnt2 & Eturn2 & _ & _).
      rewrite Eturn2.
      assert (Et2 : turn (Some (Comment ls)) cnt1 e0 (pending_list pending ++ body) =
                    (attach e0 (Comment ls) :: pending_list pending ++ body, None)).
      { unfold turn. rewrite Hmt. replace (Nat.ltb cnt1 2) with true by (symmetry; apply Nat.ltb_lt; lia). reflexivity. }
      rewrite Et2. cbn [fst snd].
      pose proof (Hat _ (at_app _ _ _ _ H2)) as H3.
      rewrite (IH S' HS' Hr _ _ None cnt2 n H3 Logic.I ltac:(lia)).
      f_equal; [|cbn [length]; rewrite !app_length; lia]. f_equal.
      cbn [rev pending_list app]. rewrite rev_app_distr.
      destruct pending; cbn [pending_list rev app]; rewrite <- ?app_assoc; reflexivity.
Qed.

End OnLayout.

(* ---------------------------------------------------------------------------------------------- *)
(* 4. parse (render cs t) = t on the fragment                                                       *)

Theorem parse_layout t bs : simple_resource t = true -> resource_layout t bs -> parse bs = Done (t, []).
Proof.
  intros Ht HL. destruct HL as [c BL t' S HBL HS]. unfold parse, parse_m.
  pose proof (at_0 (BL ++ S)) as H0.
  rewrite (bind_ok _ _ _ _ _ (skip_blank_block_lines (BL ++ S) 0 c BL S H0 HBL
                                (entry_start_no_blank_line _ (entries_layout_start t' S Ht HS)))).
  pose proof (at_app _ _ _ _ H0) as H1.
  rewrite (parse_loop_entries (BL ++ S) t' S HS Ht _ [] None 0 (fuel_for (BL ++ S)) H1 Logic.I).
  - reflexivity.
  - unfold fuel_for. rewrite app_length. lia.
Qed.

Theorem parse_render_simple cs t : simple_resource t = true -> parse (render cs t) = Done (t, []).
Proof. intros Ht. apply parse_layout; [exact Ht | apply render_layout, Ht]. Qed.

(* ---------------------------------------------------------------------------------------------- *)
(* 5. The fragment lies inside the grammar; joining is the identity on it                           *)

Lemma simple_inline_wf i : simple_inline i = true -> wf_expr (Inline i) = true /\ lines_ok_inline i = true.
Proof.
  destruct i as [s | v | id args | id att | id att args | id | e]; cbn [simple_inline]; intros Hi; try discriminate Hi;
    cbn [wf_expr wf_inline lines_ok_inline].
  - apply andb_prop in Hi as [Hi _]. auto.
  - auto.
  - destruct att as [a|]; [apply andb_prop in Hi as [H1 H2]; rewrite H1, H2 | rewrite Hi]; auto.
  - destruct att; [discriminate|]. destruct args; [discriminate|]. rewrite Hi. auto.
  - auto.
Qed.

(* the two element loops inside wf_pattern and lines_ok_pattern, as functions of the list *)
Fixpoint wf_els (l : list pattern_element) (prev_text : bool) : bool :=
  match l with
  | [] => true
  | TextElement v :: r =>
      negb prev_text && negb (match v with [] => true | _ => false end) &&
      forallb (fun b => wf_text_byte b || N.eqb b 10) v && wf_els r true
  | PlaceableElement e :: r => wf_expr e && wf_els r false
  end.
Fixpoint lines_ok_els (l : list pattern_element) : bool :=
  match l with
  | [] => true
  | TextElement _ :: r => lines_ok_els r
  | PlaceableElement e :: r => lines_ok_expr e && lines_ok_els r
  end.

Lemma wf_pattern_els els :
  wf_pattern (Pattern els) = negb (match els with [] => true | _ => false end) && wf_els els false.
Proof. reflexivity. Qed.
Lemma lines_ok_pattern_els els :
  lines_ok_pattern (Pattern els) = wf_pattern_lines_top (Pattern els) && lines_ok_els els.
Proof. reflexivity. Qed.

(* the strict line rule (variant values) implies the rule of top-level values *)
Lemma wf_pattern_lines_top_of_strict p : wf_pattern_lines p = true -> wf_pattern_lines_top p = true.
Proof.
  unfold wf_pattern_lines, wf_pattern_lines_top. destruct (lines_of (skeleton p)) as [|l0 rest]; [auto|].
  intros H. apply andb_prop in H as [H H6]. apply andb_prop in H as [H H5]. apply andb_prop in H as [H H4].
  apply andb_prop in H as [H H3]. apply andb_prop in H as [H1 H2].
  rewrite H1, H2, H3, H4, H5. cbn [andb].
  destruct (min_list _); [rewrite H6; reflexivity | reflexivity].
Qed.

Lemma wf_value_strict els : wf_pattern (Pattern els) = true -> wf_pattern_lines (Pattern els) = true ->
  lines_ok_els els = true -> wf_value (Pattern els) = true.
Proof.
  intros H1 H2 H3. unfold wf_value. rewrite H1, lines_ok_pattern_els, (wf_pattern_lines_top_of_strict _ H2), H3. reflexivity.
Qed.

Lemma simple_elements_wf els : forall prev, simple_elements els prev = true ->
  wf_els els prev = true /\ lines_ok_els els = true.
Proof.
  induction els as [|el r IH]; intros prev Hs; [split; reflexivity|].
  destruct el as [v | [sel vs | i]]; cbn [simple_elements] in Hs; try discriminate Hs.
  - apply andb_prop in Hs as [Hs Hr]. apply andb_prop in Hs as [Hp Hv].
    destruct (inner_text_spec v Hv) as (b & t & Ev & _ & Hline). destruct (IH true Hr) as [IH1 IH2].
    cbn [wf_els lines_ok_els]. rewrite Hp, IH1. split; [|exact IH2].
    replace (match v with [] => true | _ :: _ => false end) with false by (rewrite Ev; reflexivity).
    cbn [negb andb]. rewrite andb_true_r. unfold text_line in Hline. rewrite forallb_forall in *.
    intros x Hx. rewrite (Hline x Hx). reflexivity.
  - apply andb_prop in Hs as [Hi Hr]. destruct (IH false Hr) as [IH1 IH2].
    destruct (simple_inline_wf i Hi) as [W1 W2].
    cbn [wf_els lines_ok_els lines_ok_expr]. rewrite W1, W2, IH1, IH2. split; reflexivity.
Qed.

(* the skeleton of a one-line pattern: no line feed, first and last byte not a space *)
Lemma skeleton_cons el r : skeleton (Pattern (el :: r)) =
  match el with TextElement v => v | PlaceableElement _ => [123%N] end ++ skeleton (Pattern r).
Proof. reflexivity. Qed.

Lemma skeleton_no_lf els prev : simple_elements els prev = true -> existsb (N.eqb 10) (skeleton (Pattern els)) = false.
Proof.
  revert prev. induction els as [|el r IH]; intros prev Hs; [reflexivity|].
  rewrite skeleton_cons, existsb_app.
  destruct el as [v | [sel vs | i]]; cbn [simple_elements] in Hs; try discriminate Hs.
  - apply andb_prop in Hs as [Hs Hr]. apply andb_prop in Hs as [_ Hv].
    destruct (inner_text_spec v Hv) as (b & t & _ & _ & Hline).
    rewrite (text_line_no_lf v Hline), (IH true Hr). reflexivity.
  - apply andb_prop in Hs as [_ Hr]. rewrite (IH false Hr). reflexivity.
Qed.

Lemma last_app_ne (a b : bytes) d : b <> [] -> last (a ++ b) d = last b d.
Proof.
  intros Hb. induction a as [|x a IH]; [reflexivity|]. cbn [app]. rewrite <- IH.
  destruct (a ++ b) eqn:E; [|reflexivity]. destruct a; [cbn in E; congruence | discriminate].
Qed.

Lemma skeleton_last els prev : els <> [] -> simple_elements els prev = true -> last_text_ok els ->
  skeleton (Pattern els) <> [] /\ N.eqb (last (skeleton (Pattern els)) 0%N) 32 = false.
Proof.
  revert prev. induction els as [|el r IH]; intros prev Hne Hs Hl; [congruence|].
  rewrite skeleton_cons.
  assert (Hpiece : match el with TextElement v => v | PlaceableElement _ => [123%N] end <> [] /\
                   (r = [] -> N.eqb (last (match el with TextElement v => v | PlaceableElement _ => [123%N] end) 0%N) 32 = false)).
  { destruct el as [v | [sel vs | i]]; cbn [simple_elements] in Hs; try discriminate Hs.
    - apply andb_prop in Hs as [Hs _]. apply andb_prop in Hs as [_ Hv].
      destruct (inner_text_spec v Hv) as (b & t & -> & _). split; [discriminate|]. intros ->. exact Hl.
    - split; [discriminate | reflexivity]. }
  destruct Hpiece as [Hp1 Hp2].
  destruct r as [|el2 r2].
  - change (skeleton (Pattern [])) with (@nil N). rewrite app_nil_r. split; [exact Hp1 | apply Hp2; reflexivity].
  - assert (Hs' : exists prev', simple_elements (el2 :: r2) prev' = true).
    { destruct el as [v | [sel vs | i]]; cbn [simple_elements] in Hs; try discriminate Hs.
      - apply andb_prop in Hs as [_ Hs]. exists true. exact Hs.
      - apply andb_prop in Hs as [_ Hs]. exists false. exact Hs. }
    destruct Hs' as [prev' Hs'].
    assert (Hl' : last_text_ok (el2 :: r2)) by (destruct el; exact Hl).
    destruct (IH prev' ltac:(discriminate) Hs' Hl') as [I1 I2].
    split; [intros E; apply app_eq_nil in E as [E _]; exact (Hp1 E)|].
    rewrite (last_app_ne _ _ 0%N I1). exact I2.
Qed.

Lemma skeleton_first els : els <> [] -> simple_elements els false = true -> first_ok els = true ->
  exists b t, skeleton (Pattern els) = b :: t /\ N.eqb b 32 = false.
Proof.
  intros Hne Hs Hf. destruct els as [|el r]; [congruence|]. rewrite skeleton_cons.
  destruct el as [v | [sel vs | i]]; cbn [simple_elements] in Hs; try discriminate Hs.
  - apply andb_prop in Hs as [Hs _]. apply andb_prop in Hs as [_ Hv].
    destruct (inner_text_spec v Hv) as (b & t & -> & _). cbn [first_ok] in Hf. apply negb_true_iff in Hf.
    exists b. eexists. split; [reflexivity | exact Hf].
  - exists 123%N. eexists. split; reflexivity.
Qed.

Lemma simple_pattern_wf p : simple_pattern p = true -> wf_value p = true.
Proof.
  intros H. destruct (simple_pattern_spec p H) as [els [-> Hp]].
  destruct (simple_pattern_parts els Hp) as (Hne & Hs & Hf & Hl).
  destruct (simple_elements_wf els false Hs) as [W1 W2].
  apply wf_value_strict; [rewrite wf_pattern_els, W1; destruct els; [congruence | reflexivity] | | exact W2].
  unfold wf_pattern_lines, lines_of.
  rewrite (no_lf_lines_of _ [] (skeleton_no_lf els false Hs)). cbn [rev app last forallb filter map min_list].
  destruct (skeleton_first els Hne Hs Hf) as (b & t & Esk & Hb).
  destruct (skeleton_last els false Hne Hs (last_ok_last_text_ok els false Hs Hl)) as [Hsk1 Hsk2].
  assert (Hb1 : is_blank_line (skeleton (Pattern els)) = false).
  { rewrite Esk. cbn [is_blank_line forallb]. rewrite N.eqb_sym, Hb. reflexivity. }
  assert (Hb2 : leading_spaces (skeleton (Pattern els)) = 0) by (rewrite Esk; cbn [leading_spaces]; rewrite Hb; reflexivity).
  assert (Hb3 : leading_spaces (rev (skeleton (Pattern els))) = 0).
  { rewrite (rev_last _ Hsk1). cbn [leading_spaces]. rewrite Hsk2. reflexivity. }
  rewrite Hb1, Hb2, Hb3. reflexivity.
Qed.

Lemma simple_attributes_wf attrs : forallb simple_attribute attrs = true -> forallb wf_attribute attrs = true.
Proof.
  rewrite !forallb_forall. intros H a Ha. specialize (H a Ha). unfold simple_attribute in H.
  apply andb_prop in H as [Hid Hp]. unfold wf_attribute. rewrite Hid, (simple_pattern_wf _ Hp). reflexivity.
Qed.

Lemma simple_comment_wf c : simple_comment c = true -> wf_comment c = true.
Proof.
  unfold simple_comment, wf_comment. destruct (content c) as [|l r]; [discriminate|]. intros H.
  apply andb_prop in H as [H _]. cbn [negb andb]. rewrite forallb_forall in *. intros x Hx.
  apply (simple_comment_line_spec x (H x Hx)).
Qed.

Lemma plain_entry_wf e : plain_entry e = true -> wf_entry e = true.
Proof.
  destruct e as [id [p|] attrs [|]|id p attrs [|]|c|c|c|]; try discriminate; cbn [plain_entry wf_entry]; intros H.
  4-6: apply simple_comment_wf, H.
  all: apply andb_prop in H as [H Hattrs]; apply andb_prop in H as [Hid Hp];
    rewrite Hid, (simple_attributes_wf attrs Hattrs), ?(simple_pattern_wf _ Hp), ?Hp; reflexivity.
Qed.

Lemma simple_entry_wf e : simple_entry e = true -> wf_entry e = true.
Proof.
  intros He. destruct (simple_entry_cases e He) as [[Hc Hp] | (e0 & ls & -> & Hmt & Hc & Hp & Hcm)];
    [apply plain_entry_wf, Hp|].
  pose proof (plain_entry_wf e0 Hp) as Hw. apply simple_comment_wf in Hcm.
  destruct e0 as [id v a cm|id v a cm| | | |]; try discriminate Hmt; cbn [entry_comment] in Hc; subst cm;
    cbn [attach wf_entry] in *; rewrite andb_true_r in Hw; rewrite Hw, Hcm; reflexivity.
Qed.

Theorem simple_resource_wf t : simple_resource t = true -> wf_resource t = true.
Proof.
  unfold simple_resource, wf_resource. rewrite !forallb_forall. intros H e He. apply simple_entry_wf, H, He.
Qed.

Lemma simple_inline_join i : simple_inline i = true -> join_inline i = i.
Proof.
  destruct i as [s | v | id args | id att | id att args | id | e]; cbn [simple_inline]; intros Hi; try discriminate Hi;
    try reflexivity.
  destruct att; [discriminate|]. destruct args; [discriminate|]. reflexivity.
Qed.

Fixpoint join_els_map (l : list pattern_element) : list pattern_element :=
  match l with [] => [] | x :: r => join_element x :: join_els_map r end.

Lemma join_pattern_els els : join_pattern (Pattern els) = Pattern (join_elements (join_els_map els)).
Proof. reflexivity. Qed.

Lemma simple_elements_join els : forall prev, simple_elements els prev = true ->
  join_elements (join_els_map els) = els.
Proof.
  induction els as [|el r IH]; intros prev Hs; [reflexivity|].
  destruct el as [v | [sel vs | i]]; cbn [simple_elements] in Hs; try discriminate Hs.
  - apply andb_prop in Hs as [_ Hr]. cbn [join_els_map join_element join_elements]. rewrite (IH true Hr).
    destruct r as [|[v2 | e2] r2]; try reflexivity.
    cbn [simple_elements] in Hr. discriminate Hr.
  - apply andb_prop in Hs as [Hi Hr]. cbn [join_els_map join_element join_expr join_elements].
    rewrite (simple_inline_join i Hi), (IH false Hr). reflexivity.
Qed.

Lemma simple_pattern_join p : simple_pattern p = true -> join_pattern p = p.
Proof.
  intros H. destruct (simple_pattern_spec p H) as [els [-> Hp]].
  rewrite join_pattern_els, (simple_elements_join els false (simple_pattern_elements els Hp)). reflexivity.
Qed.

Lemma simple_attributes_join attrs : forallb simple_attribute attrs = true -> map join_attribute attrs = attrs.
Proof.
  induction attrs as [|a r IH]; [reflexivity|]. cbn [forallb map]. intros H. apply andb_prop in H as [Ha Hr].
  rewrite (IH Hr). destruct (simple_attribute_spec a Ha) as (aid & els & -> & _ & Hp).
  unfold join_attribute. cbn [attr_id attr_value]. rewrite (simple_pattern_join _ Hp). reflexivity.
Qed.

Lemma plain_entry_join e : plain_entry e = true -> join_entry e = e.
Proof.
  destruct e as [id [p|] attrs [|]|id p attrs [|]|c|c|c|]; try discriminate; cbn [plain_entry join_entry option_map]; intros H;
    try reflexivity;
    apply andb_prop in H as [H Hattrs]; apply andb_prop in H as [Hid Hp];
    rewrite (simple_attributes_join attrs Hattrs), ?(simple_pattern_join _ Hp); reflexivity.
Qed.

Lemma simple_entry_join e : simple_entry e = true -> join_entry e = e.
Proof.
  intros He. destruct (simple_entry_cases e He) as [[Hc Hp] | (e0 & ls & -> & Hmt & Hc & Hp & Hcm)];
    [apply plain_entry_join, Hp|].
  pose proof (plain_entry_join e0 Hp) as Hj.
  destruct e0 as [id v a cm|id v a cm| | | |]; try discriminate Hmt; cbn [entry_comment] in Hc; subst cm;
    cbn [attach join_entry] in *; injection Hj as -> ->; reflexivity.
Qed.

Theorem simple_resource_join t : simple_resource t = true -> map join_entry t = t.
Proof.
  induction t as [|e r IH]; [reflexivity|]. cbn [simple_resource forallb map]. intros H.
  apply andb_prop in H as [He Hr]. rewrite (simple_entry_join e He), (IH Hr). reflexivity.
Qed.

(* ---- comments without the condition on the last line ---- *)
Lemma wide_comment_spec ls : wide_comment (Comment ls) = true -> ls <> [] /\ forallb simple_comment_line ls = true.
Proof. unfold wide_comment. cbn [content]. destruct ls as [|l r]; [discriminate|]. intros H. split; [discriminate | exact H]. Qed.

Lemma wide_comment_ne c : wide_comment c = true -> content c <> [].
Proof. unfold wide_comment. destruct (content c); [discriminate | discriminate]. Qed.

Lemma wide_comment_wf c : wide_comment c = true -> wf_comment c = true.
Proof.
  unfold wide_comment, wf_comment. destruct (content c) as [|l r]; [discriminate|]. intros H.
  cbn [negb andb]. rewrite forallb_forall in *. intros x Hx. apply (simple_comment_line_spec x (H x Hx)).
Qed.

Lemma simple_wide_comment c : simple_comment c = true -> wide_comment c = true.
Proof.
  unfold simple_comment, wide_comment. destruct (content c) as [|l r]; [discriminate|]. intros H.
  apply andb_prop in H as [H _]. exact H.
Qed.

(* the last line of a stand-alone comment that is printed LAST, without a line end, must not be empty (D7) *)
Definition eof_ok (e : entry) : Prop :=
  match e with
  | CommentEntry c | GroupComment c | ResourceComment c => last (content c) [] <> []
  | _ => True
  end.
Definition eof_okb (e : entry) : bool :=
  match e with
  | CommentEntry c | GroupComment c | ResourceComment c => negb (match last (content c) [] with [] => true | _ => false end)
  | _ => true
  end.
Lemma eof_okb_spec e : eof_okb e = true <-> eof_ok e.
Proof.
  destruct e as [? ? ? ?|? ? ? ?|c|c|c|?]; cbn [eof_okb eof_ok]; try (split; [intros _; exact Logic.I | reflexivity]);
    (destruct (last (content c) []); cbn [negb]; split; intros H; [discriminate H | exfalso; apply H; reflexivity | discriminate | reflexivity]).
Qed.
Definition last_comment_ok (t : resource) : bool := match t with [] => true | _ => eof_okb (last t (Junk [])) end.

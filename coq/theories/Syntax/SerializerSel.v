(* Syntax/SerializerSel.v — property C04 for SELECT expressions and NESTED placeables (any nesting depth d):
   the serializer prints a parser output in the canonical layout, which RoundTripSel.v parses back.

   The fragment `ssel_resource d`: trees whose patterns JOIN (at every nesting level) to a pattern of
   RoundTripSel.sel_pattern d and whose text elements, at every nesting level, are not empty and have a
   line feed only as their last byte (what the parser returns: RoundTripSel.goodd).
   Inline expressions with call arguments (CallArgs.binline, CallArgs.bsel) are written in the canonical text
   SerializerCalls.ctext.
     1. the canonical text of expressions and patterns (structural functions of the joined tree)
     2. it is a layout (RoundTripSel.etextd / RoundTripML.wl_value_layout)
     3. the serializer writes it for every split tree that joins to the tree
     4. the instance of SerializerLoop.v and EntryLoop.v; round trip and fixed point                 *)
From FluentV Require Import Base.Bytes Base.Outcome Base.Utf8 Base.Utf8Facts.
From FluentV Require Import Syntax.Ast Syntax.ParserModel Syntax.SerializerModel Syntax.Render Syntax.TreeNorm.
From FluentV Require Import Syntax.ParseLemmas Syntax.SerializerProofs Syntax.RoundTrip Syntax.SerializerRoundTrip.
From FluentV Require Import Syntax.EntryLoop Syntax.RoundTripML Syntax.RoundTripSel Syntax.SerializerLoop Syntax.SerializerML.
From FluentV Require Import Syntax.CallArgs Syntax.SerializerCalls.
From Coq Require Import Lia.

Arguments N.eqb : simpl never.

(* ---------------------------------------------------------------------------------------------- *)
(* 1. The canonical text                                                                            *)

Definition is_sel (e : expression) : bool := match e with Select _ _ => true | _ => false end.
(* the indentation at level m *)
Definition ind (m : nat) : bytes := sp (4 * m).
(* the indentation of a variant line: the last space is replaced by "*" for the default variant *)
Definition star_ind (m : nat) (dflt : bool) : bytes := if dflt then sp (4 * m - 1) ++ [42%N] else sp (4 * m).

(* ex_text m e: what serialize_expression writes for e, inside a pattern whose elements are written at
   level m (their continuation lines are indented by 4m spaces); pat_text k p: what serialize_pattern writes
   at writer level k *)
Fixpoint ex_text (m : nat) (e : expression) {struct e} : bytes :=
  match e with
  | Inline i => in_text m i
  | Select sel vs =>
      in_text m sel ++ [32; 45; 62; 10]%N ++
      (fix go (l : list variant) : bytes := match l with [] => [] | v :: r => var_text (S m) v ++ go r end) vs
  end
with in_text (m : nat) (i : inline) {struct i} : bytes :=
  match i with
  | Placeable e1 => [123%N] ++ ex_text m e1 ++ (if is_sel e1 then ind m else []) ++ [125%N]
  | _ => ctext i
  end
with var_text (m1 : nat) (v : variant) {struct v} : bytes :=
  match v with
  | Variant k p dflt => star_ind m1 dflt ++ [91%N] ++ render_key k ++ [93%N] ++ pat_text m1 p ++ [10%N]
  end
with pat_text (k : nat) (p : pattern) {struct p} : bytes :=
  match p with
  | Pattern els =>
      (if starts_on_new_line p then 10%N :: ind (S k) else [32%N]) ++
      (fix go (l : list pattern_element) : bytes :=
         match l with
         | [] => []
         | TextElement v :: r => ltext (4 * S k) v ++ go r
         | PlaceableElement e :: r =>
             (match e with
              | Inline (Placeable e1) =>
                  [123; 123; 32]%N ++ ex_text (S k) e1 ++ (if is_sel e1 then ind (S k) else []) ++ [32; 125; 125]%N
              | Select _ _ => [123; 32]%N ++ ex_text (S k) e ++ ind (S k) ++ [125%N]
              | Inline i => [123; 32]%N ++ in_text (S k) i ++ [32; 125]%N
              end) ++ go r
         end) els
  end.

(* the text of a placeable element at level m *)
Definition pl_text (m : nat) (e : expression) : bytes :=
  match e with
  | Inline (Placeable e1) => [123; 123; 32]%N ++ ex_text m e1 ++ (if is_sel e1 then ind m else []) ++ [32; 125; 125]%N
  | Select _ _ => [123; 32]%N ++ ex_text m e ++ ind m ++ [125%N]
  | Inline i => [123; 32]%N ++ in_text m i ++ [32; 125]%N
  end.

Fixpoint body_text (m : nat) (els : list pattern_element) : bytes :=
  match els with
  | [] => []
  | TextElement v :: r => ltext (4 * m) v ++ body_text m r
  | PlaceableElement e :: r => pl_text m e ++ body_text m r
  end.

Fixpoint vars_text (m1 : nat) (vs : list variant) : bytes :=
  match vs with [] => [] | v :: r => var_text m1 v ++ vars_text m1 r end.

Lemma pat_text_eq k els :
  pat_text k (Pattern els) = (if starts_on_new_line (Pattern els) then 10%N :: ind (S k) else [32%N]) ++ body_text (S k) els.
Proof.
  cbn [pat_text]. f_equal. induction els as [|el r IH]; [reflexivity|].
  destruct el as [v|e]; cbn [body_text]; rewrite <- IH; reflexivity.
Qed.

Lemma ex_text_select m sel vs : ex_text m (Select sel vs) = in_text m sel ++ [32; 45; 62; 10]%N ++ vars_text (S m) vs.
Proof.
  cbn [ex_text]. do 2 f_equal. induction vs as [|v r IH]; [reflexivity|]. cbn [vars_text]. rewrite <- IH. reflexivity.
Qed.

(* ---------------------------------------------------------------------------------------------- *)
(* 2. The canonical text is a layout                                                                *)

Lemma in_text_binline m i : binline i = true -> in_text m i = ctext i.
Proof. destruct i; try reflexivity. discriminate. Qed.
Lemma in_text_bsel m i : bsel i = true -> in_text m i = ctext i.
Proof. destruct i; try reflexivity. discriminate. Qed.

Definition EL (d : nat) : Prop := forall m e, eokd d e = true -> etextd d e (ex_text m e).
Definition PL (d : nat) : Prop := forall k els, wl_pattern (eokd d) (Pattern els) = true ->
  wl_value_layout (etextd d) els (pat_text k (Pattern els)).

Lemma all_blank_closing m e : all_blank (if is_sel e then ind m else []).
Proof. destruct (is_sel e); [apply all_blank_sp | reflexivity]. Qed.

(* the text of a placeable element: "{", blank, a layout of the expression, blank, "}" *)
Lemma pl_text_layout0 m e : eokd 0 e = true ->
  exists b1 X b2, pl_text m e = 123%N :: b1 ++ X ++ b2 ++ [125%N] /\ all_blank b1 /\ all_blank b2 /\ etextd 0 e X.
Proof.
  destruct e as [sel vs | i]; [discriminate|]. cbn [eokd eok0]. intros Hi.
  exists (sp 1), (ctext i), (sp 1).
  split; [|split; [apply all_blank_sp | split; [apply all_blank_sp | constructor; [exact Hi | apply (itext_ctext i Hi)]]]].
  unfold pl_text. destruct i; try discriminate Hi; reflexivity.
Qed.

Lemma pl_text_layoutS d m e : EL d -> EL (S d) -> eokd (S d) e = true ->
  exists b1 X b2, pl_text m e = 123%N :: b1 ++ X ++ b2 ++ [125%N] /\ all_blank b1 /\ all_blank b2 /\ etextd (S d) e X.
Proof.
  intros HELd HELS He.
  destruct (eokd_S_cases d e He) as [(i & -> & Hi) | [(e1 & -> & He1) | (sel & vs & -> & Hsel & Hcnt & Hvs)]].
  - exists (sp 1), (ctext i), (sp 1).
    split; [|split; [apply all_blank_sp | split; [apply all_blank_sp | left; constructor; [exact Hi | apply (itext_ctext i Hi)]]]].
    unfold pl_text. destruct i; try discriminate Hi; reflexivity.
  - exists [], (123%N :: sp 1 ++ ex_text m e1 ++ ((if is_sel e1 then ind m else []) ++ sp 1) ++ [125%N]), [].
    split; [|split; [reflexivity | split; [reflexivity|]]].
    + unfold pl_text. cbn [app sp repeat]. rewrite <- !app_assoc. reflexivity.
    + right; left. exists e1, (sp 1), ((if is_sel e1 then ind m else []) ++ sp 1), (ex_text m e1).
      split; [reflexivity | split; [apply all_blank_sp | split; [apply all_blank_app; [apply all_blank_closing | apply all_blank_sp]|]]].
      split; [apply (HELd m e1 He1) | reflexivity].
  - exists (sp 1), (ex_text m (Select sel vs)), (ind m).
    split; [reflexivity | split; [apply all_blank_sp | split; [apply all_blank_sp | apply (HELS m _ He)]]].
Qed.

Lemma body_text_layout (d : nat) (m : nat) els :
  (forall e, eokd d e = true -> exists b1 X b2, pl_text m e = 123%N :: b1 ++ X ++ b2 ++ [125%N] /\ all_blank b1 /\ all_blank b2 /\ etextd d e X) ->
  forall prev, ml_elements (eokd d) els prev = true -> ml_line_layout (etextd d) (4 * m) els (body_text m els).
Proof.
  intros Hpl. induction els as [|el r IH]; intros prev Hs; [constructor|].
  destruct el as [v | e]; cbn [ml_elements] in Hs; cbn [body_text].
  - apply andb_prop in Hs as [Hs Hr]. apply andb_prop in Hs as [_ Hv].
    unfold ml_text in Hv. unfold ltext. destruct (lines_of v) as [|l0 rest] eqn:El; [discriminate Hv|].
    apply andb_prop in Hv as [_ Hrest]. rewrite <- app_assoc.
    apply (mll_text (etextd d) (4 * m) v l0 rest r _ _ El); [apply cont_text_layout, Hrest | apply (IH true Hr)].
  - apply andb_prop in Hs as [He Hr]. destruct (Hpl e He) as (b1 & X & b2 & -> & Hb1 & Hb2 & HX).
    replace ((123%N :: b1 ++ X ++ b2 ++ [125%N]) ++ body_text m r) with (123%N :: b1 ++ X ++ b2 ++ 125%N :: body_text m r)
      by (cbn [app]; rewrite <- !app_assoc; reflexivity).
    constructor; try assumption. apply (IH false Hr).
Qed.

(* a value (class wl_pattern): the serializer writes the inline form only
   if the value has a single line or may not start a block line; then some continuation line is not indented *)
Lemma pat_text_layout_wl d k els :
  (forall m e, eokd d e = true -> exists b1 X b2, pl_text m e = 123%N :: b1 ++ X ++ b2 ++ [125%N] /\ all_blank b1 /\ all_blank b2 /\ etextd d e X) ->
  wl_pattern (eokd d) (Pattern els) = true -> wl_value_layout (etextd d) els (pat_text k (Pattern els)).
Proof.
  intros Hpl Hp. destruct (wl_pattern_parts _ els Hp) as (_ & Hs & _).
  rewrite pat_text_eq. pose proof (body_text_layout d (S k) els (Hpl (S k)) false Hs) as HL.
  destruct (starts_on_new_line (Pattern els)) eqn:Est.
  - change (10%N :: ind (S k) ++ body_text (S k) els) with (sp 0 ++ lf ++ [] ++ sp (4 * S k) ++ body_text (S k) els).
    apply (wvl_block (etextd d) els 0 lf 0 [] (4 * S k) (body_text (S k) els)); [|left; reflexivity | constructor | lia | exact HL].
    unfold starts_on_new_line in Est. apply andb_prop in Est as [Hd _]. rewrite first_ok_leading_dot. exact Hd.
  - change ([32%N] ++ body_text (S k) els) with (sp 1 ++ body_text (S k) els).
    apply (wvl_inline (etextd d) els 1 (4 * S k) (body_text (S k) els) (proj1 (wl_inline_hit _ els Hp Est)) (proj2 (wl_inline_hit _ els Hp Est))); [lia | exact HL].
Qed.


(* the variants *)
Lemma vars_text_layout d m1 vs : PL d -> forallb (variant_ok (eokd d)) vs = true -> vs <> [] ->
  exists W0 VS, vars_text m1 vs = W0 ++ VS /\ all_blank W0 /\ variants_layout (wl_value_layout (etextd d)) vs VS.
Proof.
  intros HPL. induction vs as [|v r IH]; intros Hok Hne; [congruence|].
  cbn [forallb] in Hok. apply andb_prop in Hok as [Hv Hr]. destruct v as [k [els] dflt].
  unfold variant_ok in Hv. apply andb_prop in Hv as [Hk Hp]. pose proof (HPL m1 els Hp) as HV.
  cbn [vars_text var_text].
  assert (Hrest : exists W VSr, vars_text m1 r = W ++ VSr /\ all_blank W /\ variants_layout (wl_value_layout (etextd d)) r VSr).
  { destruct r as [|v2 r2]; [exists [], []; split; [reflexivity | split; [reflexivity | constructor]]|].
    apply (IH Hr). discriminate. }
  destruct Hrest as (W & VSr & EW & HW & HVSr). rewrite EW.
  exists (if dflt then sp (4 * m1 - 1) else sp (4 * m1)),
         ((if dflt then [42%N] else []) ++ 91%N :: [] ++ render_key k ++ [] ++ 93%N :: pat_text m1 (Pattern els) ++ lf ++ W ++ VSr).
  split; [|split; [destruct dflt; apply all_blank_sp|]].
  - unfold star_ind, lf. destruct dflt; repeat (cbn [app]; rewrite <- ?app_assoc); reflexivity.
  - apply vsl_cons; try assumption; try reflexivity. left; reflexivity.
Qed.

Lemma EL_0 : EL 0.
Proof.
  intros m e He. destruct e as [sel vs | i]; [discriminate He|]. cbn [eokd eok0] in He.
  cbn [ex_text]. rewrite (in_text_binline m i He). constructor; [exact He | apply (itext_ctext i He)].
Qed.

Lemma EL_S d : EL d -> PL d -> EL (S d).
Proof.
  intros HEL HPL m e He.
  destruct (eokd_S_cases d e He) as [(i & -> & Hi) | [(e1 & -> & He1) | (sel & vs & -> & Hsel & Hcnt & Hvs)]].
  - cbn [ex_text]. rewrite (in_text_binline m i Hi). left. constructor; [exact Hi | apply (itext_ctext i Hi)].
  - right; left. exists e1, [], (if is_sel e1 then ind m else []), (ex_text m e1).
    split; [reflexivity | split; [reflexivity | split; [apply all_blank_closing | split; [apply (HEL m e1 He1) | reflexivity]]]].
  - right; right. rewrite ex_text_select, (in_text_bsel m sel Hsel).
    assert (Hne : vs <> []) by (intros ->; discriminate Hcnt).
    destruct (vars_text_layout d (S m) vs HPL Hvs Hne) as (W0 & VS & -> & HW0 & HVS).
    change (ctext sel ++ [32; 45; 62; 10]%N ++ W0 ++ VS)
      with (ctext sel ++ sp 1 ++ [45; 62]%N ++ sp 0 ++ lf ++ W0 ++ VS).
    apply sell; try assumption; [apply (seltext_ctext sel Hsel) | apply all_blank_sp | discriminate | left; reflexivity].
Qed.

Lemma PL_of_EL0 : EL 0 -> PL 0.
Proof. intros _ k els. apply pat_text_layout_wl. intros m e. apply pl_text_layout0. Qed.

Lemma PL_S d : EL d -> EL (S d) -> PL (S d).
Proof. intros H1 H2 k els. apply pat_text_layout_wl. intros m e. apply (pl_text_layoutS d m e H1 H2). Qed.

Lemma layouts_all d : EL d /\ PL d.
Proof.
  induction d as [|d [HEL HPL]]; [split; [exact EL_0 | exact (PL_of_EL0 EL_0)]|].
  pose proof (EL_S d HEL HPL) as HS. split; [exact HS | exact (PL_S d HEL HS)].
Qed.


(* ---------------------------------------------------------------------------------------------- *)
(* 3. The serializer on split trees                                                                 *)

(* the joined elements of a split pattern (placeables joined inside, too) *)
Definition jels (els : list pattern_element) : list pattern_element := join_elements (join_els_map els).

Lemma join_pattern_jels els : join_pattern (Pattern els) = Pattern (jels els).
Proof. apply join_pattern_els. Qed.

Lemma jels_text a r :
  jels (TextElement a :: r) = match jels r with TextElement b :: r' => TextElement (a ++ b) :: r' | J => TextElement a :: J end.
Proof. reflexivity. Qed.
Lemma jels_placeable e r : jels (PlaceableElement e :: r) = PlaceableElement (join_expr e) :: jels r.
Proof. reflexivity. Qed.
Lemma jels_ne r : r <> [] -> jels r <> [].
Proof. intros H. unfold jels. apply join_elements_ne. destruct r; [congruence | discriminate]. Qed.

(* what the element loop writes at level m; `start`: the writer is at the start of a line *)
Fixpoint stext2 (m : nat) (start : bool) (els : list pattern_element) : bytes :=
  match els with
  | [] => []
  | TextElement v :: r => (if start then ind m else []) ++ v ++ stext2 m (N.eqb (last v 0%N) 10) r
  | PlaceableElement e :: r => (if start then ind m else []) ++ pl_text m (join_expr e) ++ stext2 m false r
  end.

(* the serializer on one placeable element at level m *)
Definition plw (m : nat) (e : expression) : Prop :=
  forall x, indent_level x = m -> ends_with 13 x = false ->
  serialize_element (PlaceableElement e) x =
  Done (Writer (rev (pl_text m (join_expr e)) ++ rev (if ends_with 10 x then ind m else []) ++ rbuf x) m).

Definition split_el2 (m : nat) (el : pattern_element) : Prop :=
  match el with
  | TextElement v => v <> [] /\ lf_last v /\ existsb (N.eqb 13) v = false
  | PlaceableElement e => plw m e
  end.

Lemma pl_text_last m e : exists l, pl_text m e = l ++ [125%N].
Proof.
  unfold pl_text. destruct e as [sel vs | i].
  - eexists. rewrite !app_assoc. reflexivity.
  - destruct i; eexists; try (rewrite !app_assoc; change [32; 125]%N with ([32%N] ++ [125%N]); rewrite !app_assoc; reflexivity).
    change [32; 125; 125]%N with ([32; 125]%N ++ [125%N]). rewrite !app_assoc. reflexivity.
Qed.

Lemma ser_els_gen m els : forall x, indent_level x = m -> Forall (split_el2 m) els -> ends_with 13 x = false ->
  ser_els els x = Done (Writer (rev (stext2 m (ends_with 10 x) els) ++ rbuf x) m) /\
  ends_with 13 (Writer (rev (stext2 m (ends_with 10 x) els) ++ rbuf x) m) = false /\
  ends_with 10 (Writer (rev (stext2 m (ends_with 10 x) els) ++ rbuf x) m) = end_start (ends_with 10 x) els.
Proof.
  induction els as [|el r IH]; intros x Hl Hall H13.
  - cbn [ser_els stext2 end_start rev app]. unfold wskip. destruct x as [rb lvl]. cbn [rbuf indent_level] in *. subst lvl. auto.
  - inversion Hall as [|? ? Hel Hr]; subst. cbn [ser_els].
    destruct el as [v | e]; cbn [split_el2] in Hel.
    + destruct Hel as (Hne & Hlf & Hcr). cbn [serialize_element stext2 end_start].
      unfold wseq. rewrite (write_literal_nocr v x H13). cbn [obind]. fold (ind (indent_level x)).
      set (x1 := Writer (rev v ++ rev (if ends_with 10 x then ind (indent_level x) else []) ++ rbuf x) (indent_level x)).
      assert (H13' : ends_with 13 x1 = false) by (unfold x1; rewrite (ends_with_rev_last 13 v _ _ Hne); apply last_not_cr; assumption).
      assert (H10' : ends_with 10 x1 = N.eqb (last v 0%N) 10) by (unfold x1; apply (ends_with_rev_last 10 v _ _ Hne)).
      destruct (IH x1 eq_refl Hr H13') as (E & I13 & I10).
      rewrite H10' in E, I13, I10.
      assert (Eb : rev (stext2 (indent_level x) (N.eqb (last v 0%N) 10) r) ++ rbuf x1 =
                   rev ((if ends_with 10 x then ind (indent_level x) else []) ++ v ++
                        stext2 (indent_level x) (N.eqb (last v 0%N) 10) r) ++ rbuf x).
      { unfold x1. cbn [rbuf]. rewrite !rev_app_distr, <- !app_assoc. reflexivity. }
      rewrite Eb in E, I13, I10. split; [exact E | split; assumption].
    + cbn [stext2 end_start]. unfold wseq. rewrite (Hel x eq_refl H13). cbn [obind].
      set (x1 := Writer (rev (pl_text (indent_level x) (join_expr e)) ++ rev (if ends_with 10 x then ind (indent_level x) else []) ++ rbuf x)
                        (indent_level x)).
      destruct (pl_text_last (indent_level x) (join_expr e)) as [l El].
      assert (H13' : ends_with 13 x1 = false) by (unfold x1; rewrite El, rev_app_distr; reflexivity).
      assert (H10' : ends_with 10 x1 = false) by (unfold x1; rewrite El, rev_app_distr; reflexivity).
      destruct (IH x1 eq_refl Hr H13') as (E & I13 & I10).
      rewrite H10' in E, I13, I10.
      assert (Eb : rev (stext2 (indent_level x) false r) ++ rbuf x1 =
                   rev ((if ends_with 10 x then ind (indent_level x) else []) ++ pl_text (indent_level x) (join_expr e) ++
                        stext2 (indent_level x) false r) ++ rbuf x).
      { unfold x1. cbn [rbuf]. rewrite !rev_app_distr, <- !app_assoc. reflexivity. }
      rewrite Eb in E, I13, I10. split; [exact E | split; assumption].
Qed.

Lemma stext2_start m els : els <> [] -> stext2 m true els = ind m ++ stext2 m false els.
Proof. destruct els as [|[v|e] r]; [congruence | |]; reflexivity. Qed.

(* stext2 is the canonical text of the joined elements *)
Lemma stext2_body m els : Forall (fun el => match el with TextElement v => v <> [] /\ lf_last v | _ => True end) els ->
  no_final_lf els -> stext2 m false els = body_text m (jels els).
Proof.
  induction els as [|el r IH]; intros Hall Hfin; [reflexivity|].
  inversion Hall as [|? ? Hel Hr]; subst.
  assert (Hfin' : r <> [] -> no_final_lf r) by (intros Hne; destruct r; [congruence | destruct el; exact Hfin]).
  destruct el as [a | e].
  - destruct Hel as (Hne & Hlf). cbn [stext2 app]. rewrite jels_text.
    destruct (lf_last_cases a Hne Hlf) as [[El Hno] | [El (a0 & -> & Hno)]]; rewrite El.
    + destruct r as [|el2 r2]; [cbn [stext2 jels join_els_map join_elements body_text]; rewrite (ltext_nolf (4 * m) a Hno); reflexivity|].
      rewrite (IH Hr (Hfin' ltac:(discriminate))).
      destruct (jels (el2 :: r2)) as [|[b|e] r'] eqn:EJ.
      * cbn [body_text]. rewrite (ltext_nolf (4 * m) a Hno). reflexivity.
      * cbn [body_text]. rewrite (ltext_nolf_app (4 * m) a b Hno), <- app_assoc. reflexivity.
      * cbn [body_text]. rewrite (ltext_nolf (4 * m) a Hno). reflexivity.
    + destruct r as [|el2 r2]; [cbn [no_final_lf] in Hfin; congruence|].
      rewrite (stext2_start m (el2 :: r2) ltac:(discriminate)), (IH Hr (Hfin' ltac:(discriminate))).
      pose proof (jels_ne (el2 :: r2) ltac:(discriminate)) as HJ.
      destruct (jels (el2 :: r2)) as [|[b|e] r'] eqn:EJ; [congruence| |].
      * cbn [body_text]. replace ((a0 ++ [10%N]) ++ b) with (a0 ++ 10%N :: b) by (rewrite <- app_assoc; reflexivity).
        rewrite (ltext_lf_app (4 * m) a0 b Hno), <- !app_assoc. cbn [app]. rewrite <- !app_assoc. reflexivity.
      * cbn [body_text]. rewrite (ltext_lf_end (4 * m) a0 Hno), <- !app_assoc. cbn [app]. rewrite <- ?app_assoc. reflexivity.
  - cbn [stext2 app]. rewrite jels_placeable. cbn [body_text]. destruct r as [|el2 r2]; [reflexivity|].
    rewrite (IH Hr (Hfin' ltac:(discriminate))). reflexivity.
Qed.

Lemma end_start_final2 els : forall start,
  Forall (fun el => match el with TextElement v => v <> [] | _ => True end) els -> els <> [] -> no_final_lf els ->
  end_start start els = false.
Proof.
  induction els as [|el r IH]; intros start Hall Hne Hfin; [congruence|].
  inversion Hall as [|? ? Hel Hr]; subst.
  destruct r as [|el2 r2].
  - destruct el as [v|e]; cbn [end_start]; [exact Hfin | reflexivity].
  - assert (Hfin' : no_final_lf (el2 :: r2)) by (destruct el; exact Hfin).
    destruct el as [v|e].
    + change (end_start start (TextElement v :: el2 :: r2)) with (end_start (N.eqb (last v 0%N) 10) (el2 :: r2)).
      apply (IH _ Hr ltac:(discriminate) Hfin').
    + change (end_start start (PlaceableElement e :: el2 :: r2)) with (end_start false (el2 :: r2)).
      apply (IH _ Hr ltac:(discriminate) Hfin').
Qed.

(* ---- the start of a value is the same for the split and the joined elements ---- *)
Lemma is_select_join : forall e, is_select_expr (join_expr e) = is_select_expr e.
Proof.
  fix IH 1. intros [sel vs | i]; [reflexivity|]. destruct i; try reflexivity.
  change (join_expr (Inline (Placeable expression))) with (Inline (Placeable (join_expr expression))).
  cbn [is_select_expr]. apply IH.
Qed.

Lemma starts_on_new_line_jels els : Forall text_nonempty els ->
  starts_on_new_line (Pattern (jels els)) = starts_on_new_line (Pattern els).
Proof.
  intros Hne. unfold starts_on_new_line. f_equal.
  - f_equal. unfold has_leading_text_dot. cbn [pattern_elements]. destruct els as [|[a|e] r]; try reflexivity.
    inversion Hne as [|? ? Ha _]; subst. destruct a as [|b t]; [contradiction|].
    rewrite jels_text. destruct (jels r) as [|[b'|e] r']; reflexivity.
  - unfold is_multiline. cbn [pattern_elements]. clear Hne. induction els as [|el r IH]; [reflexivity|].
    destruct el as [a|e]; [|rewrite jels_placeable; cbn [existsb]; rewrite IH, is_select_join; reflexivity].
    rewrite jels_text. cbn [existsb]. rewrite <- IH.
    destruct (jels r) as [|[b|e] r']; cbn [existsb]; try reflexivity.
    unfold contains_lf. rewrite existsb_app, orb_assoc. reflexivity.
Qed.

(* ---- serialize_pattern on split elements, given the serializer on their placeables ---- *)
Lemma ser_pattern_gen els x :
  Forall (split_el2 (S (indent_level x))) els -> els <> [] -> no_final_lf els -> mid_line x ->
  serialize_pattern (Pattern els) x =
  Done (Writer (rev (pat_text (indent_level x) (Pattern (jels els))) ++ rbuf x) (indent_level x)) /\
  mid_line (Writer (rev (pat_text (indent_level x) (Pattern (jels els))) ++ rbuf x) (indent_level x)).
Proof.
  intros Hall Hne Hfin [H10 H13].
  assert (Htne : Forall text_nonempty els).
  { rewrite Forall_forall in *. intros el Hin. specialize (Hall el Hin). destruct el as [[|b0 v]|e]; cbn in *; try exact Logic.I.
    destruct Hall as [H _]. congruence. }
  assert (Htok : Forall (fun el => match el with TextElement v => v <> [] /\ lf_last v | _ => True end) els).
  { rewrite Forall_forall in *. intros el Hin. specialize (Hall el Hin). destruct el as [v|e]; [|exact Logic.I].
    destruct Hall as (H1 & H2 & _). split; assumption. }
  assert (Htn : Forall (fun el => match el with TextElement v => v <> [] | _ => True end) els).
  { rewrite Forall_forall in *. intros el Hin. specialize (Hall el Hin). destruct el as [v|e]; [|exact Logic.I]. apply Hall. }
  rewrite serialize_pattern_els, pat_text_eq, (starts_on_new_line_jels els Htne).
  set (m := S (indent_level x)) in *.
  destruct (starts_on_new_line (Pattern els)).
  - unfold wseq at 1. unfold wseq at 1. rewrite (newline_plain x H13). cbn [obind]. unfold indent at 1. cbn [obind rbuf indent_level]. fold m.
    destruct (ser_els_gen m els (Writer (10%N :: rbuf x) m) eq_refl Hall eq_refl) as (E & I13 & I10).
    cbn [rbuf indent_level] in E, I13, I10. change (ends_with 10 (Writer (10%N :: rbuf x) m)) with true in E, I13, I10.
    rewrite (stext2_start m els Hne), (stext2_body m els Htok Hfin) in E, I13, I10.
    rewrite (end_start_final2 els true Htn Hne Hfin) in I10.
    unfold wseq. rewrite E. cbn [obind]. unfold dedent. cbn [indent_level rbuf].
    assert (Eb : rev (ind m ++ body_text m (jels els)) ++ 10%N :: rbuf x =
                 rev ((10%N :: ind m) ++ body_text m (jels els)) ++ rbuf x)
      by (cbn [app rev]; rewrite <- app_assoc; reflexivity).
    unfold m in *. rewrite Eb in *. split; [reflexivity | split; assumption].
  - unfold wseq at 1. unfold wseq at 1. unfold lit. cbn [bytes_of_string]. rewrite (write_literal_mid _ x H10 H13). cbn [obind].
    unfold indent at 1. unfold push_bytes. cbn [obind rbuf indent_level rev app]. fold m.
    destruct (ser_els_gen m els (Writer (N_of_ascii " " :: rbuf x) m) eq_refl Hall eq_refl) as (E & I13 & I10).
    cbn [rbuf indent_level] in E, I13, I10.
    change (ends_with 10 (Writer (N_of_ascii " " :: rbuf x) m)) with false in E, I13, I10.
    rewrite (stext2_body m els Htok Hfin) in E, I13, I10.
    rewrite (end_start_final2 els false Htn Hne Hfin) in I10.
    unfold wseq. rewrite E. cbn [obind]. unfold dedent. cbn [indent_level rbuf].
    assert (Eb : rev (body_text m (jels els)) ++ N_of_ascii " " :: rbuf x =
                 rev ([32%N] ++ body_text m (jels els)) ++ rbuf x)
      by (cbn [app rev]; rewrite <- app_assoc; reflexivity).
    unfold m in *. rewrite Eb in *. split; [reflexivity | split; assumption].
Qed.

(* ---- split expressions and patterns of depth d ---- *)
Definition sexp (d : nat) (e : expression) : Prop := eokd d (join_expr e) = true /\ goodd d e.
Definition spat (d : nat) (els : list pattern_element) : Prop :=
  wl_pattern (eokd d) (Pattern (jels els)) = true /\ Forall (text_ok (goodd d)) els.

Lemma sexp_0 e : sexp 0 e -> exists i, e = Inline i /\ binline i = true.
Proof.
  intros [He _]. cbn [eokd] in He. destruct e as [sel vs | i]; [rewrite join_expr_select in He; discriminate He|].
  change (join_expr (Inline i)) with (Inline (join_inline i)) in He. cbn [eok0] in He.
  exists i. split; [reflexivity|]. rewrite <- (join_inline_binline_inv i _ eq_refl He) in He. exact He.
Qed.

Lemma count_defaults_join vs : count_defaults (map join_variant vs) = count_defaults vs.
Proof. induction vs as [|[k p d0] r IH]; [reflexivity|]. cbn [map join_variant count_defaults]. rewrite IH. reflexivity. Qed.

Lemma sexp_S d e : sexp (S d) e ->
  (exists i, e = Inline i /\ binline i = true) \/
  (exists e1, e = Inline (Placeable e1) /\ sexp d e1) \/
  (exists sel vs, e = Select sel vs /\ bsel sel = true /\ vs <> [] /\
     Forall (fun v => match v with Variant k (Pattern els) _ => key_ok k = true /\ spat d els end) vs).
Proof.
  intros [He Hg]. destruct e as [sel vs | i].
  - right; right. rewrite join_expr_select in He.
    destruct (eokd_S_cases d _ He) as [(i & E & _) | [(e1 & E & _) | (sel0 & vs0 & E & Hsel & Hcnt & Hvs)]]; try discriminate E.
    injection E as <- <-.
    pose proof (join_inline_bsel_inv sel _ eq_refl Hsel) as Es. rewrite <- Es in Hsel.
    exists sel, vs. split; [reflexivity | split; [exact Hsel | split]].
    + intros ->. discriminate Hcnt.
    + cbn [goodd] in Hg. rewrite Forall_forall in *. intros v Hv. specialize (Hg v Hv).
      rewrite forallb_forall in Hvs. specialize (Hvs (join_variant v) (in_map _ _ _ Hv)).
      destruct v as [k [els] d0]. cbn [join_variant] in Hvs. unfold variant_ok in Hvs. apply andb_prop in Hvs as [Hk Hp].
      rewrite join_pattern_jels in Hp. split; [exact Hk | split; [exact Hp | exact Hg]].
  - change (join_expr (Inline i)) with (Inline (join_inline i)) in He.
    destruct (eokd_S_cases d _ He) as [(i0 & E & Hi0) | [(e1 & E & He1) | (sel0 & vs0 & E & _)]]; [| | discriminate E].
    + injection E as E. left. exists i0. split; [f_equal; apply (join_inline_binline_inv i i0 E Hi0) | exact Hi0].
    + injection E as E. right; left.
      destruct i as [s | v | id args | id att | id att args | id | e0]; cbn [join_inline] in E; try discriminate E.
      injection E as E. exists e0. split; [reflexivity|]. split; [rewrite E; exact He1 | exact Hg].
Qed.

(* ---- the elements of a split pattern ---- *)
Lemma in_jels_placeable e l : In (PlaceableElement e) l -> In (PlaceableElement (join_expr e)) (jels l).
Proof.
  induction l as [|el r IH]; intros Hin; [destruct Hin|]. destruct el as [a|e0].
  - destruct Hin as [E | Hin]; [discriminate E|]. specialize (IH Hin). rewrite jels_text.
    destruct (jels r) as [|[b|e1] r']; [destruct IH | | right; exact IH].
    destruct IH as [E | IH]; [discriminate E | right; exact IH].
  - rewrite jels_placeable. destruct Hin as [E | Hin]; [injection E as ->; left; reflexivity | right; apply IH, Hin].
Qed.

Lemma in_jels_text v b l : In (TextElement v) l -> In b v -> exists w, In (TextElement w) (jels l) /\ In b w.
Proof.
  induction l as [|el r IH]; intros Hin Hb; [destruct Hin|]. destruct el as [a|e0].
  - rewrite jels_text. destruct Hin as [E | Hin].
    + injection E as ->. destruct (jels r) as [|[b'|e1] r'].
      * exists v. split; [left; reflexivity | exact Hb].
      * exists (v ++ b'). split; [left; reflexivity | apply in_or_app; left; exact Hb].
      * exists v. split; [left; reflexivity | exact Hb].
    + destruct (IH Hin Hb) as (w & Hw & Hbw). destruct (jels r) as [|[b'|e1] r']; [destruct Hw | |].
      * destruct Hw as [E | Hw]; [injection E as ->; exists (a ++ w); split; [left; reflexivity | apply in_or_app; right; exact Hbw]
                                 | exists w; split; [right; exact Hw | exact Hbw]].
      * exists w. split; [right; exact Hw | exact Hbw].
  - rewrite jels_placeable. destruct Hin as [E | Hin]; [discriminate E|].
    destruct (IH Hin Hb) as (w & Hw & Hbw). exists w. split; [right; exact Hw | exact Hbw].
Qed.

Lemma no_final_lf_map l : no_final_lf (join_els_map l) <-> no_final_lf l.
Proof.
  induction l as [|el r IH]; [split; auto|]. destruct r as [|el2 r2].
  - destruct el; cbn; split; auto.
  - cbn [join_els_map] in *. rewrite (no_final_lf_cons (join_element el) (join_element el2 :: join_els_map r2) ltac:(discriminate)).
    rewrite (no_final_lf_cons el (el2 :: r2) ltac:(discriminate)). exact IH.
Qed.

Lemma text_nonempty_map l : Forall text_nonempty l -> Forall text_nonempty (join_els_map l).
Proof. induction 1 as [|el r Hel Hr IH]; [constructor|]. cbn [join_els_map]. constructor; [destruct el; exact Hel | exact IH]. Qed.

Lemma ml_elements_texts' eok els : forall prev, RoundTripML.ml_elements eok els prev = true ->
  forall v, In (TextElement v) els -> exists c, ml_text c v = true.
Proof.
  induction els as [|el r IH]; intros prev Hs v Hin; [destruct Hin|].
  destruct el as [w | e]; cbn [RoundTripML.ml_elements] in Hs.
  - apply andb_prop in Hs as [Hs Hr]. apply andb_prop in Hs as [_ Hw].
    destruct Hin as [E | Hin]; [injection E as <-; eauto | apply (IH true Hr v Hin)].
  - apply andb_prop in Hs as [_ Hr]. destruct Hin as [E | Hin]; [discriminate E | apply (IH false Hr v Hin)].
Qed.

Lemma spat_facts d els : spat d els ->
  els <> [] /\ no_final_lf els /\
  (forall e, In (PlaceableElement e) els -> sexp d e) /\
  (forall v, In (TextElement v) els -> v <> [] /\ lf_last v /\ existsb (N.eqb 13) v = false).
Proof.
  intros [Hp Hok]. destruct (wl_pattern_parts _ _ Hp) as (Hne & Hs & _ & Hl & _).
  pose proof (Forall_impl _ (text_ok_nonempty (goodd d)) Hok) as Htne.
  split; [intros ->; apply Hne; reflexivity|]. split; [|split].
  - apply no_final_lf_map. apply no_final_lf_join; [apply text_nonempty_map, Htne | apply ml_last_ok_no_final_lf, Hl].
  - intros e He. split.
    + apply (ml_elements_placeables (eokd d) _ false Hs _ (in_jels_placeable e els He)).
    + rewrite Forall_forall in Hok. apply (Hok _ He).
  - intros v Hv. rewrite Forall_forall in Hok. destruct (Hok _ Hv) as [H1 H2]. split; [exact H1 | split; [exact H2|]].
    apply not_true_is_false. intros Hex. apply existsb_exists in Hex as (b & Hb & E). apply N.eqb_eq in E. subst b.
    destruct (in_jels_text v 13%N els Hv Hb) as (w & Hw & Hbw).
    destruct (ml_elements_texts' (eokd d) _ false Hs w Hw) as [c Hc]. pose proof (ml_text_in c w 13%N Hc Hbw) as H13. discriminate H13.
Qed.

(* ---- literals ---- *)
Lemma write_literal_nolf item x : match item with b :: _ => N.eqb b 10 = false | [] => True end ->
  write_literal item x =
  Done (Writer (rev item ++ rev (if ends_with 10 x then ind (indent_level x) else []) ++ rbuf x) (indent_level x)).
Proof.
  intros Hitem. unfold write_literal.
  replace (match item with [] => false | b :: _ => N.eqb b 10 end) with false by (destruct item; [reflexivity | symmetry; exact Hitem]).
  rewrite andb_false_r. destruct (ends_with 10 x).
  - unfold write_indent, push_bytes. cbn [rbuf indent_level]. rewrite indent_bytes_sp. reflexivity.
  - cbn [rev app]. destruct x; reflexivity.
Qed.

Fixpoint ser_variants (l : list variant) : W :=
  match l with [] => wskip | v :: r => serialize_variant v >> newline >> ser_variants r end.

Lemma serialize_select_eq sel vs :
  serialize_expression (Select sel vs) =
  (serialize_inline_expression sel >> lit " ->" >> newline >> indent >> ser_variants vs >> dedent).
Proof. reflexivity. Qed.

Definition SE (d : nat) : Prop := forall e x, sexp d e -> ends_with 10 x = false ->
  serialize_expression e x = Done (Writer (rev (ex_text (indent_level x) (join_expr e)) ++ rbuf x) (indent_level x)) /\
  ends_with 10 (Writer (rev (ex_text (indent_level x) (join_expr e)) ++ rbuf x) (indent_level x)) = is_sel (join_expr e).
Definition SP (d : nat) : Prop := forall els x, spat d els -> mid_line x ->
  serialize_pattern (Pattern els) x =
  Done (Writer (rev (pat_text (indent_level x) (Pattern (jels els))) ++ rbuf x) (indent_level x)) /\
  mid_line (Writer (rev (pat_text (indent_level x) (Pattern (jels els))) ++ rbuf x) (indent_level x)).

Lemma SE_simple i x : binline i = true -> ends_with 10 x = false ->
  serialize_expression (Inline i) x = Done (Writer (rev (ex_text (indent_level x) (join_expr (Inline i))) ++ rbuf x) (indent_level x)) /\
  ends_with 10 (Writer (rev (ex_text (indent_level x) (join_expr (Inline i))) ++ rbuf x) (indent_level x)) = is_sel (join_expr (Inline i)).
Proof.
  intros Hi H10. change (join_expr (Inline i)) with (Inline (join_inline i)). rewrite (join_binline i Hi).
  cbn [ex_text is_sel]. rewrite (in_text_binline _ i Hi).
  destruct (writes_binline i Hi x H10) as [E H]. split; [exact E | exact H].
Qed.

(* ---- the serializer on a placeable element ---- *)
Lemma plw_simple m i : binline i = true -> plw m (Inline i).
Proof.
  intros Hi x Hl H13. change (join_expr (Inline i)) with (Inline (join_inline i)). rewrite (join_binline i Hi).
  assert (Hse : serialize_element (PlaceableElement (Inline i)) =
                (lit "{ " >> serialize_expression (Inline i) >> lit " }"))
    by (destruct i; try discriminate Hi; reflexivity).
  rewrite Hse. unfold wseq at 1. unfold lit at 1. rewrite (write_literal_nolf _ x); [|reflexivity]. cbn [obind bytes_of_string].
  assert (Hw2 : writes (serialize_expression (Inline i) >> lit " }") (ctext i ++ [32; 125]%N))
    by (apply writes_seq; [apply (writes_binline i Hi) | apply writes_lit; reflexivity]).
  match goal with |- _ ?y = _ => destruct (Hw2 y eq_refl) as [E2 _] end.
  rewrite E2. cbn [rbuf indent_level]. rewrite Hl. do 2 f_equal.
  unfold pl_text. rewrite (in_text_binline m i Hi).
  replace (match i with Placeable e1 => _ | _ => [123; 32]%N ++ ctext i ++ [32; 125]%N end)
    with ([123; 32]%N ++ ctext i ++ [32; 125]%N) by (destruct i; try discriminate Hi; reflexivity).
  rewrite !rev_app_distr. cbn [rev app]. rewrite <- !app_assoc. reflexivity.
Qed.

Lemma plw_nested d m e1 : SE d -> sexp d e1 -> plw m (Inline (Placeable e1)).
Proof.
  intros HSE He1 x Hl H13.
  change (serialize_element (PlaceableElement (Inline (Placeable e1))))
    with (lit "{{ " >> serialize_expression e1 >> lit " }}").
  unfold wseq at 1. unfold lit at 1. rewrite (write_literal_nolf _ x); [|reflexivity]. cbn [obind bytes_of_string].
  match goal with |- _ ?y = _ => destruct (HSE e1 y He1 eq_refl) as [E1 H1] end.
  cbn [indent_level rbuf] in E1, H1. unfold wseq. rewrite E1. cbn [obind].
  unfold lit. rewrite write_literal_nolf; [|reflexivity]. cbn [bytes_of_string indent_level rbuf]. rewrite H1, Hl.
  do 2 f_equal. change (join_expr (Inline (Placeable e1))) with (Inline (Placeable (join_expr e1))).
  unfold pl_text. rewrite !rev_app_distr. cbn [rev app]. rewrite <- !app_assoc. cbn [app]. reflexivity.
Qed.

Lemma plw_select d m sel vs : SE d -> sexp d (Select sel vs) -> plw m (Select sel vs).
Proof.
  intros HSE He x Hl H13.
  change (serialize_element (PlaceableElement (Select sel vs)))
    with (lit "{ " >> serialize_expression (Select sel vs) >> lit "}").
  unfold wseq at 1. unfold lit at 1. rewrite (write_literal_nolf _ x); [|reflexivity]. cbn [obind bytes_of_string].
  match goal with |- _ ?y = _ => destruct (HSE (Select sel vs) y He eq_refl) as [E1 H1] end.
  cbn [indent_level rbuf] in E1, H1. unfold wseq. rewrite E1. cbn [obind].
  unfold lit. rewrite write_literal_nolf; [|reflexivity]. cbn [bytes_of_string indent_level rbuf]. rewrite H1, Hl.
  rewrite join_expr_select. cbn [is_sel]. do 2 f_equal.
  unfold pl_text. rewrite !rev_app_distr. cbn [rev app]. rewrite <- !app_assoc. cbn [app]. reflexivity.
Qed.

Lemma plw_0 m e : sexp 0 e -> plw m e.
Proof. intros He. destruct (sexp_0 e He) as (i & -> & Hi). apply (plw_simple m i Hi). Qed.

Lemma plw_S d m e : SE d -> SE (S d) -> sexp (S d) e -> plw m e.
Proof.
  intros H1 H2 He. destruct (sexp_S d e He) as [(i & -> & Hi) | [(e1 & -> & He1) | (sel & vs & -> & _)]].
  - apply (plw_simple m i Hi).
  - apply (plw_nested d m e1 H1 He1).
  - apply (plw_select (S d) m sel vs H2 He).
Qed.

(* ---- serialize_pattern on a split pattern of depth d, given the placeables ---- *)
Lemma SP_of_plw d : (forall m e, sexp d e -> plw m e) -> SP d.
Proof.
  intros Hplw els x Hp Hm. destruct (spat_facts d els Hp) as (Hne & Hfin & Hpl & Htx).
  apply (ser_pattern_gen els x); try assumption.
  apply Forall_forall. intros el Hin. destruct el as [v|e]; cbn [split_el2]; [apply (Htx v Hin) | apply (Hplw _ e (Hpl e Hin))].
Qed.

(* ---- the variants of a select expression, from a line start at level m1 ---- *)
Lemma key_lf_free k : key_ok k = true -> lf_free (render_key k).
Proof. destruct k; cbn [key_ok render_key]; [apply wf_identifier_lf_free | apply wf_number_lf_free]. Qed.

Lemma ser_variants_ok d m0 vs : SP d ->
  Forall (fun v => match v with Variant k (Pattern els) _ => key_ok k = true /\ spat d els end) vs ->
  forall x, indent_level x = S m0 -> ends_with 10 x = true ->
  ser_variants vs x = Done (Writer (rev (vars_text (S m0) (map join_variant vs)) ++ rbuf x) (S m0)) /\
  ends_with 10 (Writer (rev (vars_text (S m0) (map join_variant vs)) ++ rbuf x) (S m0)) = true.
Proof.
  intros HSP. induction 1 as [|v r Hv Hr IH]; intros x Hl H10.
  - cbn [ser_variants map vars_text rev app]. unfold wskip. destruct x as [rb lvl]. cbn [indent_level] in Hl. subst lvl. auto.
  - destruct v as [k [els] dflt]. destruct Hv as [Hk Hp]. cbn [ser_variants map join_variant vars_text var_text].
    rewrite join_pattern_jels.
    (* "*" and "[" *)
    assert (Hopen : ((if dflt then write_char_into_indent 42 else wskip) >> lit "[") x =
                    Done (Writer (91%N :: rev (star_ind (S m0) dflt) ++ rbuf x) (S m0))).
    { unfold wseq. destruct dflt.
      - rewrite (write_char_into_indent_line_start 42 x m0 H10 Hl). cbn [obind]. unfold lit. cbn [bytes_of_string].
        rewrite write_literal_mid by reflexivity. unfold push_bytes. cbn [rbuf indent_level rev app]. do 2 f_equal.
        unfold star_ind. rewrite rev_app_distr, rev_sp. cbn [rev app]. replace (4 * S m0 - 1) with (4 * m0 + 3) by lia. reflexivity.
      - unfold wskip. cbn [obind]. unfold lit. rewrite write_literal_nolf by reflexivity. rewrite H10, Hl. cbn [bytes_of_string rev app].
        unfold star_ind, ind. reflexivity. }
    assert (Hhead : ((if dflt then write_char_into_indent 42 else wskip) >> lit "[" >> serialize_variant_key k >> lit "]") x =
                    Done (Writer (rev (star_ind (S m0) dflt ++ [91%N] ++ render_key k ++ [93%N]) ++ rbuf x) (S m0))).
    { rewrite <- wseq_assoc. unfold wseq at 1. rewrite Hopen. cbn [obind].
      assert (Hw : writes (serialize_variant_key k >> lit "]") (render_key k ++ [93%N])).
      { apply writes_seq; [|apply writes_lit; reflexivity]. destruct k; apply writes_literal, (key_lf_free _ Hk). }
      match goal with |- _ ?y = _ => destruct (Hw y eq_refl) as [E2 _] end.
      rewrite E2. cbn [rbuf indent_level]. do 2 f_equal. rewrite !rev_app_distr. cbn [rev app]. rewrite <- !app_assoc. reflexivity. }
    assert (Hall : (serialize_variant (Variant k (Pattern els) dflt) >> newline) x =
                   Done (Writer (rev (star_ind (S m0) dflt ++ [91%N] ++ render_key k ++ [93%N] ++ pat_text (S m0) (Pattern (jels els)) ++ [10%N]) ++ rbuf x) (S m0))).
    { change (serialize_variant (Variant k (Pattern els) dflt))
        with ((if dflt then write_char_into_indent 42 else wskip) >> lit "[" >> serialize_variant_key k >> lit "]" >> serialize_pattern (Pattern els)).
      assert (Hre : forall y, (((if dflt then write_char_into_indent 42 else wskip) >> lit "[" >> serialize_variant_key k >> lit "]" >>
                                serialize_pattern (Pattern els)) >> newline) y =
                              obind (((if dflt then write_char_into_indent 42 else wskip) >> lit "[" >> serialize_variant_key k >> lit "]") y)
                                    (fun y1 => obind (serialize_pattern (Pattern els) y1) newline)).
      { intros y. generalize (if dflt then write_char_into_indent 42 else wskip). intros a0. unfold wseq.
        destruct (a0 y) as [y1| |]; cbn [obind]; try reflexivity.
        destruct (lit "[" y1) as [y2| |]; cbn [obind]; try reflexivity.
        destruct (serialize_variant_key k y2) as [y3| |]; cbn [obind]; try reflexivity.
        all: try (destruct (lit "]" y3) as [y4| |]; reflexivity). }
      rewrite Hre, Hhead. cbn [obind].
      set (y := Writer (rev (star_ind (S m0) dflt ++ [91%N] ++ render_key k ++ [93%N]) ++ rbuf x) (S m0)).
      assert (Hmid : mid_line y).
      { unfold y. rewrite !app_assoc, rev_app_distr. split; reflexivity. }
      destruct (HSP els y Hp Hmid) as [Ep [_ Hm13]]. cbn [indent_level] in Ep, Hm13. rewrite Ep. cbn [obind].
      rewrite (newline_plain _ Hm13). cbn [rbuf indent_level]. do 2 f_equal. unfold y. cbn [rbuf].
      rewrite !rev_app_distr. cbn [rev app]. rewrite <- !app_assoc. reflexivity. }
    clear Hhead Hopen.
    assert (Hgo : (serialize_variant (Variant k (Pattern els) dflt) >> newline >> ser_variants r) x =
                  obind ((serialize_variant (Variant k (Pattern els) dflt) >> newline) x) (ser_variants r)).
    { unfold wseq. destruct (serialize_variant (Variant k (Pattern els) dflt) x); reflexivity. }
    match goal with |- ?lhs = _ /\ _ => replace lhs with ((serialize_variant (Variant k (Pattern els) dflt) >> newline >> ser_variants r) x) end.
    2:{ reflexivity. }
    rewrite Hgo, Hall. cbn [obind].
    set (y := Writer (rev (star_ind (S m0) dflt ++ [91%N] ++ render_key k ++ [93%N] ++ pat_text (S m0) (Pattern (jels els)) ++ [10%N]) ++ rbuf x) (S m0)).
    assert (Hy10 : ends_with 10 y = true).
    { unfold y. rewrite !app_assoc, rev_app_distr. reflexivity. }
    destruct (IH y eq_refl Hy10) as [E I10].
    assert (Eb : rev (vars_text (S m0) (map join_variant r)) ++ rbuf y =
                 rev ((star_ind (S m0) dflt ++ [91%N] ++ render_key k ++ [93%N] ++ pat_text (S m0) (Pattern (jels els)) ++ [10%N]) ++
                      vars_text (S m0) (map join_variant r)) ++ rbuf x).
    { unfold y. cbn [rbuf]. rewrite (rev_app_distr (_ ++ _ ++ _ ++ _ ++ _ ++ _)), <- app_assoc. reflexivity. }
    rewrite Eb in E, I10. split; [exact E | exact I10].
Qed.

(* ---- serialize_expression ---- *)
Lemma SE_0 : SE 0.
Proof. intros e x He H10. destruct (sexp_0 e He) as (i & -> & Hi). apply (SE_simple i x Hi H10). Qed.

Lemma SE_S d : SE d -> SP d -> SE (S d).
Proof.
  intros HSE HSP e x He H10.
  destruct (sexp_S d e He) as [(i & -> & Hi) | [(e1 & -> & He1) | (sel & vs & -> & Hsel & Hne & Hvs)]].
  - apply (SE_simple i x Hi H10).
  - (* "{" expression "}" *)
    change (serialize_expression (Inline (Placeable e1))) with (lit "{" >> serialize_expression e1 >> lit "}").
    change (join_expr (Inline (Placeable e1))) with (Inline (Placeable (join_expr e1))).
    unfold wseq at 1. unfold lit at 1. rewrite write_literal_nolf by reflexivity. rewrite H10. cbn [obind bytes_of_string rev app].
    destruct (HSE e1 (Writer (N_of_ascii "{" :: rbuf x) (indent_level x)) He1 eq_refl) as [E1 H1].
    cbn [indent_level rbuf] in E1, H1. unfold wseq. rewrite E1. cbn [obind].
    unfold lit. rewrite write_literal_nolf by reflexivity. cbn [bytes_of_string indent_level rbuf]. rewrite H1.
    cbn [ex_text in_text is_sel].
    assert (Eb : rev [N_of_ascii "}"] ++ rev (if is_sel (join_expr e1) then ind (indent_level x) else []) ++
                 rev (ex_text (indent_level x) (join_expr e1)) ++ N_of_ascii "{" :: rbuf x =
                 rev ([123%N] ++ ex_text (indent_level x) (join_expr e1) ++ (if is_sel (join_expr e1) then ind (indent_level x) else []) ++ [125%N]) ++ rbuf x).
    { rewrite !rev_app_distr. cbn [rev app]. rewrite <- !app_assoc. reflexivity. }
    rewrite Eb. split; [reflexivity|]. rewrite !app_assoc, rev_app_distr. reflexivity.
  - (* a select expression *)
    rewrite serialize_select_eq, join_expr_select, ex_text_select.
    rewrite (join_bsel sel Hsel), (in_text_bsel _ sel Hsel).
    assert (Hw : writes (serialize_inline_expression sel >> lit " ->") (ctext sel ++ [32; 45; 62]%N)).
    { apply writes_seq; [apply (writes_bsel sel Hsel) | apply writes_lit; reflexivity]. }
    destruct (Hw x H10) as [E1 _].
    assert (Hre : (serialize_inline_expression sel >> lit " ->" >> newline >> indent >> ser_variants vs >> dedent) x =
                  obind ((serialize_inline_expression sel >> lit " ->") x) (newline >> indent >> ser_variants vs >> dedent)).
    { unfold wseq. destruct (serialize_inline_expression sel x) as [y1| |]; reflexivity. }
    rewrite Hre, E1. cbn [obind]. unfold wseq at 1.
    rewrite newline_plain by (rewrite rev_app_distr; reflexivity). cbn [obind rbuf indent_level].
    unfold wseq at 1. unfold indent at 1. cbn [obind rbuf indent_level].
    destruct (ser_variants_ok d (indent_level x) vs HSP Hvs
                (Writer (10%N :: rev (ctext sel ++ [32; 45; 62]%N) ++ rbuf x) (S (indent_level x))) eq_refl eq_refl) as [E2 H2].
    cbn [rbuf] in E2, H2. unfold wseq. rewrite E2. cbn [obind]. unfold dedent. cbn [indent_level rbuf is_sel].
    assert (Eb : rev (vars_text (S (indent_level x)) (map join_variant vs)) ++ 10%N :: rev (ctext sel ++ [32; 45; 62]%N) ++ rbuf x =
                 rev (ctext sel ++ [32; 45; 62; 10]%N ++ vars_text (S (indent_level x)) (map join_variant vs)) ++ rbuf x).
    { rewrite !rev_app_distr. cbn [rev app]. rewrite <- !app_assoc. reflexivity. }
    rewrite Eb in *. split; [reflexivity | exact H2].
Qed.

Lemma ser_all d : SE d /\ SP d.
Proof.
  induction d as [|d [HSE HSP]].
  - split; [exact SE_0 | apply SP_of_plw; intros m e; apply plw_0].
  - pose proof (SE_S d HSE HSP) as HS. split; [exact HS | apply SP_of_plw; intros m e; apply (plw_S d m e HSE HS)].
Qed.

(* ---------------------------------------------------------------------------------------------- *)
(* 4. The fragment of split trees of depth d; round trip and fixed point                             *)

Definition text_okb2 (g : expression -> bool) (el : pattern_element) : bool :=
  match el with
  | TextElement v => negb (match v with [] => true | _ => false end) && negb (existsb (N.eqb 10) (removelast v))
  | PlaceableElement e => g e
  end.
Fixpoint goodb (d : nat) (e : expression) : bool :=
  match d with
  | 0 => true
  | S d' =>
      match e with
      | Inline (Placeable e1) => goodb d' e1
      | Inline _ => true
      | Select _ vs => forallb (fun v => match v with Variant _ (Pattern els) _ => forallb (text_okb2 (goodb d')) els end) vs
      end
  end.

Lemma text_okb2_spec (g : expression -> bool) (G : expression -> Prop) el :
  (forall e, g e = true <-> G e) -> (text_okb2 g el = true <-> text_ok G el).
Proof.
  intros Hg. destruct el as [v|e]; cbn [text_okb2 text_ok]; [|apply Hg]. unfold lf_last. split.
  - intros H. apply andb_prop in H as [H1 H2]. apply negb_true_iff in H2. split; [destruct v; [discriminate H1 | discriminate] | exact H2].
  - intros [H1 H2]. rewrite H2. destruct v; [congruence | reflexivity].
Qed.

Lemma goodb_spec d : forall e, goodb d e = true <-> goodd d e.
Proof.
  induction d as [|d IH]; intros e; [split; [intros _; exact Logic.I | reflexivity]|]. destruct e as [sel vs | i]; cbn [goodb goodd].
  - rewrite forallb_forall, Forall_forall. split; intros H v Hv; specialize (H v Hv); destruct v as [k [els] d0].
    + apply Forall_forall. intros el Hel. apply (text_okb2_spec _ _ el IH). rewrite forallb_forall in H. apply H, Hel.
    + apply forallb_forall. intros el Hel. apply (text_okb2_spec _ _ el IH). rewrite Forall_forall in H. apply H, Hel.
  - destruct i; try (split; [intros _; exact Logic.I | reflexivity]). apply IH.
Qed.

(* a pattern as the parser returns it, of depth d: it joins (at every level) to a pattern of sel_pattern d; no
   text element, at any level, is empty, and a line feed is the last byte of its text element *)
Definition ssel_pok (d : nat) (els : list pattern_element) : bool :=
  wl_pattern (eokd d) (Pattern (jels els)) && forallb (text_okb2 (goodb d)) els.
Definition ssel_resource (d : nat) (t : resource) : bool := g_resource (ssel_pok d) t.

Lemma ssel_pok_spat d els : ssel_pok d els = true <-> spat d els.
Proof.
  unfold ssel_pok, spat. rewrite andb_true_iff, forallb_forall, Forall_forall.
  split; intros [H1 H2]; (split; [exact H1|]); intros el Hel; apply (text_okb2_spec _ _ el (goodb_spec d)), H2, Hel.
Qed.

Definition ssel_vlay (d : nat) (els : list pattern_element) (V : bytes) : Prop := wl_value_layout (etextd d) (jels els) V.
Definition ssel_ptext (d : nat) (k : nat) (els : list pattern_element) : bytes := pat_text k (Pattern (jels els)).
Definition rel3 (d : nat) (els'' els : list pattern_element) : Prop :=
  stream els'' = stream els /\ Forall (text_ok (goodd d)) els''.

Lemma ssel_ser d els x : ssel_pok d els = true -> mid_line x ->
  serialize_pattern (Pattern els) x = Done (Writer (rev (ssel_ptext d (indent_level x) els) ++ rbuf x) (indent_level x)) /\
  mid_line (Writer (rev (ssel_ptext d (indent_level x) els) ++ rbuf x) (indent_level x)).
Proof. intros Hp. apply (proj2 (ser_all d)), ssel_pok_spat, Hp. Qed.

Lemma ssel_lay d k els : ssel_pok d els = true -> k <= 1 -> ssel_vlay d els (ssel_ptext d k els).
Proof. intros Hp _. apply (proj2 (layouts_all d)). apply ssel_pok_spat in Hp. exact (proj1 Hp). Qed.

Lemma jels_unstream d els : Forall (text_ok (goodd d)) els -> jels els = unstream (stream els).
Proof. intros Hok. apply join_unstream, (Forall_impl _ (text_ok_nonempty (goodd d)) Hok). Qed.

Lemma rel3_jels d els'' els : rel3 d els'' els -> spat d els -> jels els'' = jels els.
Proof. intros [Hst Hok''] [_ Hok]. rewrite (jels_unstream d els'' Hok''), (jels_unstream d els Hok), Hst. reflexivity. Qed.

Lemma rel3_pok d els'' els : rel3 d els'' els -> ssel_pok d els = true ->
  ssel_pok d els'' = true /\ forall k, ssel_ptext d k els'' = ssel_ptext d k els.
Proof.
  intros Hrel Hp. apply ssel_pok_spat in Hp. pose proof (rel3_jels d els'' els Hrel Hp) as EJ. split.
  - apply ssel_pok_spat. split; [rewrite EJ; exact (proj1 Hp) | exact (proj2 Hrel)].
  - intros k. unfold ssel_ptext. rewrite EJ. reflexivity.
Qed.

Lemma rel3_join d els'' els : rel3 d els'' els -> ssel_pok d els = true ->
  join_pattern (Pattern els'') = join_pattern (Pattern els).
Proof. intros Hrel Hp. apply ssel_pok_spat in Hp. rewrite !join_pattern_jels, (rel3_jels d els'' els Hrel Hp). reflexivity. Qed.

(* the stream of the joined elements *)
Lemma stream_join_map els : (forall e, In (PlaceableElement e) els -> join_expr (join_expr e) = join_expr e) ->
  stream (join_els_map els) = stream els.
Proof.
  induction els as [|el r IH]; intros H; [reflexivity|]. unfold stream in *. cbn [join_els_map flat_map].
  rewrite IH by (intros e He; apply H; right; exact He). f_equal.
  destruct el as [v|e]; [reflexivity|]. cbn [join_element stream_el]. rewrite (H e (or_introl eq_refl)). reflexivity.
Qed.

Lemma stream_jels d els : spat d els -> stream (jels els) = stream els.
Proof.
  intros Hp. destruct (spat_facts d els Hp) as (_ & _ & Hpl & _). unfold jels. rewrite stream_join. apply stream_join_map.
  intros e He. destruct (Hpl e He) as [Hk _]. destruct (facts_all d) as (_ & J & _). apply (J _ Hk).
Qed.

Lemma ssel_get_pattern d bs els V T used c nx p n :
  ssel_pok d els = true -> ssel_vlay d els V -> after_value T used c nx -> at_ bs p (V ++ T) ->
  3 * length (V ++ T) + 12 <= n ->
  exists els', get_pattern bs n p = Ok (Some (Pattern els')) (used + (length V + p)) /\ rel3 d els' els.
Proof.
  intros Hp HV HT H Hn. apply ssel_pok_spat in Hp. destruct (facts_all d) as (R & J & W & P).
  destruct (get_pattern_wl (eokd d) (etextd d) (goodd d) R J P bs (jels els) V T used c nx p n (proj1 Hp) HV HT H Hn)
    as (els' & E & _ & Hok & Hst).
  exists els'. split; [exact E|]. split; [rewrite Hst; apply (stream_jels d els Hp) | exact Hok].
Qed.

Lemma ssel_strip d els V : ssel_pok d els = true -> ssel_vlay d els V ->
  exists k V0, V = sp k ++ V0 /\ ssel_vlay d els (sp 0 ++ V0) /\ forall T, head_not is_space (V0 ++ T).
Proof. intros Hp HV. apply ssel_pok_spat in Hp. apply (wl_value_layout_strip (eokd d) (etextd d) _ V (proj1 Hp) HV). Qed.

Definition ssel_resource_text (d : nat) (t : resource) : bytes := g_resource_text (ssel_ptext d) t.

(* C04 on the fragment of depth d *)
Theorem parse_serialize_ssel d with_junk t : ssel_resource d t = true ->
  exists t2, serialize_with_options with_junk t = Done (ssel_resource_text d t) /\
             parse (ssel_resource_text d t) = Done (t2, []) /\
             norm t2 = norm t /\ ssel_resource d t2 = true /\
             serialize_with_options with_junk t2 = Done (ssel_resource_text d t).
Proof.
  intros Ht. unfold ssel_resource in Ht.
  destruct (g_parse_serialize (ssel_pok d) (ssel_vlay d) (ssel_ptext d) (ssel_ser d) (ssel_lay d) (rel3 d) with_junk t
              (ssel_get_pattern d) (ssel_strip d) Ht) as (t2 & Es & Ep & Hrel).
  exists t2. split; [exact Es | split; [exact Ep|]].
  pose proof (g_nz_resource (ssel_pok d) t Ht) as Hnz.
  destruct (g_rel_text (ssel_pok d) (ssel_ptext d) (rel3 d) (rel3_pok d) t2 (nz_resource t) Hrel Hnz) as [Ht2 Etext].
  split; [|split; [exact Ht2|]].
  - rewrite <- (norm_nz_resource t). apply norm_of_join.
    apply (g_rel_join (ssel_pok d) (rel3 d) t2 (nz_resource t) (rel3_join d) Hrel Hnz).
  - rewrite (g_serialize (ssel_pok d) (ssel_ptext d) (ssel_ser d) with_junk t2 Ht2). f_equal.
    unfold ssel_resource_text, g_resource_text. rewrite (Etext false). apply g_text_from_nz.
Qed.

(* ---- the fragment contains what the parser returns for every layout of a tree of sel_resource d ---- *)
Lemma g_resource_rel (pok1 pok2 : list pattern_element -> bool) (rel : list pattern_element -> list pattern_element -> Prop) t' t :
  (forall els' els, rel els' els -> pok1 els = true -> pok2 els' = true) ->
  Forall2 (rel_entry rel) t' t -> g_resource pok1 t = true -> g_resource pok2 t' = true.
Proof.
  intros Hr.
  assert (Hattrs : forall a' a, Forall2 (rel_attr rel) a' a -> forallb (g_attribute pok1) a = true ->
                                forallb (g_attribute pok2) a' = true).
  { induction 1 as [|x y l l' Hxy Hl IH]; intros Ha; [reflexivity|].
    cbn [forallb] in Ha. apply andb_prop in Ha as [Hy Hl']. cbn [forallb]. rewrite (IH Hl'), andb_true_r.
    destruct x as [id' [els']], y as [id [els]]. destruct Hxy as [Hid Hp]. cbn [attr_id attr_value] in Hid, Hp. subst id'.
    unfold g_attribute in *. cbn [attr_id attr_value g_pattern] in *. apply andb_prop in Hy as [Hy1 Hy2].
    rewrite Hy1. apply (Hr els' els Hp Hy2). }
  intros Hrel. induction Hrel as [|e' e l l' Hxy Hl IH]; intros Ht; [reflexivity|].
  cbn [g_resource forallb] in Ht. apply andb_prop in Ht as [He Hl']. unfold g_resource in *. cbn [forallb]. rewrite (IH Hl'), andb_true_r.
  unfold g_entry in *. apply andb_prop in He as [He Hc].
  destruct e' as [id' [[els']|] a' c'|id' [els'] a' c'|c'|c'|c'|j'], e as [id [[els]|] a c|id [els] a c|c|c|c|j];
    cbn [rel_entry] in Hxy; try contradiction;
    cbn [strip_comment entry_comment g_plain_entry g_pattern] in *; try (subst; rewrite He; reflexivity).
  - destruct Hxy as (-> & Hp & Ha & ->). unfold rel_pattern in Hp. cbn [pattern_elements] in Hp.
    apply andb_prop in He as [He Hattrs']. apply andb_prop in He as [Hid Hv].
    rewrite Hid, (Hr els' els Hp Hv), (Hattrs a' a Ha Hattrs'), Hc. reflexivity.
  - destruct Hxy as (-> & Ha & ->). apply andb_prop in He as [He Hattrs']. apply andb_prop in He as [Hid Hne].
    rewrite Hid, (Hattrs a' a Ha Hattrs'), Hc.
    replace (match a' with [] => true | _ :: _ => false end) with (match a with [] => true | _ :: _ => false end)
      by (inversion Ha; reflexivity).
    rewrite Hne. reflexivity.
  - destruct Hxy as (-> & Hp & Ha & ->). unfold rel_pattern in Hp. cbn [pattern_elements] in Hp.
    apply andb_prop in He as [He Hattrs']. apply andb_prop in He as [Hid Hv].
    rewrite Hid, (Hr els' els Hp Hv), (Hattrs a' a Ha Hattrs'), Hc. reflexivity.
Qed.

Lemma srel_ssel_pok d els' els : srel (goodd d) els' els -> ml_pok (eokd d) els = true -> ssel_pok d els' = true.
Proof.
  intros (Hj & Hok & _) Hp. apply ssel_pok_spat. split; [|exact Hok].
  unfold jrel in Hj. rewrite join_pattern_jels in Hj. injection Hj as ->. exact Hp.
Qed.

Theorem parser_outputs_ssel d cs t : sel_resource d t = true -> last_comment_ok t = true ->
  exists t', parse (render cs t) = Done (t', []) /\ ssel_resource d t' = true /\ map join_entry t' = t.
Proof.
  intros Ht Hlast. destruct (parse_render_sel_split d cs t Ht Hlast) as (t' & E & Hrel). exists t'. split; [exact E|]. split.
  - unfold sel_resource in Ht. rewrite <- (ml_resource_g (eokd d)) in Ht.
    apply (g_resource_rel (ml_pok (eokd d)) (ssel_pok d) (srel (goodd d)) t' t (srel_ssel_pok d) Hrel Ht).
  - apply jrel_entries. apply (rel_entries_mono (srel (goodd d)) jrel t' t); [intros x y [H _]; exact H | exact Hrel].
Qed.

(* the depth-0 fragment of SerializerML.v is inside *)
Lemma sml_pok_ssel els : sml_pok els = true -> ssel_pok 0 els = true.
Proof.
  intros Hp. destruct (sml_pok_parts els Hp) as (Hml & Hok & Hsp). apply ssel_pok_spat. split; [|exact Hok].
  unfold jels. rewrite (split_join_map els Hsp).
  apply (wl_pattern_mono eoks (eokd 0)); [|exact Hml].
  intros [sel vs | i]; [discriminate|]. apply simple_binline.
Qed.

Theorem sml_resource_ssel t : sml_resource t = true -> ssel_resource 0 t = true.
Proof. apply g_resource_mono. exact sml_pok_ssel. Qed.


(* Syntax/Render.v — the Fluent 1.0 grammar formalised as a PRINTER.  Definitions only.

   `render cs t` prints the resource tree `t` (the AST of Syntax/Ast.v with pattern text in
   JOINED form: one TextElement per maximal run of text, '\n' inside it for line breaks) using the
   layout choices `cs`.  Every choice the grammar declares insignificant is taken from the choice
   stream `cs : list nat` (one number per choice point, reduced modulo the number of options; an
   exhausted stream means "first option"), so `forall cs` quantifies over all layouts:
     spaces around '=', '->', inside '{ }', '[ ]', '( )', around ',' and ':'; trailing comma;
     inline vs block start of a pattern; indentation depth of continuation lines (>= 1, per line,
     on top of the tree's own leading spaces); spaces on blank lines; LF vs CRLF per line break;
     number of blank lines between entries (subject to the attachment rule); blank lines at the
     start; final newline.
   `wf_resource t` (executable) states what the grammar requires of the content.
   Indentation rule of a multi-line value (of a message, a term, an attribute or a variant): the parser removes
   the indentation that all lines of a value have in common; a line that continues the line of the '=' or of the
   variant key (INLINE form) does not take part in that.  So a tree whose continuation lines are ALL indented
   deeper than its first line is faithful only in BLOCK form (value on the lines after the '=' / the key, where
   the first line is indented like the others): `render_value_with` (used by render_value and render_variant)
   prints such a value (`needs_block`) in block form whatever the layout choice, and `wf_value` /
   lines_ok_pattern (wf_pattern_lines_top) accept it if its first byte allows a block start; in inline form the
   parser would strip the extra indentation and return another tree.  The FIRST line of a value may be indented as
   well (reference fixture multiline_values.ftl, key10: "  two\nzero\n    four"): again block form only, and then
   some other line is not indented (else the indentation would be common and not part of the tree).
   (wf_pattern_lines is the stricter rule "first line not indented, some continuation line at indentation 0": the
   values that may be printed in either form.)
   The property C02 is:  wf_resource t = true -> parse (render cs t) = Done (split t, []) for all cs,
   where the parser's tree equals t after joining adjacent text elements (`join_resource`).

   Adequacy of this file w.r.t. the Fluent EBNF is part of the trusted base; it is validated (as a
   test) against the reference JSON fixtures in fluent-syntax/tests/fixtures.                     *)
From FluentV Require Export Base.Bytes Syntax.Ast.

Definition choices := list nat.
Definition R (A : Type) := choices -> A * choices.
Definition rret {A} (a : A) : R A := fun cs => (a, cs).
Definition rbind {A B} (m : R A) (f : A -> R B) : R B := fun cs => let '(a, cs') := m cs in f a cs'.
Notation "x <~ m ;; k" := (rbind m (fun x => k)) (at level 61, m at next level, right associativity).
Definition choose (k : nat) : R nat :=
  fun cs => match cs with c :: r => (Nat.modulo c k, r) | [] => (0, []) end.

Definition sp (n : nat) : bytes := repeat 32%N n.
Definition lf : bytes := [10%N].
Definition crlf : bytes := [13; 10]%N.
Definition cat (l : list bytes) : bytes := concat l.

(* 0..2 inline spaces *)
Definition blank_inline_opt : R bytes := n <~ choose 3 ;; rret (sp n).
(* a line end: LF or CRLF *)
Definition eol : R bytes := c <~ choose 4 ;; rret (if Nat.eqb c 3 then crlf else lf).
(* blank inside braces / parentheses: spaces and line breaks *)
Definition blank_opt : R bytes :=
  c <~ choose 5 ;;
  match c with
  | 0 => rret []
  | 1 => rret (sp 1)
  | 2 => rret (sp 2)
  | 3 => e <~ eol ;; rret (e ++ sp 4)
  | _ => e <~ eol ;; rret (sp 1 ++ e ++ e ++ sp 2)
  end.

(* ---- text of a pattern ---- *)
(* split at '\n' : "a\nb" -> ["a"; "b"] ; the separator is dropped *)
Fixpoint split_lines (l : bytes) (cur : bytes) : list bytes :=
  match l with
  | [] => [rev cur]
  | b :: r => if N.eqb b 10 then rev cur :: split_lines r [] else split_lines r (b :: cur)
  end.
Definition lines_of (v : bytes) : list bytes := split_lines v [].
Fixpoint leading_spaces (l : bytes) : nat :=
  match l with b :: r => if N.eqb b 32 then S (leading_spaces r) else 0 | [] => 0 end.
Definition is_blank_line (l : bytes) : bool := forallb (N.eqb 32) l.

(* a continuation line: line break, then (blank line: up to 1 space | text: >= 1 spaces) *)
Definition render_line_break (next_is_blank : bool) : R bytes :=
  e <~ eol ;;
  if next_is_blank then n <~ choose 2 ;; rret (e ++ sp n)
  else rret e.

(* Lines of a text element after a line break.  `base` (>= 1) spaces are added in front of every
   non-blank continuation line of one pattern, on top of the line's own leading spaces.  A blank line
   is rendered as 0 or 1 spaces.  The LAST line of a text element that is followed by a placeable
   (`continues`) carries that placeable, so it is indented like a non-blank line even if empty. *)
Fixpoint render_text_lines (base : nat) (continues : bool) (ls : list bytes) : R bytes :=
  match ls with
  | [] => rret []
  | l :: r =>
      e <~ eol ;;
      rest <~ render_text_lines base continues r ;;
      let is_last := match r with [] => true | _ => false end in
      if is_blank_line l && negb (is_last && continues) then
        n <~ choose 2 ;; rret (e ++ sp (Nat.min n base) ++ rest)
      else rret (e ++ sp base ++ l ++ rest)
  end.

(* text element: first line as is (it continues the current line), following lines indented *)
Definition render_text (base : nat) (continues : bool) (v : bytes) : R bytes :=
  match lines_of v with
  | [] => rret []
  | l0 :: r => rest <~ render_text_lines base continues r ;; rret (l0 ++ rest)
  end.

(* Can the pattern start on its own line (block form)?  Its first line is then a continuation line:
   it must not begin with '.', '[' or '*'.  (A pattern that begins with a placeable may.) *)
Definition first_byte_ok_for_block (p : pattern) : bool :=
  match pattern_elements p with
  | TextElement (b :: _) :: _ => negb (N.eqb b 46 || N.eqb b 91 || N.eqb b 42)
  | _ => true
  end.

(* line-level view of a pattern: its flattened text skeleton; placeables count as the non-blank character '{' *)
Definition skeleton (p : pattern) : bytes :=
  flat_map (fun el => match el with TextElement v => v | PlaceableElement _ => [123%N] end) (pattern_elements p).

Fixpoint min_list (l : list nat) : option nat :=
  match l with
  | [] => None
  | x :: r => match min_list r with Some m => Some (Nat.min x m) | None => Some x end
  end.

(* the smallest indentation of the non-blank lines after the first one *)
Definition rest_indent (p : pattern) : option nat :=
  min_list (map leading_spaces (filter (fun l => negb (is_blank_line l)) (tl (lines_of (skeleton p))))).

(* the indentation of the first line *)
Definition first_indent (p : pattern) : nat := leading_spaces (hd [] (lines_of (skeleton p))).

(* every continuation line is indented, or the first line is: only the block form keeps that indentation *)
Definition needs_block (p : pattern) : bool :=
  negb (Nat.eqb (first_indent p) 0) || match rest_indent p with Some m => negb (Nat.eqb m 0) | None => false end.

(* A value (of a message, a term, an attribute, a variant) after '=' or ']': INLINE form (the value starts on
   that line) or BLOCK form (line end, optional blank line, then every line of the value, the first included,
   indented by the same base).  `rp base` prints the pattern with continuation lines indented by `base`.
   block_ok: the first byte of the pattern may start a line; needs: only the block form is faithful. *)
Definition render_value_with (rp : nat -> R bytes) (block_ok needs : bool) (ind : nat) : R bytes :=
  block <~ choose 3 ;;
  if (Nat.eqb block 2 || needs) && block_ok then
    b <~ blank_inline_opt ;; e <~ eol ;;
    blanks <~ choose 2 ;;
    e2 <~ (if Nat.eqb blanks 1 then x <~ eol ;; rret (sp 2 ++ x) else rret []) ;;
    (* block start: every line, the first included, is indented by the same base *)
    extra <~ choose 3 ;;
    s <~ rp (ind + extra) ;;
    rret (cat [b; e; e2; sp (ind + extra); s])
  else
    b <~ blank_inline_opt ;; extra <~ choose 3 ;; s <~ rp (ind + extra) ;; rret (b ++ s).

(* ---- expressions ---- *)
Definition id_char (b : N) : bool :=
  (N.leb 65 b && N.leb b 90) || (N.leb 97 b && N.leb b 122) || (N.leb 48 b && N.leb b 57) || N.eqb b 45 || N.eqb b 95.
Definition ends_with_id_char (s : bytes) : bool :=
  match rev s with b :: _ => id_char b | [] => false end.

Definition render_key (k : variant_key) : bytes :=
  match k with KeyIdentifier n => n | KeyNumber v => v end.

Fixpoint render_inline (i : inline) : R bytes :=
  match i with
  | StringLiteral v => rret (cat [[34%N]; v; [34%N]])
  | NumberLiteral v => rret v
  | VariableReference id => rret (36%N :: id)
  | MessageReference id at_ =>
      rret (id ++ match at_ with Some a => 46%N :: a | None => [] end)
  | TermReference id at_ args =>
      a <~ match args with
           | Some ca => b <~ blank_opt ;; s <~ render_args ca ;; rret (b ++ s)
           | None => rret []
           end ;;
      rret (45%N :: id ++ match at_ with Some x => 46%N :: x | None => [] end ++ a)
  | FunctionReference id ca =>
      b <~ blank_opt ;; s <~ render_args ca ;; rret (id ++ b ++ s)
  | Placeable e =>
      b1 <~ blank_opt ;; s <~ render_expr 4 e ;; b2 <~ blank_opt ;;
      rret (cat [[123%N]; b1; s; b2; [125%N]])
  end

(* ind: indentation for the variant lines of a select *)
with render_expr (ind : nat) (e : expression) : R bytes :=
  match e with
  | Inline i => render_inline i
  | Select sel vs =>
      s <~ render_inline sel ;;
      b1 <~ blank_opt ;; b2 <~ blank_inline_opt ;; e1 <~ eol ;;
      vss <~ (fix go (l : list variant) : R bytes :=
                match l with
                | [] => rret []
                | v :: r => a <~ render_variant ind v ;; b <~ go r ;; rret (a ++ b)
                end) vs ;;
      k <~ choose 3 ;;
      (* identifiers are greedy and may contain '-': a selector ending in an identifier character needs a blank before "->" *)
      let b1' := match b1 with
                 | [] => if ends_with_id_char s then sp 1 else []
                 | _ => b1
                 end in
      rret (cat [s; b1'; [45; 62]%N; b2; e1; vss; sp k])
  end

with render_variant (ind : nat) (v : variant) : R bytes :=
  match v with
  | Variant key value default =>
      k <~ choose 3 ;;                     (* extra spaces / blank line before the variant *)
      pre <~ (if Nat.eqb k 2 then e <~ eol ;; rret (sp 1 ++ e) else rret []) ;;
      b1 <~ blank_opt ;; b2 <~ blank_opt ;;
      (* the value, inline or in block form, as after '='; its lines are indented by ind + 4 + (0..2) *)
      p <~ render_value_with (fun base => render_pattern_inline base value)
             (first_byte_ok_for_block value) (needs_block value) (ind + 4) ;;
      e2 <~ eol ;;
      rret (cat [pre; sp (ind + k); (if default then [42%N] else []); [91%N]; b1; render_key key; b2; [93%N]; p; e2])
  end

(* the elements of a pattern, starting on the current line; continuation lines indented by base *)
with render_pattern_inline (base : nat) (p : pattern) : R bytes :=
  match p with
  | Pattern els =>
      (fix go (l : list pattern_element) : R bytes :=
         match l with
         | [] => rret []
         | TextElement v :: r =>
             a <~ render_text base (match r with [] => false | _ => true end) v ;; b <~ go r ;; rret (a ++ b)
         | PlaceableElement e :: r =>
             b1 <~ blank_opt ;; s <~ render_expr base e ;; b2 <~ blank_opt ;;
             rest <~ go r ;;
             rret (cat [[123%N]; b1; s; b2; [125%N]; rest])
         end) els
  end

with render_args (ca : call_args) : R bytes :=
  match ca with
  | CallArguments pos named =>
      b0 <~ blank_opt ;;
      ps <~ (fix go (l : list inline) : R (list bytes) :=
               match l with
               | [] => rret []
               | x :: r => a <~ render_inline x ;; b <~ go r ;; rret (a :: b)
               end) pos ;;
      ns <~ (fix go (l : list named_arg) : R (list bytes) :=
               match l with
               | [] => rret []
               | NamedArgument name v :: r =>
                   b1 <~ blank_opt ;; b2 <~ blank_opt ;; a <~ render_inline v ;; b <~ go r ;;
                   rret (cat [name; b1; [58%N]; b2; a] :: b)
               end) named ;;
      body <~ (fix sep (l : list bytes) : R bytes :=
                 match l with
                 | [] => rret []
                 | [x] => t <~ choose 2 ;; b <~ blank_opt ;; rret (x ++ (if Nat.eqb t 1 then b ++ [44%N] else []))
                 | x :: r => b1 <~ blank_opt ;; b2 <~ blank_opt ;; rest <~ sep r ;; rret (cat [x; b1; [44%N]; b2; rest])
                 end) (ps ++ ns) ;;
      b9 <~ blank_opt ;;
      rret (cat [[40%N]; b0; body; b9; [41%N]])
  end.

(* value of a message / term / attribute after '=' *)
Definition render_value (ind : nat) (p : pattern) : R bytes :=
  render_value_with (fun base => render_pattern_inline base p) (first_byte_ok_for_block p) (needs_block p) ind.

Definition render_attribute (a : attribute) : R bytes :=
  e <~ eol ;; k <~ choose 3 ;; b1 <~ blank_inline_opt ;;
  v <~ render_value 8 (attr_value a) ;;
  rret (cat [e; sp (S k); [46%N]; attr_id a; b1; [61%N]; v]).

Fixpoint render_attributes (l : list attribute) : R bytes :=
  match l with
  | [] => rret []
  | a :: r => x <~ render_attribute a ;; y <~ render_attributes r ;; rret (x ++ y)
  end.

(* comment lines; the LAST line has no line end (the caller adds it) *)
Fixpoint render_comment_lines (prefix : bytes) (ls : list bytes) : R bytes :=
  match ls with
  | [] => rret []
  | [l] => rret (prefix ++ match l with [] => [] | _ => 32%N :: l end)
  | l :: r =>
      e <~ eol ;; rest <~ render_comment_lines prefix r ;;
      rret (cat [prefix; match l with [] => [] | _ => 32%N :: l end; e; rest])
  end.

Definition render_opt_comment (c : option comment) : R bytes :=
  match c with
  | Some cm => s <~ render_comment_lines [35%N] (content cm) ;; e <~ eol ;; rret (s ++ e)
  | None => rret []
  end.

(* an entry WITHOUT its final line end *)
Definition render_entry (e : entry) : R bytes :=
  match e with
  | Message id v attrs c =>
      cm <~ render_opt_comment c ;; b1 <~ blank_inline_opt ;;
      val <~ match v with Some p => render_value 4 p | None => rret [] end ;;
      at_ <~ render_attributes attrs ;;
      rret (cat [cm; id; b1; [61%N]; val; at_])
  | Term id v attrs c =>
      cm <~ render_opt_comment c ;; b1 <~ blank_inline_opt ;;
      val <~ render_value 4 v ;;
      at_ <~ render_attributes attrs ;;
      rret (cat [cm; [45%N]; id; b1; [61%N]; val; at_])
  | CommentEntry c => render_comment_lines [35%N] (content c)
  | GroupComment c => render_comment_lines [35; 35]%N (content c)
  | ResourceComment c => render_comment_lines [35; 35; 35]%N (content c)
  | Junk content => rret content       (* not well-formed; never rendered for C02 *)
  end.

Definition comment_level (e : entry) : nat :=
  match e with CommentEntry _ => 1 | GroupComment _ => 2 | ResourceComment _ => 3 | _ => 0 end.
Definition is_message_or_term (e : entry) : bool :=
  match e with Message _ _ _ _ | Term _ _ _ _ => true | _ => false end.

(* blank lines required between two adjacent entries so that they stay two entries:
   a stand-alone "#" comment directly above a message/term would attach to it; two comments of the
   same level would merge *)
Definition min_blank_between (a b : entry) : nat :=
  if Nat.eqb (comment_level a) 1 && is_message_or_term b then 1
  else if negb (Nat.eqb (comment_level a) 0) && Nat.eqb (comment_level a) (comment_level b) then 1
  else 0.

Fixpoint blank_lines (n : nat) : R bytes :=
  match n with
  | O => rret []
  | S k => s <~ choose 3 ;; e <~ eol ;; r <~ blank_lines k ;; rret (sp s ++ e ++ r)
  end.

Fixpoint render_entries (l : list entry) : R bytes :=
  match l with
  | [] => rret []
  | [e] =>
      s <~ render_entry e ;;
      fin <~ choose 3 ;;                 (* final line end: none / one / one plus a blank line *)
      match fin with
      | 0 => rret s
      | 1 => x <~ eol ;; rret (s ++ x)
      | _ => x <~ eol ;; b <~ blank_lines 1 ;; rret (s ++ x ++ b)
      end
  | e :: ((e2 :: _) as r) =>
      s <~ render_entry e ;; x <~ eol ;;
      extra <~ choose 3 ;;
      b <~ blank_lines (min_blank_between e e2 + extra) ;;
      rest <~ render_entries r ;;
      rret (cat [s; x; b; rest])
  end.

Definition render (cs : choices) (t : resource) : bytes :=
  fst ((n <~ choose 3 ;; b <~ blank_lines n ;; s <~ render_entries t ;; rret (b ++ s)) cs).

(* ---------------------------------------------------------------------------------------------- *)
(* well-formedness of the content (what the grammar requires)                                      *)

Definition is_alpha (b : N) : bool := (N.leb 65 b && N.leb b 90) || (N.leb 97 b && N.leb b 122).
Definition is_digit (b : N) : bool := N.leb 48 b && N.leb b 57.
Definition is_id_char (b : N) : bool := is_alpha b || is_digit b || N.eqb b 45 || N.eqb b 95.
Definition wf_identifier (s : bytes) : bool :=
  match s with b :: r => is_alpha b && forallb is_id_char r | [] => false end.
Definition all_digits1 (s : bytes) : bool := match s with [] => false | _ => forallb is_digit s end.
Fixpoint split_dot (s : bytes) (cur : bytes) : bytes * option bytes :=
  match s with
  | [] => (rev cur, None)
  | b :: r => if N.eqb b 46 then (rev cur, Some r) else split_dot r (b :: cur)
  end.
Definition wf_number (s : bytes) : bool :=
  let s' := match s with b :: r => if N.eqb b 45 then r else s | [] => s end in
  match split_dot s' [] with
  | (i, None) => all_digits1 i
  | (i, Some f) => all_digits1 i && all_digits1 f
  end.
Definition is_hex (b : N) : bool := is_digit b || (N.leb 65 b && N.leb b 70) || (N.leb 97 b && N.leb b 102).
(* quoted text: no '"' '\n' except through escapes  \\ \" \{ \uXXXX \UXXXXXX *)
Fixpoint wf_string_fuel (n : nat) (s : bytes) : bool :=
  match n with
  | O => false
  | S n' =>
      match s with
      | [] => true
      | b :: r =>
          if N.eqb b 92 then
            match r with
            | c :: r2 =>
                if N.eqb c 92 || N.eqb c 34 || N.eqb c 123 then wf_string_fuel n' r2
                else if N.eqb c 117 then forallb is_hex (firstn 4 r2) && Nat.eqb (length (firstn 4 r2)) 4 && wf_string_fuel n' (skipn 4 r2)
                else if N.eqb c 85 then forallb is_hex (firstn 6 r2) && Nat.eqb (length (firstn 6 r2)) 6 && wf_string_fuel n' (skipn 6 r2)
                else false
            | [] => false
            end
          else if N.eqb b 34 || N.eqb b 10 then false
          else wf_string_fuel n' r
      end
  end.
Definition wf_string (s : bytes) : bool := wf_string_fuel (S (length s)) s.
Definition wf_callee (s : bytes) : bool :=
  match s with
  | b :: r => (N.leb 65 b && N.leb b 90) && forallb (fun c => (N.leb 65 c && N.leb c 90) || is_digit c || N.eqb c 95 || N.eqb c 45) r
  | [] => false
  end.

(* a line of pattern text: no braces, no CR (CRLF is layout), not '\n' *)
Definition wf_text_byte (b : N) : bool := negb (N.eqb b 123 || N.eqb b 125 || N.eqb b 13 || N.eqb b 10).
Definition line_start_ok (l : bytes) : bool :=
  match skipn (leading_spaces l) l with
  | b :: _ => negb (N.eqb b 46 || N.eqb b 91 || N.eqb b 42)
  | [] => true
  end.

Fixpoint no_dup_names (l : list named_arg) (seen : list bytes) : bool :=
  match l with
  | [] => true
  | NamedArgument n _ :: r => negb (existsb (bytes_eqb n) seen) && no_dup_names r (n :: seen)
  end.

Definition is_literal (i : inline) : bool :=
  match i with StringLiteral _ | NumberLiteral _ => true | _ => false end.

Fixpoint count_defaults (l : list variant) : nat :=
  match l with
  | [] => 0
  | Variant _ _ d :: r => (if d then 1 else 0) + count_defaults r
  end.

(* position of a text element inside its pattern, needed for the line rules *)
Inductive tpos := TFirst | TMiddle.

Fixpoint wf_inline (i : inline) : bool :=
  match i with
  | StringLiteral v => wf_string v
  | NumberLiteral v => wf_number v
  | VariableReference id => wf_identifier id
  | MessageReference id at_ => wf_identifier id && match at_ with Some a => wf_identifier a | None => true end
  | TermReference id at_ args =>
      wf_identifier id && match at_ with Some a => wf_identifier a | None => true end &&
      match args with Some ca => wf_args ca | None => true end
  | FunctionReference id ca => wf_callee id && wf_args ca
  | Placeable e => wf_expr e
  end
with wf_expr (e : expression) : bool :=
  match e with
  | Inline (TermReference _ (Some _) _) => false                       (* term attribute as placeable *)
  | Inline i => wf_inline i
  | Select sel vs =>
      (match sel with
       | StringLiteral _ | NumberLiteral _ | VariableReference _ | FunctionReference _ _ => true
       | TermReference _ (Some _) _ => true
       | _ => false
       end) && wf_inline sel &&
      Nat.eqb (count_defaults vs) 1 &&
      (fix go (l : list variant) : bool :=
         match l with [] => true | v :: r => wf_variant v && go r end) vs
  end
with wf_variant (v : variant) : bool :=
  match v with
  | Variant key value _ =>
      (match key with KeyIdentifier n => wf_identifier n | KeyNumber n => wf_number n end) && wf_pattern value
  end
with wf_pattern (p : pattern) : bool :=
  match p with
  | Pattern els =>
      negb (match els with [] => true | _ => false end) &&
      (fix go (l : list pattern_element) (prev_text : bool) : bool :=
         match l with
         | [] => true
         | TextElement v :: r =>
             negb prev_text && negb (match v with [] => true | _ => false end) &&
             forallb (fun b => wf_text_byte b || N.eqb b 10) v && go r true
         | PlaceableElement e :: r => wf_expr e && go r false
         end) els false
  end
with wf_args (ca : call_args) : bool :=
  match ca with
  | CallArguments pos named =>
      (fix go (l : list inline) : bool := match l with [] => true | x :: r => wf_inline x && go r end) pos &&
      (fix go (l : list named_arg) : bool :=
         match l with
         | [] => true
         | NamedArgument n v :: r => wf_identifier n && is_literal v && wf_inline v && go r
         end) named &&
      no_dup_names named []
  end.

(* line-level rules of a pattern, on its flattened text skeleton (`skeleton`, above) *)
Definition wf_pattern_lines (p : pattern) : bool :=
  let ls := lines_of (skeleton p) in
  match ls with
  | [] => false
  | l0 :: rest =>
      (* no leading / trailing blank: first line non-blank without leading space, last line non-blank
         without trailing space *)
      negb (is_blank_line l0) && Nat.eqb (leading_spaces l0) 0 &&
      (let last := List.last ls [] in negb (is_blank_line last) && Nat.eqb (leading_spaces (rev last)) 0) &&
      (* continuation lines: do not start (after indentation) with . [ * ; common indent is 0 *)
      forallb (fun l => is_blank_line l || line_start_ok l) rest &&
      (* blank lines inside are empty *)
      forallb (fun l => negb (is_blank_line l) || Nat.eqb (length l) 0) rest &&
      match min_list (map leading_spaces (filter (fun l => negb (is_blank_line l)) rest)) with
      | Some m => Nat.eqb m 0
      | None => true
      end
  end.

(* the rule for every value (of a message, a term, an attribute, a variant): as wf_pattern_lines, but if every
   continuation line is indented, the value is still faithful in block form, provided its first byte may start
   a block line (render_value_with prints it so) *)
Definition wf_pattern_lines_top (p : pattern) : bool :=
  let ls := lines_of (skeleton p) in
  match ls with
  | [] => false
  | l0 :: rest =>
      negb (is_blank_line l0) &&
      (let last := List.last ls [] in negb (is_blank_line last) && Nat.eqb (leading_spaces (rev last)) 0) &&
      forallb (fun l => is_blank_line l || line_start_ok l) rest &&
      forallb (fun l => negb (is_blank_line l) || Nat.eqb (length l) 0) rest &&
      (* the indentation the lines have in common is not part of the tree: it is 0 *)
      (if Nat.eqb (leading_spaces l0) 0 then
         match min_list (map leading_spaces (filter (fun l => negb (is_blank_line l)) rest)) with
         | Some m => Nat.eqb m 0 || first_byte_ok_for_block p
         | None => true
         end
       else
         (* the first line is indented: block form, where it is a line like the others (its first byte after the
            indentation is none of . [ * ) and some other line is not indented *)
         line_start_ok l0 &&
         match min_list (map leading_spaces (filter (fun l => negb (is_blank_line l)) rest)) with
         | Some m => Nat.eqb m 0
         | None => false
         end)
  end.

(* all patterns of an expression tree satisfy the line rules *)
Fixpoint lines_ok_inline (i : inline) : bool :=
  match i with
  | Placeable e => lines_ok_expr e
  | FunctionReference _ (CallArguments pos _) =>
      (fix go (l : list inline) : bool := match l with [] => true | x :: r => lines_ok_inline x && go r end) pos
  | TermReference _ _ (Some (CallArguments pos _)) =>
      (fix go (l : list inline) : bool := match l with [] => true | x :: r => lines_ok_inline x && go r end) pos
  | _ => true
  end
with lines_ok_expr (e : expression) : bool :=
  match e with
  | Inline i => lines_ok_inline i
  | Select sel vs =>
      lines_ok_inline sel &&
      (fix go (l : list variant) : bool :=
         match l with
         | [] => true
         | Variant _ value _ :: r => lines_ok_pattern value && go r
         end) vs
  end
with lines_ok_pattern (p : pattern) : bool :=
  match p with
  | Pattern els =>
      wf_pattern_lines_top p &&
      (fix go (l : list pattern_element) : bool :=
         match l with
         | [] => true
         | TextElement _ :: r => go r
         | PlaceableElement e :: r => lines_ok_expr e && go r
         end) els
  end.

(* value of a message / term / attribute (and, inside lines_ok_expr, of a variant) *)
Definition wf_value (p : pattern) : bool := wf_pattern p && lines_ok_pattern p.

Definition wf_comment_line (l : bytes) : bool := forallb (fun b => negb (N.eqb b 10 || N.eqb b 13)) l.
Definition wf_comment (c : comment) : bool :=
  negb (match content c with [] => true | _ => false end) && forallb wf_comment_line (content c).
Definition wf_attribute (a : attribute) : bool := wf_identifier (attr_id a) && wf_value (attr_value a).

Definition wf_entry (e : entry) : bool :=
  match e with
  | Message id v attrs c =>
      wf_identifier id &&
      match v with Some p => wf_value p | None => negb (match attrs with [] => true | _ => false end) end &&
      forallb wf_attribute attrs &&
      match c with Some cm => wf_comment cm | None => true end
  | Term id v attrs c =>
      wf_identifier id && wf_value v && forallb wf_attribute attrs &&
      match c with Some cm => wf_comment cm | None => true end
  | CommentEntry c | GroupComment c | ResourceComment c => wf_comment c
  | Junk _ => false
  end.

Definition wf_resource (t : resource) : bool := forallb wf_entry t.

(* ---- joining adjacent text elements (what "the same tree" means for the parser's output) ---- *)
Fixpoint join_elements (l : list pattern_element) : list pattern_element :=
  match l with
  | TextElement a :: r =>
      match join_elements r with
      | TextElement b :: r' => TextElement (a ++ b) :: r'
      | r' => TextElement a :: r'
      end
  | x :: r => x :: join_elements r
  | [] => []
  end.

(* Syntax/ParserHelpers.v — specifications of the non-recursive helper functions of the parser
   (helper.rs, comment.rs, the slicing parts of pattern.rs / core.rs), for ParserTotal.v (C01).  *)
From FluentV Require Import Base.Utf8 Base.Utf8Facts Syntax.ParserModel Syntax.ParserSpec.
From Coq Require Import Lia ZifyBool ZifyNat ZifyN.
Arguments N.add : simpl never.
Arguments N.sub : simpl never.
Arguments N.eqb : simpl never.
Arguments N.ltb : simpl never.
Arguments N.leb : simpl never.

(* collect the arithmetic content of the boundary facts in the context *)
Ltac facts :=
  repeat match goal with
  | H : ParserSpec.bnd ?bs ?p |- _ =>
      lazymatch goal with _ : p <= length bs |- _ => fail | _ => pose proof (bnd_le bs p H) end
  | H : ParserSpec.asc ?bs ?a ?b |- _ =>
      lazymatch goal with _ : a <= b |- _ => fail | _ => pose proof (asc_le bs a b H) end
  | H : ParserSpec.ascb ?bs ?p |- _ =>
      lazymatch goal with _ : p < length bs |- _ => fail | _ => pose proof (ascb_lt bs p H) end
  end.

(* is_ascii b = true from a fact in the context, without touching the rest of the context *)
Ltac byte_ascii :=
  solve [ reflexivity
        | eapply eqb_ascii; [eassumption | reflexivity]
        | match goal with
          | H : (N.eqb _ _ && _) = true |- _ =>
              eapply eqb_ascii; [exact (proj1 (andb_prop _ _ H)) | reflexivity]
          end
        | apply alpha_ascii; assumption
        | apply digit_ascii; assumption
        | clear; cls ].

Ltac conjs :=
  repeat match goal with
  | H : _ /\ _ |- _ => destruct H
  end.

Ltac splits := repeat match goal with |- _ /\ _ => split end.

Ltac fin := intros; cbv beta in *; conjs; subst; facts; unfold length_ in *; splits; solve [assumption | lia | eauto].

(* one step of symbolic execution through a deterministic primitive *)
Ltac step :=
  lazymatch goal with
  | |- ParserSpec.spec _ (bind (bind _ _) _) _ _ _ => apply spec_bind_assoc
  | |- ParserSpec.spec _ (bind get_ptr _) _ _ _ => apply spec_bind_get_ptr
  | |- ParserSpec.spec _ (bind (set_ptr _) _) _ _ _ => apply spec_bind_set_ptr
  | |- ParserSpec.spec _ (bind (advance _) _) _ _ _ => apply spec_bind_advance; cbn [Nat.add]
  | |- ParserSpec.spec _ (bind (ret _) _) _ _ _ => apply spec_bind_ret
  | |- ParserSpec.spec _ (bind (current_byte _) _) _ _ _ => apply spec_bind_current_byte
  | |- ParserSpec.spec _ (bind (is_current_byte _ _) _) _ _ _ => apply spec_bind_is_current_byte
  | |- ParserSpec.spec _ (bind (is_identifier_start _) _) _ _ _ => apply spec_bind_is_identifier_start
  | |- ParserSpec.spec _ (bind (is_number_start _) _) _ _ _ => apply spec_bind_is_number_start
  | |- ParserSpec.spec _ (ret _) _ _ _ => apply spec_ret
  | |- ParserSpec.spec _ (error_here _) _ _ _ => apply spec_error_here
  | |- ParserSpec.spec _ (error_range _ _ _) _ _ _ => apply spec_error_range
  end; cbv beta.

Section Helpers.
Variable bs : bytes.
Hypothesis Hvalid : utf8_valid bs = true.
Variable F : Prop.
Local Set Default Proof Using "Hvalid".

Local Notation spec := (spec F).
Local Notation bnd := (bnd bs).
Local Notation asc := (asc bs).
Local Notation ascb := (ascb bs).
Local Notation stop := (stop bs).
Local Notation len := (length bs).

Let asc_bnd' := asc_bnd bs Hvalid.
Let ascb_bnd_S' := ascb_bnd_S bs Hvalid.
Local Hint Resolve asc_bnd' ascb_bnd_S' : core.
Local Hint Resolve ascb_bnd stop_bnd bnd_0 bnd_len asc_refl asc_step asc_trans : core.

Lemma byte_ascb p b : nth_error bs p = Some b -> is_ascii b = true -> ascb p.
Proof. intros H1 H2. exists b. auto. Qed.

Lemma rest_cons p b : nth_error bs p = Some b -> rest bs p = b :: rest bs (S p).
Proof. apply skipn_cons_nth. Qed.

Lemma rest_nil p : nth_error bs p = None -> rest bs p = [].
Proof. apply skipn_nil_nth. Qed.

(* ---------------------------------------------------------------------------------------- *)
(* helper.rs                                                                                  *)

Lemma spec_bind_take_byte_if {B} b (f : bool -> M B) p Q E :
  (is_byte_at bs b p = true -> spec (f true) (S p) Q E) ->
  (is_byte_at bs b p = false -> spec (f false) p Q E) -> spec (bind (take_byte_if bs b) f) p Q E.
Proof. unfold ParserSpec.spec, bind, take_byte_if. destruct (is_byte_at bs b p); auto. Qed.

Lemma take_byte_if_spec b p E : (b < 128)%N -> bnd p ->
  spec (take_byte_if bs b) p
       (fun r q => asc p q /\ bnd q /\ (r = true -> q = S p /\ is_byte_at bs b p = true) /\
                   (r = false -> q = p /\ is_byte_at bs b p = false)) E.
Proof.
  intros Hb Hp. unfold ParserSpec.spec, take_byte_if. destruct (is_byte_at bs b p) eqn:Eb; cbn.
  - pose proof (is_byte_at_ascb bs b p Eb Hb). splits; auto; easy.
  - splits; auto; easy.
Qed.

Lemma spec_bind_expect_byte {B} b (f : unit -> M B) p Q (E : perror -> nat -> Prop) :
  (is_byte_at bs b p = true -> spec (f tt) (S p) Q E) ->
  (is_byte_at bs b p = false -> E (PError (ExpectedToken b) p (S p) None) p) ->
  spec (bind (expect_byte bs b) f) p Q E.
Proof.
  intros H1 H2. unfold ParserSpec.spec, bind, expect_byte.
  destruct (is_byte_at bs b p); [apply H1 | apply H2]; reflexivity.
Qed.

Lemma spec_bind_skip_eol {B} (f : bool -> M B) p Q E :
  bnd p ->
  (forall r q, q = eol_len (rest bs p) + p -> asc p q -> bnd q ->
               (r = true <-> 0 < eol_len (rest bs p)) -> spec (f r) q Q E) ->
  spec (bind (skip_eol bs) f) p Q E.
Proof.
  intros Hp H. pose proof (pre_ascii_asc bs p _ (eol_len_pre (rest bs p))) as Ha.
  unfold ParserSpec.spec, bind, skip_eol. destruct (eol_len (rest bs p)) as [|e] eqn:Ee.
  - apply (H false p); auto. split; [discriminate | lia].
  - apply (H true (S e + p)); eauto. split; [lia | reflexivity].
Qed.

Lemma spec_bind_skip_blank {B} (f : unit -> M B) p Q E :
  bnd p -> (forall q, asc p q -> bnd q -> spec (f tt) q Q E) -> spec (bind (skip_blank bs) f) p Q E.
Proof.
  intros Hp H. pose proof (pre_ascii_asc bs p _ (blank_len_pre (rest bs p))) as Ha.
  unfold ParserSpec.spec, bind, skip_blank. apply H; eauto.
Qed.

Lemma spec_bind_skip_blank_inline {B} (f : nat -> M B) p Q E :
  bnd p -> (forall k q, q = k + p -> asc p q -> bnd q -> spec (f k) q Q E) ->
  spec (bind (skip_blank_inline bs) f) p Q E.
Proof.
  intros Hp H. pose proof (pre_ascii_asc bs p _ (scan_while_pre is_space (rest bs p) space_ascii)) as Ha.
  unfold ParserSpec.spec, bind, skip_blank_inline. apply H; eauto.
Qed.

Lemma spec_bind_skip_blank_block {B} (f : nat -> M B) p Q E :
  bnd p -> (forall c q, asc p q -> bnd q -> spec (f c) q Q E) -> spec (bind (skip_blank_block bs) f) p Q E.
Proof.
  intros Hp H. unfold ParserSpec.spec, bind, skip_blank_block.
  destruct (blank_block (S (length_ bs - p)) (rest bs p)) as [c m] eqn:Eb.
  apply blank_block_pre in Eb. apply (pre_ascii_asc bs) in Eb. apply H; eauto.
Qed.

(* beyond the end of input (only the runtime loop gets there, through skip_comment) nothing moves *)
Lemma spec_bind_skip_blank_block_end {B} (f : nat -> M B) p Q E :
  len <= p -> (forall c, spec (f c) p Q E) -> spec (bind (skip_blank_block bs) f) p Q E.
Proof.
  intros Hp H. unfold ParserSpec.spec, bind, skip_blank_block.
  destruct (blank_block (S (length_ bs - p)) (rest bs p)) as [c m] eqn:Eb.
  apply blank_block_pre in Eb. apply pre_ascii_length in Eb.
  unfold rest in Eb. rewrite skipn_length in Eb. replace m with 0 by lia. apply H.
Qed.

Lemma is_eol_eol_len p : p < len ->
  match byte_at bs p with
  | None => true
  | Some b => if N.eqb b c_lf then true else if N.eqb b c_cr then is_byte_at bs c_lf (S p) else false
  end = true -> 0 < eol_len (rest bs p).
Proof.
  intros Hp. unfold byte_at. destruct (nth_error bs p) as [b|] eqn:Eb.
  2:{ apply nth_error_None in Eb. lia. }
  rewrite (rest_cons p b Eb). cbn [eol_len].
  destruct (N.eqb b c_lf); [lia|]. destruct (N.eqb b c_cr); [|discriminate].
  intros H. apply is_byte_at_nth in H. rewrite (rest_cons (S p) _ H). rewrite N.eqb_refl. lia.
Qed.

Lemma spec_bind_is_eol {B} (f : bool -> M B) p Q E :
  (forall r, (r = true -> p < len -> 0 < eol_len (rest bs p)) -> spec (f r) p Q E) ->
  spec (bind (is_eol bs) f) p Q E.
Proof.
  intros H. unfold ParserSpec.spec, bind, is_eol. apply H. intros Hr Hp. apply is_eol_eol_len; assumption.
Qed.

Lemma spec_bind_skip_digits {B} (f : unit -> M B) p Q (E : perror -> nat -> Prop) :
  bnd p -> (forall q, p < q -> asc p q -> bnd q -> spec (f tt) q Q E) -> (forall e, E e p) ->
  spec (bind (skip_digits bs) f) p Q E.
Proof.
  intros Hp H HE. pose proof (pre_ascii_asc bs p _ (scan_while_pre is_ascii_digit (rest bs p) digit_ascii)) as Ha.
  unfold ParserSpec.spec, bind, skip_digits.
  destruct (Nat.eqb (scan_while is_ascii_digit (rest bs p)) 0) eqn:E0.
  - apply HE.
  - apply Nat.eqb_neq in E0. apply H; eauto. lia.
Qed.

Lemma get_number_literal_spec p : bnd p ->
  spec (get_number_literal bs) p (fun _ q => p < q /\ bnd q) (fun _ q => p <= q /\ bnd q).
Proof.
  intros Hp. unfold get_number_literal. step.
  eapply spec_bind; [apply take_byte_if_spec; [lia | exact Hp]|].
  intros r1 q1 (Ha1 & Hb1 & _). cbv beta.
  apply spec_bind_skip_digits; [exact Hb1| |fin].
  intros q2 Hlt2 Ha2 Hb2.
  eapply spec_bind; [apply take_byte_if_spec; [lia | exact Hb2]|].
  intros r3 q3 (Ha3 & Hb3 & _). cbv beta.
  destruct r3.
  - apply spec_bind_skip_digits; [exact Hb3| |fin].
    intros q4 Hlt4 Ha4 Hb4. step. apply spec_source_slice; fin.
  - step. step. apply spec_source_slice; fin.
Qed.

(* ---------------------------------------------------------------------------------------- *)
(* core.rs, identifiers and variant keys                                                     *)

Lemma get_identifier_unchecked_spec p E :
  1 <= p -> ascb (p - 1) -> spec (get_identifier_unchecked bs) p (fun _ q => p <= q /\ bnd q) E.
Proof.
  intros H1 Ha. pose proof (pre_ascii_asc bs p _ (scan_while_pre is_ident_char (rest bs p) ident_ascii)) as Hs.
  assert (Hp : bnd p). { replace p with (S (p - 1)) by lia. auto. }
  assert (Hq : bnd (scan_while is_ident_char (rest bs p) + p)) by eauto.
  unfold ParserSpec.spec, get_identifier_unchecked.
  apply Nat.leb_le in H1 as H1'. rewrite H1'.
  rewrite slice_ok; [|fin|auto|exact Hq]. cbn. fin.
Qed.

Definition ident_start (p : nat) : bool :=
  match byte_at bs p with Some b => is_ascii_alphabetic b | None => false end.

Lemma ident_start_ascb p : ident_start p = true -> ascb p.
Proof.
  unfold ident_start, byte_at. destruct (nth_error bs p) as [b|] eqn:Eb; [|discriminate].
  intros H. exists b. split; [exact Eb | apply alpha_ascii, H].
Qed.

Lemma get_identifier_spec p : bnd p ->
  spec (get_identifier bs) p (fun _ q => p < q /\ bnd q) (fun _ q => q = p /\ ident_start p = false).
Proof.
  intros Hp. unfold get_identifier. step. fold (ident_start p).
  destruct (ident_start p) eqn:Es; cbn [negb].
  - step. pose proof (ident_start_ascb p Es) as Ha.
    eapply spec_conseq.
    + apply get_identifier_unchecked_spec; [lia | replace (S p - 1) with p by lia; exact Ha].
    + fin.
    + intros ? ? HE; exact HE.
  - step. auto.
Qed.

Lemma get_attribute_accessor_spec p : bnd p ->
  spec (get_attribute_accessor bs) p (fun _ q => p <= q /\ bnd q) (fun _ q => p <= q /\ bnd q).
Proof.
  intros Hp. unfold get_attribute_accessor.
  apply spec_bind_take_byte_if; intros Hd.
  - pose proof (is_byte_at_ascb bs 46 p Hd ltac:(lia)) as Ha.
    eapply spec_bind_w; [apply get_identifier_spec; auto | | fin].
    intros id q [Hlt Hq]. step. fin.
  - step. fin.
Qed.

Lemma get_variant_key_spec p : bnd p ->
  spec (get_variant_key bs) p (fun _ q => p <= q /\ bnd q) (fun _ q => p <= q /\ bnd q).
Proof.
  intros Hp. unfold get_variant_key.
  apply spec_bind_skip_blank; [exact Hp|]. intros q1 Ha1 Hb1.
  step.
  assert (Hk : forall (key : variant_key) q2, q1 <= q2 -> bnd q2 ->
     spec (skip_blank bs;;; expect_byte bs 93;;; ret key) q2
          (fun _ q => p <= q /\ bnd q) (fun _ q => p <= q /\ bnd q)).
  { intros key q2 Hle2 Hb2. apply spec_bind_skip_blank; [exact Hb2|]. intros q3 Ha3 Hb3.
    apply spec_bind_expect_byte; intros Hc.
    - pose proof (is_byte_at_ascb bs 93 q3 Hc ltac:(lia)) as Ha. step. fin.
    - fin. }
  destruct (match byte_at bs q1 with Some b => is_ascii_digit b || N.eqb b 45 | None => false end).
  - step. eapply spec_bind_w; [apply get_number_literal_spec; exact Hb1 | | fin].
    intros v q2 [Hlt2 Hb2]. step. apply Hk; fin.
  - step. eapply spec_bind_w; [apply get_identifier_spec; exact Hb1 | | fin].
    intros v q2 [Hlt2 Hb2]. step. apply Hk; fin.
Qed.

(* ---------------------------------------------------------------------------------------- *)
(* comment.rs                                                                                 *)

Lemma get_comment_level_spec p E : bnd p ->
  spec (get_comment_level bs) p
       (fun lvl q => q = level_num lvl + p /\ asc p q /\ bnd q /\
                     (level_num lvl = 0 <-> is_byte_at bs 35 p = false)) E.
Proof.
  intros Hp. unfold get_comment_level.
  apply spec_bind_take_byte_if; intros H1.
  2:{ step. cbn [level_num Nat.add]. splits; auto. tauto. }
  pose proof (is_byte_at_ascb bs 35 p H1 ltac:(lia)) as Ha1.
  assert (Hn : forall k, S k = 0 <-> is_byte_at bs 35 p = false).
  { intros k. rewrite H1. split; [lia | discriminate]. }
  apply spec_bind_take_byte_if; intros H2.
  2:{ step. cbn [level_num Nat.add]. splits; auto. }
  pose proof (is_byte_at_ascb bs 35 (S p) H2 ltac:(lia)) as Ha2.
  assert (asc p (S (S p))) by eauto.
  apply spec_bind_take_byte_if; intros H3.
  2:{ step. cbn [level_num Nat.add]. splits; eauto. }
  pose proof (is_byte_at_ascb bs 35 (S (S p)) H3 ltac:(lia)) as Ha3.
  assert (asc p (S (S (S p)))) by eauto.
  step. cbn [level_num Nat.add]. splits; eauto.
Qed.

Lemma line_len_spec k p : p <= len -> len - p < k ->
  p <= line_len bs k p + p /\ line_len bs k p + p <= len /\
  (line_len bs k p + p = len \/ 0 < eol_len (rest bs (line_len bs k p + p))).
Proof.
  revert p; induction k as [|k IH]; intros p Hp Hk; [lia|].
  cbn [line_len]. unfold byte_at. destruct (nth_error bs p) as [b|] eqn:Eb.
  2:{ apply nth_error_None in Eb. cbn [Nat.add]. lia. }
  destruct (N.eqb b c_lf) eqn:E1.
  { cbn [Nat.add]. splits; try lia. right. rewrite (rest_cons p b Eb). cbn [eol_len]. rewrite E1. lia. }
  destruct (N.eqb b c_cr && is_byte_at bs c_lf (S p)) eqn:E2.
  { apply andb_prop in E2 as [E2 E3]. cbn [Nat.add]. splits; try lia. right.
    rewrite (rest_cons p b Eb). cbn [eol_len]. rewrite E1, E2.
    apply is_byte_at_nth in E3. rewrite (rest_cons (S p) _ E3). rewrite N.eqb_refl. lia. }
  assert (p < len) by (apply nth_error_Some; congruence).
  destruct (IH (S p) ltac:(lia) ltac:(lia)) as (A1 & A2 & A3).
  replace (S (line_len bs k (S p)) + p) with (line_len bs k (S p) + S p) by lia.
  splits; [lia | lia | exact A3].
Qed.

Lemma eol_pos_ascb q : 0 < eol_len (rest bs q) -> ascb q.
Proof.
  intros H. destruct (eol_len_pre (rest bs q) 0 H) as (x & Hx & Ha).
  unfold rest in Hx. rewrite nth_error_skipn_add, Nat.add_0_r in Hx. exists x. auto.
Qed.

Lemma line_end_stop q : q = len \/ 0 < eol_len (rest bs q) -> stop q.
Proof. intros [H | H]; [left; exact H | right; apply eol_pos_ascb, H]. Qed.

Lemma get_comment_line_spec p E : bnd p ->
  spec (get_comment_line bs) p
       (fun _ q => p <= q /\ bnd q /\ (q = len \/ 0 < eol_len (rest bs q))) E.
Proof.
  intros Hp. pose proof (bnd_le bs p Hp) as Hle.
  destruct (line_len_spec (S len - p) p Hle ltac:(lia)) as (A1 & A2 & A3).
  pose proof (stop_bnd bs _ (line_end_stop _ A3)) as Hq.
  unfold ParserSpec.spec, get_comment_line, length_. rewrite slice_ok by assumption.
  cbn. splits; assumption.
Qed.

Lemma skip_comment_spec n E : forall p, p <= len -> fuel_ok F (1 + 8 * (len - p)) n ->
  spec (skip_comment bs n) p (fun _ q => p < q /\ q <= S len /\ (q <= len -> bnd q)) E.
Proof.
  induction n as [|n IH]; intros p Hp Hn.
  { eapply spec_fuel0. exact Hn. }
  destruct (line_len_spec (S len - p) p Hp ltac:(lia)) as (A1 & A2 & A3).
  unfold ParserSpec.spec. cbn [skip_comment]. cbv zeta. unfold length_.
  set (p1 := line_len bs (S len - p) p + p) in *.
  destruct (is_byte_at bs 35 (S p1)) eqn:E35.
  - pose proof (is_byte_at_ascb bs 35 (S p1) E35 ltac:(lia)) as Ha. facts.
    eapply (spec_conseq F (skip_comment bs n) (S (S p1))).
    + apply IH; [lia|]. eapply fuel_ok_step; [exact Hn | lia].
    + cbv beta. intros _ q (B1 & B2 & B3). splits; [lia | lia | exact B3].
    + intros ? ? HE; exact HE.
  - unfold sres. splits; [lia | lia |]. intros Hle. destruct A3 as [A3 | A3]; [lia|].
    apply ascb_bnd_S'. apply eol_pos_ascb, A3.
Qed.

Lemma nth_is_byte_at i b : nth_error bs i = Some b -> is_byte_at bs b i = true.
Proof. intros H. unfold is_byte_at, byte_at. rewrite H. apply N.eqb_refl. Qed.

Lemma expect_byte_spec b p :
  spec (expect_byte bs b) p (fun _ q => q = S p /\ is_byte_at bs b p = true)
                            (fun _ q => q = p /\ is_byte_at bs b p = false).
Proof. unfold ParserSpec.spec, expect_byte. destruct (is_byte_at bs b p); cbn; auto. Qed.

(* where the comment loop may (re)start: end of input, a '#', or just after a line feed *)
Definition line_start (p : nat) : Prop :=
  len <= p \/ is_byte_at bs 35 p = true \/ (1 <= p /\ is_byte_at bs c_lf (p - 1) = true).

Lemma after_line q2 q3 : q2 <= len -> (q2 = len \/ 0 < eol_len (rest bs q2)) ->
  q3 = eol_len (rest bs q2) + q2 -> line_start q3.
Proof.
  intros Hle [H | H] ->; [left; lia|]. right. right. split; [lia|].
  apply nth_is_byte_at. apply eol_len_lf in H as H'. rename H' into H0. unfold rest in *. rewrite nth_error_skipn_add in H0.
  rewrite <- H0. f_equal. lia.
Qed.

Lemma get_comment_loop_spec n : forall lvl content p,
  bnd p -> line_start p -> fuel_ok F (1 + 8 * (len - p)) n ->
  spec (get_comment_loop bs n lvl content) p
    (fun r q => bnd q /\ p <= S q /\
                (level_num lvl <> 0 -> level_num (snd r) <> 0) /\
                (level_num lvl = 0 -> content = [] -> is_byte_at bs 35 p = true ->
                 p < q /\ level_num (snd r) <> 0))
    (fun _ q => content = [] /\ p < q /\ bnd q).
Proof.
  induction n as [|n IH]; intros lvl content p Hp Hls Hn.
  { eapply spec_fuel0. exact Hn. }
  cbn [get_comment_loop]. step. unfold length_.
  destruct (Nat.ltb p len) eqn:Elt; cbn [negb].
  { apply Nat.ltb_lt in Elt.
    eapply spec_bind; [apply get_comment_level_spec; exact Hp|].
    intros ll q1 (Hq1 & Ha1 & Hb1 & Hl0). cbv beta.
    unfold level_eqb at 1. cbn [level_num].
    destruct (Nat.eqb (level_num ll) 0) eqn:El0.
    { (* no '#': the comment ended on the previous line *)
      apply Nat.eqb_eq in El0. pose proof (proj1 Hl0 El0) as Hno.
      destruct Hls as [Hls | [Hls | [Hls1 Hls2]]]; [lia | congruence |].
      rewrite El0 in Hq1. cbn [Nat.add] in Hq1. subst q1.
      apply spec_bind_retreat; [lia|]. step.
      pose proof (is_byte_at_ascb bs c_lf (p - 1) Hls2 eq_refl) as Ha.
      splits; [auto | lia | auto |]. intros _ _ Hc. congruence. }
    apply Nat.eqb_neq in El0.
    assert (H35 : is_byte_at bs 35 p = true).
    { destruct (is_byte_at bs 35 p); [reflexivity|]. exfalso. apply El0, Hl0. reflexivity. }
    destruct (negb (level_eqb lvl LNone) && negb (level_eqb ll lvl)) eqn:Ediff.
    { apply andb_prop in Ediff as [Ed1 Ed2]. unfold level_eqb in Ed1. cbn [level_num] in Ed1.
      apply negb_true_iff, Nat.eqb_neq in Ed1.
      apply spec_bind_retreat; [lia|]. replace (q1 - level_num ll) with p by lia. step.
      splits; [auto | lia | auto |]. intros Hc. contradiction. }
    cbv zeta. step. destruct (Nat.eqb q1 len) eqn:Eend.
    { step. cbn [snd]. splits; [auto | lia | auto |]. intros _ _ _. split; [lia | auto]. }
    apply Nat.eqb_neq in Eend. facts.
    (* the rest of the line, its end, and the next iteration *)
    assert (Htail : forall s, q1 <= s -> bnd s -> (s = q1 -> 0 < eol_len (rest bs s)) ->
      spec (line <- get_comment_line bs;; skip_eol bs;;; get_comment_loop bs n ll (line :: content)) s
        (fun r q => bnd q /\ p <= S q /\
                (level_num lvl <> 0 -> level_num (snd r) <> 0) /\
                (level_num lvl = 0 -> content = [] -> is_byte_at bs 35 p = true ->
                 p < q /\ level_num (snd r) <> 0))
        (fun _ q => content = [] /\ p < q /\ bnd q)).
    { intros s Hs Hbs Heq.
      eapply spec_bind; [apply get_comment_line_spec; exact Hbs|].
      intros line q2 (Hle2 & Hb2 & Hs2). cbv beta.
      apply spec_bind_skip_eol; [exact Hb2|]. intros r3 q3 Hq3 Ha3 Hb3 Hr3.
      assert (Hgt : q1 < q3).
      { destruct (Nat.eq_dec q2 q1) as [E|E]; [|lia]. assert (s = q1) by lia.
        subst s. subst q2. specialize (Heq eq_refl). lia. }
      facts.
      eapply spec_conseq.
      - apply IH; [exact Hb3 | eapply after_line; [|exact Hs2|exact Hq3]; lia |].
        eapply fuel_ok_step; [exact Hn | lia].
      - cbv beta. intros r q (B1 & B2 & B3 & _). splits; [exact B1 | lia | auto |].
        intros _ _ _. split; [lia | auto].
      - cbv beta. intros e q (B1 & _). discriminate. }
    apply spec_bind_is_eol. intros r Hr. destruct r.
    { apply Htail; [lia | exact Hb1 |]. intros _. apply Hr; [reflexivity | lia]. }
    eapply spec_bind_try; [apply expect_byte_spec | |]; cbv beta.
    - intros _ q [-> Hsp]. pose proof (is_byte_at_ascb bs c_sp q1 Hsp eq_refl) as Ha.
      apply Htail; [lia | auto | lia].
    - intros e q [-> Hsp]. destruct content as [|c0 content'].
      + apply spec_err. splits; [reflexivity | lia | exact Hb1].
      + apply spec_bind_retreat; [lia|]. replace (q1 - level_num ll) with p by lia. step.
        cbn [snd]. splits; [auto | lia | auto |]. intros _ Hc. discriminate. }
  apply Nat.ltb_ge in Elt. step. cbn [snd]. splits; [auto | lia | auto |].
  intros _ _ Hc. apply is_byte_at_ascb in Hc; [|lia]. facts. lia.
Qed.

(* ---------------------------------------------------------------------------------------- *)
(* helper.rs skip_unicode_escape_sequence: the error slice runs to the next char boundary    *)

Lemma cont_scan_bnd e : e <= len -> bnd (e + scan_while is_cont (skipn e bs)).
Proof.
  intros He. destruct (scan_while_stop is_cont (skipn e bs)) as [H | (b & Hb & Hc)].
  - rewrite H, skipn_length. replace (e + (len - e)) with len by lia. apply bnd_len.
  - rewrite nth_error_skipn_add in Hb. eapply bnd_noncont; eassumption.
Qed.

Lemma skip_unicode_escape_sequence_spec k p : bnd p ->
  spec (skip_unicode_escape_sequence bs k) p (fun _ q => p <= q /\ bnd q) (fun _ q => p <= q /\ bnd q).
Proof.
  intros Hp.
  pose proof (scan_while_pre is_ascii_hexdigit (rest bs p) hex_ascii) as Hpre.
  apply (pre_ascii_le (Nat.min k (scan_while is_ascii_hexdigit (rest bs p)))) in Hpre; [|lia].
  apply (pre_ascii_asc bs) in Hpre.
  unfold ParserSpec.spec, skip_unicode_escape_sequence. cbv zeta. unfold length_.
  set (got := Nat.min k (scan_while is_ascii_hexdigit (rest bs p))) in *.
  assert (Hq : bnd (got + p)) by eauto. facts.
  destruct (Nat.eqb got k); [unfold sres; split; [lia | exact Hq]|].
  set (end0 := if Nat.leb len (got + p) then got + p else S (got + p)).
  assert (He0 : got + p <= end0 /\ end0 <= len).
  { unfold end0. destruct (Nat.leb len (got + p)) eqn:El;
      [apply Nat.leb_le in El | apply Nat.leb_gt in El]; lia. }
  pose proof (cont_scan_bnd end0 (proj2 He0)) as He.
  rewrite slice_ok; [|lia | exact Hp | exact He].
  unfold sres. split; [lia | exact Hq].
Qed.

(* ---------------------------------------------------------------------------------------- *)
(* pattern.rs get_text_slice and the final slicing of text elements                          *)

Lemma memchr3_ascii b : (N.eqb b c_lf || N.eqb b 123 || N.eqb b 125) = true -> is_ascii b = true.
Proof. cls. Qed.

Lemma get_text_slice_spec s : bnd s ->
  spec (get_text_slice bs) s
       (fun ts q => let '(start, end_, _, _) := ts in
                    start = s /\ s <= end_ /\ end_ <= q /\ bnd end_ /\ bnd q /\
                    (q = s -> len <= s \/ is_byte_at bs 123 s = true))
       (fun _ q => s <= q /\ bnd q).
Proof.
  intros Hs. pose proof (bnd_le bs s Hs) as Hle.
  unfold ParserSpec.spec, get_text_slice. unfold length_.
  apply Nat.ltb_ge in Hle as Hlt. rewrite Hlt.
  destruct (memchr3 (rest bs s)) as [i|] eqn:Em.
  2:{ unfold rest. rewrite skipn_length. replace (len - s + s) with len by lia.
      unfold sres. splits; auto; lia. }
  destruct (memchr3_some _ _ Em) as (b & Hb & Hc). rewrite Hb.
  pose proof Hb as Hb'. unfold rest in Hb'. rewrite nth_error_skipn_add in Hb'.
  pose proof (byte_ascb _ _ Hb' (memchr3_ascii b Hc)) as Ha.
  replace (i + s) with (s + i) by lia.
  destruct (N.eqb b 125) eqn:E125.
  { unfold sres. split; [lia | auto]. }
  destruct (N.eqb b c_lf) eqn:E10.
  { destruct i as [|i'].
    { rewrite Nat.add_0_r in Ha. unfold sres. cbn [Nat.add]. splits; auto; lia. }
    destruct (match nth_error (rest bs s) i' with Some c => N.eqb c c_cr | None => false end) eqn:Ecr.
    - destruct (nth_error (rest bs s) i') as [c|] eqn:Ec; [|discriminate].
      unfold rest in Ec. rewrite nth_error_skipn_add in Ec.
      assert (Hac : ascb (s + i')). { exists c. split; [exact Ec | cls]. }
      replace (S i' + s - 1) with (s + i') by lia. replace (S i' + s) with (s + S i') by lia.
      unfold sres. splits; auto; lia.
    - replace (S (S i') + s) with (S (s + S i')) by lia.
      unfold sres. splits; auto; lia. }
  unfold sres. splits; auto; try lia.
  intros Hi. right. assert (i = 0) by lia. subst i. rewrite Nat.add_0_r in Hb'.
  replace 123%N with b by cls. apply nth_is_byte_at, Hb'.
Qed.

(* what pattern_loop stores for a text element *)
Definition ph_ok (ph : placeholder) : Prop :=
  match ph with
  | PHPlaceable _ => True
  | PHText start end_ indent _ => bnd start /\ asc start (start + indent) /\ start + indent <= end_ /\ bnd end_
  end.

Lemma finish_element_spec lnb common i ph p E : ph_ok ph ->
  spec (finish_element bs lnb common i ph) p (fun _ q => q = p) E.
Proof.
  destruct ph as [e | start end_ indent role]; cbn [ph_ok finish_element]; intros H.
  { step. reflexivity. }
  destruct H as (H1 & H2 & H3 & H4).
  assert (Hk : forall k, k <= indent -> bnd (start + k)).
  { intros k Hk. eapply asc_bnd'; [exact H1|]. eapply asc_sub; [exact H2 | lia]. }
  cbv zeta.
  match goal with |- context [Nat.eqb ?a end_] => set (start' := a) end.
  assert (Hle : start' <= end_).
  { unfold start'. destruct (is_line_start role); [destruct common|]; lia. }
  assert (Hb : bnd start').
  { unfold start'. destruct (is_line_start role); [destruct common|];
      [apply Hk; lia | apply Hk; lia | exact H1]. }
  destruct (Nat.eqb start' end_); [step; reflexivity|].
  apply spec_bind_source_slice; [exact Hle | exact Hb | exact H4 | intros v; step; reflexivity].
Qed.

Lemma finish_elements_spec lnb common phs : forall i p E, Forall ph_ok phs ->
  spec (finish_elements bs lnb common i phs) p (fun _ q => q = p) E.
Proof.
  induction phs as [|ph r IH]; intros i p E H; cbn [finish_elements].
  { step. reflexivity. }
  inversion H as [|? ? H1 H2]; subst.
  eapply spec_bind; [apply finish_element_spec; exact H1|]. cbv beta. intros x q ->.
  eapply spec_bind; [apply IH; exact H2|]. cbv beta. intros xs q ->. step. reflexivity.
Qed.

Lemma Forall_firstn' {A} (P : A -> Prop) n l : Forall P l -> Forall P (firstn n l).
Proof.
  revert l; induction n as [|n IH]; intros l H; cbn; [constructor|].
  destruct H; constructor; auto.
Qed.

Lemma finish_pattern_spec st p E : Forall ph_ok (elements st) ->
  spec (finish_pattern bs st) p (fun _ q => q = p) E.
Proof.
  intros H. unfold finish_pattern. destruct (last_non_blank st) as [lnb|]; [|step; reflexivity].
  eapply spec_bind; [apply finish_elements_spec|].
  - apply Forall_firstn'. apply Forall_rev. exact H.
  - cbv beta. intros els q ->. step. reflexivity.
Qed.

(* ---------------------------------------------------------------------------------------- *)
(* junk recovery                                                                              *)

(* a byte that can start an entry *)
Definition starter (b : N) : bool := is_ascii_alphabetic b || N.eqb b 45 || N.eqb b 35.
Definition nonstarter_at (p : nat) : Prop := exists b, nth_error bs p = Some b /\ starter b = false.

Lemma scan_entry_start_spec k : forall p, p <= len -> len - p < k ->
  p <= scan_entry_start bs k p /\ stop (scan_entry_start bs k p) /\
  (nonstarter_at p -> p < scan_entry_start bs k p).
Proof.
  induction k as [|k IH]; intros p Hp Hk; [lia|].
  cbn [scan_entry_start]. unfold byte_at. destruct (nth_error bs p) as [b|] eqn:Eb.
  2:{ apply nth_error_None in Eb. splits; [lia | left; lia |]. intros (b & Hb & _).
      assert (p < len) by (apply nth_error_Some; congruence). lia. }
  assert (Hlt : p < len) by (apply nth_error_Some; congruence).
  cbv zeta. fold (starter b).
  destruct ((Nat.eqb p 0 || is_byte_at bs c_lf (p - 1)) && starter b) eqn:Ec.
  - apply andb_prop in Ec as [_ Ec]. splits; [lia | |].
    + right. exists b. split; [exact Eb | unfold starter in Ec; cls].
    + intros (b' & Hb' & Hn). congruence.
  - destruct (IH (S p) ltac:(lia) ltac:(lia)) as (A1 & A2 & _). splits; [lia | exact A2 | lia].
Qed.

Lemma skip_to_next_entry_start_spec es p E : es <= p -> bnd p ->
  spec (skip_to_next_entry_start bs es) p
       (fun _ q => es <= q /\ bnd q /\ (es < p \/ nonstarter_at es -> es < q)) E.
Proof.
  intros Hes Hp. pose proof (bnd_le bs p Hp) as Hle.
  unfold ParserSpec.spec, skip_to_next_entry_start. cbv zeta. unfold length_.
  replace (Nat.min p len) with p by lia.
  apply Nat.leb_le in Hes as Hes'. rewrite Hes'.
  destruct (rposition_lf (firstn (p - es) (skipn es bs)) 0 None) as [pos|] eqn:Er.
  - apply rposition_lf_some in Er. destruct Er as [Er | [Er _]]; [discriminate|].
    pose proof (firstn_le_length (p - es) (skipn es bs)).
    destruct (Nat.ltb 0 pos) eqn:Epos.
    + apply Nat.ltb_lt in Epos.
      destruct (scan_entry_start_spec (S len - (es + pos)) (es + pos) ltac:(lia) ltac:(lia)) as (A1 & A2 & _).
      unfold sres. splits; [lia | auto | lia].
    + destruct (scan_entry_start_spec (S len - p) p ltac:(lia) ltac:(lia)) as (A1 & A2 & A3).
      unfold sres. splits; [lia | auto |]. intros [Hc | Hc]; [lia|].
      destruct (Nat.eq_dec es p) as [<- | Hne]; [apply A3, Hc | lia].
  - destruct (scan_entry_start_spec (S len - p) p ltac:(lia) ltac:(lia)) as (A1 & A2 & A3).
    unfold sres. splits; [lia | auto |]. intros [Hc | Hc]; [lia|].
    destruct (Nat.eq_dec es p) as [<- | Hne]; [apply A3, Hc | lia].
Qed.

Lemma recover_spec es err p E : bnd es -> es <= p -> bnd p ->
  spec (recover bs es err) p (fun _ q => es <= q /\ bnd q /\ (es < p \/ nonstarter_at es -> es < q)) E.
Proof.
  intros Hes Hle Hp. unfold recover.
  eapply spec_bind; [apply skip_to_next_entry_start_spec; assumption|].
  cbv beta. intros rew q (A1 & A2 & A3). step.
  apply spec_bind_source_slice; [exact A1 | exact Hes | exact A2|]. intros content. step.
  splits; assumption.
Qed.

End Helpers.
